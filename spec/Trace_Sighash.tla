---------------------------- MODULE Trace_Sighash ----------------------------
(* Code -> spec binding for C04.  A trace is one transaction object of pycoin  *)
(* and a sequence of signature-hash requests made on it through one            *)
(* SolutionChecker, with edits of the object by its owner in between.  A        *)
(* request event (k = "ask") logs the request, what pycoin returned, the         *)
(* projection of the transaction object AFTER the call, and a table of hash     *)
(* values (the hash nodes of the spec's blob for that request, evaluated with   *)
(* hashlib by the harness - TLC cannot hash); an edit event (k = "edit") logs    *)
(* the projection of the object after the owner changed it.  TLC accepts a      *)
(* trace iff every request event is a Compute step of the rule book ON THE       *)
(* FIELDS THE OBJECT HAS AT THAT MOMENT: the returned digest is the spec's blob  *)
(* evaluated through the table (or the request was refused where the rule book  *)
(* refuses), and the transaction is unchanged by it.                            *)
EXTENDS SighashIO, TLC, TLCExt, Json, IOUtils

Traces == JsonDeserialize(IOEnv.TRACE_FILE)
VARIABLES tid, l, txj, result
tvars == <<tid, l, txj, result>>
Ev == Traces[tid].ev

TInit == /\ TLCSet(1, {})
         /\ tid \in 1..Len(Traces) /\ l = 1
         /\ txj = Traces[tid].tx
         /\ result = <<>>

\* the rule book's step: a digest is produced, the transaction (and the coins it spends) stay
Compute(r) == /\ result' = DigestOf(r, TxOfJson(txj), txj.amts)
              /\ UNCHANGED txj
Matches(d, e) == IF d = Refuse THEN e.raised = 1
                 ELSE IF d = Unconstrained THEN TRUE
                 ELSE e.raised = 0 /\ EvalBlob(d, e.tab) = e.res
\* the environment's step: the owner of the object changes its fields as it likes
TEdit == /\ l <= Len(Ev) /\ Ev[l].k = "edit"
         /\ txj' = Ev[l].after
         /\ l' = l + 1 /\ UNCHANGED <<tid, result>>
TCompute == /\ l <= Len(Ev) /\ Ev[l].k = "ask"
            /\ Compute(Ev[l].r)
            /\ txj' = Ev[l].after          \* what pycoin left behind
            /\ Matches(result', Ev[l])
            /\ l' = l + 1 /\ UNCHANGED tid
TNext == TCompute \/ TEdit
TSpec == TInit /\ [][TNext]_tvars

Reached == IF l = Len(Ev) + 1 THEN TLCSet(1, TLCGet(1) \cup {tid}) ELSE TRUE
\* (JSON, one line: a long set pretty-printed as a TLA+ value would span several lines)
Post == PrintT(ToJson([k |-> "rejected", n |-> Len(Traces), ids |-> (1..Len(Traces)) \ TLCGet(1)]))
=============================================================================
