----------------------------- MODULE MC_MsgSign -----------------------------
(* TLC proves, on the toy curve named by the constants, the lemmas of C17:    *)
(*   Mode = "sign"     for EVERY key d, digest e and nonce k: the compact     *)
(*        signature recovers exactly the signer, verifies for the signer's    *)
(*        key and address only, for that digest class only, under that        *)
(*        recovery id only, and agrees with classic ECDSA verification;       *)
(*   Mode = "recover"  for EVERY (e, r, s, recid), in and out of range:       *)
(*        recovery is sound and complete w.r.t. SEC 1 4.1.4, and every        *)
(*        malformed class yields "no key" (verification FALSE).               *)
(* One initial state per case; the lemma is evaluated with its single successor.*)
EXTENDS MsgSign

CONSTANTS Mode, ESet, DSet, RMax, SSet
VARIABLES a, b, c, ph, holds
vars == <<a, b, c, ph, holds>>

EAll == 1..(N + 2)
EFew == {1, 2, N - 1, N, N + 1}
DAll == Scalars
DThree == {1, (N - 1) \div 2, N - 1}
SAll == 0..(N + 1)
SFew == {0, 1, 2, (N - 1) \div 2, N - 2, N - 1, N, N + 1}
ETwo == {3, N + 1}
EOne == {N + 3}
DFew == {1, 2, 3, (N - 1) \div 2, (N + 1) \div 2, N - 2, N - 1}

ASSUME CurveOk == Cyclic /\ InvOk /\ P % 4 = 3 /\ PointsForXOk

Init == /\ ph = 0 /\ holds = TRUE
        /\ IF Mode = "sign" THEN a \in DSet /\ b \in ESet /\ c \in Scalars
           ELSE a \in ESet /\ b \in 0..RMax /\ c \in SSet

\* ------------------------------------------------------------ Mode = "sign": a = d, b = e, c = k
\* (values are bound through singleton sets: TLC evaluates a bound variable once, a LET definition at every use)
SignLemmas(d, e, k) ==
  \A sg \in {Sign(d, e, k)}, Q \in {PubKey(d)} :
  sg.ok =>
    /\ sg.r \in Scalars /\ sg.s \in Scalars /\ sg.recid \in 0..3
    /\ (N > P => sg.recid < 2)
    /\ Recover(e, sg.r, sg.s, sg.recid) = Q                                         \* recovers exactly the signer
    /\ \A j \in 0..3 : j # sg.recid => Recover(e, sg.r, sg.s, j) # Q                \* under no other recovery id
    /\ \A e2 \in ESet : (Recover(e2, sg.r, sg.s, sg.recid) = Q) <=> (e2 % N = e % N) \* for no other digest class
    /\ EcdsaVerify(Q, e, sg.r, sg.s)                                                \* agrees with SEC 1 4.1.4
    /\ \A comp \in BOOLEAN :
         \A bytes \in {Compact(HeaderByte(sg.recid, comp), BE32(sg.r), BE32(sg.s))} :
         \A text \in {B64Encode(bytes)} :
         /\ Len(bytes) = 65 /\ Len(text) = 88 /\ text[88] = "=" /\ text[87] # "="
         /\ B64Decode(text) = [ok |-> TRUE, v |-> bytes]
         /\ bytes[1] = 27 + sg.recid + (IF comp THEN 4 ELSE 0)
         /\ VerifyText(KeyOf(Q), text, e) /\ VerifyCompact(AddrOf(Q, comp), bytes, e) /\ ~VerifyCompact(AddrOf(Q, ~comp), bytes, e)
         /\ \A rc \in {RecoverCompact(bytes, e)} :
              /\ rc = [ok |-> TRUE, Q |-> Q, comp |-> comp, cls |-> "ok"]
              /\ \A d2 \in Scalars : VerifyRc(KeyOf(PubKey(d2)), rc) <=> (d2 = d)              \* for no other key
              /\ \A d2 \in Scalars, c2 \in BOOLEAN :
                    VerifyRc(AddrOf(PubKey(d2), c2), rc) <=> (d2 = d /\ c2 = comp)               \* for no other address

\* ------------------------------------------------------------ Mode = "recover": a = e, b = r, c = s
RecoverLemmas(e, r, s) ==
  /\ \A j \in 0..3 :
       \A Q \in {Recover(e, r, s, j)}, cls \in {RecoverClass(e, r, s, j)} :
       /\ (cls = "ok") <=> (Q # NoKey)
       /\ Q # NoKey => Q \in Affine /\ EcdsaVerify(Q, e, r, s)                       \* sound
       /\ (r \notin Scalars \/ s \notin Scalars) => Q = NoKey                        \* out of range: no key
       /\ (j >= 2 /\ r + N >= P) => Q = NoKey                                        \* x = r + N is no field element
       /\ \A h \in {26, 27 + j, 31 + j, 35} :
            \A rc \in {RecoverCompact(Compact(h, BE32(r), BE32(s)), e)} :
            /\ rc.ok <=> (h \in 27..34 /\ Q # NoKey)
            /\ rc.ok => rc.Q = Q /\ rc.comp = (h >= 31)
  /\ \A Q \in Affine :                                                                \* complete
       EcdsaVerify(Q, e, r, s) => \E j \in 0..3 : Recover(e, r, s, j) = Q
  /\ \A j1 \in 0..3, j2 \in 0..3 :                                                    \* ids select different keys
       (j1 # j2 /\ Recover(e, r, s, j1) # NoKey) => Recover(e, r, s, j1) # Recover(e, r, s, j2)

\* The lemma of a case is evaluated while TLC generates the case's successor (in an action TLC
\* evaluates every LET definition and operator argument once; in an invariant at every use).
Next == /\ ph = 0 /\ ph' = 1 /\ UNCHANGED <<a, b, c>>
        /\ holds' = IF Mode = "sign" THEN SignLemmas(a, b, c) ELSE RecoverLemmas(a, b, c)
Spec == Init /\ [][Next]_vars
Holds == holds
=============================================================================
