CONSTANTS MaxN = 120000  Ds = {0, 1, 2, 3, 4, 5, 8}
SPECIFICATION Spec
INVARIANTS ToCoinExact RoundTrip DigitsOK
CHECK_DEADLOCK FALSE
