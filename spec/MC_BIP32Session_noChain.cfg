CONSTANTS Values = {0}  Wants = {"pub", "dflt"}  PathSet = "none"  MaxOps = 3  SeedLen = 16  KeyMode = "noChain"  TwoRoots = TRUE
SPECIFICATION Spec
VIEW View
INVARIANTS ResultIsPure
CHECK_DEADLOCK FALSE
