CONSTANTS CacheMode = "none"  MaxOuts = 4  StartLists = {1}  ListIds = {1, 2, 3, 4, 5, 6}
SPECIFICATION SSpec
INVARIANTS HistoryIndependent Shape SurplusNeverCounted MemoRight
CHECK_DEADLOCK FALSE
