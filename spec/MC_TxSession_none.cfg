CONSTANTS CacheMode = "none"  MaxOuts = 4
SPECIFICATION SSpec
INVARIANTS HistoryIndependent Shape MemoRight
CHECK_DEADLOCK FALSE
