------------------------------ MODULE X04_TxTool ------------------------------
(* X04 - the `tx` command assembles exactly the transaction its arguments     *)
(* describe, and says the truth about it.                                     *)
(*                                                                            *)
(* The command as a pipeline over an abstract WORK ITEM (a list of argument   *)
(* tokens and the options), stage by stage:                                   *)
(*                                                                            *)
(*   collect   each token denotes a transaction, a spendable, a payable       *)
(*             (destination with or without an amount), a key - or nothing    *)
(*   merge     inputs / believed spent outputs / outputs in argument order    *)
(*   edit      version, lock time, sequence, replaced unlocking scripts,       *)
(*             removed inputs and outputs                                     *)
(*   fee       outputs named without an amount share what is left after the   *)
(*             fee (TxRules: C13's relation) - or a warning                   *)
(*   sign      unlocking data of exactly the inputs whose key was given       *)
(*   report    which output mode, which bytes, which dump, which warnings,    *)
(*             which verdict about the source transactions                    *)
(*                                                                            *)
(* Rule books composed (read-only):                                           *)
(*   Bytes / TxWire   wire format, unspents extension, numbers as 16-bit limbs*)
(*   Spendable        the text form tx_id/index/script_hex/amount[/..]        *)
(*   TxRules          split pool: conservation, positivity, at most one apart *)
(*   UnspentRules     "all incoming transaction values validated" = AllBacked *)
(*   ParseDispatch    which text denotes a key / an address on a network      *)
(*   (Address, NetTable, Classify through ParseDispatch)                      *)
(*   CoinDecimal      satoshi -> mBTC text                                    *)
(* Two facts TLC cannot compute are supplied with the item and checked by the *)
(* harness with hashlib / reference EC arithmetic: the id of every            *)
(* transaction of the database (`--db`) and the public encodings of the keys. *)
(*                                                                            *)
(* AMOUNTS are naturals as trimmed sequences of 16-bit limbs (Bytes.tla), so  *)
(* 21e14 satoshi are ordinary values; TxRules is instantiated with limb       *)
(* addition / order.  Where the relation leaves no freedom (C13: Unique) the  *)
(* closed form Share gives the solution; TLC checks it against the relation   *)
(* on every enumerated item (lemma Conservation).                             *)
EXTENDS TxWire

PD == INSTANCE ParseDispatch
CD == INSTANCE CoinDecimal
UR == INSTANCE UnspentRules
SP == INSTANCE Spendable

\* ---------------------------------------------------------------- amounts
NZero == <<>>
NOne  == <<1>>
NAdd(aQ, bQ) == Trim(AddN(aQ, bQ))
NLeq(aQ, bQ) == Leq(aQ, bQ)
NLt(aQ, bQ)  == Less(aQ, bQ)
R == INSTANCE TxRules WITH Add <- NAdd, Leq <- NLeq, Zero <- NZero, One <- NOne

OfNat(nQ) == Trim(Limbs(nQ, 2))                         \* nQ < 2^31
Pad(xQ, kQ) == [iQ \in 1..kQ |-> IF iQ <= Len(xQ) THEN xQ[iQ] ELSE 0]
Fits(xQ, kQ) == Len(Trim(xQ)) <= kQ

\* xQ - yQ for yQ <= xQ (borrow chain), trimmed
NSub(xQ, yQ) ==
  LET g(vQ, iQ) == IF iQ <= Len(vQ) THEN vQ[iQ] ELSE 0
      step(acc, iQ) == LET tQ == g(xQ, iQ) - g(yQ, iQ) - acc[2]
                       IN IF tQ < 0 THEN <<Append(acc[1], tQ + 65536), 1>> ELSE <<Append(acc[1], tQ), 0>>
  IN Trim(FoldLeft(step, <<<<>>, 0>>, [iQ \in 1..Len(xQ) |-> iQ])[1])
\* quotient and remainder by a small divisor dQ (dQ <= 2^14), most significant limb first
NDivSmall(xQ, dQ) ==
  LET step(acc, iQ) == LET jQ == Len(xQ) + 1 - iQ
                           tQ == acc[2] * 65536 + xQ[jQ]
                       IN <<[acc[1] EXCEPT ![jQ] = tQ \div dQ], tQ % dQ>>
      qr == FoldLeft(step, <<xQ, 0>>, [iQ \in 1..Len(xQ) |-> iQ])
  IN [q |-> Trim(qr[1]), r |-> qr[2]]

RECURSIVE NSum(_)
NSum(sQ) == IF sQ = <<>> THEN NZero ELSE NAdd(Head(sQ), NSum(Tail(sQ)))

\* ---------------------------------------------------------------- numerals given as text
\* [set, neg, ds, junk]: an option / amount text.  junk # "": the characters are not a decimal numeral at
\* all (the harness writes them literally); otherwise an optional minus sign and the decimal digits ds.
NoNum == [set |-> FALSE, neg |-> FALSE, ds |-> <<>>, junk |-> ""]
NumTxt(dsQ) == [set |-> TRUE, neg |-> FALSE, ds |-> dsQ, junk |-> ""]
NegTxt(dsQ) == [set |-> TRUE, neg |-> TRUE, ds |-> dsQ, junk |-> ""]
JunkTxt(sQ) == [set |-> TRUE, neg |-> FALSE, ds |-> <<>>, junk |-> sQ]
OfInt(nQ) == NumTxt(Dec(Limbs(nQ, 2)))
IsNumeral(tQ) == tQ.junk = "" /\ tQ.ds # <<>>
IsNatTxt(tQ) == IsNumeral(tQ) /\ ~tQ.neg
\* value of a natural numeral as trimmed limbs (texts of up to 24 digits: 6 limbs are plenty)
ValOf(tQ) == Trim(FromDec(tQ.ds, 6))
IsU32(tQ) == IsNatTxt(tQ) /\ Len(tQ.ds) <= 24 /\ Fits(ValOf(tQ), 2)
IsU64(tQ) == IsNatTxt(tQ) /\ Len(tQ.ds) <= 24 /\ Fits(ValOf(tQ), 4)
IsU8(tQ)  == IsU32(tQ) /\ NLeq(ValOf(tQ), <<255>>)
SmallVal(tQ) == NatOf(ValOf(tQ))                        \* when the value is < 2^31

\* ---------------------------------------------------------------- scripts of the address kinds (bytes)
\* the five templates of Classify!Build with shortest pushes, as bytes (flat 20/32-byte hash hQ)
ScriptFor(KQ, hQ) ==
  CASE KQ = "p2pkh"  -> Lit(<<118, 169, 20>> \o hQ \o <<136, 172>>)
    [] KQ = "p2sh"   -> Lit(<<169, 20>> \o hQ \o <<135>>)
    [] KQ = "p2wpkh" -> Lit(<<0, 20>> \o hQ)
    [] KQ = "p2wsh"  -> Lit(<<0, 32>> \o hQ)
    [] KQ = "p2tr"   -> Lit(<<81, 32>> \o hQ)
    [] KQ = "p2pk"   -> Lit(<<Len(hQ)>> \o hQ \o <<172>>)
\* which address kind a script is, with the hash it commits to (flat); p2pk: the key bytes
NoKind == [K |-> "none", h |-> <<>>]
KindOfScript(sQ) ==
  LET nQ == Size(sQ) IN
  IF nQ \notin {22, 23, 25, 34, 35, 67} THEN NoKind
  ELSE LET fQ == Expand(sQ) IN
       IF nQ = 25 /\ SubSeq(fQ, 1, 3) = <<118, 169, 20>> /\ SubSeq(fQ, 24, 25) = <<136, 172>> THEN [K |-> "p2pkh", h |-> SubSeq(fQ, 4, 23)]
       ELSE IF nQ = 23 /\ SubSeq(fQ, 1, 2) = <<169, 20>> /\ fQ[23] = 135 THEN [K |-> "p2sh", h |-> SubSeq(fQ, 3, 22)]
       ELSE IF nQ = 22 /\ SubSeq(fQ, 1, 2) = <<0, 20>> THEN [K |-> "p2wpkh", h |-> SubSeq(fQ, 3, 22)]
       ELSE IF nQ = 34 /\ SubSeq(fQ, 1, 2) = <<0, 32>> THEN [K |-> "p2wsh", h |-> SubSeq(fQ, 3, 34)]
       ELSE IF nQ = 34 /\ SubSeq(fQ, 1, 2) = <<81, 32>> THEN [K |-> "p2tr", h |-> SubSeq(fQ, 3, 34)]
       ELSE IF nQ \in {35, 67} /\ fQ[1] = nQ - 2 /\ fQ[nQ] = 172 THEN [K |-> "p2pk", h |-> SubSeq(fQ, 2, nQ - 1)]
       ELSE NoKind
IsAddrKind(KQ) == KQ \in {"p2pkh", "p2sh", "p2wpkh", "p2wsh", "p2tr"}
\* the address text (as a structure of Address.tla) the dump shows for a script on network NQ; none: not an address kind
NoAddr == [e |-> "none", d |-> <<>>, hrp |-> <<>>, ver |-> 0, var |-> ""]
AddrOfScript(NQ, sQ) ==
  LET kQ == KindOfScript(sQ) IN
  IF IsAddrKind(kQ.K) /\ PD!Defined(NQ, kQ.K) THEN PD!AddrOf(NQ, kQ.K, kQ.h) ELSE NoAddr

\* ---------------------------------------------------------------- transactions with what they believe to spend
\* U: what an input is believed to spend.  known = FALSE: nothing is known about that output.
NoU == [known |-> FALSE, amount |-> NZero, script |-> <<>>]
MkU(aQ, sQ) == [known |-> TRUE, amount |-> aQ, script |-> sQ]
\* amounts inside TxWire records are Num(4); elsewhere trimmed
WOut(aQ, sQ) == [amount |-> Pad(aQ, 4), script |-> sQ]
AmtOf(oQ) == Trim(oQ.amount)

Null32 == Run(0, 32)
Max32 == <<65535, 65535>>
IsCoinbaseIn(xQ) == xQ.hash = Null32 /\ xQ.index = Max32
IsCoinbase(tQ) == Len(tQ.ins) = 1 /\ IsCoinbaseIn(tQ.ins[1])

AllKnown(usQ) == \A iQ \in 1..Len(usQ) : usQ[iQ].known
\* the unspents extension can be written iff every believed output is known; an output believed to be worth
\* nothing is not representable (it reads back as "unknown")
ExtUnspents(usQ) == [iQ \in 1..Len(usQ) |-> WOut(usQ[iQ].amount, usQ[iQ].script)]

\* ---------------------------------------------------------------- the database (--db): transactions with their ids
\* an entry: [tx |-> TxRec, id |-> Bytes(32)]  (id = H256d(Stripped(tx)) byte order as in an outpoint: a FACT)
DbFind(dbQ, hQ) == {kQ \in 1..Len(dbQ) : dbQ[kQ].id = hQ}
DbHas(dbQ, hQ) == DbFind(dbQ, hQ) # {}
DbGet(dbQ, hQ) == dbQ[CHOOSE kQ \in DbFind(dbQ, hQ) : TRUE].tx
\* what the database says input xQ spends
DbUnspent(dbQ, xQ) ==
  IF IsCoinbaseIn(xQ) \/ ~DbHas(dbQ, xQ.hash) THEN NoU
  ELSE LET tQ == DbGet(dbQ, xQ.hash) IN
       IF ~Small(xQ.index) \/ NatOf(xQ.index) >= Len(tQ.outs) THEN NoU
       ELSE LET oQ == tQ.outs[NatOf(xQ.index) + 1] IN
            IF IsZero(oQ.amount) THEN NoU ELSE MkU(AmtOf(oQ), oQ.script)
\* UnspentRules' view of a transaction and of the database (sources named by their ids)
URTx(tQ, usQ) == [ins |-> [iQ \in 1..Len(tQ.ins) |-> [src |-> tQ.ins[iQ].hash, idx |-> IF Small(tQ.ins[iQ].index) THEN NatOf(tQ.ins[iQ].index) ELSE 2147483647]],
                  unspents |-> [iQ \in 1..Len(usQ) |-> [amt |-> usQ[iQ].amount, scr |-> usQ[iQ].script]]]
URDb(dbQ, tQ) == [hQ \in {tQ.ins[iQ].hash : iQ \in 1..Len(tQ.ins)} |->
                   IF DbHas(dbQ, hQ) THEN UR!Stored(hQ, [jQ \in 1..Len(DbGet(dbQ, hQ).outs) |->
                                                           [amt |-> AmtOf(DbGet(dbQ, hQ).outs[jQ]), scr |-> DbGet(dbQ, hQ).outs[jQ].script]])
                   ELSE UR!Missing]
Backed(dbQ, tQ, usQ) == AllKnown(usQ) /\ Len(usQ) = Len(tQ.ins) /\ UR!AllBacked(URTx(tQ, usQ), URDb(dbQ, tQ))

\* ---------------------------------------------------------------- tokens
\* [k |-> "tx",   tx, uns, via]     a transaction as hex text / a file (via: "hex" | "bin" | "hexfile");
\*                                   uns: the unspents extension it carries (<<>>: none)
\* [k |-> "txid", h]                 64 hex characters: a transaction of the database
\* [k |-> "sp",   sp, nf]            a spendable in text form with nf (4 or 7) fields
\* [k |-> "parts", t, amt]           text "/" amount
\* [k |-> "text", t]                 a single text (key, address, ...): t is ParseDispatch's structure
Tok(kQ) == [k |-> kQ, tx |-> [version |-> <<0, 0>>, ins |-> <<>>, outs |-> <<>>, lock |-> <<0, 0>>], uns |-> <<>>, via |-> "",
            h |-> <<>>, sp |-> <<>>, nf |-> 0, t |-> PD!TX("junk"), amt |-> NoNum]
TokTx(tQ, usQ, viaQ) == [Tok("tx") EXCEPT !.tx = tQ, !.uns = usQ, !.via = viaQ]
TokTxid(hQ) == [Tok("txid") EXCEPT !.h = hQ]
TokSp(sQ, nfQ) == [Tok("sp") EXCEPT !.sp = sQ, !.nf = nfQ]
TokParts(tQ, aQ) == [Tok("parts") EXCEPT !.t = tQ, !.amt = aQ]
TokText(tQ) == [Tok("text") EXCEPT !.t = tQ]

\* what a single text denotes on network NQ (ParseDispatch): a secret is tried first, then a destination
Secrets(NQ, tQ) == {oQ \in PD!Out(NQ, "secret", tQ) : oQ.r = "obj"}
Dests(NQ, tQ)   == {oQ \in PD!Out(NQ, "address", tQ) : oQ.r = "obj"}
OpenText(NQ, tQ) == PD!OAny \in PD!Out(NQ, "secret", tQ) \/ PD!OAny \in PD!Out(NQ, "address", tQ) \/ tQ.f \in {"script", "num", "junk"}
\* (scripts in the assembler notation, bare numerals - which are secret exponents AND pushes - and junk are left open)
IsKeyText(NQ, tQ) == ~OpenText(NQ, tQ) /\ \E oQ \in Secrets(NQ, tQ) : oQ.k = "key" /\ oQ.p
KeyOfText(NQ, tQ) == (CHOOSE oQ \in Secrets(NQ, tQ) : oQ.k = "key" /\ oQ.p).d          \* the 32-byte secret
IsDestText(NQ, tQ) == ~OpenText(NQ, tQ) /\ Secrets(NQ, tQ) = {} /\ \E oQ \in Dests(NQ, tQ) : oQ.k = "contract"
DestOfText(NQ, tQ) == LET oQ == CHOOSE oQ \in Dests(NQ, tQ) : oQ.k = "contract" IN ScriptFor(oQ.s, oQ.d)
DenotesNothing(NQ, tQ) == ~OpenText(NQ, tQ) /\ Secrets(NQ, tQ) = {} /\ Dests(NQ, tQ) = {}

\* ---------------------------------------------------------------- the work item
\* net    network symbol                 args   the tokens, in order
\* ver lock seqn fee                     -t -l -q -F as numerals (fee.set = FALSE: "standard")
\* rmin rmout                            --remove-tx-in / --remove-tx-out (sequences of numerals)
\* repl                                  --replace-input-script: <<[idx, script]>>
\* db                                    --db transactions, with their ids
\* aug showu ofile                       -a, -u, -o ("" | "bin" | "hex")
\* keyfile                               the texts written in a -f file, one per line (those that are keys count)
\* lockdate                              -l given as a date: <<year, month, day, hour, minute, second>> (<<>>: not)
Net(item) == CHOOSE NQ \in {PD!RealNets[iQ] : iQ \in DOMAIN PD!RealNets} : NQ.sym = item.net

\* ---------------------------------------------------------------- stage: collect
Collected(kQ) == [r |-> kQ, txs |-> <<>>, sps |-> <<>>, pays |-> <<>>, keys |-> {}, npay |-> 0]
\* r: "ok" | "refused" (the token denotes nothing: usage error) | "malformed" (an amount that is no amount:
\*    refusal or a clear message) | "open" (the rule books leave the token's meaning open)
PayOf(sQ, aQ) == [script |-> sQ, amt |-> aQ]
AddToken(NQ, dbQ, accQ, tkQ) ==
  IF accQ.r # "ok" THEN accQ
  ELSE CASE tkQ.k = "tx" -> [accQ EXCEPT !.txs = Append(@, [tx |-> tkQ.tx, uns |-> tkQ.uns])]
         [] tkQ.k = "txid" -> IF DbHas(dbQ, tkQ.h) THEN [accQ EXCEPT !.txs = Append(@, [tx |-> DbGet(dbQ, tkQ.h), uns |-> <<>>])]
                              ELSE [accQ EXCEPT !.r = "refused"]
         [] tkQ.k = "sp" -> [accQ EXCEPT !.sps = Append(@, tkQ.sp)]
         [] tkQ.k = "text" ->
              IF OpenText(NQ, tkQ.t) THEN [accQ EXCEPT !.r = "open"]
              ELSE IF IsKeyText(NQ, tkQ.t) THEN [accQ EXCEPT !.keys = @ \cup {KeyOfText(NQ, tkQ.t)}]
              ELSE IF Secrets(NQ, tkQ.t) # {} THEN [accQ EXCEPT !.r = "open"]          \* hierarchical keys: not modelled
              ELSE IF IsDestText(NQ, tkQ.t) THEN [accQ EXCEPT !.pays = Append(@, PayOf(DestOfText(NQ, tkQ.t), NZero)), !.npay = @ + 1]
              ELSE [accQ EXCEPT !.r = "refused"]
         [] tkQ.k = "parts" ->
              IF OpenText(NQ, tkQ.t) THEN [accQ EXCEPT !.r = "open"]
              ELSE IF ~IsDestText(NQ, tkQ.t) THEN [accQ EXCEPT !.r = "refused"]       \* nothing is payable there
              ELSE IF ~IsU64(tkQ.amt) THEN [accQ EXCEPT !.r = "malformed"]             \* not an amount of the wire format
              ELSE [accQ EXCEPT !.pays = Append(@, PayOf(DestOfText(NQ, tkQ.t), ValOf(tkQ.amt))), !.npay = @ + 1]
Collect(item) ==
  LET NQ == Net(item)
      cQ == FoldLeft(LAMBDA accQ, tkQ : AddToken(NQ, item.db, accQ, tkQ), Collected("ok"), item.args)
  IN IF cQ.r = "ok" THEN [cQ EXCEPT !.keys = @ \cup {KeyOfText(NQ, item.keyfile[iQ]) : iQ \in {jQ \in 1..Len(item.keyfile) : IsKeyText(NQ, item.keyfile[jQ])}}]
     ELSE cQ

\* ---------------------------------------------------------------- calendar (lock times given / shown as dates)
\* seconds since 1970-01-01T00:00:00Z (two 16-bit limbs, low first) -> <<year, month, day, hour, minute, second>>
CivilOf(lkQ) ==
  LET q128 == lkQ[2] * 512 + (lkQ[1] \div 128)
      dayQ == q128 \div 675
      sodQ == (q128 % 675) * 128 + (lkQ[1] % 128)
      zQ == dayQ + 719468
      eraQ == zQ \div 146097
      doeQ == zQ - eraQ * 146097
      yoeQ == (doeQ - (doeQ \div 1460) + (doeQ \div 36524) - (doeQ \div 146096)) \div 365
      doyQ == doeQ - (365 * yoeQ + (yoeQ \div 4) - (yoeQ \div 100))
      mpQ == (5 * doyQ + 2) \div 153
      dQ == doyQ - ((153 * mpQ + 2) \div 5) + 1
      mQ == IF mpQ < 10 THEN mpQ + 3 ELSE mpQ - 9
      yQ == yoeQ + eraQ * 400 + (IF mQ <= 2 THEN 1 ELSE 0)
  IN <<yQ, mQ, dQ, sodQ \div 3600, (sodQ % 3600) \div 60, sodQ % 60>>
\* and back: a calendar date (proleptic Gregorian, UTC) -> seconds as two limbs; ok = FALSE beyond 32 bits / before 1970
DaysFromCivil(yQ, mQ, dQ) ==
  LET yy == IF mQ <= 2 THEN yQ - 1 ELSE yQ
      eraQ == yy \div 400
      yoeQ == yy - eraQ * 400
      doyQ == ((153 * (IF mQ > 2 THEN mQ - 3 ELSE mQ + 9) + 2) \div 5) + dQ - 1
      doeQ == yoeQ * 365 + (yoeQ \div 4) - (yoeQ \div 100) + doyQ
  IN eraQ * 146097 + doeQ - 719468
SecondsOf(cvQ) ==       \* cvQ = <<y, m, d, H, M, S>>, 1970 <= y <= 2105
  LET dayQ == DaysFromCivil(cvQ[1], cvQ[2], cvQ[3])
      sodQ == cvQ[4] * 3600 + cvQ[5] * 60 + cvQ[6]
      \* day * 86400 + sod on limbs: 86400 = 675 * 128
      aQ == MulSmall(MulSmall(OfNat(dayQ), 675), 128)
  IN Trim(AddN(aQ, OfNat(sodQ)))

\* ---------------------------------------------------------------- stage: merge
\* A transaction given without the outputs it spends brings "unknown" for each of its inputs; the database
\* (whenever one is given, or with -a) fills in what it knows.
UnsOfTx(dbQ, useDb, eQ) ==
  LET nQ == Len(eQ.tx.ins)
      ownQ == [iQ \in 1..nQ |-> IF iQ <= Len(eQ.uns) THEN eQ.uns[iQ] ELSE NoU] IN
  IF AllKnown(ownQ) \/ ~useDb THEN ownQ
  ELSE [iQ \in 1..nQ |-> DbUnspent(dbQ, eQ.tx.ins[iQ])]
\* The order.  With one transaction: its own order.  With several, the tool promises (in its source) to keep
\* input k and output k of each transaction at one common position: first the paired prefixes of the
\* transactions in argument order, then what is left of each.  Then the spendables, then the payables.
MinOf(aQ, bQ) == IF aQ < bQ THEN aQ ELSE bQ
Paired(eQ) == MinOf(Len(eQ.tx.ins), Len(eQ.tx.outs))
FlatMap(sQ, F(_)) == FoldLeft(LAMBDA accQ, xQ : accQ \o F(xQ), <<>>, sQ)
MergeIns(txsQ) == FlatMap(txsQ, LAMBDA eQ : SubSeq(eQ.tx.ins, 1, Paired(eQ))) \o FlatMap(txsQ, LAMBDA eQ : SubSeq(eQ.tx.ins, Paired(eQ) + 1, Len(eQ.tx.ins)))
MergeOuts(txsQ) == FlatMap(txsQ, LAMBDA eQ : SubSeq(eQ.tx.outs, 1, Paired(eQ))) \o FlatMap(txsQ, LAMBDA eQ : SubSeq(eQ.tx.outs, Paired(eQ) + 1, Len(eQ.tx.outs)))
MergeUns(txsQ, U(_)) == FlatMap(txsQ, LAMBDA eQ : SubSeq(U(eQ), 1, Paired(eQ))) \o FlatMap(txsQ, LAMBDA eQ : SubSeq(U(eQ), Paired(eQ) + 1, Len(eQ.tx.ins)))

SpIn(sQ, seqQ) == [hash |-> sQ.hash, index |-> sQ.index, script |-> <<>>, seq |-> seqQ, wit |-> <<>>]
SpU(sQ) == MkU(Trim(sQ.amount), sQ.script)

DefaultVersion == <<1, 0>>
DefaultLock == <<0, 0>>
\* m: [tx, uns]
Merge(item, cQ) ==
  LET useDb == item.aug \/ item.db # <<>>
      seqQ == IF item.seqn.set THEN Pad(ValOf(item.seqn), 2) ELSE Max32
      insQ == MergeIns(cQ.txs) \o [iQ \in 1..Len(cQ.sps) |-> SpIn(cQ.sps[iQ], seqQ)]
      unsQ == MergeUns(cQ.txs, LAMBDA eQ : UnsOfTx(item.db, useDb, eQ)) \o [iQ \in 1..Len(cQ.sps) |-> SpU(cQ.sps[iQ])]
      outsQ == MergeOuts(cQ.txs) \o [iQ \in 1..Len(cQ.pays) |-> WOut(cQ.pays[iQ].amt, cQ.pays[iQ].script)]
      verQ == IF item.ver.set THEN Pad(ValOf(item.ver), 2) ELSE IF cQ.txs # <<>> THEN cQ.txs[1].tx.version ELSE DefaultVersion
      lockQ == IF item.lock.set THEN Pad(ValOf(item.lock), 2)
               ELSE IF item.lockdate # <<>> THEN Pad(SecondsOf(item.lockdate), 2)       \* -l <date>: seconds since the epoch, UTC
               ELSE IF cQ.txs # <<>> THEN cQ.txs[1].tx.lock ELSE DefaultLock
  IN [tx |-> [version |-> verQ, ins |-> insQ, outs |-> outsQ, lock |-> lockQ], uns |-> unsQ]

\* ---------------------------------------------------------------- stage: edit
IdxSet(sQ) == {SmallVal(sQ[iQ]) + 1 : iQ \in {jQ \in 1..Len(sQ) : IsU32(sQ[jQ]) /\ Small(ValOf(sQ[jQ]))}}
IdxOk(sQ, nQ) == \A iQ \in 1..Len(sQ) : IsU32(sQ[iQ]) /\ Small(ValOf(sQ[iQ])) /\ SmallVal(sQ[iQ]) < nQ
Keep(sQ, rmQ) == LET kQ == {iQ \in 1..Len(sQ) : iQ \notin rmQ} IN
  FoldLeft(LAMBDA accQ, iQ : IF iQ \in kQ THEN Append(accQ, sQ[iQ]) ELSE accQ, <<>>, [iQ \in 1..Len(sQ) |-> iQ])
\* every index names an existing position of the merged lists
EditsWellFormed(item, mQ) ==
  /\ IdxOk(item.rmin, Len(mQ.tx.ins)) /\ IdxOk(item.rmout, Len(mQ.tx.outs))
  /\ IdxOk([iQ \in 1..Len(item.repl) |-> item.repl[iQ].idx], Len(mQ.tx.ins))
WhichEdit(item, mQ) == IF ~IdxOk([iQ \in 1..Len(item.repl) |-> item.repl[iQ].idx], Len(mQ.tx.ins)) THEN "replace-script-index"
                       ELSE IF ~IdxOk(item.rmin, Len(mQ.tx.ins)) THEN "remove-in-index" ELSE "remove-out-index"
ReplOf(item, iQ, sQ) ==
  LET hitQ == {jQ \in 1..Len(item.repl) : SmallVal(item.repl[jQ].idx) + 1 = iQ} IN
  IF hitQ = {} THEN sQ ELSE item.repl[CHOOSE jQ \in hitQ : \A kQ \in hitQ : kQ <= jQ].script       \* the last one wins
Edit(item, mQ) ==
  LET insR == [iQ \in 1..Len(mQ.tx.ins) |-> [mQ.tx.ins[iQ] EXCEPT !.script = ReplOf(item, iQ, @)]] IN
  [tx |-> [mQ.tx EXCEPT !.ins = Keep(insR, IdxSet(item.rmin)), !.outs = Keep(mQ.tx.outs, IdxSet(item.rmout))],
   uns |-> Keep(mQ.uns, IdxSet(item.rmin))]

\* ---------------------------------------------------------------- stage: fee / split pool
TxSize(tQ) == Size(Wire(tQ))
\* the default fee ("standard"): 10,000 satoshi for every started 1000 bytes of the transaction at hand
StdFee(tQ) == OfNat(10000 * ((999 + TxSize(tQ)) \div 1000))
FeeOf(item, tQ) == IF item.fee.set THEN ValOf(item.fee) ELSE StdFee(tQ)

OutAmts(tQ) == [jQ \in 1..Len(tQ.outs) |-> AmtOf(tQ.outs[jQ])]
UnsAmts(usQ) == [iQ \in 1..Len(usQ) |-> usQ[iQ].amount]
UnspecIdx(tQ) == {jQ \in 1..Len(tQ.outs) : IsZero(tQ.outs[jQ].amount)}
\* TxRules' request: the believed inputs and the outputs as payables (amount zero = unspecified)
RSps(usQ) == [iQ \in 1..Len(usQ) |-> [src |-> iQ, idx |-> 0, amt |-> usQ[iQ].amount, scr |-> 0]]
RPays(tQ) == [jQ \in 1..Len(tQ.outs) |-> [to |-> jQ, amt |-> AmtOf(tQ.outs[jQ])]]

\* the closed form (C13, TxBuild!Build): pool div n each, the first pool mod n one more
Rank(SQ, jQ) == Cardinality({kQ \in SQ : kQ < jQ})
Distribute(tQ, poolQ) ==
  LET UQ == UnspecIdx(tQ)
      dQ == NDivSmall(poolQ, Cardinality(UQ)) IN
  [tQ EXCEPT !.outs = [jQ \in 1..Len(tQ.outs) |->
      IF jQ \in UQ THEN [tQ.outs[jQ] EXCEPT !.amount = Pad(IF Rank(UQ, jQ) < dQ.r THEN NAdd(dQ.q, NOne) ELSE dQ.q, 4)]
      ELSE tQ.outs[jQ]]]

\* fs: "none" (no payable named: amounts stay) | "fixed" (every output has its amount) | "split" |
\*     "short" (not enough for one satoshi each: a warning, nothing is distributed) |
\*     "blind" (an input of unknown value: nothing can be computed - a warning is due) |
\*     "toobig" (a share would not fit the wire format: open)
FeeStage(item, cQ, eQ) ==
  LET tQ == eQ.tx IN
  IF cQ.npay = 0 THEN [fs |-> "none", tx |-> tQ, fee |-> NZero]
  ELSE IF UnspecIdx(tQ) = {} THEN [fs |-> "fixed", tx |-> tQ, fee |-> NZero]
  ELSE IF ~AllKnown(eQ.uns) THEN [fs |-> "blind", tx |-> tQ, fee |-> NZero]
  ELSE LET feeQ == FeeOf(item, tQ)
           tinQ == NSum(UnsAmts(eQ.uns))
           claimQ == NAdd(NSum(OutAmts(tQ)), feeQ)
           needQ == NAdd(claimQ, OfNat(Cardinality(UnspecIdx(tQ)))) IN
       IF NLt(tinQ, needQ) THEN [fs |-> "short", tx |-> tQ, fee |-> feeQ]
       ELSE IF ~Fits(NSub(tinQ, claimQ), 4) THEN [fs |-> "toobig", tx |-> tQ, fee |-> feeQ]
       ELSE [fs |-> "split", tx |-> Distribute(tQ, NSub(tinQ, claimQ)), fee |-> feeQ]

\* ---------------------------------------------------------------- stage: sign
\* keyfacts: for each secret (32 flat bytes) the two public encodings and their hashes (FACTS, checked by the
\* harness): [secret, secc, secu, hc, hu]
CommitsTo(kfQ, sQ) ==
  LET kQ == KindOfScript(sQ) IN
  \/ kQ.K = "p2pkh" /\ kQ.h \in {kfQ.hc, kfQ.hu}
  \/ kQ.K = "p2pk" /\ kQ.h \in {kfQ.secc, kfQ.secu}
  \/ kQ.K = "p2wpkh" /\ kQ.h = kfQ.hc                      \* BIP143: compressed keys only
\* input iQ can be solved with the keys given: its spent output is known and commits to one of them
Signable(keyfacts, keysQ, uQ) ==
  uQ.known /\ \E nQ \in 1..Len(keyfacts) : keyfacts[nQ].secret \in keysQ /\ CommitsTo(keyfacts[nQ], uQ.script)
\* is the spent script of a kind this rule book can judge at all?  (others: multisig, p2sh, witness programs ...: open)
Judgeable(uQ) == uQ.known /\ KindOfScript(uQ.script).K \in {"p2pkh", "p2pk", "p2wpkh"}

\* ---------------------------------------------------------------- stage: report
Mode(item, tQ) == IF item.ofile # "" THEN "file" ELSE IF item.showu THEN "unspents" ELSE IF tQ.outs = <<>> THEN "inputs" ELSE "dump"

\* amounts as text in units of 10^5 satoshi: integer part and exactly five decimals (CoinDecimal)
MilliText(aQ) == CD!SatToCoin(Dec(aQ), 5)
LockThreshold == <<25856, 7629>>                       \* 500,000,000 = 7629 * 65536 + 25856
LockMeaning(tQ) ==
  IF IsZero(tQ.lock) THEN [m |-> "anytime", civil |-> <<>>]
  ELSE IF \A iQ \in 1..Len(tQ.ins) : tQ.ins[iQ].seq = Max32 THEN [m |-> "ignored", civil |-> <<>>]
  ELSE IF Less(tQ.lock, LockThreshold) THEN [m |-> "block", civil |-> <<>>]
  ELSE [m |-> "time", civil |-> CivilOf(tQ.lock)]

\* The dump, line by line, as records.  NQ: network; okQ[i]: input i is solved (as the library's validation
\* judges the emitted transaction).  addr: Address structure or NoAddr; amt: [int, frac] digits.
DumpHeader(tQ) == [k |-> "hdr", version |-> tQ.version, nin |-> Len(tQ.ins), nout |-> Len(tQ.outs), wit |-> HasWitness(tQ),
                   lock |-> tQ.lock, meaning |-> LockMeaning(tQ).m, civil |-> LockMeaning(tQ).civil]
DumpIn(NQ, tQ, usQ, okQ, iQ) ==
  LET xQ == tQ.ins[iQ] IN
  IF IsCoinbase(tQ) THEN [k |-> "coinbase", idx |-> iQ - 1, amt |-> MilliText(NSum(OutAmts(tQ)))]
  ELSE IF iQ > Len(usQ) \/ ~usQ[iQ].known
  THEN [k |-> "in", idx |-> iQ - 1, known |-> FALSE, addr |-> NoAddr, hash |-> xQ.hash, index |-> xQ.index,
        amt |-> MilliText(NZero), ok |-> FALSE, seq |-> xQ.seq]
  ELSE [k |-> "in", idx |-> iQ - 1, known |-> TRUE, addr |-> AddrOfScript(NQ, usQ[iQ].script), hash |-> xQ.hash, index |-> xQ.index,
        amt |-> MilliText(usQ[iQ].amount), ok |-> okQ[iQ], seq |-> xQ.seq]
DumpOut(NQ, tQ, jQ) == [k |-> "out", idx |-> jQ - 1, addr |-> AddrOfScript(NQ, tQ.outs[jQ].script), amt |-> MilliText(AmtOf(tQ.outs[jQ]))]
Missing(tQ, usQ) == ~IsCoinbase(tQ) /\ (Len(usQ) # Len(tQ.ins) \/ ~AllKnown(usQ))
TotalInOf(tQ, usQ) == IF IsCoinbase(tQ) THEN AmtOf(tQ.outs[1]) ELSE NSum(UnsAmts(usQ))
\* the fee with its sign: what the inputs are believed to hold minus what the outputs receive
FeeSign(tinQ, toutQ) == IF tinQ = toutQ THEN 0 ELSE IF NLt(toutQ, tinQ) THEN 1 ELSE 0 - 1
FeeMag(tinQ, toutQ) == IF NLeq(toutQ, tinQ) THEN NSub(tinQ, toutQ) ELSE NSub(toutQ, tinQ)
DumpFooter(tQ, usQ) ==
  LET toutQ == NSum(OutAmts(tQ)) IN
  IF Missing(tQ, usQ) THEN << [k |-> "tout", amt |-> MilliText(toutQ)] >>
  ELSE LET tinQ == TotalInOf(tQ, usQ) IN
       << [k |-> "tin", amt |-> MilliText(tinQ)], [k |-> "tout", amt |-> MilliText(toutQ)],
          [k |-> "fee", sign |-> FeeSign(tinQ, toutQ), amt |-> MilliText(FeeMag(tinQ, toutQ))] >>
Dump(NQ, tQ, usQ, okQ) ==
  << DumpHeader(tQ) >> \o [iQ \in 1..Len(tQ.ins) |-> DumpIn(NQ, tQ, usQ, okQ, iQ)]
  \o [jQ \in 1..Len(tQ.outs) |-> DumpOut(NQ, tQ, jQ)] \o DumpFooter(tQ, usQ)

\* the remark about the fee (dump mode, all spent outputs known): compared with the default fee of the FINAL size
FeeRemark(tQ, usQ) ==
  LET tinQ == TotalInOf(tQ, usQ)  toutQ == NSum(OutAmts(tQ))  recQ == StdFee(tQ) IN
  IF NLt(tinQ, toutQ) THEN "fee_short"
  ELSE LET fQ == NSub(tinQ, toutQ) IN
       IF NLt(recQ, fQ) THEN "fee_high" ELSE IF NLt(fQ, recQ) THEN "fee_low" ELSE "fee_exact"

\* the verdict about the source transactions (printed unless -u; nothing when there are no outputs)
\* "validated": every input is backed by the very source transaction (UnspentRules); otherwise a remark why not
Verdict(item, tQ, usQ) ==
  IF item.showu \/ tQ.outs = <<>> THEN "none"
  ELSE IF Missing(tQ, usQ) THEN "sources_missing"
  ELSE IF IsCoinbase(tQ) \/ Backed(item.db, tQ, usQ) THEN "validated"
  ELSE "not_validated"

\* the spendable lines of the two listing modes (Spendable.tla's text fields)
AsSpendable(hQ, jQ, oQ) == [hash |-> hQ, index |-> Limbs(jQ, 2), script |-> oQ.script, amount |-> oQ.amount,
                            bia |-> <<0, 0, 0, 0>>, spent |-> FALSE, bis |-> <<0, 0, 0, 0>>]

\* ---------------------------------------------------------------- the outcome of an item
\* The outcome is a FUNCTION of the item, of two facts TLC cannot compute (key encodings, database ids) and
\* of a HINT holding what the rule book leaves to the implementation or cannot evaluate:
\*   hint.unlock[i], hint.wit[i]   unlocking script / witness stack of input i in the emitted transaction
\*   hint.ok[i]                    whether the library's validation accepts input i of the emitted transaction
\* SignOK says which hints are admissible; everything else follows.
NoOutcome(rQ, whyQ) == [r |-> rQ, why |-> whyQ]
OptionsRefused(item) ==         \* the option parser refuses these before anything happens (-t is documented 0..255)
  \/ item.ver.set /\ ~IsU8(item.ver)
  \/ item.fee.set /\ ~IsNumeral(item.fee)
  \/ item.lock.set /\ ~IsNumeral(item.lock)
  \/ item.seqn.set /\ ~IsNumeral(item.seqn)
  \/ \E iQ \in 1..Len(item.rmin) : ~IsNumeral(item.rmin[iQ])
  \/ \E iQ \in 1..Len(item.rmout) : ~IsNumeral(item.rmout[iQ])
  \/ \E iQ \in 1..Len(item.repl) : ~IsNumeral(item.repl[iQ].idx)
OptionsMalformed(item) ==       \* numerals that are no value of the field they name: refusal or a clear message
  \/ item.lock.set /\ ~IsU32(item.lock)
  \/ item.lockdate # <<>> /\ ~(item.lockdate[1] \in 2009..2105)
  \/ item.seqn.set /\ ~IsU32(item.seqn)
  \/ item.fee.set /\ ~IsNatTxt(item.fee)            \* a fee is a natural number of satoshi
WhichMalformed(item) == IF (item.lock.set /\ ~IsU32(item.lock)) \/ (item.lockdate # <<>> /\ ~(item.lockdate[1] \in 2009..2105)) THEN "lock-time-range"
                        ELSE IF item.seqn.set /\ ~IsU32(item.seqn) THEN "sequence-range" ELSE "fee-negative"

\* everything up to (not including) signing.  st: "ok" | "refused" | "malformed" | "open"
Stages(item) ==
  IF OptionsRefused(item) THEN [st |-> "refused", why |-> "option"]
  ELSE LET cQ == Collect(item) IN
  IF cQ.r # "ok" THEN [st |-> cQ.r, why |-> IF cQ.r = "malformed" THEN "amount" ELSE "token"]
  ELSE IF OptionsMalformed(item) THEN [st |-> "malformed", why |-> WhichMalformed(item)]
  ELSE LET mQ == Merge(item, cQ) IN
       IF ~EditsWellFormed(item, mQ) THEN [st |-> "malformed", why |-> WhichEdit(item, mQ)]
       ELSE LET eQ == Edit(item, mQ)
                fQ == FeeStage(item, cQ, eQ) IN
            IF fQ.fs = "toobig" THEN [st |-> "open", why |-> "share-too-big"]
            ELSE [st |-> "ok", why |-> "", keys |-> cQ.keys, fs |-> fQ.fs, fee |-> fQ.fee, tx |-> fQ.tx, uns |-> eQ.uns,
                  merged |-> mQ]

\* the emitted transaction: the assembled one with the hinted unlocking data
Final(pQ, hint) == [pQ EXCEPT !.ins = [iQ \in 1..Len(pQ.ins) |-> [pQ.ins[iQ] EXCEPT !.script = hint.unlock[iQ], !.wit = hint.wit[iQ]]]]
Changed(pQ, hint, iQ) == pQ.ins[iQ].script # hint.unlock[iQ] \/ pQ.ins[iQ].wit # hint.wit[iQ]
Untouched(xQ) == xQ.script = <<>> /\ xQ.wit = <<>>
\* What signing may do and what validation may then say.
\*   hint.was[i]  input i was solved before signing (the library's validation of the assembled transaction)
\* C05: only inputs whose key was given change, and they end solved; C06: an input whose spent output is unknown
\* is never valid.  Signing needs to know what EVERY input spends (the signature commits to all of it, and the
\* library refuses otherwise): with an unknown source nothing is signed - and a remark is due (see `says`).
\* An input that was solved stays as it is.  An unsolved input whose key is missing may come back with other
\* unlocking data (the library writes placeholder signatures) but stays unsolved.
\* For spent scripts outside p2pkh / p2pk (multisig, p2sh, witness programs: C05's own check) the verdict is
\* taken as observed - but they too change only if some key was given and everything is known.
CanSign(sQ) == sQ.keys # {} /\ ~Missing(sQ.tx, sQ.uns)
SignOK(keyfacts, sQ, hint) ==
  LET pQ == sQ.tx  usQ == sQ.uns IN
  /\ Len(hint.unlock) = Len(pQ.ins) /\ Len(hint.wit) = Len(pQ.ins) /\ Len(hint.ok) = Len(pQ.ins) /\ Len(hint.was) = Len(pQ.ins)
  /\ \A iQ \in 1..Len(pQ.ins) :
       LET uQ == IF iQ <= Len(usQ) THEN usQ[iQ] ELSE NoU
           canQ == CanSign(sQ) /\ Signable(keyfacts, sQ.keys, uQ) IN
       /\ ~uQ.known => ~hint.ok[iQ] /\ ~hint.was[iQ]
       /\ hint.was[iQ] => hint.ok[iQ] /\ ~Changed(pQ, hint, iQ)
       /\ Changed(pQ, hint, iQ) => CanSign(sQ)
       /\ Judgeable(uQ) /\ ~hint.was[iQ] => (hint.ok[iQ] <=> canQ)
       /\ Judgeable(uQ) /\ Untouched(pQ.ins[iQ]) => ~hint.was[iQ]

BadCount(tQ, hint) == IF IsCoinbase(tQ) THEN 0 ELSE Cardinality({iQ \in 1..Len(tQ.ins) : ~hint.ok[iQ]})

\* the outcome of an item that reaches the end, from what the stages before signing produced (sQ)
OutcomeOf(item, sQ, hint) ==
  IF sQ.st # "ok" THEN [r |-> sQ.st, why |-> sQ.why]
  ELSE LET NQ == Net(item)
           tQ == Final(sQ.tx, hint)
           usQ == sQ.uns
           badQ == BadCount(tQ, hint)
           missQ == Missing(tQ, usQ)
           extQ == badQ > 0 /\ ~missQ
           modeQ == Mode(item, tQ)
           okQ == [iQ \in 1..Len(tQ.ins) |-> hint.ok[iQ]]
       IN [r |-> "ok", why |-> "",
           tx |-> tQ, uns |-> usQ, ext |-> extQ, bad |-> badQ, mode |-> modeQ,
           \* the bytes emitted (hex text in dump mode, the file's content with -o)
           bytes |-> IF extQ THEN WireExt(tQ, ExtUnspents(usQ)) ELSE Wire(tQ),
           dump |-> IF modeQ = "dump" THEN Dump(NQ, tQ, usQ, okQ) ELSE <<>>,
           \* the listing modes print spendables: the outputs of the transaction (-u; their source is the
           \* transaction itself: the harness finishes the id) or, with no output at all, what the inputs spend
           lines |-> IF modeQ = "unspents" THEN [jQ \in 1..Len(tQ.outs) |-> SP!TextFields(AsSpendable(Null32, jQ - 1, tQ.outs[jQ]))]
                     ELSE IF modeQ = "inputs"         \* (the inputs whose spent output is known, in order)
                          THEN LET knQ == SelectSeq([iQ \in 1..Len(tQ.ins) |-> iQ], LAMBDA iQ : iQ <= Len(usQ) /\ usQ[iQ].known) IN
                               [kQ \in 1..Len(knQ) |-> SP!TextFields(AsSpendable(tQ.ins[knQ[kQ]].hash, NatOf(tQ.ins[knQ[kQ]].index),
                                                                                  WOut(usQ[knQ[kQ]].amount, usQ[knQ[kQ]].script)))]
                     ELSE <<>>,
           \* what must be said: a set of requirements, each met by a remark of any of its kinds ("remark": any
           \* remark the rule book has no name for); and what may be said besides
           says |-> (IF tQ.ins = <<>> THEN {{"no_inputs"}} ELSE {})
                    \cup (IF tQ.outs = <<>> THEN {{"no_outputs"}} ELSE {})
                    \cup (IF sQ.fs = "short" THEN {{"pool_warning"}} ELSE {})
                    \cup (IF sQ.fs = "blind" THEN {{"pool_warning", "remark"}} ELSE {})
                    \cup (IF CanSign(sQ) /\ badQ > 0 THEN {{"signing"}, {"still_unsigned"}} ELSE {})
                    \cup (IF sQ.keys # {} /\ missQ /\ badQ > 0 THEN {{"remark"}} ELSE {})
                    \cup (IF modeQ = "dump" /\ ~missQ THEN {{"fee_casual"}} \cup ({{FeeRemark(tQ, usQ)}} \ {{"fee_exact"}}) ELSE {})
                    \cup (IF modeQ = "dump" /\ extQ THEN {{"including_unspents"}} ELSE {}),
           may  |-> (IF sQ.keys # {} THEN {"signing"} ELSE {})
                    \cup (IF modeQ = "dump" /\ badQ > 0 THEN {"including_unspents"} ELSE {}),
           verdict |-> Verdict(item, tQ, usQ),
           fs |-> sQ.fs, fee |-> sQ.fee]
Outcome(item, hint) == OutcomeOf(item, Stages(item), hint)

\* ---------------------------------------------------------------- what the item NAMES (for the lemmas)
\* the inputs and outputs named by the arguments, in order: those of the transactions, then spendables / payables
\* (mQ: the merge stage's result)
Outpoint(xQ) == <<xQ.hash, xQ.index>>

\* (a) order preservation: the emitted inputs / outputs are the named ones minus the removed positions, in order
OrderLemma(item, mQ, oQ) ==
  oQ.r = "ok" =>
    /\ [iQ \in 1..Len(oQ.tx.ins) |-> Outpoint(oQ.tx.ins[iQ])] = [iQ \in 1..Len(Keep(mQ.tx.ins, IdxSet(item.rmin))) |-> Outpoint(Keep(mQ.tx.ins, IdxSet(item.rmin))[iQ])]
    /\ [jQ \in 1..Len(oQ.tx.outs) |-> oQ.tx.outs[jQ].script] = [jQ \in 1..Len(Keep(mQ.tx.outs, IdxSet(item.rmout))) |-> Keep(mQ.tx.outs, IdxSet(item.rmout))[jQ].script]
\* (a) conservation: when the pool was split, C13's relation holds between believed inputs, named outputs, fee and
\*     emitted outputs; and the outputs that had an amount keep it
ConservationLemma(item, mQ, oQ) ==
  oQ.r = "ok" =>
    LET namedQ == Keep(mQ.tx.outs, IdxSet(item.rmout)) IN
    /\ \A jQ \in 1..Len(namedQ) : ~IsZero(namedQ[jQ].amount) => oQ.tx.outs[jQ].amount = namedQ[jQ].amount
    /\ oQ.fs = "split" =>
         R!ValidOuts(RSps(oQ.uns), RPays([oQ.tx EXCEPT !.outs = namedQ]), oQ.fee, RPays(oQ.tx))
    /\ oQ.fs \in {"none", "fixed", "short", "blind"} => oQ.tx.outs = namedQ
\* (c) the report is true of the result: the footer's fee is total_in - total_out (TxRules!FeeReport), the
\*     verdict "validated" only if every input is backed, the count of unsolved inputs is the number of "BAD" ones
ReportLemma(item, oQ) ==
  oQ.r = "ok" =>
    /\ oQ.verdict = "validated" => IsCoinbase(oQ.tx) \/ Backed(item.db, oQ.tx, oQ.uns)
    /\ oQ.mode = "dump" /\ ~Missing(oQ.tx, oQ.uns) /\ ~IsCoinbase(oQ.tx) =>
         LET tinQ == NSum(UnsAmts(oQ.uns))  toutQ == NSum(OutAmts(oQ.tx)) IN
         R!FeeReport([unspents |-> RSps(oQ.uns), outs |-> RPays(oQ.tx)], tinQ, toutQ, FeeSign(tinQ, toutQ), FeeMag(tinQ, toutQ))
    /\ oQ.ext <=> (oQ.bad > 0 /\ ~Missing(oQ.tx, oQ.uns))
    /\ oQ.ext => oQ.bytes = Cat(Wire(oQ.tx), SerUnspents(ExtUnspents(oQ.uns)))

\* ---------------------------------------------------------------- the command as a state machine
\* One work record walks through the stages; every stage is one action.  The hint of the signing stage is a
\* parameter: the model-checking module passes the canonical one, the trace module the recorded one.
VARIABLES pc, wk
twvars == <<pc, wk>>
NoTx == [version |-> <<0, 0>>, ins |-> <<>>, outs |-> <<>>, lock |-> <<0, 0>>]
NoStage == [tx |-> NoTx, uns |-> <<>>]
Work(item, keyfacts) ==
  [item |-> item, kf |-> keyfacts, st |-> "ok", why |-> "", c |-> Collected("ok"), m |-> NoStage, e |-> NoStage,
   f |-> [fs |-> "none", tx |-> NoTx, fee |-> NZero], o |-> NoOutcome("none", "")]
Stop(stQ, whyQ) == /\ wk' = [wk EXCEPT !.st = stQ, !.why = whyQ, !.o = NoOutcome(stQ, whyQ)]
                   /\ pc' = "done"

StepOptions == /\ pc = "options"
               /\ IF OptionsRefused(wk.item) THEN Stop("refused", "option")
                  ELSE pc' = "collect" /\ UNCHANGED wk
StepCollect == /\ pc = "collect"
               /\ \E cQ \in {Collect(wk.item)} :
                    IF cQ.r # "ok" THEN Stop(cQ.r, IF cQ.r = "malformed" THEN "amount" ELSE "token")
                    ELSE IF OptionsMalformed(wk.item) THEN Stop("malformed", WhichMalformed(wk.item))
                    ELSE wk' = [wk EXCEPT !.c = cQ] /\ pc' = "merge"
StepMerge == /\ pc = "merge"
             /\ \E mQ \in {Merge(wk.item, wk.c)} :
                  IF ~EditsWellFormed(wk.item, mQ) THEN Stop("malformed", WhichEdit(wk.item, mQ))
                  ELSE wk' = [wk EXCEPT !.m = mQ] /\ pc' = "edit"
StepEdit == /\ pc = "edit"
            /\ wk' = [wk EXCEPT !.e = Edit(wk.item, wk.m)] /\ pc' = "fee"
StepFee == /\ pc = "fee"
           /\ \E fQ \in {FeeStage(wk.item, wk.c, wk.e)} :
                IF fQ.fs = "toobig" THEN Stop("open", "share-too-big")
                ELSE wk' = [wk EXCEPT !.f = fQ] /\ pc' = "sign"
\* what the signing stage starts from
PreSign(wkQ) == [st |-> "ok", why |-> "", keys |-> wkQ.c.keys, tx |-> wkQ.f.tx, uns |-> wkQ.e.uns, fs |-> wkQ.f.fs, fee |-> wkQ.f.fee, merged |-> wkQ.m]
StepSign(hint) == /\ pc = "sign"
                  /\ SignOK(wk.kf, PreSign(wk), hint)
                  /\ wk' = [wk EXCEPT !.o = OutcomeOf(wk.item, PreSign(wk), hint)] /\ pc' = "report"
StepReport == /\ pc = "report" /\ pc' = "done" /\ UNCHANGED wk
\* the staged computation and the function Outcome agree (the actions are the function, cut into steps)
StagesAgree == pc = "report" => \A sQ \in {Stages(wk.item)} : sQ = PreSign(wk)
=============================================================================
