-------------------------------- MODULE ECDSA --------------------------------
(* ECDSA over the group of EC.tla (SEC 1 v2, sections 4.1.3, 4.1.4, 4.1.6;    *)
(* FIPS 186-4 section 6), written from the standard.  z is the message hash   *)
(* as a non-negative integer; only z mod N enters the equations.              *)
EXTENDS EC

InRange(v) == 1 <= v /\ v < N
PubKey(d) == SMul(d, G)

(* -------- verification, exactly as property C01 states it -------- *)
\* u1*G + u2*Q with u1 = z/s, u2 = r/s (mod N)
VerifyPoint(Q, z, r, s) == LET w == InvN[s]
                               u1 == ((z % N) * w) % N
                               u2 == (r * w) % N
                           IN Add(SMul(u1, G), SMul(u2, Q))
Verify(Q, z, r, s) == /\ InRange(r) /\ InRange(s)
                      /\ LET X == VerifyPoint(Q, z, r, s) IN X # Inf /\ X[1] % N = r

(* -------- signing with a given nonce k in 1..N-1 -------- *)
SigOf(d, z, k) == LET R == SMul(k, G)
                      r == R[1] % N
                      s == (InvN[k] * (((z % N) + r * d) % N)) % N
                  IN [r |-> r, s |-> s, x |-> R[1],
                      recid |-> (R[2] % 2) + (IF R[1] >= N THEN 2 ELSE 0)]
SigUsable(sg) == sg.r # 0 /\ sg.s # 0
\* the nonce the retry step moves to.  RFC 6979 would draw the next HMAC_DRBG candidate; the property
\* leaves the retry path open ("whenever the first nonce gives non-zero r and s"), pycoin adds 1.
\* Wrapping keeps the nonce in 1..N-1.
NextNonce(k) == (k % (N - 1)) + 1

(* -------- public-key recovery (SEC 1 4.1.6 restricted to x = r, which is what the property needs) -------- *)
\* the curve points whose x-coordinate IS the integer r (none when r >= P)
PointsWithX(r) == {pt \in Affine : pt[1] = r}
RecoverFrom(R, z, r, s) == SMul(InvN[r], Sub(SMul(s, R), SMul(z % N, G)))
\* par: 0 = even y, 1 = odd y, 2 = both
Recover(z, r, s, par) == {RecoverFrom(R, z, r, s) : R \in {pt \in PointsWithX(r) : par = 2 \/ pt[2] % 2 = par}}
\* the keys under which (r, s) verifies for z.  Inf is not a public key, but the recovery formula yields it for
\* the signature "made by d = 0" and the verification equation holds for it; it is tolerated in recovery results.
VerifyEq(Q, z, r, s) == InRange(r) /\ InRange(s) /\
                        LET X == VerifyPoint(Q, z, r, s) IN X # Inf /\ X[1] % N = r
VerifyingKeys(z, r, s) == {Q \in Points : VerifyEq(Q, z, r, s)}

(* ========================= lemmas (checked by TLC in MC_ECDSA) ========================= *)
\* every usable signature is in range and verifies under d*G; so does the malleated (r, N-s)
SignSound(d, z, k) == LET sg == SigOf(d, z, k) IN
    SigUsable(sg) => /\ InRange(sg.r) /\ InRange(sg.s)
                     /\ Verify(PubKey(d), z, sg.r, sg.s)
                     /\ Verify(PubKey(d), z, sg.r, N - sg.s)
                     /\ sg.recid \in 0..3
\* recovered keys verify; the signer is recovered from the recid's parity whenever x(kG) < N
RecoverSound(z, r, s) == \A Q \in Recover(z, r, s, 2) : Q \in VerifyingKeys(z, r, s)
RecoverComplete(d, z, k) == LET sg == SigOf(d, z, k) IN
    (SigUsable(sg) /\ sg.x < N) => /\ sg.recid < 2
                                   /\ PubKey(d) \in Recover(z, sg.r, sg.s, sg.recid % 2)
                                   /\ PubKey(d) \in Recover(z, sg.r, sg.s, 2)
\* verification accepts exactly the keys recoverable from x = r or x = r + N (full SEC 1 recovery)
RecoverAll(z, r, s) == Recover(z, r, s, 2) \cup
                       {RecoverFrom(R, z, r, s) : R \in {pt \in Affine : pt[1] = r + N}}
VerifyIffRecoverable(z, r, s) == VerifyingKeys(z, r, s) = RecoverAll(z, r, s)
\* the signatures valid for (d*G, z) are exactly those some usable nonce produces (k and N-k give s and N-s)
NonceImages(d, z) == {<<SigOf(d, z, k).r, SigOf(d, z, k).s>> : k \in {kk \in 1..(N - 1) : SigUsable(SigOf(d, z, kk))}}
ValidAreNonceImages(d, z) ==
    {rs \in (1..(N - 1)) \X (1..(N - 1)) : Verify(PubKey(d), z, rs[1], rs[2])} = NonceImages(d, z)
\* out-of-range components never verify
RangeRejected(Q, z, r, s) == (~InRange(r) \/ ~InRange(s)) => ~Verify(Q, z, r, s)
\* a well-formed signature whose verification point u1*G + u2*Q is the identity is rejected
\* (for Q = d*G that is z = -r*d mod N; SEC 1 4.1.4 step 5: "if R = O, output invalid")
InfinityRejected(d, r, s) == LET z == (0 - r * d) % N IN
    VerifyPoint(PubKey(d), z, r, s) = Inf /\ ~Verify(PubKey(d), z, r, s)
\* only z mod N matters
ZPeriodic(Q, z, r, s) == Verify(Q, z, r, s) <=> Verify(Q, z + N, r, s)
=============================================================================
