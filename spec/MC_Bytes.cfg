SPECIFICATION Spec
INVARIANT FinishesAtEnd ValueRight OverlongFlagged
CHECK_DEADLOCK FALSE
