---------------------------- MODULE Trace_TxCheck ----------------------------
(* Code -> spec binding for C20.  A trace is one pycoin transaction object and *)
(* the calls made on it - check(), is_coinbase(), bad_solution_count() in a    *)
(* random order - each logged with its result and the projection of the        *)
(* object AFTER the call.  TLC accepts the trace iff every call is a step of   *)
(* TxCheck's object machine: the result is one the property allows and the     *)
(* object is unchanged.  Between calls the recorder edits public fields of     *)
(* the same object (event "edit", with the fields after it): the verdict of a  *)
(* later check() must be the one of the fields as they are then.  Progress (how many events matched) is printed so that *)
(* the harness can name the call at which a rejected trace stopped.            *)
EXTENDS TxCheck, Json, IOUtils

Traces == JsonDeserialize(IOEnv.TRACE_FILE)
VARIABLES tid, l
tvars == <<tid, l, cvars>>
Ev == Traces[tid].ev

TInit == /\ tid \in 1..Len(Traces) /\ l = 1
         /\ CInit(Traces[tid].tx, Traces[tid].coin)

Call(name) == CASE name = "check" -> Check
                [] name = "is_coinbase" -> AskCoinbase
                [] name = "bad_solution_count" -> CountBad
                [] name = "edit" -> Edit(Ev[l].after)     \* the owner changed public fields; logged result "edited"

TNext == /\ l <= Len(Ev)
         /\ Call(Ev[l].call)
         /\ result' = Ev[l].result
         /\ Ev[l].after = obj'
         /\ l' = l + 1 /\ UNCHANGED tid
         /\ PrintT(ToJson([k |-> "prog", tid |-> tid, l |-> l, done |-> (l = Len(Ev))]))
TSpec == TInit /\ [][TNext]_tvars
Post == PrintT(ToJson([k |-> "loaded", n |-> Len(Traces), states |-> TLCGet("distinct")]))
=============================================================================
