CONSTANTS MaxSteps = 1  MaxInserts = 1  Mode = "replay"  Cases <- CasesOne
SPECIFICATION RSpec
CHECK_DEADLOCK FALSE
