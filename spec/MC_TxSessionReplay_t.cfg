CONSTANTS CacheMode = "none"  MaxOuts = 4  SessionLen = 4
SPECIFICATION RSpec
INVARIANTS HistoryIndependent Shape
CHECK_DEADLOCK FALSE
