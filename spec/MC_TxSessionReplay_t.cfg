CONSTANTS CacheMode = "none"  MaxOuts = 4  StartLists = {1}  ListIds = {1, 2, 5, 6}  SessionLen = 4
SPECIFICATION RSpec
INVARIANTS HistoryIndependent Shape SurplusNeverCounted
CHECK_DEADLOCK FALSE
