----------------------------- MODULE X05_MC_Units -----------------------------
(* X05 (c): lemmas of X05_Units.tla against TLC's integers on small numbers,  *)
(* and the replay exports (everything beyond small numbers stays in digit     *)
(* sequences).  One run per Mode:                                             *)
(*   "lem"   every small amount (digits from LemDigits, <= 2 integer and <= 4 *)
(*           fractional digits) x every unit 10^-D, D in 0..3: floor / ceil / *)
(*           wholeness against div and mod, agreement with CoinDecimal.tla,   *)
(*           additivity and monotonicity against a second amount; digit       *)
(*           addition against +; the fee lemmas for every size 0..MaxSize.    *)
(*   "conv"  grid of satoshi counts (up to 21e14 and beyond) x unit x sign x  *)
(*           fractional tail: the text and the count(s) it may convert to.    *)
(*   "add"   pairs of amounts: the text of their sum, the count of the sum.   *)
(*   "fee"   transaction shapes at the size boundaries: size and fee.         *)
(*   "std"   requests built with the "standard" fee: fee, outputs or error.   *)
EXTENDS X05_Units, Json, SequencesExt

CONSTANTS Mode, LemDigits, MaxSize, MaxSmall, LSet, WSet, NIn, NOut, Dealers

VARIABLES ph, it
vars == <<ph, it>>

(* ------------------------------------------------------------ "lem" *)
Seqs(S, n) == [1..n -> S]
UpTo(S, lo, hi) == UNION {Seqs(S, n) : n \in lo..hi}
LemInts  == UpTo(LemDigits, 1, 2)
LemFracs == UpTo(LemDigits, 0, 4)
LemAmts  == {Amt(FALSE, i, f) : i \in LemInts, f \in LemFracs}
LemAmts2 == {Amt(FALSE, i, f) : i \in UpTo(LemDigits, 1, 1), f \in UpTo(LemDigits, 0, 2)}
AmtLemmas(c) ==
  /\ \A D \in 0..3 : /\ ArithOk(c, D, 4) /\ WholeIsCoinToSat(c, D) /\ WholeValue(c, D)
                     /\ IsCanon(FloorMag(c, D)) /\ IsCanon(CeilMag(c, D))
                     /\ ToSat(c, D).exact = IsWhole(c, D)
                     /\ Cardinality(ToSat(c, D).counts) = (IF IsWhole(c, D) THEN 1 ELSE 2)
  /\ \A c2 \in LemAmts2 : /\ AddOk(c, c2, 4) /\ AddOk(c2, c, 4)
                          /\ \A D \in 0..3 : Additive(c, c2, D) /\ Monotone(c, c2, D) /\ Monotone(c2, c, D)
SatLemmas(n) ==
  /\ \A D \in {0, 1, 3, 5, 8} : RoundTrip(Cnt(FALSE, Digits(n)), D) /\ RoundTrip(Cnt(TRUE, Digits(n)), D)
  /\ \A m \in {0, 1, 9, 10, 99, 999, MaxSmall - n} : AddDOk(Digits(n), Digits(m)) /\ AdditiveBack(Digits(n), Digits(m), 3)
  /\ n <= MaxSize => FeeLemmas(n)
\* the size formula on the shapes the fee cases use
ShapeLemmas == /\ \A L \in LSet : SizeFormula(<<PlainIn(L)>>, <<25>>) /\ SizeFormula(<<PlainIn(L), PlainIn(0)>>, <<25, 23>>)
               /\ \A n \in NIn, m \in NOut : SizeFormula([i \in 1..n |-> PlainIn(0)], [j \in 1..m |-> 25])
               /\ TxSize(<<PlainIn(0)>>, <<25>>) = 85
               /\ TxSize(<<[script |-> 0, wit |-> <<72, 33>>]>>, <<22>>) = 82 + 2 + 1 + 73 + 34      \* BIP144: marker, flag, stack

(* ------------------------------------------------------------ "conv" *)
Nines(n) == [i \in 1..n |-> 9]
CountGrid ==
  {Digits(n) : n \in 0..20}
  \cup {Digits(m) \o Zeros(k) : m \in {1, 2, 9, 21, 99}, k \in 0..14}
  \cup {Nines(k) : k \in 1..16}
  \cup {<<1>> \o Zeros(k - 1) \o <<1>> : k \in 1..15}
  \cup {<<2, 1>> \o Zeros(14), <<2, 0>> \o Nines(14), <<2, 1>> \o Zeros(13) \o <<1>>,
        <<2, 1>> \o Zeros(6) \o Nines(8), <<1, 2, 3, 4, 5, 6, 7, 8, 9, 0, 1, 2, 3, 4, 5, 6>>,
        <<1, 0, 0, 0, 0, 0, 0, 0, 5>>, <<2, 8, 9, 9, 9, 9, 9, 9, 9>>, <<5, 7, 0, 0, 0, 0, 0, 0>>,
        <<9, 2, 2, 3, 3, 7, 2, 0, 3, 6, 8, 5, 4, 7, 7, 5, 8, 0, 7>>, <<1, 8, 4, 4, 6, 7, 4, 4, 0, 7, 3, 7, 0, 9, 5, 5, 1, 6, 1, 6>>}
Tails == {<<>>, <<0>>, <<0, 0, 0>>, <<1>>, <<9>>, <<5>>, <<0, 0, 1>>, <<4, 9, 9>>, <<5, 0, 0, 1>>, Nines(20), Zeros(19) \o <<1>>}
ConvItems == {<<"conv", n, D>> : n \in CountGrid, D \in {8, 5}}
ConvRow(n, D) ==
  LET c0 == SatToCoin(n, D) IN
  [k |-> "conv", D |-> D, sat |-> Chars(n),
   \* satoshis -> amount, both signs
   coin |-> Chars(c0.int) \o <<".">> \o Chars(c0.frac),
   \* amount texts -> satoshis: sign x tail x (leading zeros on the integer part)
   texts |-> {Let1({[neg |-> sg, int |-> Chars(c.int), frac |-> Chars(c.frac), exact |-> t.exact,
                     counts |-> {[neg |-> q.neg, mag |-> Chars(q.mag)] : q \in t.counts}] : t \in {ToSat(c, D)}}) :
                <<sg, c>> \in {<<s2, Amt(s2, lead \o c0.int, c0.frac \o tl)>> :
                                  s2 \in BOOLEAN, tl \in Tails, lead \in {<<>>, <<0, 0>>}}}]

(* ------------------------------------------------------------ "add" *)
A(i, f) == Amt(FALSE, i, f)
AddList == << A(<<0>>, <<1>>), A(<<0>>, <<2>>), A(<<0>>, <<7>>), A(<<0>>, <<2, 9>>), A(<<0>>, <<5, 7>>), A(<<1>>, <<1>>), A(<<2>>, <<2>>),
              A(<<1>>, <<1, 5>>), A(<<4>>, <<3, 5>>), A(<<0>>, <<0, 7>>), A(<<0>>, <<0, 1>>), A(<<0>>, <<0, 6>>),
              A(<<0>>, <<0, 0, 0, 0, 0, 0, 0, 1>>), A(<<0>>, Nines(8)), A(<<0>>, <<0, 0, 0, 0, 1>>), A(<<0>>, Nines(5)),
              A(<<9>>, Nines(8)), A(<<2, 0, 9, 9, 9, 9, 9, 9>>, Nines(8)), A(<<2, 0, 9, 9, 9, 9, 9, 9, 9, 9, 9>>, Nines(5)),
              A(<<1, 0, 0, 0, 0, 0, 0, 0>>, <<>>), A(<<0>>, <<0, 0, 0, 0, 0, 0, 0, 3>>), A(<<8, 1>>, <<9, 0, 0, 0, 0, 0, 0, 2>>),
              A(<<0>>, <<>>), A(<<3>>, <<3, 3, 3, 3, 3, 3, 3, 3>>), A(<<6>>, <<6, 6, 6, 6, 6, 6, 6, 7>>) >>
AddItems == {<<"add", i, j>> : i \in 1..Len(AddList), j \in 1..Len(AddList)}
AddRow(i, j) ==
  LET c1 == AddList[i]  c2 == AddList[j]  s == AmtAdd(c1, c2)
      T(c) == [int |-> Chars(c.int), frac |-> Chars(c.frac)] IN
  [k |-> "add", a |-> T(c1), b |-> T(c2), sum |-> T(s),
   units |-> {[D |-> D, a |-> Chars(FloorMag(c1, D)), b |-> Chars(FloorMag(c2, D)),
               sum |-> Chars(AddD(FloorMag(c1, D), FloorMag(c2, D)))] :
                D \in {DD \in {8, 5} : IsWhole(c1, DD) /\ IsWhole(c2, DD)}}]
AddLemma(i, j) == \A D \in {8, 5} : Additive(AddList[i], AddList[j], D) /\ Monotone(AddList[i], AddList[j], D)

(* ------------------------------------------------------------ "fee" *)
FeeItems == {<<"fee", "script", L>> : L \in LSet} \cup {<<"fee", "witness", w>> : w \in WSet}
            \cup {<<"fee", "count", n>> : n \in NIn}
FeeRow(kind, v) ==
  LET ins == CASE kind = "script" -> <<PlainIn(v)>>
               [] kind = "witness" -> <<[script |-> 0, wit |-> <<v>>]>>
               [] kind = "count" -> [i \in 1..v |-> PlainIn(107)]
      outs == IF kind = "count" THEN <<25, 23>> ELSE <<25>>
      sz == TxSize(ins, outs) IN
  [k |-> "fee", kind |-> kind, ins |-> ins, outs |-> outs, size |-> sz, fee |-> Fee(sz)]

(* ------------------------------------------------------------ "std" *)
Kinds == {25, 23, 22, 34}         \* P2PKH, P2SH, P2WPKH, P2WSH output scripts
Deltas == {-1, 0, 1, 5000}
StdItems == {<<"std", n, m, lk>> : n \in NIn, m \in NOut, lk \in Kinds}
StdCase(n, m, lk, nu, first, dl) ==
  LET scripts == [j \in 1..m |-> IF j = m THEN lk ELSE 25]
      fee == StdFee(n, scripts)
      unspec == IF first THEN 1..nu ELSE (m - nu + 1)..m
      pays == [j \in 1..m |-> [to |-> j, amt |-> IF j \in unspec THEN 0 ELSE 1500 + j]]
      fixed == R!Total(R!Amts(pays))
      in1 == fixed + fee + nu + dl - (n - 1) * 100
      sps == [i \in 1..n |-> [src |-> i, idx |-> i % 3, amt |-> IF i = 1 THEN in1 ELSE 100, scr |-> 25]] IN
  [scripts |-> scripts, sps |-> sps, pays |-> pays, size |-> UnsignedSize(n, scripts), fee |-> fee,
   res |-> StdBuild(sps, pays, fee), ok |-> StdOK(sps, pays, scripts)]
StdRow(n, m, lk) ==
  [k |-> "std", cases |-> {StdCase(n, m, lk, nu, first, dl) : nu \in {u \in {1, 2, m} : u <= m}, first \in BOOLEAN, dl \in Deltas}]
StdLemma(n, m, lk) == \A c \in StdRow(n, m, lk).cases : c.ok /\ c.sps[1].amt > 0

(* ------------------------------------------------------------ machine *)
Items == CASE Mode = "lem"  -> {<<"amt", c>> : c \in LemAmts} \cup {<<"sat", n>> : n \in 0..MaxSmall} \cup {<<"shape", 0>>}
           [] Mode = "conv" -> ConvItems
           [] Mode = "add"  -> AddItems
           [] Mode = "fee"  -> FeeItems
           [] Mode = "std"  -> StdItems
ItemSeq == SetToSeq(Items)
Init == ph = "deal" /\ it \in 0..(Dealers - 1)
Pick == ph = "deal" /\ \E i \in {j \in 1..Len(ItemSeq) : j % Dealers = it} : ph' = "work" /\ it' = ItemSeq[i]
Row(x) == CASE x[1] = "conv" -> ConvRow(x[2], x[3])
            [] x[1] = "add"  -> AddRow(x[2], x[3])
            [] x[1] = "fee"  -> FeeRow(x[2], x[3])
            [] x[1] = "std"  -> StdRow(x[2], x[3], x[4])
            [] OTHER -> [k |-> "lem"]
Work == ph = "work" /\ ph' = "done" /\ UNCHANGED it /\ (Mode # "lem" => PrintT(ToJson(Row(it))))
Next == Pick \/ Work
Spec == Init /\ [][Next]_vars

\* deliberately wrong definitions (X05_MC_Units_bad_*.cfg): the lemmas must notice
BadFee(size) == FeePerK * ((size + 1000) \div 1000)                         \* a full thousand already pays for the next one
BadCeilMag(c, D) == SuccD(FloorMag(c, D))                                   \* rounds up even what is whole
BadAmtAdd(c1, c2) == Amt(FALSE, AddD(c1.int, c2.int), Let1({SubSeq(PadLeft(t, MaxOf(Len(c1.frac), Len(c2.frac))), 1 + Len(t) - MaxOf(Len(c1.frac), Len(c2.frac)), Len(t)) :
                          t \in {PadLeft(AddD(PadRight(c1.frac, MaxOf(Len(c1.frac), Len(c2.frac))), PadRight(c2.frac, MaxOf(Len(c1.frac), Len(c2.frac)))), MaxOf(Len(c1.frac), Len(c2.frac)))}}))   \* loses the carry across the point

LemmasHold == ph = "work" =>
  CASE it[1] = "amt"   -> AmtLemmas(it[2])
    [] it[1] = "sat"   -> SatLemmas(it[2])
    [] it[1] = "shape" -> ShapeLemmas
    [] it[1] = "add"   -> AddLemma(it[2], it[3])
    [] it[1] = "std"   -> StdLemma(it[2], it[3], it[4])
    [] it[1] = "conv"  -> RoundTrip(Cnt(FALSE, it[2]), it[3]) /\ RoundTrip(Cnt(TRUE, it[2]), it[3])
    [] OTHER -> TRUE
=============================================================================
