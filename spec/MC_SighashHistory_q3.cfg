CONSTANTS MaxLen = 3  MinEdits = 0  MaxEdits = 0
          CoinSet = {"BTC", "BTG"}  SvSet = {"base", "witness_v0"}  IdxSet = {1}
          ScriptIds = {1}  SigSetIds = {2, 3}  BeginSet = {0, 1}  HtBase = {1}
SPECIFICATION Spec
INVARIANTS HistoryIndependent SigsMatter
CHECK_DEADLOCK FALSE
