CONSTANTS
  Tokens <- TokQ
  MaxTok = 4
  MaxPaths = 40
SPECIFICATION Spec
INVARIANTS MachineIsFold MachineIsDenotation SpellingIrrelevant CountLemma Shape BadIsSticky
CHECK_DEADLOCK FALSE
