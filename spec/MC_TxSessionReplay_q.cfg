CONSTANTS CacheMode = "none"  MaxOuts = 4  SessionLen = 3
SPECIFICATION RSpec
INVARIANTS HistoryIndependent Shape
CHECK_DEADLOCK FALSE
