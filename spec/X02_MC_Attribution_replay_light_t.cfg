CONSTANTS NK = 5  NM = 2  MaxPasses = 2  MaxSteps = 1  MaxInserts = 1  EditFrom = "signed"  MutSet = "light"
          Shapes <- NoShapes  Coins <- AllCoins  HashTypes <- StdHashTypes  Cases <- CasesReplayQ
SPECIFICATION RSpec
CHECK_DEADLOCK FALSE
