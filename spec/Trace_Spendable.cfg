SPECIFICATION TSpec
POSTCONDITION Post
CHECK_DEADLOCK FALSE
