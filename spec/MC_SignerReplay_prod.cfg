CONSTANTS NK = 5  NM = 2  MaxPasses = 2  Mode = "prod"  PruneNoop = FALSE  WithPairs = TRUE
          Cases <- ProdCasesAll  Shapes <- NoShapes  Coins <- AllCoins  HashTypes <- StdHashTypes
SPECIFICATION RSpec
CHECK_DEADLOCK FALSE
