CONSTANTS Tier = "q"  SLen = 3  Wide = FALSE  EmitS = TRUE
SPECIFICATION Spec
INVARIANT Typed StoreIsFold Fresh Sensitive
CHECK_DEADLOCK FALSE
