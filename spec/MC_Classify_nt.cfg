CONSTANTS Mode = "neigh"  MaxLen = 0  Dist = 2  WithBig = TRUE
          PushLens = {0, 1, 19, 20, 21, 32, 33, 34, 65, 75, 76}
SPECIFICATION Spec
INVARIANT Lemmas
CONSTRAINT Export
CHECK_DEADLOCK FALSE
VIEW View
