SPECIFICATION TSpec
CONSTRAINT Reached
POSTCONDITION Post
CHECK_DEADLOCK FALSE
