--------------------------------- MODULE EC ---------------------------------
(* The group of an elliptic curve  y^2 = x^3 + A*x + B  over GF(P) in short   *)
(* Weierstrass form, written from the textbook definition (SEC 1, section     *)
(* 2.2.1; Silverman III.2.3) - not from pycoin's code.  P is an odd prime,    *)
(* (Gx, Gy) a point of prime order N that generates the whole group.          *)
(*                                                                            *)
(* A point is the empty tuple (the point at infinity, the identity) or a      *)
(* pair <<x, y>>.  Coordinates denote elements of GF(P): Add/Neg accept ANY   *)
(* integer representative (x + i*P) and return the canonical one in 0..P-1;   *)
(* lemma ReprInvariant says the result does not depend on the representative. *)
(*                                                                            *)
(* Scalar multiplication has two definitions:                                 *)
(*   Mul(k, Q)   "Q added to itself k times" (what the property states),      *)
(*   MulT(k, Q)  via the discrete-log table of the cyclic group,              *)
(* proved equal by TLC for k in -2N..2N on every curve of MC_EC_*.cfg (lemma  *)
(* MulIsIterated, and inductively MulStep for larger curves); the larger      *)
(* specs (ECDSA, ECRegs, the replay tables, the trace specs) use MulT.        *)
(* All products are reduced early so that every intermediate stays below      *)
(* 2^31 for P < 46340 (TLC integers are 32-bit).                              *)
EXTENDS Integers, Sequences, FiniteSets, TLC

CONSTANTS P, A, B, Gx, Gy, N

Inf == <<>>
Fp  == 0..(P - 1)

(* -------- field arithmetic -------- *)
\* the multiplicative inverse modulo a prime m, by its defining property
InvTab(m) == [a \in 1..(m - 1) |-> CHOOSE b \in 1..(m - 1) : (a * b) % m = 1]
\* TLCEval: TLC keeps [x \in S |-> e] and {x \in S : e} lazy and would re-evaluate e on every use
InvP == TLCEval(InvTab(P))
InvN == TLCEval(InvTab(N))
FInv(a) == InvP[a % P]                 \* a is not a multiple of P
\* general modulus (not necessarily prime): 0 stands for "no inverse exists"
InvMod(a, m) == IF \E b \in 0..(m - 1) : ((a % m) * b) % m = 1 % m
                THEN CHOOSE b \in 0..(m - 1) : ((a % m) * b) % m = 1 % m
                ELSE -1

Rhs(x) == LET xr == x % P
              cube == (((xr * xr) % P) * xr) % P
              lin == ((A % P) * xr) % P
          IN (cube + lin + B) % P
OnCurveXY(x, y) == ((y % P) * (y % P)) % P = Rhs(x)
OnCurve(pt) == pt = Inf \/ OnCurveXY(pt[1], pt[2])

Affine == TLCEval({pt \in Fp \X Fp : OnCurveXY(pt[1], pt[2])})
Points == TLCEval({Inf} \cup Affine)
G == <<Gx, Gy>>

(* -------- the group law -------- *)
Canon(p) == IF p = Inf THEN Inf ELSE <<p[1] % P, p[2] % P>>
Neg(p) == IF p = Inf THEN Inf ELSE <<p[1] % P, (0 - p[2]) % P>>

Add(p, q) ==
  IF p = Inf THEN Canon(q)
  ELSE IF q = Inf THEN Canon(p)
  ELSE LET x1 == p[1] % P   y1 == p[2] % P
           x2 == q[1] % P   y2 == q[2] % P
       IN IF x1 = x2 /\ (y1 + y2) % P = 0
          THEN Inf                                            \* q = -p  (includes 2-torsion y = 0)
          ELSE LET l == IF x1 = x2
                        THEN (((3 * ((x1 * x1) % P) + A) % P) * FInv(2 * y1)) % P     \* tangent (q = p)
                        ELSE (((y2 - y1) % P) * FInv(x2 - x1)) % P                   \* chord
                   x3 == (l * l - x1 - x2) % P
                   y3 == (l * ((x1 - x3) % P) - y1) % P
               IN <<x3, y3>>
Sub(p, q) == Add(p, Neg(q))
Dbl(p) == Add(p, p)

\* k*Q as the property states it: Q added to itself k times; (-k)*Q = -(k*Q)
RECURSIVE Mul(_, _)
Mul(k, Q) == IF k = 0 THEN Inf
             ELSE IF k > 0 THEN Add(Mul(k - 1, Q), Q)
             ELSE Neg(Mul(0 - k, Q))

(* -------- the same through discrete logarithms -------- *)
GPow[k \in 0..(N - 1)] == IF k = 0 THEN Inf ELSE Add(GPow[k - 1], G)
GTab == TLCEval([k \in 0..(N - 1) |-> GPow[k]])
DLog == TLCEval([pt \in Points |-> CHOOSE k \in 0..(N - 1) : GTab[k] = pt])
MulT(k, Q) == GTab[((k % N) * DLog[Canon(Q)]) % N]
GMul(k) == GTab[k % N]

(* -------- recovering points from x -------- *)
\* << even-y point, odd-y point >> or << >> when x is not the abscissa of a point
YsFor(x) == {y \in Fp : OnCurveXY(x, y)}
PointsForX(x) == LET ys == YsFor(x) IN
                 IF ys = {} THEN <<>>
                 ELSE << <<x % P, CHOOSE y \in ys : y % 2 = 0>>, <<x % P, CHOOSE y \in ys : y % 2 = 1>> >>

(* ========================= lemmas (checked by TLC in MC_EC) ========================= *)
Lifts == {-1, 0, 1}
Lift(p, i, j) == IF p = Inf THEN Inf ELSE <<p[1] + i * P, p[2] + j * P>>

Cyclic        == /\ Cardinality(Points) = N
                 /\ {GTab[k] : k \in 0..(N - 1)} = Points
                 /\ G \in Affine
NonSingular   == (4 * ((((A * A) % P) * A) % P) + 27 * ((B * B) % P)) % P # 0
Closure(p, q) == Add(p, q) \in Points /\ Neg(p) \in Points
Commut(p, q)  == Add(p, q) = Add(q, p)
Assoc(p, q)   == \A r \in Points : Add(Add(p, q), r) = Add(p, Add(q, r))
Identity(p)   == Add(p, Inf) = p /\ Add(Inf, p) = p /\ Neg(Inf) = Inf
Inverse(p)    == Add(p, Neg(p)) = Inf /\ Add(Neg(p), p) = Inf /\ Neg(Neg(p)) = p /\ Sub(p, p) = Inf
\* the result is the same group element whichever integer representatives are presented
ReprInvariant(p, q) == \A i1 \in Lifts, j1 \in Lifts, i2 \in Lifts, j2 \in Lifts :
                          /\ Add(Lift(p, i1, j1), Lift(q, i2, j2)) = Add(p, q)
                          /\ Neg(Lift(p, i1, j1)) = Neg(p)
                          /\ OnCurve(Lift(p, i1, j1))
AddIsDLogAdd(p, q) == DLog[Add(p, q)] = (DLog[p] + DLog[q]) % N
KRange == (0 - 2 * N)..(2 * N)
MulIsIterated(p) == \A k \in KRange : Mul(k, p) = MulT(k, p)
MulStep(p)    == /\ MulT(0, p) = Inf
                 /\ \A k \in KRange : MulT(k + 1, p) = Add(MulT(k, p), p)
                 /\ \A k \in KRange : MulT(0 - k, p) = Neg(MulT(k, p))
OrderKills(p) == MulT(N, p) = Inf /\ MulT(2 * N, p) = Inf /\ MulT(0 - N, p) = Inf
                 /\ (p # Inf => \A k \in 1..(N - 1) : MulT(k, p) # Inf)
MulPeriodic(p) == \A k \in KRange : MulT(k, p) = MulT(k % N, p) /\ MulT(k + N, p) = MulT(k, p)
SmallK == (0 - 3)..3 \cup {N - 1, N, N + 1}
MulHomomorphic(p, q) ==
     /\ \A k \in SmallK : MulT(k, Add(p, q)) = Add(MulT(k, p), MulT(k, q))
     /\ \A j \in SmallK, k \in SmallK : /\ MulT(j + k, p) = Add(MulT(j, p), MulT(k, p))
                                        /\ MulT(j * k, p) = MulT(j, MulT(k, p))
\* the generator's blinded fixed-base multiplication: (k + b)*G + (-b)*G
BlindedGenMul(k, b) == Add(GMul(k + b), GMul(0 - b))
BlindingCancels(b) == \A k \in KRange : BlindedGenMul(k, b) = MulT(k, G)
PointsForXOk(x) == LET r == PointsForX(x) IN
     /\ Cardinality(YsFor(x)) \in {0, 2}
     /\ r # <<>> => /\ r[1] \in Affine /\ r[2] \in Affine /\ r[1] # r[2]
                    /\ r[1][1] = x /\ r[2][1] = x /\ r[1][2] % 2 = 0 /\ r[2][2] % 2 = 1
                    /\ r[2] = Neg(r[1])
                    /\ {pt \in Affine : pt[1] = x} = {r[1], r[2]}
     /\ r = <<>> => {pt \in Affine : pt[1] = x} = {}
InvTabOk == /\ \A a \in 1..(P - 1) : (a * InvP[a]) % P = 1
            /\ \A a \in 1..(N - 1) : (a * InvN[a]) % N = 1
=============================================================================
