--------------------------------- MODULE EC ---------------------------------
(* The group of an elliptic curve  y^2 = x^3 + A*x + B  over GF(P) in short   *)
(* Weierstrass form, written from the textbook definition (SEC 1, section     *)
(* 2.2.1; Silverman III.2.3) - not from pycoin's code.  P is an odd prime,    *)
(* (Gx, Gy) a point of prime order N that generates the whole group.          *)
(*                                                                            *)
(* A point is the empty tuple (the point at infinity, the identity) or a      *)
(* pair <<x, y>>.  Coordinates denote elements of GF(P): Add/Neg accept ANY   *)
(* integer representative (x + i*P) and return the canonical one in 0..P-1;   *)
(* lemma ReprInvariant says the result does not depend on the representative. *)
(*                                                                            *)
(* Scalar multiplication has two definitions:                                 *)
(*   Mul(k, Q)   "Q added to itself k times" (what the property states),      *)
(*   SMul(k, Q)  the same by halving k (k*Q = 2*((k div 2)*Q) + (k mod 2)*Q), *)
(* proved equal by TLC for k in -2N..2N on every curve of MC_EC_*.cfg (lemma  *)
(* MulIsIterated; inductively by MulStep on the larger curves); the other     *)
(* specs (ECDSA, ECRegs, the replay tables, the trace specs) use SMul, which  *)
(* costs log k additions.                                                     *)
(* TLC notes: {x \in S : p} stays lazy in TLC (re-filtered at every use), so  *)
(* Affine/Points are wrapped as {x : x \in ..} which TLC enumerates once;     *)
(* definitions that depend on a RECURSIVE operator or on TLCEval are not      *)
(* cached by TLC at all, so none of the sets below depends on Mul/SMul.       *)
(* All products are reduced early so that every intermediate stays below      *)
(* 2^31 for P < 46340 (TLC integers are 32-bit).                              *)
EXTENDS Integers, Sequences, FiniteSets

CONSTANTS P, A, B, Gx, Gy, N

Inf == <<>>
Fp  == 0..(P - 1)

(* -------- field arithmetic -------- *)
\* the multiplicative inverse modulo a prime m, by its defining property
InvTab(m) == [aE \in 1..(m - 1) |-> CHOOSE bE \in 1..(m - 1) : (aE * bE) % m = 1]
InvP == InvTab(P)
InvN == InvTab(N)
FInv(a) == InvP[a % P]                 \* a is not a multiple of P
\* general modulus (not necessarily prime): 0 stands for "no inverse exists"
InvMod(a, m) == IF \E b \in 0..(m - 1) : ((a % m) * b) % m = 1 % m
                THEN CHOOSE b \in 0..(m - 1) : ((a % m) * b) % m = 1 % m
                ELSE -1

Rhs(x) == LET xr == x % P
              cube == (((xr * xr) % P) * xr) % P
              lin == ((A % P) * xr) % P
          IN (cube + lin + B) % P
OnCurveXY(x, y) == ((y % P) * (y % P)) % P = Rhs(x)
OnCurve(pt) == pt = Inf \/ OnCurveXY(pt[1], pt[2])

\* (bound variables here have names no extending module uses for a VARIABLE: TLC would otherwise treat
\*  the definition as state-dependent and stop caching it)
Affine == {ptE : ptE \in {xyE \in Fp \X Fp : OnCurveXY(xyE[1], xyE[2])}}
Points == {ptE : ptE \in {Inf} \cup Affine}
G == <<Gx, Gy>>

(* -------- the group law -------- *)
Canon(p) == IF p = Inf THEN Inf ELSE <<p[1] % P, p[2] % P>>
Neg(p) == IF p = Inf THEN Inf ELSE <<p[1] % P, (0 - p[2]) % P>>

Add(p, q) ==
  IF p = Inf THEN Canon(q)
  ELSE IF q = Inf THEN Canon(p)
  ELSE LET x1 == p[1] % P   y1 == p[2] % P
           x2 == q[1] % P   y2 == q[2] % P
       IN IF x1 = x2 /\ (y1 + y2) % P = 0
          THEN Inf                                            \* q = -p  (includes 2-torsion y = 0)
          ELSE LET l == IF x1 = x2
                        THEN (((3 * ((x1 * x1) % P) + A) % P) * FInv(2 * y1)) % P     \* tangent (q = p)
                        ELSE (((y2 - y1) % P) * FInv(x2 - x1)) % P                   \* chord
                   x3 == (l * l - x1 - x2) % P
                   y3 == (l * ((x1 - x3) % P) - y1) % P
               IN <<x3, y3>>
Sub(p, q) == Add(p, Neg(q))
Dbl(p) == Add(p, p)

\* k*Q as the property states it: Q added to itself k times; (-k)*Q = -(k*Q)
RECURSIVE Mul(_, _)
Mul(k, Q) == IF k = 0 THEN Inf
             ELSE IF k > 0 THEN Add(Mul(k - 1, Q), Q)
             ELSE Neg(Mul(0 - k, Q))

(* -------- the same by halving the scalar -------- *)
RECURSIVE SMul(_, _)
SMul(k, Q) == IF k = 0 THEN Inf
              ELSE IF k < 0 THEN Neg(SMul(0 - k, Q))
              ELSE LET h == SMul(k \div 2, Q)
                       d == Add(h, h)
                   IN IF k % 2 = 1 THEN Add(d, Q) ELSE d
GMul(k) == SMul(k % N, G)
\* the points in the order Inf, G, 2G, ... (N-1)G
PtSeq == [iE \in 1..N |-> SMul(iE - 1, G)]

(* -------- recovering points from x -------- *)
\* << even-y point, odd-y point >> or << >> when x is not the abscissa of a point
YsFor(x) == {y \in Fp : OnCurveXY(x, y)}
PointsForX(x) == LET ys == YsFor(x) IN
                 IF ys = {} THEN <<>>
                 ELSE << <<x % P, CHOOSE y \in ys : y % 2 = 0>>, <<x % P, CHOOSE y \in ys : y % 2 = 1>> >>

(* ========================= lemmas (checked by TLC in MC_EC) ========================= *)
Lifts == {-1, 0, 1}
Lift(p, i, j) == IF p = Inf THEN Inf ELSE <<p[1] + i * P, p[2] + j * P>>

\* (lemmas that are expensive take a parameter: TLC evaluates every constant definition without
\*  parameters once at start-up, before its cache of constants is in place, which is very slow)
Cyclic(n)     == /\ Cardinality(Points) = n
                 /\ {SMul(k, G) : k \in 0..(n - 1)} = Points
                 /\ G \in Affine
NonSingular   == (4 * ((((A * A) % P) * A) % P) + 27 * ((B * B) % P)) % P # 0
Closure(p, q) == Add(p, q) \in Points /\ Neg(p) \in Points
Commut(p, q)  == Add(p, q) = Add(q, p)
Assoc(p, q)   == \A r \in Points : Add(Add(p, q), r) = Add(p, Add(q, r))
Identity(p)   == Add(p, Inf) = p /\ Add(Inf, p) = p /\ Neg(Inf) = Inf
Inverse(p)    == Add(p, Neg(p)) = Inf /\ Add(Neg(p), p) = Inf /\ Neg(Neg(p)) = p /\ Sub(p, p) = Inf
\* the result is the same group element whichever integer representatives are presented:
\* every lift of p with q fixed, every lift of q with p fixed, and both lifted together
ReprInvariant(p, q) == \A i \in Lifts, j \in Lifts :
                          /\ Add(Lift(p, i, j), q) = Add(p, q)
                          /\ Add(p, Lift(q, i, j)) = Add(p, q)
                          /\ Add(Lift(p, i, j), Lift(q, j, i)) = Add(p, q)
                          /\ Neg(Lift(p, i, j)) = Neg(p)
                          /\ OnCurve(Lift(p, i, j))
KRange == (0 - 2 * N)..(2 * N)
MulIsIterated(p) == \A k \in KRange : Mul(k, p) = SMul(k, p)
MulStep(p)    == /\ SMul(0, p) = Inf
                 /\ \A k \in KRange : SMul(k + 1, p) = Add(SMul(k, p), p)
                 /\ \A k \in KRange : SMul(0 - k, p) = Neg(SMul(k, p))
OrderKills(p) == SMul(N, p) = Inf /\ SMul(2 * N, p) = Inf /\ SMul(0 - N, p) = Inf
                 /\ (p # Inf => \A k \in 1..(N - 1) : SMul(k, p) # Inf)
MulPeriodic(p) == \A k \in KRange : SMul(k, p) = SMul(k % N, p) /\ SMul(k + N, p) = SMul(k, p)
SmallK == (0 - 3)..3 \cup {N - 1, N, N + 1}
MulHomomorphic(p, q) ==
     /\ \A k \in {0 - 1, 2, 3} : SMul(k, Add(p, q)) = Add(SMul(k, p), SMul(k, q))
     /\ \A j \in SmallK, k \in SmallK : /\ SMul(j + k, p) = Add(SMul(j, p), SMul(k, p))
                                        /\ SMul(j * k, p) = SMul(j, SMul(k, p))
\* the generator's blinded fixed-base multiplication: (k + b)*G + (-b)*G
BlindedGenMul(k, b) == Add(GMul(k + b), GMul(0 - b))
BlindingCancels(b) == \A k \in KRange : BlindedGenMul(k, b) = SMul(k, G)
\* ---- scalar multiplication is defined for EVERY integer k, whatever the bit width of N ----
\* Mul / SMul above take any integer.  An implementation that multiplies the generator from a table of W
\* doublings G, 2G, 4G, .. 2^(W-1)G (the shape of pycoin's Generator.raw_mul: reduce k mod N, then add the table
\* entries selected by the low W bits) computes ((k mod N) mod 2^W) * G.  It is the group law exactly when the table
\* covers every bit a reduced scalar can have:  2^W >= N.  A fixed W (256) is therefore wrong on every curve whose
\* order is wider - nothing in the property restricts N to 256 bits.
RECURSIVE TwoTo(_)
TwoTo(e) == IF e = 0 THEN 1 ELSE 2 * TwoTo(e - 1)
RECURSIVE TableSum(_, _, _)
TableSum(e, i, W) == IF i = W THEN Inf
                     ELSE Add(IF (e \div TwoTo(i)) % 2 = 1 THEN SMul(TwoTo(i), G) ELSE Inf, TableSum(e, i + 1, W))
FixedBaseMul(k, W) == TableSum(k % N, 0, W)
TableWidthRule(W) == (\A k \in KRange : FixedBaseMul(k, W) = Mul(k, G)) <=> (TwoTo(W) >= N)
TableWidthRuleAll(n) == \A W \in 0..12 : TwoTo(W) < 8 * n => TableWidthRule(W)

PointsForXOk(x) == LET r == PointsForX(x) IN
     /\ Cardinality(YsFor(x)) \in {0, 2}
     /\ r # <<>> => /\ r[1] \in Affine /\ r[2] \in Affine /\ r[1] # r[2]
                    /\ r[1][1] = x /\ r[2][1] = x /\ r[1][2] % 2 = 0 /\ r[2][2] % 2 = 1
                    /\ r[2] = Neg(r[1])
                    /\ {pt \in Affine : pt[1] = x} = {r[1], r[2]}
     /\ r = <<>> => {pt \in Affine : pt[1] = x} = {}
InvTabOk(p, n) == /\ \A a \in 1..(p - 1) : (a * InvP[a]) % p = 1
                  /\ \A a \in 1..(n - 1) : (a * InvN[a]) % n = 1
=============================================================================
