------------------------------- MODULE TxGrid -------------------------------
(* The case space of the transaction properties (C07, C20): boundary values  *)
(* of every field and the families of abstract transactions TLC enumerates.  *)
(* Everything here is data for TxWire/TxParse/TxCheck; nothing is computed   *)
(* from the implementation.                                                  *)
EXTENDS Bytes

CONSTANT Tier           \* "q" (quick) or "t" (thorough): size of the families

\* ---------------------------------------------------------------- field values
LENS == {0, 1, 252, 253, 65535, 65536}        \* lengths on both sides of each compact-size boundary
LENS3 == {0, 1, 253}

Zero32N == <<0, 0>>
Max32N  == <<65535, 65535>>
NUM32 == {Zero32N, Max32N}
NUM32X == {Zero32N, Max32N, <<1, 0>>, <<0, 1>>, <<65535, 32767>>, <<0, 32768>>}   \* 0, 2^32-1, 1, 2^16, 2^31-1, 2^31

A0    == <<0, 0, 0, 0>>
A1    == <<1, 0, 0, 0>>
A32m  == <<65535, 65535, 0, 0>>              \* 2^32-1
A32   == <<0, 0, 1, 0>>                      \* 2^32
A63m  == <<65535, 65535, 65535, 32767>>      \* 2^63-1
A63   == <<0, 0, 0, 32768>>                  \* 2^63
A64m  == <<65535, 65535, 65535, 65535>>      \* 2^64-1
AMTS  == {A0, A1, A32m, A32, A63m, A63, A64m}
AmtSeq == <<A0, A1, A32m, A32, A63m, A63, A64m>>

Hash(k) == Run(k, 32)                         \* a 32-byte outpoint hash filled with k
\* a hash with structure (first byte differs): catches a reversed hash
HashX(k) == Cat(Run(k, 1), Run(255 - k, 31))

Script(fill, n) == Run(fill, n)
\* scripts whose first bytes look like wire-format tags (0x00 marker, 0xfd.. compact-size tags)
ScriptT(n) == IF n = 0 THEN <<>> ELSE IF n = 1 THEN Run(0, 1) ELSE Cat(Run(0, 1), Run(253, n - 1))
Item(n) == Run(238, n)                        \* witness item of n bytes of 0xee

WITS == {<<>>, <<Item(0)>>, <<Item(0), Item(0)>>, <<Item(0), Item(1)>>, <<Item(1), Item(0)>>,
         <<Item(253), Item(65536)>>}
        \cup {<<Item(l)>> : l \in LENS \ {0}}
WITS4 == {<<>>, <<Item(0)>>, <<Item(1)>>, <<Item(253), Item(0)>>}
WITS2 == {<<>>, <<Item(0)>>}

In(h, x, s, q, w) == [hash |-> h, index |-> x, script |-> s, seq |-> q, wit |-> w]
Out(a, s) == [amount |-> a, script |-> s]
MkTx(v, ins, outs, l) == [version |-> v, ins |-> ins, outs |-> outs, lock |-> l]

V1 == <<1, 0>>
V2 == <<2, 0>>

\* ---------------------------------------------------------------- families of transactions
\* A1: one input; script length x witness stack x (no output | amount x output script length)
OutsA == {<<>>} \cup {<<Out(a, Script(253, l))>> : a \in AMTS, l \in (IF Tier = "q" THEN LENS3 \cup {65536} ELSE LENS)}
FamA1 == {MkTx(V1, <<In(HashX(17), Zero32N, ScriptT(l), Max32N, w)>>, outs, Zero32N) :
            l \in LENS, w \in WITS, outs \in OutsA}

\* A2: the 32-bit fields: version x lock time x outpoint index x sequence
FamA2 == LET N == IF Tier = "q" THEN {Zero32N, Max32N, <<0, 32768>>} ELSE NUM32X IN
         {MkTx(v, <<In(Hash(34), x, Script(81, 1), q, w)>>, <<Out(A1, <<>>)>>, l) :
            v \in N, l \in N, x \in N, q \in N, w \in WITS2}

\* B: two and three inputs mixing witness and non-witness inputs, 0..3 outputs
PerIn == IF Tier = "q" THEN {<<l, w>> : l \in {0, 253}, w \in {<<>>, <<Item(0)>>, <<Item(1)>>}}
                       ELSE {<<l, w>> : l \in LENS3, w \in WITS4}
OutLists == { <<>>,
              <<Out(A63, Script(172, 1))>>,
              <<Out(A0, <<>>), Out(A64m, Script(172, 253))>>,
              <<Out(A32, Script(1, 252)), Out(A63m, <<>>), Out(A32m, Script(2, 65535))>>,
              <<Out(A1, Script(0, 3)), Out(A1, Script(0, 3)), Out(A1, Script(0, 3))>> }
InB(k, p) == In(Hash(k), <<k, 0>>, Script(100 + k, p[1]), IF k = 2 THEN Zero32N ELSE Max32N, p[2])
FamB2 == {MkTx(V2, <<InB(1, p1), InB(2, p2)>>, outs, Max32N) : p1 \in PerIn, p2 \in PerIn, outs \in OutLists}
FamB3 == {MkTx(V1, <<InB(1, p1), InB(2, p2), InB(3, p3)>>, outs, Zero32N) :
            p1 \in PerIn, p2 \in PerIn, p3 \in PerIn,
            outs \in (IF Tier = "q" THEN {<<>>, <<Out(A63, Script(172, 1))>>} ELSE OutLists)}

\* B': every ordered pair / triple of amounts (1 input)
FamAm == LET one == <<In(Hash(51), <<7, 0>>, <<>>, Max32N, <<>>)>> IN
         {MkTx(V1, one, <<Out(a, <<>>), Out(b, Script(9, 1))>>, Zero32N) : a \in AMTS, b \in AMTS}
         \cup (IF Tier = "q" THEN {} ELSE
               {MkTx(V1, one, <<Out(a, <<>>), Out(b, Script(9, 1)), Out(c, <<>>)>>, Zero32N) : a \in AMTS, b \in AMTS, c \in AMTS})

\* C: list counts crossing 0xfc / 0xfd: inputs, outputs, witness items
ManyIns(n, wlast) == [i \in 1..n |-> In(Hash(i % 256), <<i, 0>>, IF i % 2 = 0 THEN <<>> ELSE Script(i % 256, 1),
                                        <<i, i>>, IF i = n THEN wlast ELSE <<>>)]
ManyOuts(n) == [j \in 1..n |-> Out(<<j, 0, j, 0>>, IF j % 3 = 0 THEN Script(j % 256, 2) ELSE <<>>)]
ManyItems(n) == [k \in 1..n |-> Item(k % 2)]
CNT == IF Tier = "q" THEN {252, 253} ELSE {252, 253, 254, 300}
FamC == {MkTx(V1, ManyIns(n, w), ManyOuts(m), Max32N) : n \in CNT, m \in (IF Tier = "q" THEN {0, 253} ELSE {0, 1} \cup CNT),
                                                          w \in {<<>>, <<Item(2)>>}}
        \cup {MkTx(V2, ManyIns(2, ManyItems(n)), ManyOuts(1), Zero32N) : n \in CNT}
        \cup {MkTx(V2, ManyIns(1, <<>>), ManyOuts(n), Zero32N) : n \in CNT}

\* D: one very large script / witness item (beyond 65,536)
FamD == {MkTx(V1, <<In(Hash(1), Zero32N, Script(7, 1000000), Max32N, <<>>)>>, <<Out(A1, <<>>)>>, Zero32N),
         MkTx(V1, <<In(Hash(1), Zero32N, <<>>, Max32N, <<Item(1000000)>>)>>, <<Out(A1, Script(8, 70000))>>, Zero32N)}

\* K: coinbase-shaped transactions (null outpoint: hash 0, index 2^32-1), with and without the 32-byte
\* witness reserved value of BIP141, and the two half-null outpoints.  Ids are defined for them like for
\* any other transaction (the all-zero wtxid of BIP141 is the merkle LEAF a block uses, not Tx's wtxid).
FamK == {MkTx(v, <<In(h, x, Script(3, l), q, w)>>, outs, Zero32N) :
            v \in {V1, V2}, h \in {Hash(0), Hash(34)}, x \in {Max32N, Zero32N}, l \in {0, 2, 100}, q \in {Max32N, Zero32N},
            w \in {<<>>, <<Item(32)>>, <<Item(0)>>},
            outs \in {<<Out(A32, Script(118, 1))>>, <<Out(A32, Script(118, 1)), Out(A0, Script(106, 38))>>}}
        \cup {MkTx(V1, <<In(Hash(0), Max32N, Script(3, 2), Max32N, <<Item(32)>>), InB(2, <<1, <<>>>>)>>, <<Out(A1, <<>>)>>, Zero32N)}

AllTx == FamA1 \cup FamA2 \cup FamB2 \cup FamB3 \cup FamAm \cup FamC \cup FamD \cup FamK

\* L: transactions put into Litecoin's MWEB-flagged form (flag 0x08 without, 0x09 with witness data):
\* mixes of witness / non-witness inputs, every witness stack shape, 32-bit field boundaries, 252/253 stacks
LtcBase == FamB2 \cup FamA2
           \cup {t \in FamA1 : Size(t.ins[1].script) = 1 /\ t.outs = <<>>}
           \cup {t \in FamC : t.outs = <<>>}

\* E: the unspents extension: one spent output per input
UnspentLists(n) ==
  LET U == {Out(A1, <<>>), Out(A64m, Script(118, 253)), Out(A32, Script(118, 65536)), Out(A63, Script(0, 1))}
      Z == Out(A0, Script(5, 2)) IN
  IF n = 1 THEN {<<u>> : u \in U \cup {Z}}
  ELSE IF n = 2 THEN {<<u, v>> : u \in U, v \in U} \cup {<<Z, Out(A1, <<>>)>>, <<Out(A1, <<>>), Z>>}
  ELSE {<<Out(A1, <<>>), Out(A64m, Script(118, 253)), Out(A32, Script(118, 65536))>>}
ExtBase == {t \in FamB2 \cup FamA2 : Len(t.outs) <= 1 /\ t.version # Max32N} \cup
           {MkTx(V1, <<InB(1, <<0, <<>>>>), InB(2, <<1, <<Item(1)>>>>), InB(3, <<0, <<>>>>)>>, <<Out(A1, <<>>)>>, Zero32N)}
=============================================================================
