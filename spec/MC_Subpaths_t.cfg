CONSTANTS
  Tokens <- TokT
  MaxTok = 5
  MaxPaths = 60
SPECIFICATION Spec
INVARIANTS MachineIsFold MachineIsDenotation SpellingIrrelevant CountLemma Shape BadIsSticky
ACTION_CONSTRAINT Emit
CHECK_DEADLOCK FALSE
