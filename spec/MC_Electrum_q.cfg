CONSTANTS Ns = {0, 1, 9, 10, 2147483647}  Cs = {0, 1}  MaxDepth = 2
SPECIFICATION SpecE
INVARIANTS Commutes HashedLayout KeyIsSum DecOk
ACTION_CONSTRAINT Emit
CHECK_DEADLOCK FALSE
