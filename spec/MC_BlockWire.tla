----------------------------- MODULE MC_BlockWire -----------------------------
(* Lemmas about BlockWire.tla on a grid of headers and blocks, and the export *)
(* of every case with the outcome the rule book demands (replayed on          *)
(* pycoin.block.Block by harness/vf/props/c14.py).  One TLC state per case.   *)
EXTENDS BlockWire, TLC, Json

CONSTANTS FULLGRID,     \* header fields: full product of the boundary values (TRUE) or one field at a time
          SIZES,        \* block sizes (numbers of transactions): every witness pattern x every root kind
          BIG,          \* big block sizes (around the 1-byte/3-byte count boundary): honest and alien root only
          EMIT
VARIABLE c

\* ---------------------------------------------------------------- header cases
Asc(from) == Lit([i \in 1..32 |-> from + i - 1])
Pat == << Asc(0), Asc(100), Run(0, 32), Run(255, 32), Cat(Lit(<<1>>), Run(0, 31)), Cat(Run(0, 31), Lit(<<128>>)) >>
Vals == { <<0, 0>>, <<1, 0>>, <<255, 0>>, <<256, 0>>, <<65535, 0>>, <<0, 1>>, <<65535, 32767>>, <<0, 32768>>,
          <<65535, 65535>>, <<513, 1027>> }
GridVals == { <<0, 0>>, <<65535, 32767>>, <<0, 32768>>, <<65535, 65535>>, <<513, 1027>> }
Base == [version |-> <<1, 0>>, prev |-> B(Pat[1]), root |-> B(Pat[2]),
         time |-> <<24301, 19739>>, bits |-> <<65535, 7424>>, nonce |-> <<4660, 31787>>]
OneAtATime == { [Base EXCEPT !.version = v] : v \in Vals } \cup { [Base EXCEPT !.time = v] : v \in Vals }
         \cup { [Base EXCEPT !.bits = v] : v \in Vals } \cup { [Base EXCEPT !.nonce = v] : v \in Vals }
         \cup { [Base EXCEPT !.prev = B(Pat[i]), !.root = B(Pat[j])] : i, j \in 1..Len(Pat) }
Grid == { [version |-> a, prev |-> B(Pat[i]), root |-> B(Pat[j]), time |-> b, bits |-> d, nonce |-> e] :
            a \in GridVals, b \in GridVals, d \in GridVals, e \in GridVals, i \in {1, 4}, j \in {2, 3, 6} }
Headers == IF FULLGRID THEN Grid \cup OneAtATime ELSE OneAtATime
OtherNonce(h) == IF h.nonce = <<65535, 65535>> THEN <<0, 0>> ELSE <<65535, 65535>>

\* ---------------------------------------------------------------- block cases
\* transaction number k (distinct k, distinct transactions); sw: carries witness data
T(k, sw) ==
  [version |-> <<2, 0>>,
   ins |-> << [hash |-> Run(k % 251, 32), index |-> <<k, 0>>, script |-> <<>>, seq |-> <<65534, 65535>>,
               wit |-> IF sw THEN << Lit(<<k % 256, 7>>) >> ELSE <<>>] >>,
   outs |-> << [amount |-> <<k, 0, 1, 0>>, script |-> Lit(<<81>>)] >>,
   lock |-> <<k, 0>>]
\* which transactions carry a witness: none / the second / every one but the first
Txs(n, sw) == [k \in 1..n |-> T(k, CASE sw = "none" -> FALSE [] sw = "second" -> k = 2 [] sw = "all" -> k > 1)]
WRoot(txs) == Root([i \in 1..Len(txs) |-> WTxId(txs[i])])
RECURSIVE RootNoDup(_)
RootNoDup(row) ==
  IF Len(row) = 1 THEN row[1]
  ELSE LET m == Len(row) IN
       RootNoDup([k \in 1..((m + 1) \div 2) |-> IF 2*k <= m THEN Node(row[2*k - 1], row[2*k]) ELSE row[2*k - 1]])
Ids(txs) == [i \in 1..Len(txs) |-> TxId(txs[i])]
\* what the header claims as merkle root
RootOf(kind, txs) ==
  LET n == Len(txs) ids == Ids(txs) IN
  CASE kind = "good" -> TxRoot(txs)
    [] kind = "alien" -> Alien(1)
    [] kind = "flip0" -> Flip(TxRoot(txs), 0)
    [] kind = "flip255" -> Flip(TxRoot(txs), 255)
    [] kind = "swap" -> Root([ids EXCEPT ![1] = ids[2], ![2] = ids[1]])
    [] kind = "swaplast" -> Root([ids EXCEPT ![n - 1] = ids[n], ![n] = ids[n - 1]])
    [] kind = "short" -> Root(SubSeq(ids, 1, n - 1))
    [] kind = "long" -> Root(Append(ids, TxId(T(n + 1, FALSE))))
    [] kind = "first" -> ids[1]
    [] kind = "nodup" -> RootNoDup(ids)
    [] kind = "revpair" -> RootF("h256d", [i \in 1..n |-> ids[n + 1 - i]])
    [] kind = "wtxid" -> WRoot(txs)
    [] kind = "single" -> RootF("h256", ids)
RootKinds(n, sw) == {"good", "alien", "flip0", "flip255", "long"}
                    \cup (IF n >= 2 THEN {"swap", "swaplast", "short", "first", "revpair", "single"} ELSE {})
                    \cup (IF Pow2(Height(n)) # n THEN {"nodup"} ELSE {})      \* some level is odd
                    \cup (IF sw # "none" /\ n >= 2 THEN {"wtxid"} ELSE {})
\* the duplication quirk: the block repeats its last transaction, the header carries the root of the unrepeated list
\* (Merkle.DupQuirk: the last c = 2^k transactions form a complete subtree alone at an odd position)
Quirks == { t \in SIZES \X {1, 2, 4} : t[1] < 40 /\ t[1] % t[2] = 0 /\ (t[1] \div t[2]) % 2 = 1 /\ t[1] \div t[2] > 1 }
DupTail(n, cnt) == Txs(n, "none") \o SubSeq(Txs(n, "none"), n - cnt + 1, n)
AllRootKinds == {"good", "alien", "flip0", "flip255", "long", "swap", "swaplast", "short", "first", "revpair",
                 "single", "nodup", "wtxid"}
BlockKeys == { t \in SIZES \X {"none", "second", "all"} \X AllRootKinds :
                 t[3] \in RootKinds(t[1], t[2]) /\ (t[2] = "none" \/ t[1] >= 2) }
             \cup (BIG \X {"none"} \X {"good", "alien"}) \cup (BIG \X {"all"} \X {"good", "wtxid"})
BlockCases == { [kind |-> "block", n |-> t[1], sw |-> t[2], rk |-> t[3], txs |-> Txs(t[1], t[2]),
                 h |-> [Base EXCEPT !.root = RootOf(t[3], Txs(t[1], t[2]))]] : t \in BlockKeys }
       \cup { [kind |-> "block", n |-> t[1] + t[2], sw |-> "none", rk |-> "dupquirk", txs |-> DupTail(t[1], t[2]),
               h |-> [Base EXCEPT !.root = TxRoot(Txs(t[1], "none"))]] : t \in Quirks }
\* a transaction with many inputs inside a block: the input COUNT crosses the one-byte compact-size boundary
\* (252 | 253) - in a block every transaction is read by the network's own transaction parser (Litecoin's differs)
TFat(k, nin, sw) ==
  [T(k, sw) EXCEPT !.ins = [j \in 1..nin |-> [hash |-> Run((k + j) % 251, 32), index |-> <<j, 0>>, script |-> <<>>,
                                              seq |-> <<65534, 65535>>,
                                              wit |-> IF sw /\ j = nin THEN << Lit(<<7>>) >> ELSE <<>>]]]
FatTxs(nin, sw) == [Txs(3, sw) EXCEPT ![2] = TFat(2, nin, sw = "all")]
FatCases == { [kind |-> "block", n |-> 3, sw |-> t[2], rk |-> t[3], txs |-> FatTxs(t[1], t[2]),
               h |-> [Base EXCEPT !.root = RootOf(t[3], FatTxs(t[1], t[2]))]] :
               t \in {252, 253} \X {"none", "all"} \X {"good", "alien"} }
HeaderCases == { [kind |-> "header", h |-> h] : h \in Headers }
\* one more record: the process configurations (BlockWire.LoadOrders) the message cases are to be executed in
Cases == HeaderCases \cup BlockCases \cup FatCases \cup {[kind |-> "config"]}

\* ---------------------------------------------------------------- lemmas
HeaderImage == c.kind = "header" =>
  LET s == Flat(HeaderParts(c.h)) p == ParseHeader(s) IN
  /\ IsHeader(c.h) /\ AllLiteral(HeaderParts(c.h)) /\ WellFormed(s)
  /\ Size(s) = 80
  /\ p.ok /\ p.h = c.h /\ p.rest = <<>>                               \* round trip
  /\ Expand(Take(s, 4)) = Expand(LE16(c.h.version))                   \* offsets
  /\ Take(Drop(s, 4), 32) = c.h.prev.v /\ Take(Drop(s, 36), 32) = c.h.root.v
  /\ Expand(Drop(s, 76)) = Expand(LE16(c.h.nonce))
  /\ \A k \in {0, 1, 4, 36, 79} : ~ParseHeader(Take(s, k)).ok         \* a truncated header is no header
  /\ BlockId(c.h) # BlockId([c.h EXCEPT !.nonce = OtherNonce(c.h)])   \* the id commits to every field
  /\ (c.h.prev # c.h.root => BlockId(c.h) # BlockId([c.h EXCEPT !.prev = c.h.root, !.root = c.h.prev]))
BlockImage == c.kind = "block" =>
  /\ \A i \in 1..Len(c.txs) : IsTx(c.txs[i])
  /\ Len(BlockParts(c.h, c.txs)) = 5 + Len(c.txs)
  \* the rule: accepted iff the header's root is the root of the txids; of the roots generated here only
  \* the honest one and the duplication quirk qualify
  /\ (MerkleOk(c.h, c.txs) <=> c.rk \in {"good", "dupquirk"})
  /\ (c.rk = "wtxid" => HasWitness(c.txs[2]) /\ WTxId(c.txs[2]) # TxId(c.txs[2]))
  /\ BlockMsgParts(c.h, c.txs) = BlockParts(c.h, c.txs)               \* the "block" message carries exactly the image
BlockHeadReadBack == (c.kind = "block" /\ c.rk = "good") =>
  \* with the 32-byte terms replaced by literals the head of the block parses back to header and count
  LET lit == [c.h EXCEPT !.root = B(Pat[2])]
      s == Flat(BlockParts(lit, c.txs))
      p == ParseBlockHead(s)
  IN p.ok /\ p.h = lit /\ p.count = Len(c.txs)
     /\ p.body = CatAll([i \in 1..Len(c.txs) |-> Wire(c.txs[i])])

\* ---------------------------------------------------------------- export
Out == IF c.kind = "config"
       THEN [k |-> "config", orders |-> LoadOrders, driven |-> Driven]
       ELSE IF c.kind = "header"
       THEN [k |-> "header", h |-> c.h, image |-> HeaderParts(c.h), id |-> IdDisplay(c.h), prev |-> PrevDisplay(c.h),
             nonce2 |-> OtherNonce(c.h), id2 |-> IdDisplay([c.h EXCEPT !.nonce = OtherNonce(c.h)])]
       ELSE [k |-> "block", n |-> c.n, sw |-> c.sw, rk |-> c.rk, h |-> c.h,
             image |-> BlockParts(c.h, c.txs), header_image |-> HeaderParts(c.h),
             accept |-> MerkleOk(c.h, c.txs), id |-> IdDisplay(c.h),
             txids |-> Ids(c.txs), wtxids |-> [i \in 1..Len(c.txs) |-> WTxId(c.txs[i])],
             txlens |-> [i \in 1..Len(c.txs) |-> Size(Wire(c.txs[i]))],
             honest_root |-> TxRoot(c.txs)]
Init == c \in Cases /\ (EMIT => PrintT(ToJson(Out)))
Next == FALSE /\ c' = c
Spec == Init /\ [][Next]_c
=============================================================================
