CONSTANT U = "q"
SPECIFICATION TSpec
INVARIANT TLemmas
CHECK_DEADLOCK FALSE
