------------------------------ MODULE MC_ECDSA ------------------------------
(* TLC checks the lemmas of ECDSA.tla on the toy curve named by the constants.*)
(* One initial state per (a, z): a plays the private key d in the signing     *)
(* lemmas (all nonces k) and the signature component r in the recovery lemmas *)
(* (all s).                                                                   *)
EXTENDS ECDSA

CONSTANTS ZSet,     \* hashes for SignSound / RecoverSound / RecoverComplete
          ZDeep     \* hashes for VerifyIffRecoverable (enumerates all keys: N^3 verifications per hash)
VARIABLES va, vz, ph
vars == <<va, vz, ph>>

Init == va \in 1..(N - 1) /\ vz \in ZSet \cup ZDeep /\ ph = 0
Next == ph = 0 /\ ph' = 1 /\ UNCHANGED <<va, vz>>
Spec == Init /\ [][Next]_vars

OutOfRange == {0 - 1, 0, N, N + 1, 2 * N - 1}
Lemmas ==
  /\ vz \in ZSet => /\ \A k \in 1..(N - 1) : SignSound(va, vz, k) /\ RecoverComplete(va, vz, k)
                    /\ \A s \in 1..(N - 1) : RecoverSound(vz, va, s)
                    /\ \A bad \in OutOfRange, ok \in {1, N - 1} :
                          /\ RangeRejected(PubKey(va), vz, bad, ok) /\ RangeRejected(PubKey(va), vz, ok, bad)
                          /\ ~Verify(PubKey(va), vz, bad, ok) /\ ~Verify(PubKey(va), vz, ok, bad)
                    /\ \A s \in {1, 2, N - 1} : ZPeriodic(PubKey(va), vz, va, s)
                    /\ \A s \in 1..(N - 1), r \in {1, 2, N - 1} : InfinityRejected(va, r, s)
  /\ vz \in ZDeep => /\ \A s \in 1..(N - 1) : VerifyIffRecoverable(vz, va, s)
                     /\ ValidAreNonceImages(va, vz)
\* the retry path: from every nonce the chain k, NextNonce(k), .. reaches a usable signature within N-1 steps
RECURSIVE Reaches(_, _, _, _)
Reaches(d, z, k, fuel) == SigUsable(SigOf(d, z, k)) \/ (fuel > 0 /\ Reaches(d, z, NextNonce(k), fuel - 1))
RetryTerminates == vz \in ZSet => \A k \in 1..(N - 1) : Reaches(va, vz, k, N - 1)
ECDSALemmas == ph = 1 => Lemmas /\ RetryTerminates
=============================================================================
