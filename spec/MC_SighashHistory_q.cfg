CONSTANTS MaxLen = 2  MinEdits = 0  MaxEdits = 0
          CoinSet = {"BTC", "BTG"}  SvSet = {"base", "witness_v0"}  IdxSet = {1, 2}
          ScriptIds = {1, 2}  SigSetIds = {1, 2, 3, 4}  BeginSet = {0, 1}  HtBase = {1, 131}
SPECIFICATION Spec
INVARIANTS HistoryIndependent SigsMatter
CHECK_DEADLOCK FALSE
