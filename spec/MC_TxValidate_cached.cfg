CONSTANTS MaxSteps = 4  MaxInserts = 0  Mode = "cached"  Cases <- ModelCases
SPECIFICATION CSpec
INVARIANTS ReportedIsCurrent
CHECK_DEADLOCK FALSE
