---------------------------- MODULE Trace_KeyEnc ----------------------------
(* Code -> spec binding for C10: recorded executions of pycoin's key, SEC, WIF  *)
(* and DER entry points are checked to be behaviours of KeyEnc.tla / DerSig.tla *)
(*                                                                              *)
(* A trace is a sequence of events about ONE key session.  The session state    *)
(* `ks` is what the property says must be preserved by every encoding round     *)
(* trip: the exponent, the compression flag, the public abscissa, the parity of *)
(* the ordinate, and the hash160 / address of either form once observed.        *)
(* The parity is NOT logged with the key: TLC chooses it at "new" and the later *)
(* SEC prefixes must be explained by that one choice.                           *)
(*                                                                              *)
(*   new      Key(secret_exponent = se, is_compressed = c)  accepted or refused *)
(*   wif      key.wif(is_compressed = c)        -> the Base58Check payload      *)
(*   parse    network.parse.wif(text)           -> key or refusal; the parsed   *)
(*            key becomes the session key                                       *)
(*   secenc   key.sec(is_compressed = c)        -> blob                         *)
(*   fromsec  Key.from_sec(blob)                -> key or refusal; the decoded  *)
(*            (public) key keeps abscissa, parity, and takes the blob's form    *)
(*   ident    key.hash160(c), key.address(c)    -> remembered per form          *)
(*   sectext  key.sec_as_hex(c) / public key .as_text() -> the network's text   *)
(*            form of the public key: its SEC prefix, then the hex digits of    *)
(*            the SEC octets                                                    *)
(*   parsesec network.parse.sec(text) / parse.public_key(text) -> key or        *)
(*            refusal; a text this session wrote must give this key back        *)
(* and stateless judgements (any session, no state change):                     *)
(*   sec      sec_to_public_pair / Key.from_sec on a blob of the (small) curve  *)
(*            of this TLC run, with the decoded point                           *)
(*   secf     the same on secp256k1, the blob given by its fields               *)
(*   toykey   Key(secret_exponent = k) on the small curve, with k*G             *)
(*   der      sigdecode_der(blob, mode)         -> (r, s) / refused / raised    *)
(*   derenc   sigencode_der(r, s)               -> blob                         *)
(*   wifp     parse.wif of an arbitrary payload                                 *)
(*   pub      Key(public_pair = v) / network.keys.public(v), v in any carrier   *)
EXTENDS KeyEnc, DerSig, Json, IOUtils, TLCExt

Traces == JsonDeserialize(IOEnv.TRACE_FILE)
VARIABLES tid, l, ks
tvars == <<tid, l, ks>>
Ev == Traces[tid].ev
Cur == Ev[l]

NoKey == [live |-> FALSE]
Unknown == <<>>

\* register t holds how far trace t has been explained (index of the next unexplained event)
TInit == /\ tid \in 1..Len(Traces) /\ TLCSet(tid, 1)
         /\ l = 1 /\ ks = NoKey

Advance == l' = l + 1 /\ UNCHANGED tid
Is(name) == l <= Len(Ev) /\ Cur.e = name

(* ---------------------------------------------------------------- the key session *)
TNew == /\ Is("new")
        /\ Cur.ok = Se32Ok(Cur.se, SecpN)
        /\ IF Cur.ok
           THEN \E yp \in {0, 1} :
                  ks' = [live |-> TRUE, priv |-> TRUE, se |-> Cur.se, comp |-> Cur.comp, ypar |-> yp, x |-> Unknown,
                         idc |-> Unknown, idu |-> Unknown, spfx |-> Unknown]
           ELSE ks' = NoKey /\ Cur.exc = "InvalidSecretExponentError"        \* the documented error
        /\ Advance

\* the WIF text of the session key, for the requested form (c = -1: the key's own flag)
FormFlag(c) == IF c = -1 THEN ks.comp ELSE c = 1
TWif == /\ Is("wif") /\ ks.live /\ ks.priv
        /\ Cur.payload = WifPayload(Cur.pfx, ks.se, FormFlag(Cur.c))
        /\ UNCHANGED ks /\ Advance

TParse == /\ Is("parse") /\ ks.live /\ ks.priv
          /\ LET r == WifParse(Cur.pfx, Cur.payload, SecpN) IN
             /\ Cur.ok = r.ok
             /\ r.ok => Cur.se = r.se /\ Cur.comp = r.compressed
             \* lossless: a text this session produced gives this session's key back
             /\ (\E c \in BOOLEAN : Cur.payload = WifPayload(Cur.pfx, ks.se, c)) => r.ok /\ r.se = ks.se
             /\ ks' = IF r.ok /\ r.se = ks.se THEN [ks EXCEPT !.comp = r.compressed] ELSE ks
          /\ Advance

\* SEC 1 2.3.3 on the fields of the produced blob (coordinates are 32 octets)
TSecEnc == /\ Is("secenc") /\ ks.live
           /\ LET b == Cur.b  c == FormFlag(Cur.c) IN
              /\ Len(b) = IF c THEN 33 ELSE 65
              /\ b[1] = IF c THEN 2 + ks.ypar ELSE 4
              /\ ~c => b[65] % 2 = ks.ypar
              /\ ks.x # Unknown => SubSeq(b, 2, 33) = ks.x
              /\ BytesLT(SubSeq(b, 2, 33), SecpP)
              /\ ks' = [ks EXCEPT !.x = SubSeq(b, 2, 33)]
           /\ Advance

TFromSec == /\ Is("fromsec") /\ ks.live
            /\ LET b == Cur.b IN
               \* a blob this session produced is accepted, in the form it has, and names the same point
               /\ (ks.x # Unknown /\ Len(b) \in {33, 65} /\ SubSeq(b, 2, 33) = ks.x
                     /\ b[1] = (IF Len(b) = 33 THEN 2 + ks.ypar ELSE 4)) => Cur.ok
               /\ Cur.ok => /\ Cur.comp = (Len(b) = 33)
                            /\ Len(b) \in {33, 65} /\ b[1] \in (IF Len(b) = 33 THEN {2, 3} ELSE {4})
                            /\ BytesLT(SubSeq(b, 2, 33), SecpP)
               /\ ks' = IF Cur.ok /\ SubSeq(b, 2, 33) = ks.x
                        THEN [ks EXCEPT !.comp = Cur.comp, !.priv = FALSE] ELSE ks
            /\ Advance

\* the text form of the public key on the session's network.  The prefix is the network's configuration (any
\* characters, with or without a separator): it is learned from the first text and must stay the same.
SecBlobOfSession(b) == /\ ks.x # Unknown /\ Len(b) \in {33, 65} /\ SubSeq(b, 2, 33) = ks.x
                       /\ b[1] = (IF Len(b) = 33 THEN 2 + ks.ypar ELSE 4)
TSecText == /\ Is("sectext") /\ ks.live
            /\ LET b == Cur.b  c == FormFlag(Cur.c) IN
               /\ Cur.text = Cur.pfx \o HexOf(b)
               /\ Len(b) = IF c THEN 33 ELSE 65
               /\ b[1] = IF c THEN 2 + ks.ypar ELSE 4
               /\ ~c => b[65] % 2 = ks.ypar
               /\ ks.x # Unknown => SubSeq(b, 2, 33) = ks.x
               /\ ks.spfx # Unknown => Cur.pfx = ks.spfx
               /\ ks' = [ks EXCEPT !.x = SubSeq(b, 2, 33), !.spfx = Cur.pfx]
            /\ Advance
\* lossless: a text this session wrote is accepted and names the same point in the form the text has
TParseSec == /\ Is("parsesec") /\ ks.live
             /\ LET b == Cur.b IN
                /\ Cur.text = Cur.pfx \o HexOf(b)
                /\ (Cur.pfx # Unknown /\ Cur.pfx = ks.spfx /\ SecBlobOfSession(b)) => Cur.ok
                /\ Cur.ok => /\ Cur.comp = (Len(b) = 33) /\ Cur.rb = b
                             /\ Len(b) \in {33, 65} /\ b[1] \in (IF Len(b) = 33 THEN {2, 3} ELSE {4})
             /\ UNCHANGED ks /\ Advance

\* hash160 and address of a form never change during a session (whatever round trips happened)
TIdent == /\ Is("ident") /\ ks.live
          /\ LET c == FormFlag(Cur.c)  id == <<Cur.h160, Cur.addr>> IN
             /\ Len(Cur.h160) = 20
             /\ IF c THEN (ks.idc # Unknown => ks.idc = id) /\ ks' = [ks EXCEPT !.idc = id]
                     ELSE (ks.idu # Unknown => ks.idu = id) /\ ks' = [ks EXCEPT !.idu = id]
          /\ Advance

(* ---------------------------------------------------------------- stateless judgements *)
\* deferred = sec_to_public_pair handed out an off-curve pair of a well-formed uncompressed blob and
\* every consumer (Key, verify) then refused it; the spec refuses such a blob
TSec == /\ Is("sec")
        /\ ~Cur.raised                      \* only the documented exception families
        /\ LET d == SecDecode(Cur.b, Cur.strict)  f == FieldsOf(Cur.b) IN
           /\ Cur.ok = (d # NoPt)
           /\ Cur.ok => Cur.pt = d /\ Cur.comp = SecCompressed(Cur.b)
           /\ Cur.deferred => /\ ~Cur.ok /\ f.shape = "u" /\ f.xlt /\ f.ylt /\ ~f.onc
                              /\ (f.pfx = 4 \/ (~Cur.strict /\ f.pfx \in {6, 7} /\ f.ypar = f.pfx - 6))
        /\ UNCHANGED ks /\ Advance

TSecF == /\ Is("secf")
         /\ ~Cur.raised
         /\ LET f == Cur.f IN
            /\ Cur.ok = SecOkF(f, Cur.strict)
            /\ Cur.ok => Cur.comp = SecCompressedF(f)
            /\ Cur.deferred => /\ ~Cur.ok /\ f.shape = "u" /\ f.xlt /\ f.ylt /\ ~f.onc
                               /\ (f.pfx = 4 \/ (~Cur.strict /\ f.pfx \in {6, 7} /\ f.ypar = f.pfx - 6))
         /\ UNCHANGED ks /\ Advance

TToyKey == /\ Is("toykey")
           /\ Cur.ok = SeOk(Cur.v)
           /\ Cur.ok => Cur.pub = PubOf(Cur.v)
           /\ ~Cur.ok => Cur.exc = "InvalidSecretExponentError"
           /\ UNCHANGED ks /\ Advance

\* res: "ok" with the integers as [neg, mag] (two's complement sign, minimal magnitude of |v|),
\*      "refused" (an exception of the documented families), "raised" (anything else)
TDer == /\ Is("der")
        /\ LET run == DerRun(Cur.b) IN
           /\ Cur.res # "raised"
           /\ StrictValid(run) => /\ Cur.res = "ok"
                                  /\ ~Cur.r.neg /\ ~Cur.s.neg
                                  /\ Cur.r.mag = MagOf(run.r) /\ Cur.s.mag = MagOf(run.s)
           /\ (HasTrailing(run) /\ ~Cur.openssl) => Cur.res = "refused"
           /\ (Unreadable(run) /\ ~Cur.openssl) => Cur.res = "refused"
        /\ UNCHANGED ks /\ Advance

TDerEnc == /\ Is("derenc")
           /\ Cur.b = EncSig(Cur.r, Cur.s)
           /\ DecEnc(Cur.r, Cur.s)
           /\ UNCHANGED ks /\ Advance

TWifP == /\ Is("wifp")
         /\ ~Cur.raised
         /\ LET r == WifParse(Cur.pfx, Cur.payload, SecpN) IN
            /\ Cur.ok = r.ok
            /\ r.ok => Cur.se = r.se /\ Cur.comp = r.compressed
         /\ UNCHANGED ks /\ Advance

\* a public point offered to Key(public_pair = ..) / network.keys.public(..) in some representation
\* (rep: tuple, list, point object of this or another curve - logged, and irrelevant to the verdict)
TPub == /\ Is("pub")
        /\ ~PubSilentF(Cur.f) => Cur.ok = PubOkF(Cur.f)
        /\ ~Cur.ok => Cur.exc = "InvalidPublicPairError"        \* the documented error
        /\ UNCHANGED ks /\ Advance

TNext == TPub \/ TNew \/ TWif \/ TParse \/ TSecEnc \/ TFromSec \/ TIdent \/ TSecText \/ TParseSec
         \/ TSec \/ TSecF \/ TToyKey \/ TDer \/ TDerEnc \/ TWifP
TSpec == TInit /\ [][TNext]_tvars

Reached == IF l > TLCGet(tid) THEN TLCSet(tid, l) ELSE TRUE
\* a trace is accepted iff at[t] = number of its events + 1; otherwise at[t] is the first event TLC cannot explain
Post == PrintT(ToJson([k |-> "reached", n |-> Len(Traces), at |-> [t \in 1..Len(Traces) |-> TLCGet(t)]]))
=============================================================================
