CONSTANTS Values = {0}  Wants = {"pub", "dflt"}  PathSet = "none"  MaxOps = 3  SeedLen = 16  KeyMode = "full"  TwoRoots = TRUE
SPECIFICATION Spec
VIEW View
INVARIANTS CacheTransparent ResultIsPure CompactSound MemoSound PublicStaysPublic ResOk RootsAreDistinct
ACTION_CONSTRAINT Emit
CHECK_DEADLOCK FALSE
