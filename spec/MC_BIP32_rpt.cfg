CONSTANTS Values = {0, 1, 255, 256, 65536, 16777215, 16777216, 2147483647}  MaxDepth = 3  SeedLen = 16  Filter = "all"
SPECIFICATION SpecE
INVARIANTS CommutesAlongPath CommutesOneStep Kinds Metadata KeyIsSumOfTweaks Layouts TextRoundTrip CompactSound
ACTION_CONSTRAINT Emit
CHECK_DEADLOCK FALSE
