CONSTANTS P = 11  A = 1  B = 6  Gx = 2  Gy = 4  N = 13
          DC = {"1", "n-1", "ra"}  KC = {"1", "n-1", "h+1", "rb"}
          Z1C = {"1", "n-1", "za", "top"}  Z2C = {"0", "1", "za", "zb"}
          Values = {0, 1, 16777216, 2147483647}  MaxDepth = 2  SeedLen = 16
SPECIFICATION SpecE
INVARIANTS AscentLemmas
ACTION_CONSTRAINT Emit
CHECK_DEADLOCK FALSE
