------------------------------ MODULE MC_Signer ------------------------------
(* Model-checking configuration of Signer.tla: small shapes, every pass.      *)
EXTENDS Signer

D(kind, m, keys, form) == [kind |-> kind, m |-> m, keys |-> keys, form |-> form]
\* two inputs; keys 1..3 listed by the multisig, key 4 by nobody or by the second input
ShapesQ == { <<D("ms_p2sh", 2, <<1, 2, 3>>, "c"), D("p2pkh", 1, <<1>>, "u")>>,
             <<D("ms_bare", 1, <<2, 1>>, "u"), D("ms_p2wsh", 2, <<3, 1>>, "c")>>,
             <<D("p2wpkh", 1, <<2>>, "c"), D("ms_p2sh_p2wsh", 3, <<3, 2, 1>>, "c")>> }
ShapesT == ShapesQ \cup
           { <<D("ms_p2sh", 2, <<1, 2>>, "c"), D("ms_p2sh", 2, <<1, 2>>, "c")>>, <<D("ms_bare", 3, <<4, 3, 2, 1>>, "c")>>, <<D("p2sh_p2wpkh", 1, <<4>>, "c"), D("p2pk", 1, <<2>>, "c")>> }
HTq == {131}
ShapesOC == { <<D("ms_p2sh", 2, <<1, 2, 3>>, "c"), D("p2pkh", 1, <<1>>, "u")>>,
              <<D("p2pkh", 1, <<2>>, "c"), D("p2pkh", 1, <<2>>, "c")>> }   \* the same puzzle twice
CoinsQ == {"BTC", "BCH"}
CoinsD == {"BTG"}
HTd == {3}
CoinsT == {"LTC"}
HTt == {129}
ShapesW == { <<D("ms_p2sh", 2, <<1, 2, 3>>, "c"), D("p2pkh", 1, <<1>>, "u")>>,
             <<D("p2sh_p2wpkh", 1, <<2>>, "c"), D("ms_bare", 1, <<3, 2>>, "u")>> }
\* "deep" configurations: plain key sets, scripts always supplied, one mechanism - but every
\* subset of keys and of inputs, to the full depth
DeepPasses == {p \in AllPasses : p.mech = "lookup" /\ p.scr /\ p.reg = {} /\ p.sec = {} /\ p.fresh /\ p.ic = "set"}
NoKcAdds == {}
NoEdits == {}
FewEdits == {[m |-> "lock", a |-> 0, b |-> 0], [m |-> "out_amt", a |-> 1, b |-> 0], [m |-> "seq", a |-> 2, b |-> 0]}
\* "wide" configurations: every mechanism, keychain tables, missing scripts - fewer key subsets
WidePasses == {p \in AllPasses : /\ Canonical(p) /\ p.I \in {Ins, {1}, {}} /\ (p.I = Ins <=> p.ic = "none")
                                  /\ Cardinality(p.K) \in {0, 1, NK} /\ p.reg \in {{}, {1, 2}, {2, 3}, Keys}}
=============================================================================
