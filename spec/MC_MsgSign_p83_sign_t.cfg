CONSTANTS P = 83  A = 1  B = 7  Gx = 0  Gy = 16  N = 79  Mode = "sign"  RMax = 0
CONSTANT ESet <- ETwo
CONSTANT SSet <- SAll
CONSTANT DSet <- DAll
SPECIFICATION Spec
INVARIANT Holds
CHECK_DEADLOCK FALSE
