CONSTANTS NK = 5  NM = 2  MaxPasses = 3  Mode = "ord"  PruneNoop = TRUE  WithPairs = TRUE
          Cases <- OrdCasesT  Shapes <- NoShapes  Coins <- AllCoins  HashTypes <- StdHashTypes
SPECIFICATION RSpec
CHECK_DEADLOCK FALSE
