CONSTANTS N = 4  EMIT = FALSE  MUT = "no_root_check"
  KINDS = {"alter", "remove", "add", "padbit", "root"}
SPECIFICATION Spec
INVARIANTS TypeOK HonestAccepted ListedRejected CoreOnly
CHECK_DEADLOCK FALSE
