---------------------------- MODULE MC_ScriptPush ----------------------------
(* C12, data pushes: lemma checking and spec -> code export in one run.       *)
(*                                                                            *)
(* Case generation (actions):                                                 *)
(*   ChooseData(len, first, fill)  a data string; the script is its encoded   *)
(*                                 push (kind "enc")                          *)
(*   Truncate(k)                   the first k bytes of an encoded push       *)
(*                                 (kind "trunc"), every k for short pushes,  *)
(*                                 the cuts around header and end for long    *)
(*   Alternative(op)               the same data pushed by another opcode     *)
(*                                 able to carry it (kind "alt")              *)
(*   Truncate(k) again             the first k bytes of such an alternative   *)
(*                                 (kind "alttrunc"): cut short AND announced *)
(*                                 by an opcode the minimal-push rule refuses *)
(*   ChooseHuge(field, k, fill)    OP_PUSHDATA4 announcing 2^31 - 1 .. 2^32 - 1 *)
(*                                 bytes (the length as its 4 bytes), followed *)
(*                                 by k bytes (kind "huge"): never fits        *)
(*   AppendRaw(x)                  arbitrary scripts: all byte strings up to  *)
(*                                 RawFull bytes, strings over RawAlpha up to *)
(*                                 RawMax bytes (kind "raw")                  *)
(* then the DECODER runs over the script as a cursor machine:                 *)
(*   Begin, DecStep (one opcode / one length byte / the data per step),       *)
(*   NextInstr (record the instruction, move on) until "end" or "bad".        *)
(* Export (Export = TRUE):                                                    *)
(*   {k:"push", d, enc, op}                      encoder: d must compile to enc *)
(*   {k:"parse", cls, script, d, items:[{at,op,ok,data,pc,push,val,minok,why,plain,strict}], wf} *)
(*        walking the script instruction by instruction must give items;      *)
(*        ok=FALSE: malformed; push: the instruction pushes `data`;           *)
(*        minok: MINIMALDATA accepts it; wf: no malformed instruction;        *)
(*        plain / strict: what fetching the instruction reports without /     *)
(*        with MINIMALDATA required (ScriptPush!Fetch)                        *)
EXTENDS ScriptPush, TLC, Json, FiniteSets

CONSTANTS Lens,        \* data lengths
          Firsts,      \* first-byte classes for len >= 2
          Fills,       \* fill-byte classes
          AllOneByte,  \* TRUE: every one-byte string
          SmallTotal,  \* scripts up to this length are truncated at every position
          RawFull, RawAlpha, RawMax,
          Export

\* values for the configuration files (cfg syntax has no ranges)
LensThorough == 0..80 \cup 253..258 \cup 519..521 \cup 65533..65538 \cup {70000}

\* announced lengths 7fffffff 80000000 80000001 ffffff00 fffffffb fffffffe ffffffff, little-endian
HugeFields == {<<255, 255, 255, 127>>, <<0, 0, 0, 128>>, <<1, 0, 0, 128>>, <<0, 255, 255, 255>>,
               <<251, 255, 255, 255>>, <<254, 255, 255, 255>>, <<255, 255, 255, 255>>}
HugeTails == {0, 1, 3, 10, 300}

VARIABLES kind, d, scr, st, items
vars == <<kind, d, scr, st, items>>

Idle == [ph |-> "idle"]
Emit(r) == IF Export THEN PrintT(ToJson(r)) ELSE TRUE

Init == kind = "root" /\ d = <<>> /\ scr = <<>> /\ st = Idle /\ items = <<>>

ChooseData(len, first, fill) ==
  /\ kind = "root"
  /\ (len = 0 => first = 0 /\ fill = 0)
  /\ (len = 1 => fill = 0)
  /\ kind' = "enc" /\ d' = Blob(len, first, fill) /\ scr' = EncodePush(d')
  /\ UNCHANGED <<st, items>>
  /\ Emit([k |-> "push", d |-> d', enc |-> scr', op |-> PushOpFor(d')])

ChooseHuge(field, k, fill) ==
  /\ kind = "root"
  /\ kind' = "huge" /\ d' = <<>>
  /\ scr' = RCat(RFromSeq(<<OP_PUSHDATA4>> \o field), Blob(k, fill, fill))
  /\ UNCHANGED <<st, items>>

Cuts(T) == IF T <= SmallTotal THEN 1..(T - 1)
           ELSE {k \in (1..8) \cup {T \div 2, T - 2, T - 1} : k < T}
\* alternatives are cut around the header and the end only (their length fields are what differs)
AltCuts(T) == {k \in (1..8) \cup {T \div 2, T - 2, T - 1} : 0 < k /\ k < T}
Truncate(k) ==
  /\ kind \in {"enc", "alt"} /\ st = Idle
  /\ kind' = (IF kind = "enc" THEN "trunc" ELSE "alttrunc")
  /\ scr' = RTake(scr, k) /\ UNCHANGED <<d, st, items>>

Alternative(op) ==
  /\ kind = "enc" /\ st = Idle
  /\ op # PushOpFor(d) /\ CanPush(op, d)
  /\ kind' = "alt" /\ scr' = EncWith(op, d) /\ UNCHANGED <<d, st, items>>

RawOK(s) == \/ RLen(s) <= RawFull
            \/ RLen(s) <= RawMax /\ \A i \in 1..Len(s) : s[i].b \in RawAlpha
AppendRaw(x) ==
  /\ kind \in {"root", "raw"} /\ st = Idle
  /\ RawOK(RCat(scr, ROne(x)))
  /\ kind' = "raw" /\ scr' = RCat(scr, ROne(x)) /\ UNCHANGED <<d, st, items>>

Begin ==
  /\ kind \in {"enc", "trunc", "alt", "alttrunc", "raw", "huge"} /\ st = Idle
  /\ st' = Start(0) /\ UNCHANGED <<kind, d, scr, items>>

Item(r) == [at |-> r.at, op |-> r.op, ok |-> r.ph = "done", data |-> r.data, pc |-> r.pc,
            push |-> r.ph = "done" /\ IsPush(r),
            val |-> IF r.ph = "done" /\ IsPush(r) THEN PushedValue(r) ELSE <<>>,
            minok |-> r.ph # "done" \/ MinimalOK(r), why |-> r.why,
            plain |-> Fetch(r, FALSE), strict |-> Fetch(r, TRUE)]
Report(its) == Emit([k |-> "parse", cls |-> kind, script |-> scr, d |-> d, items |-> its,
                     wf |-> \A i \in 1..Len(its) : its[i].ok])

DecStep ==
  /\ st # Idle /\ ~Final(st)
  /\ st' = Step(scr, st) /\ UNCHANGED <<kind, d, scr>>
  /\ IF st'.ph = "bad" THEN items' = Append(items, Item(st')) /\ Report(items')
     ELSE IF st'.ph = "end" THEN items' = items /\ Report(items')
     ELSE items' = items
NextInstr ==
  /\ st # Idle /\ st.ph = "done"
  /\ items' = Append(items, Item(st)) /\ st' = Start(st.pc) /\ UNCHANGED <<kind, d, scr>>

NextRaw == IF RLen(scr) < RawFull THEN 0..255 ELSE RawAlpha
\* the disjuncts of Next are named so that TLC's coverage reports them one by one
Choose == kind = "root" /\ \E len \in Lens :
            \E first \in (IF len = 1 /\ AllOneByte THEN 0..255 ELSE IF len = 0 THEN {0} ELSE Firsts) :
              \E fill \in (IF len <= 1 THEN {0} ELSE Fills) : ChooseData(len, first, fill)
Cut == kind \in {"enc", "alt"} /\ st = Idle /\
       \E k \in (IF kind = "enc" THEN Cuts(RLen(scr)) ELSE AltCuts(RLen(scr))) : Truncate(k)
Alt == kind = "enc" /\ st = Idle /\ \E op \in PushOps : Alternative(op)
Raw == kind \in {"root", "raw"} /\ st = Idle /\ RLen(scr) < RawMax /\ \E x \in NextRaw : AppendRaw(x)
Big == kind = "root" /\ \E field \in HugeFields, k \in HugeTails, fill \in {0, 97} : ChooseHuge(field, k, fill)
Next == Choose \/ Cut \/ Alt \/ Raw \/ Big \/ Begin \/ DecStep \/ NextInstr
Spec == Init /\ [][Next]_vars

-----------------------------------------------------------------------------
(* invariants *)
TypeOK ==
  /\ IsRBytes(scr) /\ IsRBytes(d)
  /\ st # Idle => /\ st.pc >= st.at /\ (st.ph # "bad" => st.pc <= RLen(scr))
                  /\ IsRBytes(st.data) /\ Len(st.lenb) <= Width(st.op)
\* static lemmas about the chosen data
InvEncoder == kind = "enc" /\ st = Idle =>
  /\ LemmaShortest(d) /\ LemmaMinimal(d)
  /\ \A op \in PushOps : LemmaReadBack(d, op)
  /\ \A k \in Cuts(RLen(scr)) : LemmaPrefix(d, k)
  /\ \A op \in PushOps : CanPush(op, d) => \A k \in AltCuts(RLen(EncWith(op, d))) : LemmaCut(d, op, k)
\* what the cursor machine must have found when it stops
Stopped == st # Idle /\ st.ph \in {"bad", "end"}
InvEnc == (kind = "enc" /\ Stopped) =>
  /\ st.ph = "end" /\ Len(items) = 1
  /\ items[1].ok /\ items[1].push /\ items[1].val = d /\ items[1].pc = RLen(scr) /\ items[1].minok
  /\ items[1].op = PushOpFor(d)
InvTrunc == (kind \in {"trunc", "alttrunc"} /\ Stopped) =>
  /\ st.ph = "bad" /\ Len(items) = 1 /\ ~items[1].ok
  /\ items[1].plain = "malformed" /\ items[1].strict = "malformed"
\* the report agrees with the parts it is made of: malformed iff not complete, under either flag; a complete
\* instruction is refused under MINIMALDATA iff CheckMinimalPush refuses it, and never without the flag
InvFetch == Stopped => \A i \in 1..Len(items) :
  /\ (items[i].plain = "malformed") <=> ~items[i].ok
  /\ (items[i].strict = "malformed") <=> ~items[i].ok
  /\ items[i].ok => (items[i].plain = "ok" /\ ((items[i].strict = "ok") <=> items[i].minok))
  /\ ScriptReport(scr, FALSE) = (IF st.ph = "bad" THEN "malformed" ELSE "ok")
  /\ ScriptReport(scr, TRUE) \in {items[j].strict : j \in 1..Len(items)} \cup {"ok"}
\* an announced length of 2^31 - 1 or more never fits: malformed, the cursor stays inside the instruction
InvHuge == (kind = "huge" /\ Stopped) =>
  /\ st.ph = "bad" /\ st.why = "data truncated" /\ Len(items) = 1 /\ ~items[1].ok /\ items[1].at = 0
  /\ st.pc = 5 /\ ~WellFormed(scr)
InvAlt == (kind = "alt" /\ Stopped) =>
  /\ st.ph = "end" /\ Len(items) = 1
  /\ items[1].ok /\ items[1].push /\ items[1].val = d /\ items[1].pc = RLen(scr)
  /\ items[1].minok <=> (items[1].op > OP_PUSHDATA4)
\* cursor machine = functional decoder = cursor-free characterisation, on every script
InvParse == Stopped =>
  /\ Len(items) = Len(Parse(scr, 0))
  /\ \A i \in 1..Len(items) : /\ items[i] = Item(Parse(scr, 0)[i])
                              /\ items[i].ok <=> CompleteAt(scr, items[i].at)
                              /\ (i > 1 => items[i].at = items[i - 1].pc)
  /\ (st.ph = "end" => (items = <<>> /\ scr = <<>>) \/ (items # <<>> /\ items[Len(items)].pc = RLen(scr)))
  /\ (st.ph = "bad" => ~CompleteAt(scr, st.at) /\ st.at < RLen(scr))
\* the decoder never needs more than 1 + 4 + 1 steps per instruction (checked through depth)
=============================================================================
