------------------------------- MODULE Merkle -------------------------------
(* C14: the Bitcoin merkle root of a list of 32-byte hashes, as an            *)
(* UNINTERPRETED TERM over its leaves.                                        *)
(*                                                                            *)
(* The definition (Bitcoin Core consensus/merkle.cpp, the protocol            *)
(* documentation "Merkle Trees"): hash the list pairwise with double SHA-256  *)
(* of the 64-byte concatenation left || right; a level with an odd number of  *)
(* elements pairs its last element with itself; repeat until one hash is      *)
(* left; a single hash is its own root.                                       *)
(*                                                                            *)
(* Nothing is hashed here.  A digest is a record tree                         *)
(*     [op |-> "leaf", i |-> k]              a symbolic 32-byte value         *)
(*     [op |-> f, l |-> T, r |-> T]          f(l || r), f = "h256d" normally  *)
(* which the harness evaluates with hashlib after choosing bytes for the      *)
(* leaves.  Two terms are equal iff they are the same tree: that IS the       *)
(* collision-freeness assumption every statement about merkle proofs makes.   *)
(*                                                                            *)
(* Two independent definitions are given - level by level (Root) and by       *)
(* position in the tree (NodeHash, the form BIP37 uses) - and MC_Merkle       *)
(* checks that they agree, together with the shape of the tree and the        *)
(* well-known duplication quirk (CVE-2012-2459).                              *)
EXTENDS Integers, Sequences

Leaf(i) == [op |-> "leaf", i |-> i]
Leaves(n) == [i \in 1..n |-> Leaf(i)]

NodeF(f, l, r) == [op |-> f, l |-> l, r |-> r]
Node(l, r) == NodeF("h256d", l, r)

\* ---------------------------------------------------------------- level by level
\* the parent row of a row of m >= 1 hashes: ceil(m/2) hashes; the last element of an odd
\* row is paired with itself
ParentRow(f, row) ==
  LET m == Len(row) IN
  [k \in 1..((m + 1) \div 2) |-> NodeF(f, row[2*k - 1], IF 2*k <= m THEN row[2*k] ELSE row[2*k - 1])]

RECURSIVE RootF(_, _)
RootF(f, row) == IF Len(row) = 1 THEN row[1] ELSE RootF(f, ParentRow(f, row))
Root(leaves) == RootF("h256d", leaves)          \* defined for Len(leaves) >= 1

\* ---------------------------------------------------------------- by position (BIP37 "Partial Merkle branch format")
\* height 0 = the leaves, position 0 = leftmost; a tree over n leaves has
\* Width(n, h) = ceil(n / 2^h) nodes at height h and its root at Height(n)
RECURSIVE Pow2(_)
Pow2(h) == IF h = 0 THEN 1 ELSE 2 * Pow2(h - 1)
Width(n, h) == (n + Pow2(h) - 1) \div Pow2(h)
Height(n) == CHOOSE h \in 0..24 : Width(n, h) = 1 /\ \A g \in 0..(h - 1) : Width(n, g) > 1
HasRight(n, h, pos) == 2 * pos + 1 < Width(n, h - 1)          \* does node (h, pos), h >= 1, have a right child?

RECURSIVE NodeHashF(_, _, _, _)
NodeHashF(f, lv, h, pos) ==
  IF h = 0 THEN lv[pos + 1]
  ELSE LET l == NodeHashF(f, lv, h - 1, 2 * pos)
       IN NodeF(f, l, IF HasRight(Len(lv), h, pos) THEN NodeHashF(f, lv, h - 1, 2 * pos + 1) ELSE l)
NodeHash(lv, h, pos) == NodeHashF("h256d", lv, h, pos)
\* leaves covered by node (h, pos), 1-based, clipped to the tree
CoverLo(h, pos) == pos * Pow2(h) + 1
CoverHi(n, h, pos) == IF (pos + 1) * Pow2(h) < n THEN (pos + 1) * Pow2(h) ELSE n

\* ---------------------------------------------------------------- measurements on terms (for the lemmas)
RECURSIVE Depth(_)
Depth(t) == IF t.op = "leaf" THEN 0
            ELSE LET a == Depth(t.l) b == Depth(t.r) IN 1 + (IF a > b THEN a ELSE b)
\* every path from the root to a leaf has the same length
RECURSIVE Balanced(_)
Balanced(t) == t.op = "leaf" \/ (Balanced(t.l) /\ Balanced(t.r) /\ Depth(t.l) = Depth(t.r))
\* the leaves from left to right, a self-paired node (l = r) contributing its leaves once
RECURSIVE Fringe(_)
Fringe(t) == IF t.op = "leaf" THEN <<t>>
             ELSE IF t.l = t.r THEN Fringe(t.l) ELSE Fringe(t.l) \o Fringe(t.r)
\* number of hash invocations needed to evaluate the root level by level
RECURSIVE HashCount(_)
HashCount(n) == IF n = 1 THEN 0 ELSE (n + 1) \div 2 + HashCount((n + 1) \div 2)
=============================================================================
