---------------------------- MODULE X04_MC_TxTool ----------------------------
(* X04 - the case space of the `tx` command, the lemmas, and the export.      *)
(*                                                                            *)
(* A POOL (configuration, like NET_TABLE): a few keys - their secrets are     *)
(* drawn by the harness from the seed, their public encodings and hashes are  *)
(* FACTS computed there with reference EC arithmetic - three source           *)
(* transactions paying those keys (defined here; their ids are facts: the     *)
(* harness hashes the bytes TxWire!Wire gives, cfg "pool"), three unsigned    *)
(* transactions spending them.                                                *)
(*                                                                            *)
(* CASES: sessions of one or two invocations.  The second invocation reads    *)
(* what the first one emitted (hex text, a file, the tool's own -o file) -    *)
(* the round trip - possibly with further arguments.  Families:               *)
(*   A  spendables x payable shapes x fee classes x key availability          *)
(*   B  the single-field options (-t -l -q) and the list edits                *)
(*      (--remove-tx-in/out, --replace-input-script), well-formed and not     *)
(*   C  transactions as arguments (with / without the unspents extension,     *)
(*      database, -a, -u, merged with further arguments and with each other)  *)
(*   D  two-stage sessions (create, then re-read / sign / edit)               *)
(*   E  tokens and amounts that denote nothing                                *)
(*   N  other networks                                                        *)
(* Every session runs through X04_TxTool's actions (options, collect, merge,  *)
(* edit, fee, sign, report) with the CANONICAL hint: inputs whose key was     *)
(* given and that were not solved before get a placeholder unlocking script   *)
(* (a "hole" the harness fills with what the tool wrote) and are solved.      *)
EXTENDS X04_TxTool, Json, IOUtils

CONSTANT Tier            \* "q" | "t"
CONSTANT Phase           \* "pool" (print the pool for the harness) | "cases"
CONSTANT Mutant          \* "none", or the name of a deliberately wrong rule (self-test of the lemmas)

Facts == JsonDeserialize(IOEnv.X04_FACTS)
KF == Facts.keys                         \* [secret, secc, secu, hc, hu]
NK == Len(KF)

\* ---------------------------------------------------------------- the pool
D(dsQ) == Trim(FromDec(dsQ, 4))
DestScript(dQ) ==
  CASE dQ[1] = "pkh_c" -> ScriptFor("p2pkh", KF[dQ[2]].hc)
    [] dQ[1] = "pkh_u" -> ScriptFor("p2pkh", KF[dQ[2]].hu)
    [] dQ[1] = "pk_c"  -> ScriptFor("p2pk", KF[dQ[2]].secc)
    [] dQ[1] = "sh"    -> ScriptFor("p2sh", KF[dQ[2]].hc)
    [] dQ[1] = "wpkh"  -> ScriptFor("p2wpkh", KF[dQ[2]].hc)
\* the text of a destination on network NQ (an address: only the address kinds)
DestContract(dQ) ==
  CASE dQ[1] = "pkh_c" -> PD!OContract("p2pkh", KF[dQ[2]].hc)
    [] dQ[1] = "pkh_u" -> PD!OContract("p2pkh", KF[dQ[2]].hu)
    [] dQ[1] = "sh"    -> PD!OContract("p2sh", KF[dQ[2]].hc)
    [] dQ[1] = "wpkh"  -> PD!OContract("p2wpkh", KF[dQ[2]].hc)
NetOf(symQ) == CHOOSE NQ \in {PD!RealNets[iQ] : iQ \in DOMAIN PD!RealNets} : NQ.sym = symQ
DestText(symQ, dQ) == PD!Reser(NetOf(symQ), DestContract(dQ))
WifText(symQ, pQ, compQ) == PD!Reser(NetOf(symQ), PD!OKeyPrv(KF[pQ].secret, compQ))

\* source transactions: what they pay (destination, amount)
SrcOuts(sQ) ==
  CASE sQ = 1 -> << [d |-> <<"pkh_u", 1>>, a |-> D(<<1,2,3,4,5,6,7,8>>)],
                    [d |-> <<"pkh_c", 1>>, a |-> D(<<5,0,0,0,0,0,0,0,0,0>>)],
                    [d |-> <<"pkh_c", 2>>, a |-> D(<<7,0,0,0,0>>)] >>
    [] sQ = 2 -> << [d |-> <<"pk_c", 2>>,  a |-> D(<<1,0,0,0,0,0>>)],
                    [d |-> <<"pkh_c", 3>>, a |-> D(<<2,0,0,0,1>>)],
                    [d |-> <<"pkh_c", 1>>, a |-> D(<<1>>)] >>
    [] sQ = 3 -> << [d |-> <<"pkh_u", 3>>, a |-> D(<<2,1,0,0,0,0,0,0,0,0,0,0,0,0,0,0>>)],
                    [d |-> <<"pkh_c", 2>>, a |-> D(<<6,5,5,3,6>>)] >>
NSrc == 3
SrcTx(sQ) == [version |-> <<1, 0>>,
              ins |-> << [hash |-> Run(16 + sQ, 32), index |-> <<sQ, 0>>, script |-> Lit(<<81>>), seq |-> Max32, wit |-> <<>>] >>,
              outs |-> [jQ \in 1..Len(SrcOuts(sQ)) |-> WOut(SrcOuts(sQ)[jQ].a, DestScript(SrcOuts(sQ)[jQ].d))],
              lock |-> <<0, 0>>]
SrcId(sQ) == Lit(Facts.srcid[sQ])
DbOf(SQ) == [kQ \in 1..Cardinality(SQ) |-> LET sQ == CHOOSE xQ \in SQ : Cardinality({yQ \in SQ : yQ < xQ}) = kQ - 1
                                         IN [tx |-> SrcTx(sQ), id |-> SrcId(sQ)]]
DbAll == DbOf(1..NSrc)
DbNone == <<>>

\* a coin <<s, j>> (output j, 1-based, of source s) as a spendable; lie: "" | "amount" | "script" | "nosrc"
CoinAmt(cQ) == SrcOuts(cQ[1])[cQ[2]].a
CoinScript(cQ) == DestScript(SrcOuts(cQ[1])[cQ[2]].d)
CoinOwner(cQ) == SrcOuts(cQ[1])[cQ[2]].d[2]
SpRec(cQ, lieQ) ==
  [amount |-> Pad(IF lieQ = "amount" THEN NAdd(CoinAmt(cQ), NOne) ELSE CoinAmt(cQ), 4),
   script |-> IF lieQ = "script" THEN DestScript(<<"pkh_c", 4>>) ELSE CoinScript(cQ),
   hash |-> IF lieQ = "nosrc" THEN Run(99, 32) ELSE SrcId(cQ[1]),
   index |-> Limbs(cQ[2] - 1, 2), bia |-> <<0, 0, 0, 0>>, spent |-> FALSE, bis |-> <<0, 0, 0, 0>>]
CoinIn(cQ, seqQ) == [hash |-> SrcId(cQ[1]), index |-> Limbs(cQ[2] - 1, 2), script |-> <<>>, seq |-> seqQ, wit |-> <<>>]
CoinU(cQ) == MkU(CoinAmt(cQ), CoinScript(cQ))

\* pool transactions (unsigned)
PT(nQ) ==
  CASE nQ = 1 -> [tx |-> [version |-> <<2, 0>>, ins |-> << CoinIn(<<1, 1>>, <<65534, 65535>>), CoinIn(<<2, 1>>, Max32) >>,
                         outs |-> << WOut(D(<<1,0,0,0>>), DestScript(<<"pkh_c", 2>>)), WOut(D(<<5,0,0,0>>), DestScript(<<"sh", 3>>)) >>,
                         lock |-> <<7, 0>>],
                  uns |-> << CoinU(<<1, 1>>), CoinU(<<2, 1>>) >>]
    [] nQ = 2 -> [tx |-> [version |-> <<1, 0>>, ins |-> << CoinIn(<<1, 3>>, Max32) >>,
                         outs |-> << WOut(D(<<3,0,0>>), DestScript(<<"pkh_c", 4>>)), WOut(D(<<4,0,0>>), DestScript(<<"pkh_u", 1>>)) >>,
                         lock |-> <<0, 0>>],
                  uns |-> << CoinU(<<1, 3>>) >>]
    [] nQ = 3 -> [tx |-> [version |-> <<1, 0>>, ins |-> << CoinIn(<<2, 2>>, Max32), CoinIn(<<3, 2>>, Max32) >>,
                         outs |-> << WOut(D(<<7,7,7>>), DestScript(<<"wpkh", 2>>)) >>,
                         lock |-> <<0, 0>>],
                  uns |-> << CoinU(<<2, 2>>), CoinU(<<3, 2>>) >>]

\* ---------------------------------------------------------------- items
Base(symQ) == [net |-> symQ, args |-> <<>>, ver |-> NoNum, lock |-> NoNum, seqn |-> NoNum, fee |-> NoNum,
               rmin |-> <<>>, rmout |-> <<>>, repl |-> <<>>, db |-> <<>>, aug |-> FALSE, showu |-> FALSE, ofile |-> "",
               keyfile |-> <<>>, lockdate |-> <<>>]
TSp(cQ) == TokSp(SpRec(cQ, ""), 4)
TSp7(cQ) == TokSp(SpRec(cQ, ""), 7)
TLie(cQ, lieQ) == TokSp(SpRec(cQ, lieQ), 4)
TPay(symQ, dQ, aQ) == TokParts(DestText(symQ, dQ), aQ)
TBare(symQ, dQ) == TokText(DestText(symQ, dQ))
TWif(symQ, pQ, compQ) == TokText(WifText(symQ, pQ, compQ))
TPool(nQ, extQ, viaQ) == TokTx(PT(nQ).tx, IF extQ THEN PT(nQ).uns ELSE <<>>, viaQ)
TPrev(viaQ) == [Tok("prev") EXCEPT !.via = viaQ]        \* what the first invocation emitted (second invocations only)

Owners(coinsQ) == {CoinOwner(coinsQ[iQ]) : iQ \in 1..Len(coinsQ)}
SetSeq(SQ) == [kQ \in 1..Cardinality(SQ) |-> CHOOSE xQ \in SQ : Cardinality({yQ \in SQ : yQ < xQ}) = kQ - 1]
\* key availability classes -> tokens / key file
KeyToks(symQ, clsQ, ownersQ) ==
  CASE clsQ = "none" -> <<>>
    [] clsQ = "all" -> [kQ \in 1..Cardinality(ownersQ) |-> TWif(symQ, SetSeq(ownersQ)[kQ], TRUE)]
    [] clsQ = "first" -> << TWif(symQ, SetSeq(ownersQ)[1], FALSE) >>
    [] clsQ = "stranger" -> << TWif(symQ, 4, TRUE) >>
    [] clsQ = "file" -> <<>>
KeyFile(symQ, clsQ, ownersQ) ==
  IF clsQ = "file" THEN [kQ \in 1..Cardinality(ownersQ) |-> WifText(symQ, SetSeq(ownersQ)[kQ], kQ % 2 = 0)] ELSE <<>>

\* destinations by position (variety of kinds; position 1 and 4 coincide)
DestAt(jQ) == CASE jQ = 1 -> <<"pkh_c", 2>> [] jQ = 2 -> <<"sh", 3>> [] jQ = 3 -> <<"wpkh", 4>> [] OTHER -> <<"pkh_c", 2>>
FixedAmt == D(<<1,0,0,0>>)
PayToks(symQ, shapeQ) == [jQ \in 1..Len(shapeQ) |-> IF shapeQ[jQ] = "U" THEN TBare(symQ, DestAt(jQ))
                                                     ELSE IF shapeQ[jQ] = "Z" THEN TPay(symQ, DestAt(jQ), NumTxt(<<0>>))
                                                     ELSE TPay(symQ, DestAt(jQ), NumTxt(Dec(FixedAmt)))]
NUnspec(shapeQ) == Cardinality({jQ \in 1..Len(shapeQ) : shapeQ[jQ] \in {"U", "Z"}})
NFixed(shapeQ) == Cardinality({jQ \in 1..Len(shapeQ) : shapeQ[jQ] = "F"})
TinOf(coinsQ) == NSum([iQ \in 1..Len(coinsQ) |-> CoinAmt(coinsQ[iQ])])

\* fee classes relative to what is there: <<applicable, numeral>>
FeeCls(clsQ, tinQ, fixedQ, nQ) ==
  LET availQ == IF NLeq(fixedQ, tinQ) THEN NSub(tinQ, fixedQ) ELSE NZero
      minus(kQ) == IF NLeq(OfNat(kQ), availQ) THEN <<TRUE, NumTxt(Dec(NSub(availQ, OfNat(kQ))))>> ELSE <<FALSE, NoNum>> IN
  CASE clsQ = "std" -> <<TRUE, NoNum>>
    [] clsQ = "zero" -> <<TRUE, NumTxt(<<0>>)>>
    [] clsQ = "one" -> <<TRUE, NumTxt(<<1>>)>>
    [] clsQ = "k10" -> <<TRUE, NumTxt(<<1,0,0,0,0>>)>>
    [] clsQ = "exact" -> minus(nQ)                       \* pool = n: one satoshi each
    [] clsQ = "short1" -> IF nQ >= 1 THEN minus(nQ - 1) ELSE <<FALSE, NoNum>>      \* pool = n - 1
    [] clsQ = "rem1" -> minus(2 * nQ + 1)                \* pool = 2n + 1: the first gets the odd satoshi
    [] clsQ = "remlast" -> IF nQ >= 2 THEN minus(3 * nQ - 1) ELSE <<FALSE, NoNum>> \* pool = 3n - 1: all but the last
    [] clsQ = "over" -> <<TRUE, NumTxt(Dec(NAdd(availQ, NOne)))>>                   \* pool = -1

\* ---- the dimensions, as tuples (a case is a tuple of indices into them: see Cases below)
FeeClassS == <<"std", "zero", "one", "k10", "exact", "short1", "rem1", "remlast", "over">>
KeyClassS == <<"none", "all", "first", "stranger", "file">>
CoinSetS == << << <<1, 1>> >>, << <<1, 3>> >>, << <<2, 2>> >>, << <<1, 1>>, <<2, 1>> >>, << <<1, 2>>, <<1, 3>>, <<2, 2>> >>,
               << <<2, 3>> >>, << <<3, 1>>, <<1, 1>> >> >>
PayShapeS == << <<"U">>, <<"U", "U">>, <<"U", "U", "U">>, <<"F", "U">>, <<"U", "F">>, <<"F">>, <<"F", "F">>, <<"F", "U", "U">>,
                <<"Z", "U">>, <<"U", "U", "U", "U">> >>

Session(itQ) == [skip |-> FALSE, it |-> itQ, two |-> FALSE, it2 |-> itQ]
Session2(itQ, it2Q) == [skip |-> FALSE, it |-> itQ, two |-> TRUE, it2 |-> it2Q]
Skip == [skip |-> TRUE, it |-> Base("BTC"), two |-> FALSE, it2 |-> Base("BTC")]

ItemA(symQ, coinsQ, shapeQ, feeQ, kclsQ, dbQ) ==
  [Base(symQ) EXCEPT !.args = [iQ \in 1..Len(coinsQ) |-> TSp(coinsQ[iQ])] \o PayToks(symQ, shapeQ) \o KeyToks(symQ, kclsQ, Owners(coinsQ)),
                     !.fee = feeQ, !.keyfile = KeyFile(symQ, kclsQ, Owners(coinsQ)), !.db = dbQ]
\* A: spendables x payable shapes x fee classes x key availability
SessA(dQ) ==
  LET coinsQ == CoinSetS[dQ.a]  shapeQ == PayShapeS[dQ.b]  fclsQ == FeeClassS[dQ.c]  kclsQ == KeyClassS[dQ.d]
      fcQ == FeeCls(fclsQ, TinOf(coinsQ), MulSmall(FixedAmt, NFixed(shapeQ)), NUnspec(shapeQ)) IN
  IF ~fcQ[1] \/ (NUnspec(shapeQ) = 0 /\ fclsQ \notin {"std", "one"}) THEN Skip
  ELSE Session(ItemA(<<"BTC", "XTN", "LTC">>[dQ.e], coinsQ, shapeQ, fcQ[2], kclsQ, IF kclsQ = "all" THEN DbAll ELSE DbNone))

\* B: single fields and list edits on one base request
BaseB(kclsQ) == ItemA("BTC", << <<1, 1>>, <<2, 1>> >>, <<"F", "U">>, NoNum, kclsQ, DbAll)
Two32 == <<4,2,9,4,9,6,7,2,9,6>>
VerS == <<NoNum, NumTxt(<<0>>), NumTxt(<<1>>), NumTxt(<<2>>), NumTxt(<<2,5,5>>), NumTxt(<<2,5,6>>), JunkTxt("x"), NegTxt(<<1>>)>>
LockS == <<NoNum, NumTxt(<<0>>), NumTxt(<<1>>), NumTxt(<<4,9,9,9,9,9,9,9,9>>), NumTxt(<<5,0,0,0,0,0,0,0,0>>), NumTxt(<<1,5,1,4,7,3,4,5,7,7>>),
          NumTxt(<<2,1,4,7,4,8,3,6,4,8>>), NumTxt(<<4,2,9,4,9,6,7,2,9,5>>), NumTxt(Two32), NegTxt(<<1>>)>>
SeqS == <<NoNum, NumTxt(<<0>>), NumTxt(<<1>>), NumTxt(<<4,2,9,4,9,6,7,2,9,4>>), NumTxt(<<4,2,9,4,9,6,7,2,9,5>>), NumTxt(Two32), NegTxt(<<1>>), JunkTxt("q")>>
SessB1(dQ) ==
  IF dQ.d = 2 /\ Cardinality({xQ \in {<<1, dQ.a>>, <<2, dQ.b>>, <<3, dQ.c>>} : xQ[2] # 1}) > 1 THEN Skip
  ELSE Session([BaseB(KeyClassS[dQ.d]) EXCEPT !.ver = VerS[dQ.a], !.lock = LockS[dQ.b],
                  !.seqn = IF dQ.d = 2 /\ dQ.b # 1 THEN NumTxt(<<5>>) ELSE SeqS[dQ.c]])
IdxS == << <<>>, <<NumTxt(<<0>>)>>, <<NumTxt(<<1>>)>>, <<NumTxt(<<0>>), NumTxt(<<1>>)>>, <<NumTxt(<<2>>)>>, <<NegTxt(<<1>>)>>,
           <<NumTxt(<<0>>), NumTxt(<<0>>)>>, <<NumTxt(<<1>>), NumTxt(<<7>>)>> >>
ReplS == << <<>>, << [idx |-> NumTxt(<<0>>), script |-> Lit(<<106, 121>>)] >>, << [idx |-> NumTxt(<<1>>), script |-> <<>>] >>,
            << [idx |-> NumTxt(<<2>>), script |-> Lit(<<81>>)] >>,
            << [idx |-> NumTxt(<<0>>), script |-> Lit(<<81>>)], [idx |-> NumTxt(<<0>>), script |-> Lit(<<82, 82>>)] >> >>
SessB2(dQ) == Session([BaseB(KeyClassS[dQ.d]) EXCEPT !.rmin = IdxS[dQ.a], !.rmout = IdxS[dQ.b], !.repl = ReplS[dQ.c]])

\* C: transactions as arguments
DbS == <<DbNone, DbAll, DbOf({1})>>
ViaS == <<"hex", "bin", "hexfile">>
SessC1(dQ) == Session([Base("BTC") EXCEPT !.args = <<TPool(dQ.a, dQ.b = 1, ViaS[dQ.c])>> \o KeyToks("BTC", KeyClassS[dQ.g], {1, 2, 3}),
                                          !.db = DbS[dQ.d], !.aug = (dQ.e = 1), !.showu = (dQ.f = 1)])
ExtraS == << <<TSp(<<1, 3>>)>>, <<TBare("BTC", DestAt(3))>>, <<TPay("BTC", DestAt(3), NumTxt(<<2,5>>))>>,
             <<TSp(<<1, 3>>), TBare("BTC", DestAt(3))>>, <<TBare("BTC", DestAt(3)), TSp(<<1, 3>>)>>,
             <<TSp(<<3, 1>>), TPay("BTC", DestAt(1), NumTxt(<<9,9>>)), TBare("BTC", DestAt(2))>> >>
SessC2(dQ) == Session([Base("BTC") EXCEPT !.args = <<TPool(dQ.a, dQ.b = 1, "hex")>> \o ExtraS[dQ.c] \o KeyToks("BTC", KeyClassS[dQ.e], {1, 2, 3}),
                                          !.db = DbS[dQ.d], !.fee = IF dQ.f = 1 THEN NoNum ELSE NumTxt(<<1,2,3>>)])
PairS == << <<1, 2>>, <<2, 1>>, <<3, 2>>, <<1, 3>>, <<3, 1>> >>
ExtPairS == << <<TRUE, TRUE>>, <<TRUE, FALSE>>, <<FALSE, TRUE>>, <<FALSE, FALSE>> >>
SessC3(dQ) == Session([Base("BTC") EXCEPT !.args = <<TPool(PairS[dQ.a][1], ExtPairS[dQ.b][1], "hex"), TPool(PairS[dQ.a][2], ExtPairS[dQ.b][2], "hex")>>
                                                    \o (IF dQ.c = 1 THEN <<>> ELSE <<TBare("BTC", DestAt(3))>>) \o KeyToks("BTC", KeyClassS[dQ.e], {1, 2, 3}),
                                          !.db = DbS[dQ.d]])
LieS == <<"", "amount", "script", "nosrc">>
SessC4(dQ) ==
  CASE dQ.a = 1 -> Session([Base("BTC") EXCEPT !.args = <<TokTxid(SrcId(dQ.b))>>, !.db = DbS[dQ.c]])
    [] dQ.a = 2 -> Session([Base("BTC") EXCEPT !.args = <<TLie(<<1, 1>>, LieS[dQ.b]), TPay("BTC", DestAt(1), NumTxt(<<5,0,0>>))>>, !.db = DbS[dQ.c]])
    [] dQ.a = 3 -> Session([Base("BTC") EXCEPT !.args = <<TSp7(<<1, 1>>), TBare("BTC", DestAt(1))>>, !.db = DbAll])

\* D: two-stage sessions
Stage1D(dQ) == ItemA("BTC", <<  << <<1, 1>> >>, << <<1, 1>>, <<2, 1>> >>, << <<1, 3>>, <<2, 2>> >>  >>[dQ.a], << <<"U">>, <<"F", "U">> >>[dQ.b], NoNum,
                     <<"none", "all", "first">>[dQ.c], DbNone)
Second(viaQ, xQ, kQ) == [Base("BTC") EXCEPT !.args = <<TPrev(viaQ)>> \o xQ \o KeyToks("BTC", kQ, {1, 2, 3})]
SecondS == << Second("hex", <<>>, "none"), Second("bin", <<>>, "none"), Second("hexfile", <<>>, "none"),
              Second("ofile", <<>>, "none"), Second("ofile", <<>>, "none"),           \* 4, 5: the first invocation writes -o x.bin / x.hex
              Second("hex", <<>>, "all"),
              [Second("hex", <<>>, "none") EXCEPT !.db = DbAll],
              [Second("hex", <<>>, "all") EXCEPT !.db = DbAll],
              [Second("hex", <<>>, "none") EXCEPT !.ver = NumTxt(<<2>>), !.db = DbAll],
              [Second("hex", <<>>, "none") EXCEPT !.lock = NumTxt(<<7>>), !.db = DbAll],
              [Second("hex", <<>>, "none") EXCEPT !.rmout = <<NumTxt(<<0>>)>>, !.db = DbAll],
              [Second("hex", <<>>, "none") EXCEPT !.repl = << [idx |-> NumTxt(<<0>>), script |-> Lit(<<81>>)] >>, !.db = DbAll],
              [Second("hex", <<TPay("BTC", DestAt(3), NumTxt(<<1>>))>>, "none") EXCEPT !.db = DbAll],
              [Second("hex", <<TSp(<<2, 3>>)>>, "all") EXCEPT !.db = DbAll],
              [Second("hex", <<>>, "none") EXCEPT !.showu = TRUE] >>
SessD(dQ) == Session2([Stage1D(dQ) EXCEPT !.ofile = IF dQ.d = 4 THEN "bin" ELSE IF dQ.d = 5 THEN "hex" ELSE ""], SecondS[dQ.d])

\* E: tokens that denote nothing, amounts that are none
AmtJunkS == <<JunkTxt("abc"), JunkTxt("1.5"), JunkTxt(""), JunkTxt("1e3"), NegTxt(<<5>>),
              NumTxt(<<1,8,4,4,6,7,4,4,0,7,3,7,0,9,5,5,1,6,1,6>>), NumTxt(<<1,8,4,4,6,7,4,4,0,7,3,7,0,9,5,5,1,6,1,5>>), NumTxt(<<0,0,7>>)>>
Other(symQ) == IF symQ = "BTC" THEN "XTN" ELSE "BTC"
BadKindS == <<"wif_foreign", "addr_foreign", "seg_foreign", "addr_badsum", "seg_badsum", "wif_badsum">>
BadText(symQ, kindQ) ==
  CASE kindQ = "wif_foreign" -> WifText(Other(symQ), 1, TRUE)
    [] kindQ = "addr_foreign" -> DestText(Other(symQ), <<"pkh_c", 2>>)
    [] kindQ = "seg_foreign" -> DestText(Other(symQ), <<"wpkh", 2>>)
    [] kindQ = "addr_badsum" -> [DestText(symQ, <<"pkh_c", 2>>) EXCEPT !.f = "b58bad"]
    [] kindQ = "seg_badsum" -> [DestText(symQ, <<"wpkh", 2>>) EXCEPT !.f = "segbad"]
    [] kindQ = "wif_badsum" -> [WifText(symQ, 1, TRUE) EXCEPT !.f = "b58bad"]
FeeJunkS == <<JunkTxt("abc"), NegTxt(<<1>>), NumTxt(<<1,8,4,4,6,7,4,4,0,7,3,7,0,9,5,5,1,6,1,6>>), JunkTxt("")>>
OneOne == <<TSp(<<1, 1>>), TBare("BTC", DestAt(1))>>
MiscS == << [Base("BTC") EXCEPT !.args = OneOne, !.rmin = <<JunkTxt("z")>>],
            [Base("BTC") EXCEPT !.args = OneOne, !.repl = << [idx |-> JunkTxt("z"), script |-> <<>>] >>],
            Base("BTC"),
            [Base("BTC") EXCEPT !.args = <<TBare("BTC", DestAt(1))>>],
            [Base("BTC") EXCEPT !.args = <<TSp(<<1, 1>>)>>],
            [Base("BTC") EXCEPT !.args = <<TSp(<<1, 1>>), TSp(<<2, 1>>)>>, !.showu = TRUE],
            [Base("BTC") EXCEPT !.args = <<TWif("BTC", 1, TRUE)>>] >>
SessE(dQ) ==
  CASE dQ.a = 1 -> Session([Base("BTC") EXCEPT !.args = <<TSp(<<1, 1>>), TPay("BTC", DestAt(1), AmtJunkS[dQ.b])>> \o (IF dQ.c = 1 THEN <<>> ELSE <<TBare("BTC", DestAt(2))>>)])
    [] dQ.a = 2 -> Session([Base("BTC") EXCEPT !.args = OneOne \o <<TokText(BadText("BTC", BadKindS[dQ.b]))>>])
    [] dQ.a = 3 -> Session([Base("BTC") EXCEPT !.args = <<TSp(<<1, 1>>), TokParts(BadText("BTC", BadKindS[dQ.b]), NumTxt(<<5>>))>>])
    [] dQ.a = 4 -> Session([Base("BTC") EXCEPT !.args = OneOne, !.fee = FeeJunkS[dQ.b]])
    [] dQ.a = 5 -> Session(MiscS[dQ.b])

\* N: other networks (their own addresses and keys; and each other's)
NetS == <<"XTN", "LTC">>
SessN(dQ) ==
  IF dQ.b = 1 THEN Session(ItemA(NetS[dQ.a], << << <<1, 1>>, <<2, 1>> >>, << <<2, 2>> >> >>[dQ.c], << <<"U">>, <<"F", "U">>, <<"U", "U", "U">> >>[dQ.d], NoNum,
                                 <<"none", "all", "first">>[dQ.e], DbNone))
  ELSE Session([Base(NetS[dQ.a]) EXCEPT !.args = <<TSp(<<1, 1>>), TBare(NetS[dQ.a], DestAt(1)), TokText(BadText(NetS[dQ.a], BadKindS[dQ.c]))>>])

\* S: the default fee steps at every started 1000 bytes: 14 inputs and 13 outputs of 999 / 1000 / 1002 bytes before signing
\* (13 pay-to-script-hash outputs make exactly 1000; one of them as a witness-program / public-key-hash output 999 / 1002)
DestS(jQ, vQ) == IF jQ = 1 /\ vQ = 1 THEN <<"wpkh", 2>> ELSE IF jQ = 1 /\ vQ = 3 THEN <<"pkh_c", 2>> ELSE <<"sh", 1 + (jQ % 3)>>
SessS(dQ) == Session([Base("BTC") EXCEPT !.args = [iQ \in 1..14 |-> TSp(<<1, 2>>)] \o [jQ \in 1..13 |-> TBare("BTC", DestS(jQ, dQ.a))]
                                                  \o KeyToks("BTC", KeyClassS[dQ.b], {1})])
SessOf(dQ) ==
  CASE dQ.fam = 1 -> SessA(dQ) [] dQ.fam = 2 -> SessB1(dQ) [] dQ.fam = 3 -> SessB2(dQ) [] dQ.fam = 4 -> SessC1(dQ)
    [] dQ.fam = 5 -> SessC2(dQ) [] dQ.fam = 6 -> SessC3(dQ) [] dQ.fam = 7 -> SessC4(dQ) [] dQ.fam = 8 -> SessD(dQ)
    [] dQ.fam = 9 -> SessE(dQ) [] dQ.fam = 10 -> SessN(dQ) [] dQ.fam = 11 -> SessS(dQ)
FamName == <<"A", "B1", "B2", "C1", "C2", "C3", "C4", "D", "E", "N", "S">>

\* the grid: tuples of plain indices (nothing here may depend on a RECURSIVE operator, or TLC would rebuild it at every use)
Dx(famQ, aQ, bQ, cQ, dQ, eQ, fQ, gQ) == [fam |-> famQ, a |-> aQ, b |-> bQ, c |-> cQ, d |-> dQ, e |-> eQ, f |-> fQ, g |-> gQ]
GridA  == {Dx(1, aQ, bQ, cQ, dQ, eQ, 0, 0) : aQ \in 1..7, bQ \in 1..10, cQ \in 1..9, dQ \in 1..5, eQ \in 1..3}
GridB1 == {Dx(2, aQ, bQ, cQ, dQ, 0, 0, 0) : aQ \in 1..8, bQ \in 1..10, cQ \in 1..8, dQ \in 1..2}
GridB2 == {Dx(3, aQ, bQ, cQ, dQ, 0, 0, 0) : aQ \in 1..8, bQ \in 1..8, cQ \in 1..5, dQ \in 1..2}
GridC1 == {Dx(4, aQ, bQ, cQ, dQ, eQ, fQ, gQ) : aQ \in 1..3, bQ \in 0..1, cQ \in 1..3, dQ \in 1..3, eQ \in 0..1, fQ \in 0..1, gQ \in 1..2}
GridC2 == {Dx(5, aQ, bQ, cQ, dQ, eQ, fQ, 0) : aQ \in {1, 3}, bQ \in 0..1, cQ \in 1..6, dQ \in 1..3, eQ \in 1..2, fQ \in 1..2}
GridC3 == {Dx(6, aQ, bQ, cQ, dQ, eQ, 0, 0) : aQ \in 1..5, bQ \in 1..4, cQ \in 1..2, dQ \in 1..2, eQ \in 1..2}
GridC4 == {Dx(7, 1, bQ, cQ, 0, 0, 0, 0) : bQ \in 1..3, cQ \in 1..3} \cup {Dx(7, 2, bQ, cQ, 0, 0, 0, 0) : bQ \in 1..4, cQ \in 1..3} \cup {Dx(7, 3, 0, 0, 0, 0, 0, 0)}
GridD  == {Dx(8, aQ, bQ, cQ, dQ, 0, 0, 0) : aQ \in 1..3, bQ \in 1..2, cQ \in 1..3, dQ \in 1..15}
GridE  == {Dx(9, 1, bQ, cQ, 0, 0, 0, 0) : bQ \in 1..8, cQ \in 1..2} \cup {Dx(9, aQ, bQ, 0, 0, 0, 0, 0) : aQ \in 2..3, bQ \in 1..6}
          \cup {Dx(9, 4, bQ, 0, 0, 0, 0, 0) : bQ \in 1..4} \cup {Dx(9, 5, bQ, 0, 0, 0, 0, 0) : bQ \in 1..7}
GridN  == {Dx(10, aQ, 1, cQ, dQ, eQ, 0, 0) : aQ \in 1..2, cQ \in 1..2, dQ \in 1..3, eQ \in 1..3} \cup {Dx(10, aQ, 2, cQ, 0, 0, 0, 0) : aQ \in 1..2, cQ \in 1..3}
GridS  == {Dx(11, aQ, bQ, 0, 0, 0, 0, 0) : aQ \in 1..3, bQ \in 1..2}
\* quick: family A without the two largest coin sets' rarer key classes, B1 without the full product
Quick(dQ) == /\ dQ.fam = 1 => (dQ.e = 1 /\ (dQ.a \in {5, 7} => dQ.d \in {1, 2}))
             /\ dQ.fam = 2 => (dQ.d = 2 \/ dQ.c \in {1, 5, 6, 7} \/ dQ.a = 1)
             /\ dQ.fam = 4 => (dQ.c = 1 \/ (dQ.e = 0 /\ dQ.f = 0))
CaseSet == IF Phase = "pool" THEN {}
           ELSE IF Tier = "dev" THEN GridD \cup GridE \cup GridC4 \cup GridS
           ELSE IF Tier = "devc" THEN GridC3 \cup GridC4
           ELSE IF Tier = "deva" THEN {dQ \in GridA : dQ.a \in {1, 4} /\ dQ.d \in {1, 2} /\ dQ.e = 1}
           ELSE LET allQ == GridA \cup GridB1 \cup GridB2 \cup GridC1 \cup GridC2 \cup GridC3 \cup GridC4 \cup GridD \cup GridE \cup GridN \cup GridS
                IN IF Tier = "q" THEN {dQ \in allQ : Quick(dQ)} ELSE allQ
Cases == SetToSeq(CaseSet)
NCases == Len(Cases)
ASSUME DimensionsMatch ==
  /\ Len(CoinSetS) = 7 /\ Len(PayShapeS) = 10 /\ Len(FeeClassS) = 9 /\ Len(KeyClassS) = 5 /\ Len(VerS) = 8 /\ Len(LockS) = 10 /\ Len(SeqS) = 8
  /\ Len(IdxS) = 8 /\ Len(ReplS) = 5 /\ Len(ExtraS) = 6 /\ Len(PairS) = 5 /\ Len(SecondS) = 15 /\ Len(AmtJunkS) = 8 /\ Len(BadKindS) = 6
  /\ Len(FeeJunkS) = 4 /\ Len(MiscS) = 7

\* ---------------------------------------------------------------- the canonical hint
Hole(stageQ, iQ) == Run(200 + 20 * stageQ + iQ, 100)
IsHole(sQ) == Len(sQ) = 1 /\ sQ[1][2] = 100 /\ sQ[1][1] >= 220
\* was input i solved before signing?  In a first invocation nothing of the pool is.  In a second invocation the
\* inputs the first one left solved stay solved iff nothing their signatures commit to has changed (SIGHASH_ALL:
\* version, lock time, every outpoint and sequence, every output; position) and the spent output is still known.
Frame(tQ) == [version |-> tQ.version, lock |-> tQ.lock, outs |-> tQ.outs,
              ins |-> [iQ \in 1..Len(tQ.ins) |-> [hash |-> tQ.ins[iQ].hash, index |-> tQ.ins[iQ].index, seq |-> tQ.ins[iQ].seq]]]
NoPrev == [on |-> FALSE, tx |-> NoTx, uns |-> <<>>, ok |-> <<>>]
WasSolved(prevQ, pQ, usQ, iQ) ==
  /\ prevQ.on /\ Frame(pQ) = Frame(prevQ.tx)
  /\ prevQ.ok[iQ] /\ pQ.ins[iQ].script = prevQ.tx.ins[iQ].script
  /\ iQ <= Len(usQ) /\ usQ[iQ].known /\ usQ[iQ] = prevQ.uns[iQ]
\* signed now: was not solved, key given, everything known.  Free: unsolved inputs whose key is missing while
\* signing happens (the library may leave placeholder signatures there): any unlocking data, still unsolved.
CanonHint(stageQ, prevQ, kfQ, sQ) ==
  LET pQ == sQ.tx  usQ == sQ.uns
      wasQ == [iQ \in 1..Len(pQ.ins) |-> WasSolved(prevQ, pQ, usQ, iQ)]
      goQ == CanSign(sQ) /\ \E iQ \in 1..Len(pQ.ins) : ~wasQ[iQ]
      signQ == {iQ \in 1..Len(pQ.ins) : goQ /\ ~wasQ[iQ] /\ Signable(kfQ, sQ.keys, usQ[iQ])
                                        /\ (Mutant = "sign_first_only" => iQ = 1)}
      freeQ == {iQ \in 1..Len(pQ.ins) : goQ /\ ~wasQ[iQ] /\ iQ \notin signQ} IN
  [unlock |-> [iQ \in 1..Len(pQ.ins) |-> IF iQ \in signQ \cup freeQ THEN Hole(stageQ, iQ) ELSE pQ.ins[iQ].script],
   wit |-> [iQ \in 1..Len(pQ.ins) |-> pQ.ins[iQ].wit],
   ok |-> [iQ \in 1..Len(pQ.ins) |-> wasQ[iQ] \/ iQ \in signQ],
   was |-> wasQ, sign |-> signQ, free |-> freeQ]

PrevOf(oQ, hQ) == IF oQ.r = "ok" THEN [on |-> TRUE, tx |-> oQ.tx, uns |-> oQ.uns, ok |-> hQ.ok] ELSE NoPrev
\* ---------------------------------------------------------------- the session machine
VARIABLES cid, cs, stage, o1, h1, h2
vars == <<pc, wk, cid, cs, stage, o1, h1, h2>>
NoHint == [unlock |-> <<>>, wit |-> <<>>, ok |-> <<>>, was |-> <<>>, sign |-> {}, free |-> {}]
Chunks == 64
Init == /\ pc = "pick" /\ wk = Work(Base("BTC"), KF) /\ o1 = NoOutcome("none", "") /\ cs = Skip
        /\ cid \in 1..(IF NCases < Chunks THEN NCases ELSE Chunks) /\ stage = 0 /\ h1 = NoHint /\ h2 = NoHint

Pick == /\ pc = "pick"
        /\ \E nQ \in {kQ \in 1..NCases : kQ % Chunks = cid % Chunks} :
             \E sQ \in {SessOf(Cases[nQ])} :
               /\ cid' = nQ /\ cs' = sQ /\ wk' = Work(sQ.it, KF)
               /\ pc' = IF sQ.skip THEN "skipped" ELSE "options"
        /\ stage' = 1 /\ UNCHANGED <<o1, h1, h2>>

Sign == /\ pc = "sign"
        /\ \E hQ \in {CanonHint(stage, IF stage = 2 THEN PrevOf(o1, h1) ELSE NoPrev, wk.kf, PreSign(wk))} :
             /\ StepSign(hQ)
             /\ IF stage = 1 THEN h1' = hQ /\ h2' = h2 ELSE h2' = hQ /\ h1' = h1
        /\ UNCHANGED <<cid, cs, stage, o1>>

\* the second invocation: its first argument is what the first one emitted
SecondItem(itQ, oQ) ==
  [itQ EXCEPT !.args = [iQ \in 1..Len(itQ.args) |->
      IF itQ.args[iQ].k = "prev" THEN TokTx(oQ.tx, IF oQ.ext THEN oQ.uns ELSE <<>>, itQ.args[iQ].via) ELSE itQ.args[iQ]]]
Again == /\ pc = "done" /\ stage = 1 /\ cs.two /\ wk.o.r = "ok"
         /\ o1' = wk.o /\ stage' = 2
         /\ wk' = Work(SecondItem(cs.it2, wk.o), KF) /\ pc' = "options"
         /\ UNCHANGED <<cid, cs, h1, h2>>

\* ---------------------------------------------------------------- lemmas (invariants of the finished invocations)
Finished == pc = "done" /\ wk.o.r = "ok"
Order == Finished => OrderLemma(wk.item, wk.m, wk.o)
Conservation == Finished => ConservationLemma(wk.item, wk.m, wk.o)
ReportTrue == Finished => ReportLemma(wk.item, wk.o)
\* nothing is paid to a script no argument names: every output script is one of a transaction given or a payable named
OnlyNamedPaid == Finished =>
  \A jQ \in 1..Len(wk.o.tx.outs) : \E kQ \in 1..Len(wk.m.tx.outs) : wk.m.tx.outs[kQ].script = wk.o.tx.outs[jQ].script
\* single-field options change only the field they name: dropping -t / -l from the item changes nothing else of the
\* assembled transaction
DropVer == [wk.item EXCEPT !.ver = NoNum]
DropLock == [wk.item EXCEPT !.lock = NoNum]
EditsLocal == pc = "report" /\ stage = 1 /\ FamName[Cases[cid].fam] = "B1" =>
  /\ wk.item.ver.set => LET aQ == Stages(DropVer) IN aQ.st = "ok" /\ [aQ.tx EXCEPT !.version = wk.f.tx.version] = wk.f.tx /\ aQ.uns = wk.e.uns
  /\ wk.item.lock.set => LET aQ == Stages(DropLock) IN aQ.st = "ok" /\ [aQ.tx EXCEPT !.lock = wk.f.tx.lock] = wk.f.tx /\ aQ.uns = wk.e.uns
\* the believed spent outputs stay aligned with the inputs: input i of the emitted transaction is believed to spend
\* what its source says - when the source transaction is one of the pool, the database agrees
Aligned == Finished =>
  /\ Len(wk.o.uns) = Len(wk.o.tx.ins)
  /\ \A iQ \in 1..Len(wk.o.tx.ins) :
       wk.o.uns[iQ].known /\ DbHas(DbAll, wk.o.tx.ins[iQ].hash) /\ FamName[Cases[cid].fam] # "C4"
         => wk.o.uns[iQ] = DbUnspent(DbAll, wk.o.tx.ins[iQ])
\* round trip: a plain second invocation on the emitted bytes shows the same transaction; the same dump and the same
\* bytes when the unspents travel with it
PlainSecond == stage = 2 /\ Len(wk.item.args) = 1 /\ wk.item.db = <<>> /\ ~wk.item.showu /\ wk.item.ofile = ""
RoundTrip == Finished /\ PlainSecond /\ o1.mode \in {"dump", "file"} =>
  /\ wk.o.tx = o1.tx
  /\ o1.ext => wk.o.uns = o1.uns /\ wk.o.bytes = o1.bytes /\ (o1.mode = "dump" => wk.o.dump = o1.dump) /\ h2.ok = h1.ok
\* the canonical hint is one the rule book admits (otherwise the signing action could not be taken at all)
SignHintOK == pc = "sign" => SignOK(wk.kf, PreSign(wk), CanonHint(stage, IF stage = 2 THEN PrevOf(o1, h1) ELSE NoPrev, wk.kf, PreSign(wk)))

\* ---------------------------------------------------------------- export
ShowTx(tQ) == [version |-> tQ.version, lock |-> tQ.lock,
               ins |-> [iQ \in 1..Len(tQ.ins) |-> [hash |-> Show(tQ.ins[iQ].hash), index |-> tQ.ins[iQ].index, script |-> Show(tQ.ins[iQ].script),
                                                   hole |-> IsHole(tQ.ins[iQ].script), seq |-> tQ.ins[iQ].seq, nwit |-> Len(tQ.ins[iQ].wit)]],
               outs |-> [jQ \in 1..Len(tQ.outs) |-> [amount |-> tQ.outs[jQ].amount, script |-> Show(tQ.outs[jQ].script)]]]
ShowU(usQ) == [iQ \in 1..Len(usQ) |-> [known |-> usQ[iQ].known, amount |-> Pad(usQ[iQ].amount, 4), script |-> Show(usQ[iQ].script)]]
HasHole(tQ) == \E iQ \in 1..Len(tQ.ins) : IsHole(tQ.ins[iQ].script)
ShowField(fQ) == IF fQ.t = "hex" THEN [t |-> "hex", v |-> Show(fQ.v)] ELSE [t |-> "dec", v |-> fQ.v]
ShowLine(lnQ) == [iQ \in 1..Len(lnQ) |-> ShowField(lnQ[iQ])]
ShowTok(tkQ) ==
  CASE tkQ.k = "tx" -> [k |-> "tx", via |-> tkQ.via, hole |-> HasHole(tkQ.tx),
                        bytes |-> Show(IF tkQ.uns = <<>> THEN Wire(tkQ.tx) ELSE WireExt(tkQ.tx, ExtUnspents(tkQ.uns)))]
    [] tkQ.k = "txid" -> [k |-> "txid", bytes |-> Show(Reverse8(tkQ.h))]
    [] tkQ.k = "sp" -> [k |-> "sp", fields |-> ShowLine(SubSeq(SP!TextFields(tkQ.sp), 1, tkQ.nf))]
    [] tkQ.k = "parts" -> [k |-> "parts", t |-> tkQ.t, amt |-> tkQ.amt]
    [] tkQ.k = "text" -> [k |-> "text", t |-> tkQ.t]
    [] tkQ.k = "prev" -> [k |-> "prev", via |-> tkQ.via]
ShowItem(itQ) ==
  [net |-> itQ.net, args |-> [iQ \in 1..Len(itQ.args) |-> ShowTok(itQ.args[iQ])],
   ver |-> itQ.ver, lock |-> itQ.lock, seqn |-> itQ.seqn, fee |-> itQ.fee, rmin |-> itQ.rmin, rmout |-> itQ.rmout,
   repl |-> [iQ \in 1..Len(itQ.repl) |-> [idx |-> itQ.repl[iQ].idx, script |-> Show(itQ.repl[iQ].script)]],
   db |-> [iQ \in 1..Len(itQ.db) |-> Show(Wire(itQ.db[iQ].tx))], aug |-> itQ.aug, showu |-> itQ.showu, ofile |-> itQ.ofile,
   keyfile |-> itQ.keyfile, lockdate |-> itQ.lockdate]
ShowAddr(aQ) == aQ
ShowDump(dQ) == dQ
ShowOutcome(oQ, hQ) ==
  IF oQ.r # "ok" THEN [r |-> oQ.r, why |-> oQ.why]
  ELSE [r |-> "ok", why |-> "", tx |-> ShowTx(oQ.tx), uns |-> ShowU(oQ.uns), ext |-> oQ.ext, bad |-> oQ.bad, mode |-> oQ.mode,
        exact |-> ~HasHole(oQ.tx), bytes |-> Show(oQ.bytes),
        dump |-> [iQ \in 1..Len(oQ.dump) |-> IF oQ.dump[iQ].k = "in" THEN [oQ.dump[iQ] EXCEPT !.hash = Show(@)] ELSE oQ.dump[iQ]],
        lines |-> [iQ \in 1..Len(oQ.lines) |-> ShowLine(oQ.lines[iQ])],
        says |-> oQ.says, may |-> oQ.may, verdict |-> oQ.verdict, fs |-> oQ.fs, fee |-> Pad(oQ.fee, 4),
        sign |-> hQ.sign, free |-> hQ.free, ok |-> hQ.ok]

\* one record per finished session (printed from the state where nothing more follows)
SessionOver == pc = "done" /\ (stage = 2 \/ ~cs.two \/ wk.o.r # "ok")
Export == /\ SessionOver /\ pc' = "exported" /\ UNCHANGED <<wk, cid, cs, stage, o1, h1, h2>>
          /\ PrintT(ToJson([k |-> "case", id |-> cid, fam |-> FamName[Cases[cid].fam], dx |-> Cases[cid], two |-> stage = 2,
                 it1 |-> ShowItem(cs.it), x1 |-> IF stage = 2 THEN ShowOutcome(o1, h1) ELSE ShowOutcome(wk.o, h1),
                 it2 |-> IF stage = 2 THEN ShowItem(cs.it2) ELSE <<>>,
                 x2 |-> IF stage = 2 THEN ShowOutcome(wk.o, h2) ELSE <<>>]))

Lift(A) == A /\ UNCHANGED <<cid, cs, stage, o1, h1, h2>>
Next == \/ Pick \/ Lift(StepOptions) \/ Lift(StepCollect) \/ Lift(StepMerge) \/ Lift(StepEdit) \/ Lift(StepFee)
        \/ Sign \/ Lift(StepReport) \/ Again \/ Export
Spec == Init /\ [][Next]_vars


\* ---------------------------------------------------------------- deliberately wrong rules (cfg substitutions: the lemmas must object)
\* the odd satoshis go to the LAST outputs of the pool
BadDistribute(tQ, poolQ) ==
  LET UQ == UnspecIdx(tQ)
      nQ == Cardinality(UQ)
      dQ == NDivSmall(poolQ, nQ) IN
  [tQ EXCEPT !.outs = [jQ \in 1..Len(tQ.outs) |->
      IF jQ \in UQ THEN [tQ.outs[jQ] EXCEPT !.amount = Pad(IF Rank(UQ, jQ) >= nQ - dQ.r THEN NAdd(dQ.q, NOne) ELSE dQ.q, 4)]
      ELSE tQ.outs[jQ]]]
\* a transaction given without what it spends brings NOTHING (instead of "unknown" for each input): the believed outputs slide
Slice(sQ, aQ, bQ) == SubSeq(sQ, aQ, MinOf(bQ, Len(sQ)))
BadMergeUns(txsQ, U(_)) == FlatMap(txsQ, LAMBDA eQ : Slice(eQ.uns, 1, Paired(eQ))) \o FlatMap(txsQ, LAMBDA eQ : Slice(eQ.uns, Paired(eQ) + 1, Len(eQ.tx.ins)))
\* the verdict "validated" as soon as every believed output is known (without looking at the source transactions)
BadVerdict(item, tQ, usQ) ==
  IF item.showu \/ tQ.outs = <<>> THEN "none" ELSE IF Missing(tQ, usQ) THEN "sources_missing" ELSE "validated"

\* ---------------------------------------------------------------- cfg "pool": print what the harness must hash
PoolInit == /\ pc = "pool" /\ wk = Work(Base("BTC"), KF) /\ o1 = NoOutcome("none", "") /\ cs = Skip /\ cid \in 1..NSrc /\ stage = 0 /\ h1 = NoHint /\ h2 = NoHint
PoolNext == /\ pc = "pool" /\ pc' = "done" /\ UNCHANGED <<wk, cid, cs, stage, o1, h1, h2>>
            /\ PrintT(ToJson([k |-> "src", s |-> cid, wire |-> Show(Wire(SrcTx(cid))), stripped |-> Show(Stripped(SrcTx(cid)))]))
PoolSpec == PoolInit /\ [][PoolNext]_vars
=============================================================================
