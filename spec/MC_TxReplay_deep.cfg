CONSTANTS MaxSteps = 3  MaxInserts = 1  Mode = "replay"  Cases <- CasesDeep
SPECIFICATION RSpec
CHECK_DEADLOCK FALSE
