------------------------- MODULE X02_MC_Attribution -------------------------
(* Model-checking configurations of X02_Attribution.tla and its spec -> code  *)
(* export.                                                                    *)
(*   "model"  : every signing history (bounded) followed by every editing     *)
(*              history (bounded); the lemmas L1..L7 are checked on all       *)
(*              states / steps.                                               *)
(*   "replay" : the same behaviours with their history; after every step TLC  *)
(*              prints the history and the attribution the specification      *)
(*              demands for every input position.  The harness performs the   *)
(*              history on a real pycoin transaction and asks pycoin who has  *)
(*              signed.                                                       *)
EXTENDS X02_Attribution, Json

CONSTANTS Cases,        \* set of [coin, shape, nout, hta, htb]
          EditFrom,     \* "any": edits may start after any number of passes; "signed": only once a pass made progress
          MutSet        \* "all" | "fields" | "light": which edits are explored

VARIABLES case, hist
mvars == <<xvars, case, hist>>

D(kind, m, keys, form) == [kind |-> kind, m |-> m, keys |-> keys, form |-> form]
NoShapes == {}
AllListed == UNION {Listed(i) : i \in Ins}

P(K, I, ht) == [mech |-> "lookup", K |-> K, I |-> I, ht |-> ht, scr |-> TRUE, reg |-> {}, sec |-> {},
                fresh |-> TRUE, ic |-> IF I = Ins THEN "none" ELSE "list"]
\* the first pass signs with the case's first hash type, later passes with the second: a multisig input
\* ends up carrying signatures of different hash types
HtNow == IF npass = 0 THEN case.hta ELSE case.htb
KeySets == {{k} : k \in AllListed} \cup {AllListed} \cup {{NK}}        \* NK: a key no puzzle lists
InSets == {Ins} \cup {{i} : i \in Ins}
\* only passes whose outcome the specification determines (never more keys on offer than still needed)
Determined(p) == \A i \in Signable(p) :
                    Cardinality(Usable(p, i) \ Present(i)) <= Need(i) - Cardinality(Present(i))
MPasses == {p \in {P(K, I, HtNow) : K \in KeySets, I \in InSets} : Determined(p)}

FieldMutNames == {"ver", "lock", "oph", "opi", "seq", "spent_amt", "spent_spk", "out_amt", "out_spk"}
LightMutNames == {"lock", "seq", "out_amt", "spent_amt", "unl_swap", "outs_remove"}
\* TxValidate!AllMuts filters 3888 candidate records per state; the same set from a tight candidate list
\* (CandidatesCover, checked by the dev configuration, states that nothing enabled is left out)
MR(ms, as, bs) == [m : ms, a : as, b : bs]
Candidates == MR({"ver", "lock"}, {0}, {0, 1}) \cup MR({"oph", "opi"}, 1..5, {0, 1, 2})
              \cup MR({"seq", "spent_amt"}, 1..5, {0, 1})
              \cup MR({"spent_spk"}, 1..5, (1..5) \cup (11..15) \cup (31..35))
              \cup MR({"out_amt", "out_spk"}, 1..5, {1, 2, 3})
              \cup MR({"ins_insert", "ins_remove", "outs_remove", "forget"}, 1..5, {0})
              \cup MR({"outs_insert"}, 1..5, {3})
              \cup MR({"ins_swap", "outs_swap", "unl_swap"}, 1..4, 2..5)
              \cup MR({"revert"}, {0}, {0})
EnabledMuts == {x \in Candidates : XTV!Enabled(x)}
CandidatesCover == EnabledMuts = XTV!AllMuts
MMuts == CASE MutSet = "all" -> EnabledMuts
           [] MutSet = "fields" -> {x \in EnabledMuts : x.m \in FieldMutNames \cup {"unl_swap"}}
           [] OTHER -> {x \in EnabledMuts : x.m \in LightMutNames}
MRetags == IF MutSet = "light" THEN {}
           ELSE {<<i, q[1], b>> : i \in Ins, q \in UNION {signed[j] : j \in Ins}, b \in SigBytes}
\* (a set comparison, not \E: TLC would take the step once per witness)
MayEdit == EditFrom = "any" \/ {i \in Ins : signed[i] # {}} # {}

MInit == /\ case \in Cases /\ ShapeOK(case.coin, case.shape)
         /\ XInitWith(case.coin, case.shape, case.nout)
         /\ hist = <<>>

----------------------------------------------------------------------------
(* "model" *)
MSign == \E p \in MPasses : XSign(p) /\ signed' # signed
MEdit == MayEdit /\ \/ \E x \in MMuts : XMutate(x)
                    \/ \E t \in MRetags : XRetag(t[1], t[2], t[3])
MStepSign == MSign /\ UNCHANGED <<case, hist>>
MStepEdit == MEdit /\ UNCHANGED <<case, hist>>
MNext == MStepSign \/ MStepEdit
MSpec == MInit /\ [][MNext]_mvars

----------------------------------------------------------------------------
(* "replay" *)
PassRec(p) == [t |-> "sign", K |-> p.K, I |-> p.I, ht |-> p.ht, ic |-> p.ic]
MutRec(x) == [t |-> "mut", m |-> x.m, a |-> x.a, b |-> x.b]
RetagRec(t) == [t |-> "retag", a |-> t[1], key |-> t[2], b |-> t[3]]
Emit == PrintT(ToJson([k |-> "x", coin |-> coin, shape |-> shape, nout |-> case.nout, hist |-> hist',
                       att |-> AttributionAll', may |-> AttributionMayAll', unl |-> [pos \in 1..Len(ins') |-> ins'[pos].unl],
                       signed |-> signed', sigbytes |-> SigBytes]))
RSign == \E p \in MPasses : /\ XSign(p) /\ signed' # signed
                            /\ hist' = Append(hist, PassRec(p)) /\ UNCHANGED case /\ Emit
REdit == MayEdit /\ \/ \E x \in MMuts : XMutate(x) /\ hist' = Append(hist, MutRec(x)) /\ UNCHANGED case /\ Emit
                    \/ \E t \in MRetags : /\ XRetag(t[1], t[2], t[3])
                                          /\ hist' = Append(hist, RetagRec(t)) /\ UNCHANGED case /\ Emit
RNext == RSign \/ REdit
RSpec == MInit /\ [][RNext]_mvars

----------------------------------------------------------------------------
(* vacuity guards: the interesting corners are reached *)
\* some state in which an input keeps one signer and has lost another
ReachPartialLoss == \E i \in Ins : Attribution(i) # {} /\ Attribution(i) # signed[i] /\ ins[i].unl = i
NeverPartialLoss == ~(Len(ins) = Len(shape) /\ ReachPartialLoss)
\* some state in which a transplanted or retagged signature still verifies (the SIGHASH_SINGLE corner)
NeverSurvivesTransplant == ~\E pos \in Positions : ins[pos].unl # 0 /\ ins[pos].id # ins[pos].unl /\ Attribution(pos) # {}
NeverOpen == \A pos \in Positions : Attribution(pos) = AttributionMay(pos)
NeverSurvivesRetag == ~\E pos \in Positions : \E p \in Attribution(pos) : \E t \in retag : t[1] = ins[pos].unl /\ t[2] = p[1]

----------------------------------------------------------------------------
(* case tables *)
HTSeq == <<1, 2, 3, 129, 130, 131>>
HtPairs == << <<1, 3>>, <<3, 131>>, <<2, 129>>, <<130, 1>>, <<131, 2>>, <<129, 3>> >>
ShapeSeq == <<
    <<D("ms_p2sh", 2, <<1, 2, 3>>, "c"), D("p2pkh", 1, <<4>>, "u")>>,
    <<D("p2pkh", 1, <<1>>, "c"), D("p2pkh", 1, <<1>>, "c")>>,               \* the same puzzle twice
    <<D("ms_bare", 2, <<2, 1>>, "c"), D("ms_bare", 2, <<2, 1>>, "c")>>,     \* the same multisig twice
    <<D("p2wpkh", 1, <<3>>, "c"), D("ms_p2wsh", 2, <<1, 2, 3>>, "c")>>,
    <<D("p2sh_p2wpkh", 1, <<2>>, "c"), D("ms_p2sh_p2wsh", 1, <<3, 1>>, "c")>>,
    <<D("p2pk", 1, <<4>>, "u"), D("ms_bare", 1, <<1, 2>>, "u")>>,
    <<D("ms_p2sh", 2, <<1, 2>>, "u"), D("ms_p2sh", 2, <<1, 2>>, "u")>>,     \* the same P2SH multisig twice
    <<D("p2pk", 1, <<2>>, "c"), D("p2pkh", 1, <<2>>, "c"), D("ms_bare", 2, <<2, 3, 4>>, "c")>>,
    <<D("p2pkh", 1, <<3>>, "u"), D("p2pkh", 1, <<1>>, "c"), D("p2pkh", 1, <<1>>, "c")>> >>   \* positions 2, 3 beyond the only output
WitnessFree(sh) == \A i \in 1..Len(sh) : sh[i].kind \notin WitnessKinds
CaseOf(c, s, n, h) == [coin |-> c, shape |-> ShapeSeq[s], nout |-> n, hta |-> HtPairs[h][1], htb |-> HtPairs[h][2]]
CasesFor(coins, ss, ns, hs) == {x \in {CaseOf(c, s, n, h) : c \in coins, s \in ss, n \in ns, h \in hs} :
                                   x.coin = "BCH" => WitnessFree(x.shape)}
\* model: small
CasesDev == CasesFor({"BTC"}, {1}, {2}, {1})
CasesModel == CasesFor({"BTC"}, {1, 2, 4}, {1, 2}, {1, 5}) \cup CasesFor({"BCH"}, {2, 6}, {1}, {2})
              \cup CasesFor({"BTC"}, {9}, {1}, {2})
CasesModelT == CasesFor({"BTC"}, 1..9, {1, 2}, {5}) \cup CasesFor({"BTC"}, {1, 3, 8}, {1}, {2}) \cup CasesFor({"LTC"}, {4, 5}, {2}, {3}) \cup CasesFor({"BCH", "BTG"}, {1, 2, 6, 7}, {1}, {4})
\* replay: each shape with a rotating hash-type pair; both output counts
RotCases(coins, ss, ns) == {x \in {CaseOf(c, s, n, ((s + n) % 6) + 1) : c \in coins, s \in ss, n \in ns} :
                               x.coin = "BCH" => WitnessFree(x.shape)}
CasesOpen == CasesFor({"BTC"}, {8}, {1}, {2})      \* inputs of different puzzles sharing a key, beyond the only output
CasesReplayQ == RotCases({"BTC"}, 1..7, {1, 2}) \cup RotCases({"BCH"}, {1, 2, 6}, {1}) \cup CasesFor({"BTC"}, {9}, {1}, {2}) \cup CasesOpen
CasesReplayLightQ == RotCases({"BTC"}, {1, 5}, {2}) \cup RotCases({"BCH"}, {7}, {1})
CasesReplayDeepQ == RotCases({"BTC"}, {2}, {1})
CasesReplayT == RotCases({"BTC"}, 1..9, {1, 2}) \cup RotCases({"BTC"}, {1, 2, 3}, {3}) \cup RotCases({"LTC", "BTG", "BCH", "DOGE", "XTN"}, {1, 2, 3, 6}, {1})
CasesReplayDeepT == CasesFor({"BTC"}, {2, 4}, {1}, {4}) \cup CasesFor({"BCH"}, {2}, {1}, {3})
=============================================================================
