CONSTANTS N = 4  W = 1  MaxAdd = 3  MaxLock = 0  AllowDup = FALSE
          MeldInterior = TRUE  SkipLocked = TRUE  KeepOnLock = TRUE
SPECIFICATION RSpec
CHECK_DEADLOCK FALSE
