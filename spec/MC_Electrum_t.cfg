CONSTANTS Ns = {0, 1, 2, 9, 10, 11, 99, 100, 65535, 65536, 16777216, 999999999, 1000000000, 2147483647}  Cs = {0, 1, 2, 10}  MaxDepth = 2
SPECIFICATION SpecE
INVARIANTS Commutes HashedLayout KeyIsSum DecOk
ACTION_CONSTRAINT Emit
CHECK_DEADLOCK FALSE
