CONSTANTS NK = 3  Full = FALSE
SPECIFICATION Spec
CHECK_DEADLOCK FALSE
