CONSTANTS Generic = {"*"}  Table = "sane"  Mode = "cases"
SPECIFICATION Spec
INVARIANTS GridOk FaithfulOk ApartOk TableApart
CHECK_DEADLOCK FALSE
