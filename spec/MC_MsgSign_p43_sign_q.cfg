CONSTANTS P = 43  A = 0  B = 7  Gx = 2  Gy = 12  N = 31  Mode = "sign"  RMax = 0
CONSTANT ESet <- EOne
CONSTANT SSet <- SAll
CONSTANT DSet <- DAll
SPECIFICATION Spec
INVARIANT Holds
CHECK_DEADLOCK FALSE
