CONSTANTS P = 83  A = 1  B = 7  Gx = 0  Gy = 16  N = 79
          SecLens <- LensQ
          Stage = "sec"
          SecPfx <- SlicePfx32  SecXs <- AllBytes  SecYs <- AllBytes  SecLongYs = {0, 12, 255} DerPos <- PosNone  DerExt <- One0  DerExtLen = 0
SPECIFICATION Spec
INVARIANT NoBad
CHECK_DEADLOCK FALSE
