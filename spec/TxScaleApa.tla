----------------------------- MODULE TxScaleApa -----------------------------
(* Optional Apalache cross-check of the scaling lemma (TxBuild!Scale) for     *)
(* unbounded K: if n divides K and 0 <= r < K then splitting K * p + r       *)
(* n ways gives p * (K / n) + Share(r, n, k) to the output of rank k.        *)
EXTENDS Integers

VARIABLES
  \* @type: Int;
  p,
  \* @type: Int;
  K,
  \* @type: Int;
  r,
  \* @type: Int;
  n

Sh(pool, k) == (pool \div n) + (IF k < pool % n THEN 1 ELSE 0)

Init == /\ n \in 1..4
        /\ p \in Nat /\ K \in Nat /\ r \in Nat
        /\ K >= 1 /\ K % n = 0 /\ r < K
Next == UNCHANGED <<p, K, r, n>>

Inv == \A k \in 0..3 : k < n => Sh(K * p + r, k) = p * (K \div n) + Sh(r, k)
=============================================================================
