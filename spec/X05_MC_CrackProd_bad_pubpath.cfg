CONSTANTS P = 11  A = 1  B = 6  Gx = 2  Gy = 4  N = 13
          DC = {"1", "2", "ra"}  KC = {"1", "2", "rb"}  Z1C = {"1"}  Z2C = {"1"}
          Values = {0, 1}  MaxDepth = 2  SeedLen = 16
          PubPath <- RootOnlyPubPath
SPECIFICATION Spec
INVARIANTS AscentLemmas
CHECK_DEADLOCK FALSE
