CONSTANTS P = 79  A = 0  B = 3  Gx = 1  Gy = 2  N = 97
          SignZ = {1, 96, 97, 98}  VerZ = {1, 97}  VerQ = {2, 50, 97}  RecZ = {1, 97}
SPECIFICATION Spec
INVARIANT ReturnedVerifies
CHECK_DEADLOCK FALSE
