CONSTANTS B = 10000  LimbVals = {0, 1, 2, 4999, 5000, 5001, 9998, 9999}  MaxLen = 2
SPECIFICATION Spec
INVARIANTS AddIsPlus AddNormal AddComm CmpIsOrder ValInjective OfNatInverse
CHECK_DEADLOCK FALSE
