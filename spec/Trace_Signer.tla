---------------------------- MODULE Trace_Signer ----------------------------
(* Code -> spec binding for C05: recorded signing sessions of the real        *)
(* library are checked to be behaviours of Signer.tla.  One logged event =    *)
(* one call of the signing API (Tx.sign / sign_tx / Solver.sign) with what    *)
(* was supplied, and the projection of the transaction it left behind: per    *)
(* input the listed keys whose signatures are present with their hash-type    *)
(* bytes, validity under the policy flags, which unlocking data changed, and  *)
(* a digest of everything a signer must not touch.                            *)
EXTENDS Signer, Json, IOUtils, TLCExt

Traces == JsonDeserialize(IOEnv.TRACE_FILE)
VARIABLES tid, l,
          fd     \* digest of everything outside the unlocking data, as last logged
tvars == <<vars, tid, l, fd>>
T == Traces[tid]
Ev == T.ev
Cur == Ev[l]

NoShapesT == {}
Pairs(arr) == {<<e[1], e[2]>> : e \in ToSet(arr)}

TInit == /\ TLCSet(1, {})
         /\ tid \in 1..Len(Traces) /\ l = 1
         /\ coin = T.coin /\ shape = T.shape
         /\ signed = [i \in 1..Len(T.shape) |-> Pairs(T.pre[i])]
         /\ valid = [i \in 1..Len(T.shape) |-> Cardinality(Pairs(T.pre[i])) >= T.shape[i].m]
         /\ frame = FrameOf(T.shape) /\ fd = T.frame
         /\ unlock = [i \in 1..Len(T.shape) |-> 0]
         /\ offered = [i \in 1..Len(T.shape) |-> {p[1] : p \in Pairs(T.pre[i])}]
         /\ kcReg = {} /\ kcSec = {} /\ kcScr = FALSE /\ npass = 0 /\ nouts = T.nout

PassOf(e) == [mech |-> e.mech, K |-> ToSet(e.K), I |-> ToSet(e.I), ht |-> e.ht, scr |-> e.scr,
              reg |-> ToSet(e.reg), sec |-> ToSet(e.sec), fresh |-> e.fresh, ic |-> e.ic,
              sc |-> e.sc, via |-> e.via]

\* registering paths / adding secrets / adding scripts to the long-lived keychain
TKcAdd == /\ l <= Len(Ev) /\ Cur.mech = "kc_add"
          /\ KcAdd(ToSet(Cur.reg), ToSet(Cur.sec), Cur.scr) /\ Cur.via \in RegVias /\ Cur.sc \in ScriptContainers
          /\ Cur.frame = fd /\ Cur.changed = <<>>
          /\ \A i \in Ins : Pairs(Cur.signed[i]) = signed[i] /\ Cur.valid[i] = valid[i]
          /\ Cur.bad = BadNow /\ ~Cur.raised /\ NotAccumulated(Cur.nsig)
          /\ l' = l + 1 /\ UNCHANGED <<tid, fd>>
\* the caller edited one field of the transaction: the signatures whose hash type commits to it are
\* stale now, the others survive; the unlocking data is as it was; the frame digest is a new one
TEdit == /\ l <= Len(Ev) /\ Cur.mech = "edit"
         /\ Edit([m |-> Cur.field, a |-> Cur.pos, b |-> 0])
         /\ signed' = [i \in Ins |-> Pairs(Cur.signed[i])]
         /\ valid' = [i \in Ins |-> Cur.valid[i]]
         /\ \A i \in Ins : Cur.reported[i] = Cur.valid[i]
         /\ Cur.bad = BadNow' /\ ~Cur.raised /\ Cur.changed = <<>> /\ NotAccumulated(Cur.nsig)
         /\ Cur.frame # fd /\ fd' = Cur.frame
         /\ l' = l + 1 /\ UNCHANGED tid
\* create_signed_tx raised SecretExponentMissing: legitimate iff the pass can leave an input failing
\* (there is no transaction to look at afterwards; the session ends here)
TCreateRaised == /\ l <= Len(Ev) /\ Cur.mech = "create_signed" /\ Cur.raised
                 /\ \E ch \in PassChoices(PassOf(Cur), NIn) : BadAfter(ch) > 0 /\ SignPassWith(PassOf(Cur), ch)
                 /\ l' = l + 1 /\ UNCHANGED <<tid, fd>>
TStep == /\ l <= Len(Ev) /\ Cur.mech \notin {"kc_add", "edit"} /\ ~Cur.raised
         /\ Cur.same_as_fresh                    \* a fresh keychain with the same contents signs the same
         /\ SignPassWith(PassOf(Cur), [i \in Ins |-> {e[1] : e \in ToSet(Cur.signed[i])}])
         /\ signed' = [i \in Ins |-> Pairs(Cur.signed[i])]
         /\ valid' = [i \in Ins |-> Cur.valid[i]]
         /\ Cur.frame = fd                                      \* nothing outside the unlocking data moved
         /\ NotAccumulated(Cur.nsig)                            \* stale signatures replaced, not kept alongside
         /\ \A i \in ToSet(Cur.changed) : unlock'[i] # unlock[i]  \* only inputs the pass may rewrite changed
         /\ Cur.canonical                                       \* every signature present: strict DER, low S (for a "lookup" pass also
                                                                \* every signature its key-less twin wrote from outside signatures)
         /\ \A i \in Ins : Cur.reported[i] = Cur.valid[i]       \* is_solution_ok agrees
         /\ Cur.bad = BadNow'                                   \* bad_solution_count() = failing inputs
         /\ Cur.mech = "create_signed" => BadNow' = 0           \* it returned: everything must be signed
         /\ l' = l + 1 /\ UNCHANGED <<tid, fd>>
TSpec == TInit /\ [][TStep \/ TKcAdd \/ TCreateRaised \/ TEdit]_tvars

Reached == IF l = Len(Ev) + 1 THEN TLCSet(1, TLCGet(1) \cup {tid}) ELSE TRUE
\* diagnosis of a rejected trace (harness sends the trace cut after its first rejected event): in the
\* state before that event, print what the specification would allow, so that the disagreement
\* gets its class from the specification and not from a guess
DiagOf(p) == [i \in Ins |-> [target |-> Target(p, i), present |-> Present(i), pool |-> Pool(p, i),
                            touchable |-> i \in Touchable(p), signable |-> i \in Signable(p),
                            byte |-> SigByte(coin, p.ht), need |-> Need(i)]]
ReachedDiag == /\ Reached
               /\ l = Len(Ev) => PrintT(ToJson([k |-> "diag", tid |-> tid, exp |-> DiagOf(PassOf(Cur))]))
Post == PrintT(ToJson([k |-> "rejected", n |-> Len(Traces), ids |-> (1..Len(Traces)) \ TLCGet(1)]))
=============================================================================
