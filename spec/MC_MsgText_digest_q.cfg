CONSTANTS Mode = "digest" MaxLines = 0 MarkerLines = FALSE MaxLen = 2 Prefixed = TRUE
SPECIFICATION Spec
INVARIANT Holds
CHECK_DEADLOCK FALSE
