------------------------------ MODULE ECSession ------------------------------
(* Several curves in one process (C02).  A session is a sequence of calls      *)
(*      PointsForX(curve, x)    Mul(curve, k) = k*G    Add(curve, k) = k*G + G *)
(* addressed to 2-4 generator objects that live in the same interpreter.       *)
(* The rule: every answer is a function of (curve, arguments) ONLY - not of    *)
(* which other curves were asked before, not of the history.  The machine      *)
(* appends one call per step in every interleaving up to Depth; each complete  *)
(* session is printed and replayed on pycoin in one process.                   *)
(* Curves "c1", "c2" are toy curves (two INSTANCEs of EC.tla): TLC computes    *)
(* the answer.  The curves named in Symbolic (secp256k1, secp256r1) are beyond *)
(* TLC (L1): their answer is the uninterpreted term [iso |-> call], "what an   *)
(* instance alone in a fresh process answers", which the harness obtains from  *)
(* exactly such a process - the rule itself is still stated here.              *)
EXTENDS Integers, Sequences, Json, TLC

CONSTANTS P1, A1, B1, Gx1, Gy1, N1,  P2, A2, B2, Gx2, Gy2, N2,
          Symbolic, XS, KS, Depth, ToyOps

C1 == INSTANCE EC WITH P <- P1, A <- A1, B <- B1, Gx <- Gx1, Gy <- Gy1, N <- N1
C2 == INSTANCE EC WITH P <- P2, A <- A2, B <- B2, Gx <- Gx2, Gy <- Gy2, N <- N2

Toy == {"c1", "c2"}
Calls == {<<c, "pfx", x>> : c \in Toy \cup Symbolic, x \in XS}
         \cup {<<c, op, k>> : c \in Toy, op \in ToyOps, k \in KS}
         \cup {<<c, "mul", k>> : c \in Symbolic, k \in KS}

Answer(call) ==
  LET c == call[1]  op == call[2]  v == call[3] IN
  IF c = "c1" THEN CASE op = "pfx" -> C1!PointsForX(v)
                     [] op = "mul" -> C1!SMul(v, C1!G)
                     [] op = "add" -> C1!Add(C1!SMul(v, C1!G), C1!G)
  ELSE IF c = "c2" THEN CASE op = "pfx" -> C2!PointsForX(v)
                          [] op = "mul" -> C2!SMul(v, C2!G)
                          [] op = "add" -> C2!Add(C2!SMul(v, C2!G), C2!G)
  ELSE [iso |-> call]

VARIABLE hist
Init == hist = <<>>
Do(call) == Len(hist) < Depth /\ hist' = Append(hist, [call |-> call, res |-> Answer(call)])
Next == \E call \in Calls : Do(call)
Spec == Init /\ [][Next]_hist

\* the rule, as an invariant of the machine: equal calls get equal answers wherever they occur in a session
Stateless == \A i \in 1..Len(hist), j \in 1..Len(hist) : hist[i].call = hist[j].call => hist[i].res = hist[j].res
\* the two toy curves really disagree on some of the shared x (otherwise the session would prove nothing)
CurvesDiffer == \E x \in XS : C1!PointsForX(x) # C2!PointsForX(x)
EmitSession == Len(hist) = Depth => PrintT(ToJson([k |-> "session", calls |-> hist]))
=============================================================================
