CONSTANTS Mode = "conv"  LemDigits = {0}  MaxSize = 10  MaxSmall = 10
          LSet = {0, 1, 100, 252, 253, 254, 911, 912, 913, 914, 915, 1912, 1913, 1914, 2913, 2914}
          WSet = {907, 908, 909, 910, 911}
          NIn = {1, 2, 19, 20, 21, 44, 45}  NOut = {1, 2, 5}  Dealers = 16
SPECIFICATION Spec
INVARIANT LemmasHold
CHECK_DEADLOCK FALSE
