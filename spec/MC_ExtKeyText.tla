----------------------------- MODULE MC_ExtKeyText -----------------------------
(* The network x family table of ExtKeyText (C09): lemmas about the table and *)
(* the round trip, and the replay export: for every network, family, private/ *)
(* public form and a few key shapes, the text (as a term over the fields of a *)
(* named key) and the set of (network, family) parsers that must read it -    *)
(* every other parser must not.                                               *)
EXTENDS ExtKeyText, Json
VARIABLES net, fam, prv, shape
vars == <<net, fam, prv, shape>>

\* key shapes: paths of the grid of MC_BIP32_rp*.cfg (the harness has their values)
Shapes == << <<>>, <<Idx(TRUE, 2147483647)>>, <<Idx(FALSE, 0), Idx(FALSE, 16777216), Idx(TRUE, 1)>> >>
Name(s) == <<"prv", Shapes[s]>>
\* only depth and child number are literal in the text term; the rest are references
KeyOf(s) == [depth |-> Len(Shapes[s]), pfp |-> Ref(Name(s), "pfp", 4),
             cn |-> IF Shapes[s] = <<>> THEN Idx(FALSE, 0) ELSE Last(Shapes[s]),
             chain |-> Ref(Name(s), "chain", 32), key |-> Sum(<<Ref(Name(s), "k", 32)>>)]

\* header shapes: the master key's chain code and key under header fields at their byte boundaries - depth is an
\* unsigned byte (0, 127, 128, 255), the parent fingerprint four arbitrary bytes, the child number ser32 of an
\* index up to 2^31-1, hardened or not.  Such keys arise from derivation at those depths; here they are written down.
Hdrs == << [depth |-> 0,   pfp |-> <<0, 0, 0, 0>>,         cn |-> Idx(FALSE, 0)],
           [depth |-> 127, pfp |-> <<255, 254, 253, 252>>, cn |-> Idx(TRUE, 2147483647)],
           [depth |-> 128, pfp |-> <<128, 0, 0, 1>>,       cn |-> Idx(FALSE, 16777216)],
           [depth |-> 255, pfp |-> <<0, 0, 0, 128>>,       cn |-> Idx(TRUE, 0)],
           [depth |-> 200, pfp |-> <<1, 2, 3, 4>>,         cn |-> Idx(FALSE, 2147483647)] >>
KeyH(h) == [depth |-> Hdrs[h].depth, pfp |-> B(Hdrs[h].pfp), cn |-> Hdrs[h].cn,
            chain |-> Ref(Name(1), "chain", 32), key |-> Sum(<<Ref(Name(1), "k", 32)>>)]
NShapes == Len(Shapes) + Len(Hdrs)
KeyAt(s) == IF s <= Len(Shapes) THEN KeyOf(s) ELSE KeyH(s - Len(Shapes))

T == Text(net, fam, KeyAt(shape), prv)
Init == /\ net \in Nets /\ fam \in Families /\ prv \in BOOLEAN /\ shape \in 1..NShapes
        /\ Defines(net, fam)
        /\ IF shape <= Len(Shapes)
           THEN PrintT(ToJson([k |-> "text", net |-> net, fam |-> fam, prv |-> prv, path |-> Shapes[shape],
                               text |-> Text(net, fam, KeyOf(shape), prv),
                               readers |-> Readers(Text(net, fam, KeyOf(shape), prv))]))
           ELSE PrintT(ToJson([k |-> "hdrtext", net |-> net, fam |-> fam, prv |-> prv,
                               depth |-> Hdrs[shape - Len(Shapes)].depth, pfp |-> Hdrs[shape - Len(Shapes)].pfp,
                               cnh |-> Hdrs[shape - Len(Shapes)].cn.h, cnv |-> <<Hdrs[shape - Len(Shapes)].cn.v \div 65536, Hdrs[shape - Len(Shapes)].cn.v % 65536>>,
                               text |-> T, readers |-> Readers(T)]))
Next == UNCHANGED vars
Spec == Init /\ [][Next]_vars

RoundTrip == RoundTrips(net, fam, KeyAt(shape), prv)
SelfReads == <<net, fam>> \in Readers(T)
\* on its own network a text is read by its own family only
OwnFamilyOnly == \A f \in Families : Accepts(net, f, T) <=> f = fam
ASSUME PrvPubDistinct
ASSUME FamiliesSeparated
ASSUME AllFourBytes
=============================================================================
