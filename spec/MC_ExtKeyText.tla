----------------------------- MODULE MC_ExtKeyText -----------------------------
(* The network x family table of ExtKeyText (C09): lemmas about the table and *)
(* the round trip, and the replay export: for every network, family, private/ *)
(* public form and a few key shapes, the text (as a term over the fields of a *)
(* named key) and the set of (network, family) parsers that must read it -    *)
(* every other parser must not.                                               *)
EXTENDS ExtKeyText, Json
VARIABLES net, fam, prv, shape
vars == <<net, fam, prv, shape>>

\* key shapes: paths of the grid of MC_BIP32_rp*.cfg (the harness has their values)
Shapes == << <<>>, <<Idx(TRUE, 2147483647)>>, <<Idx(FALSE, 0), Idx(FALSE, 16777216), Idx(TRUE, 1)>> >>
Name(s) == <<"prv", Shapes[s]>>
\* only depth and child number are literal in the text term; the rest are references
KeyOf(s) == [depth |-> Len(Shapes[s]), pfp |-> Ref(Name(s), "pfp", 4),
             cn |-> IF Shapes[s] = <<>> THEN Idx(FALSE, 0) ELSE Last(Shapes[s]),
             chain |-> Ref(Name(s), "chain", 32), key |-> Sum(<<Ref(Name(s), "k", 32)>>)]

T == Text(net, fam, KeyOf(shape), prv)
Init == /\ net \in Nets /\ fam \in Families /\ prv \in BOOLEAN /\ shape \in 1..Len(Shapes)
        /\ Defines(net, fam)
        /\ PrintT(ToJson([k |-> "text", net |-> net, fam |-> fam, prv |-> prv, path |-> Shapes[shape],
                          text |-> Text(net, fam, KeyOf(shape), prv),
                          readers |-> Readers(Text(net, fam, KeyOf(shape), prv))]))
Next == UNCHANGED vars
Spec == Init /\ [][Next]_vars

RoundTrip == RoundTrips(net, fam, KeyOf(shape), prv)
SelfReads == <<net, fam>> \in Readers(T)
\* on its own network a text is read by its own family only
OwnFamilyOnly == \A f \in Families : Accepts(net, f, T) <=> f = fam
ASSUME PrvPubDistinct
ASSUME FamiliesSeparated
ASSUME AllFourBytes
=============================================================================
