SPECIFICATION MSpec
CONSTANTS
  Tier = "thorough"
  HashHas <- ToyHashHas
  HashGet <- ToyHashGet
  SigHas <- ToySigHas
  SigGet <- ToySigGet
INVARIANT LemmasHold
CHECK_DEADLOCK FALSE
