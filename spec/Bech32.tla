------------------------------- MODULE Bech32 -------------------------------
(* C11, part 2: Bech32 (BIP173), Bech32m (BIP350) and native segwit address  *)
(* encoding, transcribed from the BIP texts.  Characters are code points,    *)
(* strings are sequences of code points, 5-bit symbols are 0..31, bytes are  *)
(* 0..255.                                                                   *)
(*                                                                           *)
(* Rule book (BIP173 "Bech32", "Segwit address format"; BIP350)              *)
(*  S1 a string is at most 90 characters: hrp, the separator '1', data part   *)
(*  S2 hrp: 1..83 characters, each in 33..126                                 *)
(*  S3 the separator is the LAST '1' of the string                            *)
(*  S4 data part: at least 6 characters, all from                             *)
(*     qpzry9x8gf2tvdw0s3jn54khce6mua7l (symbol value = index)                *)
(*  S5 decoders MUST NOT accept strings with both an upper and a lower case   *)
(*     letter; the lower case form is used for the checksum; encoders emit    *)
(*     lower case                                                             *)
(*  S6 checksum: polymod(hrpexpand(hrp) ++ data) = 1 (Bech32) or 0x2bc830a3   *)
(*     (Bech32m); polymod is the BCH code with the five generator constants   *)
(*  A1 address data = witness version symbol, then the program regrouped from *)
(*     8 to 5 bits, most significant bit first, zero padded                   *)
(*  A2 decoding regroups 5 to 8 bits: an incomplete trailing group MUST be 4  *)
(*     bits or less, MUST be all zeroes, and is discarded                     *)
(*  A3 version 0..16; program 2..40 bytes; version 0: exactly 20 or 32 bytes  *)
(*  A4 version 0 uses Bech32, versions 1..16 use Bech32m; a decoder MUST      *)
(*     reject the other constant                                              *)
(*  A5 the hrp of the string must be the one the caller expects               *)
EXTENDS Naturals, Sequences, SequencesExt, FiniteSets, Bitwise

\* hexadecimal literal from its digits (keeps the BIP's constants legible)
Hex(ds) == FoldLeft(LAMBDA acc, d : acc * 16 + d, 0, ds)

Charset == <<113, 112, 122, 114, 121, 57, 120, 56,      \* q p z r y 9 x 8
             103, 102, 50, 116, 118, 100, 119, 48,      \* g f 2 t v d w 0
             115, 51, 106, 110, 53, 52, 107, 104,       \* s 3 j n 5 4 k h
             99, 101, 54, 109, 117, 97, 55, 108>>       \* c e 6 m u a 7 l
CharsetSet == {Charset[i] : i \in DOMAIN Charset}
ASSUME CharsetOk == /\ Len(Charset) = 32 /\ Cardinality(CharsetSet) = 32
                    /\ CharsetSet \cap {49, 98, 105, 111} = {}        \* 1 b i o excluded
                    /\ \A c \in CharsetSet : c \in 48..57 \/ c \in 97..122
SymTable == [c \in 0..127 |-> IF c \in CharsetSet THEN (CHOOSE i \in 0..31 : Charset[i + 1] = c) ELSE 0 - 1]
SymOf(c) == SymTable[c]

GEN == << Hex(<<3, 11, 6, 10, 5, 7, 11, 2>>),      \* 0x3b6a57b2
          Hex(<<2, 6, 5, 0, 8, 14, 6, 13>>),       \* 0x26508e6d
          Hex(<<1, 14, 10, 1, 1, 9, 15, 10>>),     \* 0x1ea119fa
          Hex(<<3, 13, 4, 2, 3, 3, 13, 13>>),      \* 0x3d4233dd
          Hex(<<2, 10, 1, 4, 6, 2, 11, 3>>) >>     \* 0x2a1462b3
BECH32 == 1
BECH32M == Hex(<<2, 11, 12, 8, 3, 0, 10, 3>>)      \* 0x2bc830a3
Two25 == 33554432

(* One step of the checksum register (30 bits): shift in one symbol, reduce   *)
(* by the generator: bit i of the 5 bits shifted out selects GEN[i].          *)
PolymodStep(chk, v) ==
  LET top == chk \div Two25
      sh  == ((chk % Two25) * 32) ^^ v
      g(i, c) == IF (top \div (2 ^ i)) % 2 = 1 THEN c ^^ GEN[i + 1] ELSE c
  IN g(4, g(3, g(2, g(1, g(0, sh)))))
Polymod(values) == FoldLeft(PolymodStep, 1, values)
\* the same register started at 0: the GF(2)-linear part (see MC_Bech32, lemma Affine)
PolyLin(values) == FoldLeft(PolymodStep, 0, values)

IsUpper(c) == c \in 65..90
IsLower(c) == c \in 97..122
Lower(c) == IF IsUpper(c) THEN c + 32 ELSE c
Upper(c) == IF IsLower(c) THEN c - 32 ELSE c
LowerStr(s) == [i \in DOMAIN s |-> Lower(s[i])]
UpperStr(s) == [i \in DOMAIN s |-> Upper(s[i])]
MixedCase(s) == (\E i \in DOMAIN s : IsUpper(s[i])) /\ (\E i \in DOMAIN s : IsLower(s[i]))

HrpExpand(hrp) == [i \in DOMAIN hrp |-> hrp[i] \div 32] \o <<0>> \o [i \in DOMAIN hrp |-> hrp[i] % 32]
ValidHrp(hrp) == Len(hrp) \in 1..83 /\ \A i \in DOMAIN hrp : hrp[i] \in 33..126

Checksum(hrp, data, const) ==
  LET pm == Polymod(HrpExpand(hrp) \o data \o <<0, 0, 0, 0, 0, 0>>) ^^ const
  IN [i \in 1..6 |-> (pm \div (32 ^ (6 - i))) % 32]
\* hrp in lower case, data symbols 0..31 (no length check here: see Bech32Decode / S1)
Bech32Encode(hrp, data, const) ==
  LET all == data \o Checksum(hrp, data, const)
  IN hrp \o <<49>> \o [i \in DOMAIN all |-> Charset[all[i] + 1]]

Rej(why) == [ok |-> FALSE, why |-> why, hrp |-> <<>>, data |-> <<>>, const |-> 0]
Bech32Decode(s) ==
  IF \E i \in DOMAIN s : s[i] \notin 33..126 THEN Rej("char-range")
  ELSE IF MixedCase(s) THEN Rej("mixed-case")
  ELSE IF Len(s) > 90 THEN Rej("too-long")
  ELSE IF \A i \in DOMAIN s : s[i] # 49 THEN Rej("no-separator")
  ELSE
    LET l == LowerStr(s)
        pos == CHOOSE i \in DOMAIN l : l[i] = 49 /\ \A j \in (i + 1)..Len(l) : l[j] # 49
        hrp == SubSeq(l, 1, pos - 1)
        dp == SubSeq(l, pos + 1, Len(l))
    IN IF pos = 1 THEN Rej("empty-hrp")
       ELSE IF Len(dp) < 6 THEN Rej("short-data")
       ELSE IF \E i \in DOMAIN dp : SymOf(dp[i]) < 0 THEN Rej("data-char")
       ELSE LET syms == [i \in DOMAIN dp |-> SymOf(dp[i])]
                pm == Polymod(HrpExpand(hrp) \o syms)
            IN IF pm \notin {BECH32, BECH32M} THEN Rej("checksum")
               ELSE [ok |-> TRUE, why |-> "", hrp |-> hrp, data |-> SubSeq(syms, 1, Len(syms) - 6), const |-> pm]

(* ---- regrouping bits (A1, A2), stated on the bit string itself ----        *)
BitsOf(seq, w) == [k \in 1..(w * Len(seq)) |-> (seq[(k - 1) \div w + 1] \div (2 ^ (w - 1 - ((k - 1) % w)))) % 2]
GroupVal(bits, from, w) == FoldLeft(LAMBDA acc, k : acc * 2 + bits[k], 0, [j \in 1..w |-> from + j - 1])
Groups(bits, w) == [g \in 1..(Len(bits) \div w) |-> GroupVal(bits, (g - 1) * w + 1, w)]
To5(bytes) == LET bits == BitsOf(bytes, 8)
                  pad == (5 - (Len(bits) % 5)) % 5
              IN Groups(bits \o [i \in 1..pad |-> 0], 5)
To8(syms) == LET bits == BitsOf(syms, 5)
                 r == Len(bits) % 8
             IN IF r >= 5 THEN [ok |-> FALSE, why |-> "padding-length", bytes |-> <<>>]
                ELSE IF \E k \in (Len(bits) - r + 1)..Len(bits) : bits[k] = 1
                     THEN [ok |-> FALSE, why |-> "padding-nonzero", bytes |-> <<>>]
                ELSE [ok |-> TRUE, why |-> "", bytes |-> Groups(SubSeq(bits, 1, Len(bits) - r), 8)]

(* ---- segwit addresses ---- *)
ConstFor(ver) == IF ver = 0 THEN BECH32 ELSE BECH32M
ValidProgram(ver, prog) == /\ ver \in 0..16 /\ Len(prog) \in 2..40
                           /\ (ver = 0 => Len(prog) \in {20, 32})
\* the string the encoding rules produce for any version symbol / program (valid or not)
SegwitRaw(hrp, ver, prog) == Bech32Encode(hrp, <<ver>> \o To5(prog), ConstFor(ver))
RawLen(hrp, prog) == Len(hrp) + 1 + 1 + (8 * Len(prog) + 4) \div 5 + 6
\* hrp is expected in lower case (S5: encoders emit lower case)
IsLowerHrp(hrp) == ValidHrp(hrp) /\ \A i \in DOMAIN hrp : ~IsUpper(hrp[i])
Encodable(hrp, ver, prog) == IsLowerHrp(hrp) /\ ValidProgram(ver, prog) /\ RawLen(hrp, prog) <= 90

SRej(why) == [ok |-> FALSE, why |-> why, ver |-> 0, prog |-> <<>>]
SegwitDecode(hrp, s) ==
  LET d == Bech32Decode(s) IN
  IF ~d.ok THEN SRej(d.why)
  ELSE IF d.hrp # hrp THEN SRej("hrp-mismatch")
  ELSE IF d.data = <<>> THEN SRej("no-version")
  ELSE LET ver == d.data[1]
           conv == To8(Tail(d.data))
       IN IF ver > 16 THEN SRej("version")
          ELSE IF ~conv.ok THEN SRej(conv.why)
          ELSE IF ~ValidProgram(ver, conv.bytes) THEN SRej("program-length")
          ELSE IF d.const # ConstFor(ver) THEN SRej("wrong-constant")
          ELSE [ok |-> TRUE, why |-> "", ver |-> ver, prog |-> conv.bytes]

(* ---- a remark on A4.  The BCH guarantee (MC_Bech32Syn) holds per constant.  *)
(* Across the two constants BIP350 has valid addresses 4 characters apart,      *)
(* e.g. these two (version character, one program character, two checksum       *)
(* characters differ): bc1qw508d6qejxtdg4y5r3zarvary0c5xw7kv8f3t4 (v0) and      *)
(* bc1tw508d6qejxtdg4y5r3zarvnry0c5xw7k8803t4 (v11).                            *)
CrossA == SegwitRaw(<<98, 99>>, 0, <<117, 30, 118, 232, 25, 145, 150, 212, 84, 148, 28, 69, 209, 179, 163, 35, 241, 67, 59, 214>>)
CrossB == SegwitRaw(<<98, 99>>, 11, <<117, 30, 118, 232, 25, 145, 150, 212, 84, 148, 28, 69, 209, 178, 99, 35, 241, 67, 59, 214>>)
=============================================================================
