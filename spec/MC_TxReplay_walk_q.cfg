CONSTANTS MaxSteps = 20  MaxInserts = 2  Mode = "walk"  Cases <- WalkCasesQ
SPECIFICATION WSpec
CHECK_DEADLOCK FALSE
