CONSTANTS Tier = "q"  Depth = 3
CONSTANT Key <- BadKeyNoWitness
SPECIFICATION Spec
INVARIANT AnswersOfCurrentFields
CHECK_DEADLOCK FALSE
