CONSTANTS MaxOps = 5  MaxEdit = 1  MaxSetLook = 0  Univ = 2  Ops <- OpsCore
          EditKinds <- KindsAll  LookKinds <- LKindsAll  FillSet <- SAll  ValSet <- SAll
          Ids <- MCIds  SegIds <- MCSegIds  NOut <- MCNOut  Confs <- MCConfsOne  Spenders <- MCSp
          BadFileRaises <- SwBadFile  OobIndexError <- SwOob
INIT MInit
NEXT MNextE
VIEW MView
CHECK_DEADLOCK FALSE
