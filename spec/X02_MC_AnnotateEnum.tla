------------------------- MODULE X02_MC_AnnotateEnum -------------------------
(* Spec -> code binding for X02 (b), part 1: TLC enumerates small spends - a   *)
(* scriptSig from a fixed family, a scriptPubKey grown instruction by          *)
(* instruction from an alphabet (data pushes in every encoding incl. truncated *)
(* ones, conditionals, stack / arithmetic opcodes, signature checks, reserved, *)
(* disabled and unassigned opcodes) - and prints for each the listing          *)
(* X02_Annotate demands (carried-out rows, failing row, rows never reached,    *)
(* key / signature roles).  The lemmas LA1..LA5 are checked on every spend.    *)
EXTENDS X02_Annotate, Json

CONSTANTS MaxIns,     \* instructions of the scriptPubKey
          Alpha,      \* "full" | "small"
          SigFam      \* "all" | "few"

VARIABLES sig, pk, n
evars == <<sig, pk, n>>

Pushes == { <<0>>, <<79>>, <<81>>, <<82>>, <<1, 5>>, <<1, 0>>, <<1, 129>>, <<1, 17>>, <<2, 1, 2>>, <<76, 1, 7>>,
            <<76, 3, 1>>,      \* PUSHDATA1 announcing 3 bytes, 1 present (only well-formed when something follows)
            <<2, 9>> }         \* direct push of 2 bytes, 1 present
Ops == { <<99>>, <<100>>, <<103>>, <<104>>, <<105>>, <<106>>, <<117>>, <<118>>, <<135>>, <<147>>, <<97>>,
         <<172>>, <<173>>, <<174>>, <<171>>, <<80>>, <<126>>, <<186>>, <<255>>, <<177>> }
SmallAlpha == { <<0>>, <<81>>, <<1, 5>>, <<1, 129>>, <<76, 3, 1>>, <<99>>, <<103>>, <<104>>, <<105>>, <<118>>, <<135>>, <<172>>, <<174>>, <<80>> }
Alphabet == IF Alpha = "full" THEN Pushes \cup Ops ELSE SmallAlpha

SigsAll == { <<>>, <<81>>, <<0>>, <<1, 5>>, <<79, 82>>, <<76, 1, 7>>, <<97>>, <<2, 9>>, <<81, 99>>, <<0, 0, 81>> }
SigsFew == { <<>>, <<81>>, <<0, 81>>, <<2, 9>> }
SigSet == IF SigFam = "all" THEN SigsAll ELSE SigsFew

Ctx1 == [version |-> 1, locktime |-> <<0, 0, 0, 0>>, sequence |-> <<255, 255, 255, 255>>]
SpendOf(s, p) == [kind |-> "spend", sig |-> s, pk |-> p, wit |-> <<>>, stack |-> <<>>, sv |-> "base",
                  flags |-> {"P2SH", "WITNESS"}, ctx |-> Ctx1, hashes |-> <<>>, sigs |-> <<>>, sigmode |-> "fixed"]
L == Listing(SpendOf(sig, pk))

EInit == sig \in SigSet /\ pk = <<>> /\ n = 0
Emit == PrintT(ToJson([k |-> "lst", sig |-> sig', pk |-> pk', lst |-> Listing(SpendOf(sig', pk'))]))
ENext == /\ n < MaxIns
         /\ \E ins \in Alphabet : pk' = pk \o ins
         /\ n' = n + 1 /\ UNCHANGED sig
         /\ Emit
ESpec == EInit /\ [][ENext]_evars

\* lemmas, on every enumerated spend
Lemmas == \A lst \in {L} :
             /\ lst.status \in {"ok", "fail"}                    \* no oracle is needed in this family
             /\ OkMeansComplete(lst) /\ DynamicIsStatic(lst, SpendOf(sig, pk)) /\ Ordered(lst)
             /\ RolesOnlyFromSigOps(lst) /\ AcceptsItself(lst)
\* the acceptance predicate has teeth: a listing with two rows swapped, or with a row dropped, is rejected
SwapFirst(rows) == IF Len(rows) < 2 THEN rows ELSE <<rows[2], rows[1]>> \o SubSeq(rows, 3, Len(rows))
Teeth == \A lst \in {L} :
            LET F == Proj2(Full(lst)) IN
            /\ (Len(F) >= 2 /\ F[1] # F[2]) => ~Accepts(lst, SwapFirst(F))
            /\ (Len(lst.exec) >= 2 /\ F[1] # F[2]) => ~Accepts(lst, Tail(F))
=============================================================================
