CONSTANTS P = 11  A = 1  B = 6  Gx = 2  Gy = 4  N = 13
          DC = {"1", "2", "n-1", "n-2", "h", "h+1", "ra", "rb"}  KC = {"1", "2", "n-1", "n-2", "h", "h+1", "rb", "rc"}
          Z1C = {"1", "2", "n-1", "h", "za", "top"}  Z2C = {"0", "1", "n-1", "h", "za", "zb", "top"}
          Values = {0, 1, 65536, 16777215, 16777216, 2147483647}  MaxDepth = 3  SeedLen = 16
SPECIFICATION SpecE
INVARIANTS AscentLemmas
ACTION_CONSTRAINT Emit
CHECK_DEADLOCK FALSE
