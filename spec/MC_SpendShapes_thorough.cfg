CONSTANT Tier = "thorough"
SPECIFICATION SSpec
CHECK_DEADLOCK FALSE
