------------------------------ MODULE P2PParse ------------------------------
(* Parsing a peer-to-peer message payload (module P2PMsg) as a cursor state  *)
(* machine over the byte string: one step per scalar field, per array count, *)
(* per array-element component; an embedded transaction is read by the       *)
(* transaction parser of module TxParse (its own steps, sharing the cursor   *)
(* `rest`), a block as header + count + that many transactions.              *)
(*                                                                           *)
(*   mode "item"  read the next item of the layout                           *)
(*        "tx"    TxParse is reading a transaction that is a field / element *)
(*        "btx"   TxParse is reading a transaction of a block                *)
(*        "done"  every field of the layout was read (what is left of the    *)
(*                input is in `rest`)          "fail"  input ended early      *)
EXTENDS P2PMsg, TxParse

VARIABLES mname,   \* the message being parsed
          mode,
          fi,      \* index of the field being read
          left,    \* array elements still to read (0: not inside an array)
          ti,      \* component of the element tuple being read
          cur,     \* components of the current element read so far
          arr,     \* elements read so far
          out,     \* values of the fields read so far, in layout order
          blk      \* block being read: [header, txs, left]
mvars == <<mname, mode, fi, left, ti, cur, arr, out, blk>>
allvars == <<mvars, pvars>>

MTerminal == {"done", "fail"}
NoBlock == [header |-> <<>>, txs |-> <<>>, left |-> 0]

\* idle values of the transaction parser's variables (no PStart needed to fix them)
TxIdle == pc = "idle" /\ ptx = <<>> /\ cnt = 0 /\ wi = 0 /\ pf = <<>>

MStartState(m, bytes) ==
  /\ mname' = m /\ rest' = bytes /\ mode' = "item" /\ fi' = 1 /\ left' = 0 /\ ti' = 1
  /\ cur' = <<>> /\ arr' = <<>> /\ out' = <<>> /\ blk' = NoBlock
  /\ pc' = "idle" /\ ptx' = <<>> /\ cnt' = 0 /\ wi' = 0 /\ pf' = <<>>
MInit(m, bytes) ==
  /\ mname = m /\ rest = bytes /\ mode = "item" /\ fi = 1 /\ left = 0 /\ ti = 1
  /\ cur = <<>> /\ arr = <<>> /\ out = <<>> /\ blk = NoBlock /\ TxIdle

CurTy == Layout(mname)[fi].ty
InArray == CurTy.arr /\ left > 0
CurLetter == IF CurTy.arr THEN CurTy.of[ti] ELSE CurTy.of[1]
MoreFields == fi <= NFields(mname)

\* a value of the current item type has been read: put it where it belongs
Deliver(v) ==
  IF ~CurTy.arr
  THEN out' = Append(out, v) /\ fi' = fi + 1 /\ UNCHANGED <<left, ti, cur, arr>>
  ELSE LET w == Len(CurTy.of)
           tup == Append(cur, v) IN
       IF ti < w
       THEN cur' = tup /\ ti' = ti + 1 /\ UNCHANGED <<out, fi, left, arr>>
       ELSE LET a == Append(arr, IF w = 1 THEN v ELSE tup) IN
            /\ cur' = <<>> /\ ti' = 1
            /\ IF left = 1
               THEN out' = Append(out, a) /\ fi' = fi + 1 /\ left' = 0 /\ arr' = <<>>
               ELSE left' = left - 1 /\ arr' = a /\ UNCHANGED <<out, fi>>

MFail == mode' = "fail" /\ UNCHANGED <<mname, fi, left, ti, cur, arr, out, blk, pvars>>

\* the layout is exhausted
MFinish ==
  /\ mode = "item" /\ ~MoreFields
  /\ mode' = "done" /\ UNCHANGED <<mname, fi, left, ti, cur, arr, out, blk, pvars>>

\* the compact-size count in front of an array (counts >= 2^31 are outside this model: fail)
MCount ==
  /\ mode = "item" /\ MoreFields /\ CurTy.arr /\ left = 0
  /\ LET c == ReadCompactSize(rest) IN
     IF ~c.ok \/ c.n < 0 THEN MFail
     ELSE /\ rest' = c.rest
          /\ IF c.n = 0 THEN out' = Append(out, <<>>) /\ fi' = fi + 1 /\ left' = 0
                        ELSE left' = c.n /\ UNCHANGED <<out, fi>>
          /\ UNCHANGED <<mname, mode, ti, cur, arr, blk, pc, ptx, cnt, wi, pf>>

MScalar ==
  /\ mode = "item" /\ MoreFields /\ (CurTy.arr => left > 0)
  /\ CurLetter \notin {"T", "B"}
  /\ LET r == Read(CurLetter, rest) IN
     IF ~r.ok THEN MFail
     ELSE /\ rest' = r.rest /\ Deliver(r.v)
          /\ UNCHANGED <<mname, mode, blk, pc, ptx, cnt, wi, pf>>

\* ---- embedded transaction
MTxStart ==
  /\ mode = "item" /\ MoreFields /\ (CurTy.arr => left > 0)
  /\ CurLetter = "T"
  /\ mode' = "tx" /\ PStart(rest, TRUE)
  /\ UNCHANGED <<mname, fi, left, ti, cur, arr, out, blk>>

\* TxParse reads on (never its "ext" step: what follows a transaction here is the next item)
TxComplete == pc \in {"done", "ext"}
MTxStep ==
  /\ mode \in {"tx", "btx"} /\ pc \notin {"done", "ext", "fail", "unspec", "idle"}
  /\ PNext /\ UNCHANGED mvars
MTxBad ==
  /\ mode \in {"tx", "btx"} /\ pc \in {"fail", "unspec"}
  /\ MFail
MTxEnd ==
  /\ mode = "tx" /\ TxComplete
  /\ Deliver(ptx) /\ mode' = "item"
  /\ pc' = "idle" /\ ptx' = <<>> /\ cnt' = 0 /\ wi' = 0 /\ pf' = <<>>
  /\ UNCHANGED <<mname, blk, rest>>

\* ---- embedded block: header, count, transactions
MBlockStart ==
  /\ mode = "item" /\ MoreFields /\ (CurTy.arr => left > 0)
  /\ CurLetter = "B"
  /\ LET h == ReadHeader(rest)
         c == ReadCompactSize(h.rest) IN
     IF ~h.ok \/ ~c.ok \/ c.n < 0 THEN MFail
     ELSE IF c.n = 0
          THEN /\ rest' = c.rest /\ Deliver([header |-> h.v, txs |-> <<>>])
               /\ UNCHANGED <<mname, mode, blk, pc, ptx, cnt, wi, pf>>
          ELSE /\ blk' = [header |-> h.v, txs |-> <<>>, left |-> c.n]
               /\ mode' = "btx" /\ PStart(c.rest, TRUE)
               /\ UNCHANGED <<mname, fi, left, ti, cur, arr, out>>
MBlockTx ==
  /\ mode = "btx" /\ TxComplete
  /\ LET txs == Append(blk.txs, ptx) IN
     IF blk.left = 1
     THEN /\ Deliver([header |-> blk.header, txs |-> txs]) /\ mode' = "item" /\ blk' = NoBlock
          /\ pc' = "idle" /\ ptx' = <<>> /\ cnt' = 0 /\ wi' = 0 /\ pf' = <<>>
          /\ UNCHANGED <<mname, rest>>
     ELSE /\ blk' = [blk EXCEPT !.txs = txs, !.left = @ - 1]
          /\ PStart(rest, TRUE)
          /\ UNCHANGED <<mname, mode, fi, left, ti, cur, arr, out>>

MNext == \/ MFinish \/ MCount \/ MScalar \/ MTxStart \/ MTxStep \/ MTxBad \/ MTxEnd
         \/ MBlockStart \/ MBlockTx

\* every transaction read inside the message was in the standard form
\* (checked at each MTxEnd / MBlockTx by the specifications that use this module)
TxStandardHere == TxComplete => (pf.canon /\ ~pf.superfluous)
=============================================================================
