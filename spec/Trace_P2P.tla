------------------------------ MODULE Trace_P2P ------------------------------
(* Code -> spec binding for C16.  A trace is one recorded use of the library's *)
(* message codec:  pack(name, **fields) returned `bytes`; parse(name, bytes)   *)
(* returned `parsed`.  Values are logged in the abstract form of P2PMsg        *)
(* (numbers as 16-bit limbs, byte strings as runs, objects as records),        *)
(* fields by name.  TLC recomputes Pack from the logged fields, runs the       *)
(* parser state machine of P2PParse over the logged bytes, and compares:       *)
(*   typed      the logged fields are values of the layout's types             *)
(*   pack       Pack(name, fields) = bytes                                     *)
(*   end        the machine reads every field and the payload ends there       *)
(*   parsed     what the machine read = what the library returned              *)
(*   roundtrip  what the library returned = the fields that were packed        *)
(*   inner      (alert) payload = Pack("alert_info", inner) and the library's  *)
(*              alert_info = inner                                             *)
(* One record is printed per trace: accepted, or rejected with the conjuncts   *)
(* that failed and the first field that differs.                               *)
EXTENDS P2PParse, Json, IOUtils

Traces == JsonDeserialize(IOEnv.TRACE_FILE)
VARIABLE tid
tvars == <<tid, allvars>>
T == Traces[tid]

TInit == /\ tid \in 1..Len(Traces)
         /\ MInit(Traces[tid].name, Traces[tid].bytes)

FirstDiff(m, a, b) ==
  LET n == IF Len(a) < Len(b) THEN Len(a) ELSE Len(b)
      d == {i \in 1..n : a[i] # b[i]} IN
  IF d # {} THEN Layout(m)[CHOOSE i \in d : \A j \in d : i <= j].name
  ELSE IF Len(a) # Len(b) THEN Layout(m)[n + 1].name ELSE ""

Verdict(end, o, lft) ==
  LET f == FieldSeq(T.name, T.fields)
      p == FieldSeq(T.name, T.parsed)
      typed == IsMsg(T.name, f) /\ IsMsg(T.name, p) IN
  [typed     |-> typed,
   pack      |-> typed /\ Pack(T.name, f) = T.bytes,
   end       |-> end = "done" /\ lft = <<>>,
   parsed    |-> o = p,
   roundtrip |-> p = f,
   inner     |-> T.name = "alert" =>
                   LET g == FieldSeq("alert_info", T.inner) IN
                   /\ IsMsg("alert_info", g)
                   /\ T.fields.payload = Pack("alert_info", g)
                   /\ FieldSeq("alert_info", T.alert_info) = g]

TNext == /\ MNext /\ UNCHANGED tid
         /\ mode' \in MTerminal =>
              LET v == Verdict(mode', out', rest')
                  bad == {c \in DOMAIN v : ~v[c]} IN
              IF bad = {} THEN PrintT(ToJson([k |-> "acc", tid |-> tid, steps |-> TLCGet("level")]))
              ELSE PrintT(ToJson([k |-> "rej", tid |-> tid, end |-> mode', failed |-> bad,
                                  field |-> IF "parsed" \in bad
                                            THEN FirstDiff(T.name, out', FieldSeq(T.name, T.parsed))
                                            ELSE FirstDiff(T.name, FieldSeq(T.name, T.parsed), FieldSeq(T.name, T.fields))]))
TSpec == TInit /\ [][TNext]_tvars
=============================================================================
