CONSTANTS P = 83  A = 1  B = 7  Gx = 0  Gy = 16  N = 79  Mode = "recover"  RMax = 84
CONSTANT ESet <- ETwo
CONSTANT SSet <- SFew
CONSTANT DSet <- DAll
SPECIFICATION Spec
INVARIANT Holds
CHECK_DEADLOCK FALSE
