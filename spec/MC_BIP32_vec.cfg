CONSTANTS Values = {0, 1, 2, 1000000000, 2147483646, 2147483647}  MaxDepth = 5  SeedLen = 16  Filter = "vectors"
SPECIFICATION SpecE
INVARIANTS CommutesOneStep Metadata CompactSound
ACTION_CONSTRAINT Emit
CHECK_DEADLOCK FALSE
