---------------------------- MODULE MC_BloomReplay ----------------------------
(* Spec -> code binding for the Bloom filter of C19.  TLC enumerates histories *)
(* of API calls (add_item / add_hash160 / add_address / add_spendable) on      *)
(* filters with the listed parameters - every sequence of FreeLen calls from   *)
(* OpPool, plus scripted histories that reproduce the published vectors - and  *)
(* prints each complete history with, after every call, the set of bit         *)
(* positions and the non-zero filter bytes BIP37 prescribes.  The harness runs *)
(* the same calls on pycoin.bloomfilter.BloomFilter and compares filter_bytes  *)
(* and check_bit after every call.                                             *)
EXTENDS MC_Bloom, Json

CONSTANTS RConfigs, FreeLen, WithScripts
VARIABLES ops,    \* calls made so far
          outs,   \* observation after each call
          todo,   \* scripted history: calls still to make
          free    \* TRUE: calls are chosen freely from OpPool
rvars == <<bvars, ops, outs, todo, free>>

Idx(b0, b1, b2, b3) == << b0, b1, b2, b3 >>          \* output index, 4 bytes little-endian
Op(name, b) == [op |-> name, b |-> b, i |-> << >>]
Spend(txh, idx) == [op |-> "add_spendable", b |-> txh, i |-> idx]
OpPool == { Op("add_item", << >>), Op("add_item", << 33 >>), Op("add_item", << 1, 2, 3, 4, 5, 6 >>),
            Op("add_item", PUBKEY),
            Op("add_hash160", HA), Op("add_hash160", HB), Op("add_address", HC), Op("add_address", HP),
            Spend(TXH, Idx(0, 0, 0, 0)), Spend(TXH, Idx(1, 0, 0, 0)), Spend(TXH, Idx(255, 255, 255, 255)) }
OpPoolSmall == { Op("add_item", << 33 >>), Op("add_item", << 1, 2, 3, 4, 5, 6 >>), Op("add_hash160", HA),
                 Op("add_address", HP), Spend(TXH, Idx(1, 0, 0, 0)), Spend(TXH, Idx(255, 255, 255, 255)) }
CONSTANT Pool2
\* <<size, nfuncs, tweak>>; tweaks 0, 1, 127, 0x80000001, 2^31, 2^32-1, 2^32+5, 2^48+2^32+3 (wide)
ConfigsReplay == { << 1, 1, <<0>> >>, << 1, 50, <<65535, 65535>> >>, << 2, 3, <<1>> >>, << 3, 5, <<1, 32768>> >>,
                   << 5, 2, <<3, 0, 1, 1>> >>, << 7, 11, <<5, 0, 1>> >>, << 20, 5, <<127>> >>, << 4, 0, <<9>> >>,
                   << 36000, 50, <<0, 32768>> >>, << 36000, 1, <<5, 0, 1>> >>, << 4500, 8, <<65535, 65535>> >> }
ConfigsReplayQ == { << 1, 50, <<65535, 65535>> >>, << 2, 3, <<1>> >>, << 3, 5, <<1, 32768>> >>,
                    << 7, 11, <<5, 0, 1>> >>, << 20, 5, <<127>> >>, << 36000, 50, <<0, 32768>> >>,
                    << 36000, 1, <<3, 0, 1, 1>> >> }
\* scripted histories: <<config, calls>>; the first four are published vectors
\* (Bitcoin Core bloom_tests: 614e9b, ce4299, 8fc16b; pycoin tests: 0000400000000008011130000000101100000000)
Scripts == <<
  << << 3, 5, <<0>> >>,        << Op("add_hash160", HA), Op("add_hash160", HB), Op("add_hash160", HC) >> >>,
  << << 3, 5, <<1, 32768>> >>, << Op("add_hash160", HA), Op("add_hash160", HB), Op("add_hash160", HC) >> >>,
  << << 3, 8, <<0>> >>,        << Op("add_item", PUBKEY), Op("add_hash160", HPUB) >> >>,
  << << 20, 5, <<127>> >>,     << Op("add_hash160", HP), Spend(TXH, Idx(1, 0, 0, 0)) >> >>,
  << << 36000, 50, <<21845, 43690, 7>> >>,
     << Op("add_item", << >>), Op("add_address", HA), Spend(TXH, Idx(0, 1, 0, 0)), Op("add_item", PUBKEY),
        Op("add_hash160", HB), Op("add_address", HA), Spend(HA \o SubSeq(HB, 1, 12), Idx(7, 0, 0, 128)),
        Op("add_item", << 0, 0, 0, 0, 0 >>), Op("add_hash160", HPUB), Spend(TXH, Idx(0, 1, 0, 0)) >> >>,
  << << 1, 7, <<65535, 65535, 65535, 65535>> >>,
     << Op("add_item", << 255 >>), Op("add_item", << 255, 255 >>), Op("add_item", << 255, 255, 255 >>),
        Op("add_item", << 255, 255, 255, 255 >>), Op("add_item", << >>) >> >> >>

ItemOf(o) == IF o.op = "add_spendable" THEN Outpoint(o.b, WordLE(o.i[1], o.i[2], o.i[3], o.i[4])) ELSE o.b
Do(o) == CASE o.op = "add_item"      -> AddItem(o.b)
           [] o.op = "add_hash160"   -> AddHash160(o.b)
           [] o.op = "add_address"   -> AddAddress(o.b)
           [] o.op = "add_spendable" -> AddSpendable(o.b, WordLE(o.i[1], o.i[2], o.i[3], o.i[4]))
Obs == [bits |-> bits', fb |-> SparseBytes']
Complete == IF free' THEN Len(ops') = FreeLen ELSE todo' = << >>
Emit == Complete => PrintT(ToJson([k |-> "bloom", size |-> size, nfuncs |-> nfuncs, tweak |-> tweak,
                                   script |-> ~free', ops |-> ops', outs |-> outs']))

RInit == /\ ops = << >> /\ outs = << >>
         /\ \/ /\ free = TRUE /\ todo = << >>
               /\ \E c \in RConfigs : BInit(c[1], c[2], c[3])
            \/ /\ WithScripts /\ free = FALSE
               /\ \E s \in 1..Len(Scripts) : todo = Scripts[s][2] /\ BInit(Scripts[s][1][1], Scripts[s][1][2], Scripts[s][1][3])
Call(o) == /\ Do(o)
           /\ ops' = Append(ops, o) /\ outs' = Append(outs, Obs)
RFree == /\ free /\ Len(ops) < FreeLen
         /\ \E o \in Pool2 : Call(o)
         /\ UNCHANGED <<todo, free>>
         /\ Emit
RScript == /\ ~free /\ todo # << >>
           /\ Call(Head(todo))
           /\ todo' = Tail(todo) /\ UNCHANGED free
           /\ Emit
RNext == RFree \/ RScript
RSpec == RInit /\ [][RNext]_rvars
=============================================================================
