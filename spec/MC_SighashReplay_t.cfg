CONSTANTS MaxIn = 3  MaxOut = 3
          CoinSet = {"BTC", "BCH", "BTG", "GRS"}
          ScenarioIds = {1, 2, 3, 4, 5, 6, 7, 8, 9, 10, 11, 12, 13, 14}  FewHtIds = {14}
SPECIFICATION Spec
CHECK_DEADLOCK FALSE
