------------------------------- MODULE TxBuild -------------------------------
(* C13 - building a transaction from spendables and payables (integer        *)
(* amounts).  Three formulations of "the unspecified outputs share what is   *)
(* left as equally as possible, earlier ones receiving the remainder":       *)
(*                                                                           *)
(*   R!ValidOuts   the relation of TxRules (conservation, positivity, at     *)
(*                 most one satoshi apart, earlier >= later)                 *)
(*   Build         the closed form: pool \div n, the first pool % n outputs  *)
(*                 one more                                                  *)
(*   Deal          a state machine handing the pool out one satoshi at a     *)
(*                 time, round-robin over the unspecified outputs in order   *)
(*                                                                           *)
(* TLC checks (MC_TxBuild*.cfg) that Deal ends in Build's result, that the   *)
(* result satisfies the relation, that it is the ONLY assignment satisfying  *)
(* it (Unique), that no assignment satisfies it when the request is          *)
(* insufficient, and the scaling lemma that lets small cases stand for       *)
(* amounts up to 21e14 (Scale).                                              *)
EXTENDS Integers, Sequences, FiniteSets, TLC

IAdd(a, b) == a + b
ILeq(a, b) == a <= b
R == INSTANCE TxRules WITH Add <- IAdd, Leq <- ILeq, Zero <- 0, One <- 1

\* Variant = "std" is the rule.  The others are deliberately wrong closed forms;
\* MC_TxBuild_mut_*.cfg expect the lemma BuildOK to reject each of them (they are
\* the slips the check must also catch in pycoin: remainder to the later outputs,
\* one extra satoshi too few/many, zero-valued split outputs, fee forgotten).
CONSTANT Variant

RECURSIVE Sum(_)
Sum(s) == IF s = << >> THEN 0 ELSE Head(s) + Sum(Tail(s))

Amts(s) == [i \in 1..Len(s) |-> s[i].amt]
Unspec(pays) == {i \in 1..Len(pays) : pays[i].amt = 0}
NU(pays) == Cardinality(Unspec(pays))
\* 0-based position of output i among the unspecified ones
Rank(pays, i) == Cardinality({j \in Unspec(pays) : j < i})
\* what is left for the unspecified outputs
Pool(sps, pays, fee) == Sum(Amts(sps)) - Sum(Amts(pays)) - (IF Variant = "nofee" THEN 0 ELSE fee)

\* share of the unspecified output of rank r when pool is split n ways
Share(pool, n, r) ==
  LET rem   == pool % n
      extra == CASE Variant = "late"     -> (r >= n - rem)
                 [] Variant = "offbyone" -> (r + 1 < rem)
                 [] OTHER                -> (r < rem)
  IN (pool \div n) + (IF extra THEN 1 ELSE 0)

NoTx == [ins |-> << >>, unspents |-> << >>, outs |-> << >>]
TxOf(sps, outs) ==
  [ins      |-> [i \in 1..Len(sps) |-> [src |-> sps[i].src, idx |-> sps[i].idx]],
   unspents |-> [i \in 1..Len(sps) |-> [amt |-> sps[i].amt, scr |-> sps[i].scr]],
   outs     |-> outs]

Insufficient(sps, pays, fee) ==
  NU(pays) > 0 /\ Pool(sps, pays, fee) < (IF Variant = "zero" THEN 0 ELSE NU(pays))

Build(sps, pays, fee) ==
  IF Insufficient(sps, pays, fee) THEN [err |-> TRUE, tx |-> NoTx]
  ELSE LET pool == Pool(sps, pays, fee)
           n    == NU(pays) IN
       [err |-> FALSE,
        tx  |-> TxOf(sps, [i \in 1..Len(pays) |->
                  [to  |-> pays[i].to,
                   amt |-> IF pays[i].amt # 0 THEN pays[i].amt
                           ELSE Share(pool, n, Rank(pays, i))]])]

TotalIn(tx)  == Sum(Amts(tx.unspents))
TotalOut(tx) == Sum(Amts(tx.outs))
Fee(tx)      == TotalIn(tx) - TotalOut(tx)
Sign(n) == IF n > 0 THEN 1 ELSE IF n < 0 THEN -1 ELSE 0
Abs(n)  == IF n < 0 THEN -n ELSE n

\* ------------------------------------------------------------ request space
CONSTANTS MaxSum,     \* bound on the sum of the inputs and on the sum of the fixed outputs
          MaxIns, MaxPays, MaxFee

AmtSeqs(maxlen, lo, hi) ==
  {s \in UNION {[1..n -> lo..hi] : n \in 1..maxlen} : Sum(s) <= hi}
InSeqs  == AmtSeqs(MaxIns, 1, MaxSum)
PaySeqs == AmtSeqs(MaxPays, 0, MaxSum)
\* the model's spendables and payables carry trivial identities; MC_TxBuildReplay
\* varies them (shared sources, unsorted outpoints, repeated addresses)
MkSps(a)  == [i \in 1..Len(a) |-> [src |-> i, idx |-> 0, amt |-> a[i], scr |-> 1]]
MkPays(p) == [i \in 1..Len(p) |-> [to |-> i, amt |-> p[i]]]

\* ------------------------------------------------------------ Deal machine
VARIABLES req,     \* [sps, pays, fee]
          outs,    \* output amounts so far
          left,    \* satoshis of the pool not yet handed out
          nxt,     \* rank of the unspecified output that receives the next one
          phase    \* "pick" | "start" | "deal" | "done" | "error"
vars == <<req, outs, left, nxt, phase>>

\* the unspecified outputs in order
UnspecSeq(pays) == LET U == Unspec(pays) IN
  [r \in 1..Cardinality(U) |-> CHOOSE i \in U : Rank(pays, i) = r - 1]

\* (the request is chosen in two steps only so that TLC's workers share the enumeration)
Init == /\ req \in {[sps |-> MkSps(a), pays |-> << >>, fee |-> 0] : a \in InSeqs}
        /\ outs = << >> /\ left = 0 /\ nxt = 0 /\ phase = "pick"

Pick == /\ phase = "pick"
        /\ \E p \in PaySeqs, f \in 0..MaxFee :
             /\ req' = [req EXCEPT !.pays = MkPays(p), !.fee = f]
             /\ outs' = p
        /\ phase' = "start"
        /\ UNCHANGED <<left, nxt>>

Start == /\ phase = "start"
         /\ IF Insufficient(req.sps, req.pays, req.fee)
            THEN phase' = "error" /\ left' = 0
            ELSE IF NU(req.pays) = 0
            THEN phase' = "done" /\ left' = 0
            ELSE phase' = "deal" /\ left' = Pool(req.sps, req.pays, req.fee)
         /\ UNCHANGED <<req, outs, nxt>>

DealOne == /\ phase = "deal" /\ left > 0
           /\ outs' = [outs EXCEPT ![UnspecSeq(req.pays)[nxt + 1]] = @ + 1]
           /\ left' = left - 1
           /\ nxt' = (nxt + 1) % NU(req.pays)
           /\ UNCHANGED <<req, phase>>

Finish == /\ phase = "deal" /\ left = 0
          /\ phase' = "done"
          /\ UNCHANGED <<req, outs, left, nxt>>

Next == Pick \/ Start \/ DealOne \/ Finish
Spec == Init /\ [][Next]_vars

OutsRec == [i \in 1..Len(outs) |-> [to |-> req.pays[i].to, amt |-> outs[i]]]
Result == IF phase = "error" THEN [err |-> TRUE, tx |-> NoTx]
          ELSE [err |-> FALSE, tx |-> TxOf(req.sps, OutsRec)]

\* ------------------------------------------------------------ lemmas
TypeOK == /\ phase \in {"pick", "start", "deal", "done", "error"}
          /\ left \in 0..MaxSum /\ nxt \in 0..MaxPays
          /\ \A i \in 1..Len(outs) : outs[i] \in 0..MaxSum

\* while dealing: nothing is lost, the unspecified outputs stay within one
\* satoshi of each other and earlier ones are never behind later ones
DealInv ==
  phase = "deal" =>
    LET U == Unspec(req.pays) IN
    /\ Sum(outs) + req.fee + left = Sum(Amts(req.sps))
    /\ \A i, j \in U : i < j => outs[j] <= outs[i] /\ outs[i] <= outs[j] + 1
    /\ \A i \in (1..Len(outs)) \ U : outs[i] = req.pays[i].amt

\* the machine ends in the closed form
DoneIsBuild == phase \in {"done", "error"} => Result = Build(req.sps, req.pays, req.fee)

\* the closed form satisfies the rule book; error iff insufficient (both formulations)
Conservation ==
  phase = "done" /\ NU(req.pays) > 0 => Sum(outs) + req.fee = Sum(Amts(req.sps))
Positivity == phase = "done" => \A i \in Unspec(req.pays) : outs[i] >= 1
AtMostOneApart ==
  phase = "done" => \A i, j \in Unspec(req.pays) : i < j => outs[i] - outs[j] \in {0, 1}
ErrorIffInsufficient ==
  /\ (phase = "error") => R!Insufficient(req.sps, req.pays, req.fee)
  /\ (phase \in {"deal", "done"}) => ~R!Insufficient(req.sps, req.pays, req.fee)
  /\ R!Insufficient(req.sps, req.pays, req.fee) = Insufficient(req.sps, req.pays, req.fee)
BuildOK == phase = "start" => R!OutcomeOK(req.sps, req.pays, req.fee, Build(req.sps, req.pays, req.fee))
OutcomeOK == phase \in {"done", "error"} => R!OutcomeOK(req.sps, req.pays, req.fee, Result)
\* the reported fee is inputs minus outputs, and is the requested fee when
\* something was left unspecified
FeeLemma ==
  phase = "done" =>
    LET tx == Result.tx IN
    /\ R!FeeReport(tx, TotalIn(tx), TotalOut(tx), Sign(Fee(tx)), Abs(Fee(tx)))
    /\ R!FeeAsRequested(req.pays, req.fee, Sign(Fee(tx)), Abs(Fee(tx)))
    /\ NU(req.pays) = 0 => Fee(tx) = Sum(Amts(req.sps)) - Sum(Amts(req.pays))

\* the relation has exactly one solution (none when insufficient): any
\* implementation that satisfies the property computes Build
Candidate(c) == [i \in 1..Len(req.pays) |->
                   [to |-> req.pays[i].to, amt |-> IF i \in DOMAIN c THEN c[i] ELSE req.pays[i].amt]]
Unique ==
  phase \in {"done", "error"} /\ NU(req.pays) > 0 =>
    \A c \in [Unspec(req.pays) -> 0..MaxSum] :
      R!ValidOuts(req.sps, req.pays, req.fee, Candidate(c))
        <=> (phase = "done" /\ \A i \in DOMAIN c : c[i] = outs[i])

\* ------------------------------------------------------------ scaling lemma
(* Multiply every amount of a request (inputs, fixed outputs, fee) by K and  *)
(* add r < K to the first input.  If the number n of unspecified outputs     *)
(* divides K then, with pool the small request's pool,                       *)
(*    the big request is insufficient  iff  pool < 0 or (pool = 0 and r < n) *)
(*    otherwise output of rank k is  pool * (K / n) + Share(r, n, k).        *)
(* The expected outputs of the big request are therefore linear forms        *)
(* <<m, d, b>> = m * (K \div d) + b whose coefficients come from the small   *)
(* request; the harness evaluates them for K = 12, 840 * 10^9, ... (any      *)
(* multiple of lcm(1..4)).  TLC checks the lemma against Build on the scaled *)
(* integers for the K in ScaleKs and every r in ScaleRs.                     *)
CONSTANTS ScaleKs, ScaleRs

Lin(m, d, b) == <<m, d, b>>
EvalLin(f, K) == f[1] * (K \div f[2]) + f[3]

ScaledReq(q, K, r) ==
  [sps  |-> [i \in 1..Len(q.sps) |-> [q.sps[i] EXCEPT !.amt = K * @ + (IF i = 1 THEN r ELSE 0)]],
   pays |-> [i \in 1..Len(q.pays) |-> [q.pays[i] EXCEPT !.amt = K * @]],
   fee  |-> K * q.fee]

ScaledExpect(q, r) ==
  LET pool == Pool(q.sps, q.pays, q.fee)
      n    == NU(q.pays)
      tin  == Sum(Amts(q.sps))
      fix  == Sum(Amts(q.pays)) IN
  IF n > 0 /\ (pool < 0 \/ (pool = 0 /\ r < n))
  THEN [err |-> TRUE, mayerr |-> FALSE, outs |-> << >>, fee |-> Lin(0, 1, 0)]
  ELSE [err  |-> FALSE,
        mayerr |-> (n = 0 /\ tin - fix < q.fee),        \* all fixed and overspent: see TxRules!Overspent
        outs |-> [i \in 1..Len(q.pays) |->
                    IF q.pays[i].amt # 0 THEN Lin(q.pays[i].amt, 1, 0)
                    ELSE Lin(pool, n, Share(r, n, Rank(q.pays, i)))],
        fee  |-> IF n > 0 THEN Lin(q.fee, 1, 0) ELSE Lin(tin - fix, 1, r)]

ScaleHolds(q, K, r) ==
  LET big == ScaledReq(q, K, r)
      b   == Build(big.sps, big.pays, big.fee)
      e   == ScaledExpect(q, r) IN
  /\ b.err = e.err
  /\ R!Overspent(big.sps, big.pays, big.fee) = e.mayerr
  /\ ~b.err => /\ \A i \in 1..Len(q.pays) : b.tx.outs[i].amt = EvalLin(e.outs[i], K)
               /\ Fee(b.tx) = EvalLin(e.fee, K)

Scale ==
  phase = "start" =>
    \A K \in ScaleKs : \A r \in ScaleRs :
      (r < K /\ (NU(req.pays) = 0 \/ K % NU(req.pays) = 0)) => ScaleHolds(req, K, r)
=============================================================================
