SPECIFICATION TSpec
CHECK_DEADLOCK FALSE
