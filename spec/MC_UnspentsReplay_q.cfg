CONSTANTS NIn = 2  MaxMut = 1
SPECIFICATION RSpec
INVARIANTS RRetIffBacked RaiseHasReason
CHECK_DEADLOCK FALSE
