CONSTANTS NIn = 3  MaxMut = 1
SPECIFICATION RSpec
INVARIANTS RRetIffBacked RaiseHasReason
CHECK_DEADLOCK FALSE
