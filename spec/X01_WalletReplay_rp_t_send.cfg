CONSTANTS N = 2  W = 1
          T = 3  MaxOut = 2  Base = 1  Fee = 1  KMax = 3
          SendAmts = {2}  OwnModes = {1}  MaxIns = 2  MaxBlockTx = 2
          MaxDeliver = 99  MaxMem = 1  MaxSend = 2  MaxRewind = 0
          RewindInclusive <- SwRI  KeepOnConfirm <- SwKC  KeepOnMempool <- SwKM
          UnconfInZero <- SwUZ  ZeroSentinel <- SwZS
INIT RInit
NEXT RNext
VIEW RView
CHECK_DEADLOCK FALSE
