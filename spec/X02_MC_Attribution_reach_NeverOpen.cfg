CONSTANTS NK = 5  NM = 2  MaxPasses = 1  MaxSteps = 1  MaxInserts = 1  EditFrom = "signed"  MutSet = "all"
          Shapes <- NoShapes  Coins <- AllCoins  HashTypes <- StdHashTypes  Cases <- CasesOpen
SPECIFICATION MSpec
INVARIANTS NeverOpen
CHECK_DEADLOCK FALSE
