CONSTANTS OpsA <- OpsFull
          LensA = {1, 2, 20, 75, 76, 255, 256, 520, 65535, 65536}  FirstsA = {0, 5, 17, 129, 255}
          AltsA <- AltsFull  MaxA = 2
          OpsB <- OpsFull
          LensB = {1, 76}  FirstsB = {0}  AltsB <- AltsOne  MaxB = 3
          TextMax = 24  Export = TRUE
SPECIFICATION Spec
INVARIANTS InvRoundTrip InvClaimed InvItems
CHECK_DEADLOCK FALSE
