CONSTANTS Tier = "t"  Emit = TRUE
SPECIFICATION Spec
INVARIANT TypeOK NoFail RoundTrip WidthLemma TxStd
CHECK_DEADLOCK FALSE
