CONSTANTS Tier = "t"  Emit = TRUE
SPECIFICATION Spec
INVARIANT TypeOK NoFail Progress RoundTrip WidthLemma TxStd
CHECK_DEADLOCK FALSE
