-------------------------- MODULE MC_SpendableReplay --------------------------
(* Spec -> code binding for C07 (spendables): every spendable of the grid in  *)
(* its three forms; lemmas: each form parses back to the same record.         *)
EXTENDS Spendable, TxGrid, Json

CONSTANT Emit

N4(n) == Limbs(n, 4)
BLK == IF Tier = "q" THEN {N4(0), N4(253), N4(65536), <<65535, 65535, 0, 0>>}
       ELSE {N4(0), N4(1), N4(252), N4(253), N4(65535), N4(65536), <<65535, 65535, 0, 0>>, <<0, 0, 1, 0>>, A64m}
BLK2 == IF Tier = "q" THEN {N4(0), N4(252), A32} ELSE {N4(0), N4(252), N4(253), A32, A64m}
Spendables ==
  {[amount |-> a, script |-> ScriptT(l), hash |-> HashX(h), index |-> x, bia |-> b1, spent |-> flag, bis |-> b2] :
     a \in AMTS, l \in LENS, h \in (IF Tier = "q" THEN {17} ELSE {0, 17}),
     x \in (IF Tier = "q" THEN {Zero32N, Max32N} ELSE {Zero32N, <<1, 0>>, Max32N}),
     b1 \in BLK, flag \in BOOLEAN, b2 \in BLK2}

VARIABLES sp, done
vars == <<sp, done>>

ShowField(f) == IF f.t = "hex" THEN [t |-> "hex", v |-> Show(f.v)] ELSE f
ShowS(s) == [amount |-> s.amount, script |-> Show(s.script), hash |-> Show(s.hash), index |-> s.index,
             bia |-> s.bia, spent |-> s.spent, bis |-> s.bis]
RecordOf(x) == LET d == DictForm(x) t == TextFields(x) IN
  [k |-> "sp", s |-> ShowS(x),
   sep |-> Separator,
   text |-> [i \in 1..Len(t) |-> ShowField(t[i])],
   dict |-> [key \in DOMAIN d |-> ShowField(d[key])],
   outbin |-> Show(OutPart(x)),
   bin |-> Show(BinForm(x))]

\* the spendables are dealt to NCH initial states and picked in a first step (initial states are computed
\* by one thread; the lemmas below are then checked by all workers)
NCH == 64
SpSeq == SetToSeq(Spendables)
Init == sp \in 0..(NCH - 1) /\ done = FALSE
Next == /\ ~done /\ done' = TRUE
        /\ \E j \in {j \in 1..Len(SpSeq) : j % NCH = sp} :
              /\ sp' = SpSeq[j]
              /\ Emit => PrintT(ToJson(RecordOf(SpSeq[j])))
Spec == Init /\ [][Next]_vars

TypeOK == done => IsSpendable(sp)
TextRoundTrip == done => ParseText(TextFields(sp)) = sp
\* the character-level text and its parser (short scripts only: one element per character)
CharsRoundTrip == (done /\ Size(sp.script) <= 253) =>
                    LET r == ParseTextChars(TextChars(sp)) IN r.ok /\ r.s = sp
DictRoundTrip == done => ParseDict(DictForm(sp)) = sp
BinRoundTrip == done => LET r == ParseBin(BinForm(sp)) IN r.ok /\ r.s = sp /\ r.rest = <<>> /\ r.canon
\* the binary form starts with the output exactly as a transaction serialises it
BinPrefix == done => Take(BinForm(sp), Size(OutPart(sp))) = OutPart(sp)
=============================================================================
