CONSTANTS P = 67  A = 0  B = 2  Gx = 2  Gy = 12  N = 73
          DS = {1, 36, 72}  KS = {1, 2, 3, 4, 5, 6, 7, 8, 9, 10, 11, 12, 13, 14, 15, 16, 17, 18, 19, 20, 21, 22, 23, 24, 25, 26, 27, 28, 29, 30, 31, 32, 33, 34, 35, 36, 37, 38, 39, 40, 41, 42, 43, 44, 45, 46, 47, 48, 49, 50, 51, 52, 53, 54, 55, 56, 57, 58, 59, 60, 61, 62, 63, 64, 65, 66, 67, 68, 69, 70, 71, 72}
          Z1 = {1, 2, 3, 17, 18, 19, 35, 36, 37, 38, 55, 56, 70, 71, 72, 73}
          Z2 = {1, 2, 36, 37, 38, 71, 72, 73}  D2 = {2, 71}
          OS1 = {}  DeepD = {}  M = 80  Dealers = 64
SPECIFICATION Spec
INVARIANTS LemmasHold TablesOk
CHECK_DEADLOCK FALSE
