----------------------------- MODULE X06_MC_Blobs -----------------------------
(* X06: the bytes behind the blob classes of X06_TxStore.                      *)
(*                                                                             *)
(* The store model speaks of transactions 1..3 and of classes of file content  *)
(* (full, strip, trail, trunc, empty, junk).  Here the transactions are        *)
(* concrete records of TxWire (property C07's wire format, reused read-only),  *)
(* every class gets concrete byte strings built from TxWire's serialiser, and  *)
(* the parser state machine TxParse is run over each of them: TLC checks that  *)
(* the parser's verdict is the one the store model assumes for the class       *)
(* (ClassOk) - a transaction with THAT id, or no transaction at all.           *)
(* Every case is printed (bytes, class, id term); the harness plants these     *)
(* bytes in real directories, finishes the id terms with hashlib, and names    *)
(* the files after them.                                                       *)
EXTENDS TxParse, Json

Amt(t, x) == 1000 * t + 100 * x + 50                     \* as in X06_TxStore
OutScript(t, x) == Lit(<<118, 169, 2, t, x, 136, 172>>)
Out(t, x) == [amount |-> Limbs(Amt(t, x), 4), script |-> OutScript(t, x)]
PrevHash(b) == Run(b, 32)
TxIn(h, idx, script, sq, wit) == [hash |-> h, index |-> Limbs(idx, 2), script |-> script, seq |-> sq, wit |-> wit]
MaxSeq == <<65535, 65535>>

\* 1: one input, one output, no witness data
\* 2: one input with a witness stack (an empty item in it), two outputs, version 2
\* 3: two inputs, three outputs, a lock time, no witness data
T(i) == CASE i = 1 -> [version |-> <<1, 0>>, lock |-> <<0, 0>>,
                       ins |-> <<TxIn(PrevHash(17), 0, Lit(<<81>>), MaxSeq, <<>>)>>,
                       outs |-> <<Out(1, 0)>>]
          [] i = 2 -> [version |-> <<2, 0>>, lock |-> <<0, 0>>,
                       ins |-> <<TxIn(PrevHash(34), 1, <<>>, <<65533, 65535>>, <<Lit(<<48, 1, 2, 3>>), <<>>, Run(171, 33)>>)>>,
                       outs |-> <<Out(2, 0), Out(2, 1)>>]
          [] i = 3 -> [version |-> <<1, 0>>, lock |-> Limbs(500000, 2),
                       ins |-> <<TxIn(PrevHash(51), 2, Lit(<<0, 81>>), <<0, 0>>, <<>>), TxIn(PrevHash(68), 0, <<>>, MaxSeq, <<>>)>>,
                       outs |-> <<Out(3, 0), Out(3, 1), Out(3, 2)>>]
TIds == {1, 2, 3}
Seg == {i \in TIds : HasWitness(T(i))}

\* ASCII hex text of a byte string (someone saved the hex form under the binary name)
AsciiHex(s) == LET d(v) == IF v < 10 THEN 48 + v ELSE 87 + v IN
               Lit(FoldLeft(LAMBDA acc, b : acc \o <<d(b \div 16), d(b % 16)>>, <<>>, Expand(s)))

W(i) == Wire(T(i))
Variants ==
  [full  |-> [i \in TIds |-> <<W(i)>>],
   strip |-> [i \in TIds |-> IF i \in Seg THEN <<Stripped(T(i))>> ELSE <<>>],
   trail |-> [i \in TIds |-> <<Cat(W(i), Lit(<<222, 173, 190, 239>>)), Cat(W(i), Lit(<<0>>)), Cat(W(i), W(i))>>],
   trunc |-> [i \in TIds |-> <<Take(W(i), Size(W(i)) - 1), Take(W(i), Size(W(i)) - 4), Take(W(i), Size(W(i)) \div 2),
                              Take(W(i), 5), Take(W(i), 6)>>]]
Junks == <<Run(255, 10), Lit(<<104, 101, 108, 108, 111, 10>>), AsciiHex(W(1)), Cat(Lit(<<1, 0, 0, 0, 0, 2>>), Run(0, 20))>>

Cases == {[c |-> cl, t |-> i, v |-> v] : cl \in {"full", "strip", "trail", "trunc"}, i \in TIds, v \in 1..5}
CasesOk == {x \in Cases : x.v <= Len(Variants[x.c][x.t])}
           \cup {[c |-> "empty", t |-> 0, v |-> 1]} \cup {[c |-> "junk", t |-> 0, v |-> v] : v \in 1..Len(Junks)}
BytesOf(x) == CASE x.c = "empty" -> <<>>
                [] x.c = "junk" -> Junks[x.v]
                [] OTHER -> Variants[x.c][x.t][x.v]

VARIABLES case, shown
vars == <<case, shown, pvars>>

Init == /\ case \in CasesOk /\ shown = FALSE
        /\ PInit(BytesOf(case), TRUE)

ShowIn(x)  == [hash |-> Show(x.hash), index |-> x.index, script |-> Show(x.script), seq |-> x.seq,
               wit |-> [k \in 1..Len(x.wit) |-> Show(x.wit[k])]]
ShowOut(o) == [amount |-> o.amount, script |-> Show(o.script)]
ShowTx(t)  == [version |-> t.version, lock |-> t.lock,
               ins |-> [i \in 1..Len(t.ins) |-> ShowIn(t.ins[i])],
               outs |-> [j \in 1..Len(t.outs) |-> ShowOut(t.outs[j])]]
ShowTerm(t) == [op |-> t.op, arg |-> Show(t.arg)]

\* the parser's verdict on the bytes, in the store model's vocabulary
Verdict == IF pc = "done" THEN "tx" ELSE "notx"
Report == /\ pc \in Terminal /\ ~shown /\ shown' = TRUE
          /\ UNCHANGED <<case, pvars>>
          /\ PrintT(ToJson([k |-> "blob", c |-> case.c, t |-> case.t, v |-> case.v, bytes |-> Show(BytesOf(case)),
                            verdict |-> Verdict,
                            ptx |-> IF pc = "done" THEN ShowTx(ptx) ELSE ShowTx(T(1)),
                            pid |-> IF pc = "done" THEN ShowTerm(TxId(ptx)) ELSE ShowTerm(TxId(T(1)))]))
Next == (PNext /\ UNCHANGED <<case, shown>>) \/ Report
Spec == Init /\ [][Next]_vars

\* what the store model assumes about each class
ClassOk ==
  pc \in Terminal =>
    CASE case.c \in {"full", "trail"} -> pc = "done" /\ ptx = T(case.t)
      [] case.c = "strip" -> pc = "done" /\ ptx = StripWitness(T(case.t)) /\ ptx # T(case.t)
                             /\ TxId(ptx) = TxId(T(case.t))              \* the same id: the id does not cover witness data
      [] OTHER -> pc # "done"
\* different transactions, different serialisations, (hence, no collisions assumed) different ids
Distinct == \A i, j \in TIds : i # j => Stripped(T(i)) # Stripped(T(j))
\* the outputs are told apart by amount AND by script
OutputsDistinct == \A i, j \in TIds : \A x \in 1..Len(T(i).outs) : \A y \in 1..Len(T(j).outs) :
                     (i # j \/ x # y) => T(i).outs[x].amount # T(j).outs[y].amount /\ T(i).outs[x].script # T(j).outs[y].script
Shape == /\ \A i \in TIds : IsTx(T(i)) /\ Len(T(i).outs) = i
         /\ Seg = {2} /\ Distinct /\ OutputsDistinct
ASSUME Shape
ASSUME PrintT(ToJson([k |-> "txs", txs |-> [i \in 1..3 |-> [tx |-> ShowTx(T(i)), id |-> ShowTerm(TxId(T(i))),
                                                             wid |-> ShowTerm(WTxId(T(i)))]]]))
=============================================================================
