--------------------------- MODULE X07_Trace_Cmds ---------------------------
(* X07, code -> spec: recorded sessions of the real commands (seeded, beyond  *)
(* the enumerated grid; and the repository's own golden files as canned       *)
(* observations) must be runs of the machine of X07_Cmds.                     *)
(*                                                                            *)
(* A recorded session is a sequence of events [inv, obs]: the invocation in   *)
(* the token form of X07_Cmds (the recorder knows which tokens it wrote: it   *)
(* is purely syntactic) and what was observed: the ending, the number of      *)
(* stdout lines and a structural reading of the output made with the          *)
(* harness' own decoders (hex -> bytes, disassembly -> tokens, numbers,       *)
(* which hash the keychain file is interested in, which key it hands out).    *)
(* The machine's stages run on every event; Report is enabled only if the     *)
(* observation is explained by the outcome the rule books demand (Explains).  *)
(* What TLC cannot compute (hashes, Base58Check, curve points) is printed     *)
(* with the demanded outcome ("exp" records) and compared by the harness      *)
(* piece by piece - the same comparison the replay uses.  A session whose     *)
(* last event is explained prints "acc".                                      *)
EXTENDS X07_Cmds

Traces == JsonDeserialize(IOEnv.TRACE_FILE)
VARIABLE tid
tvars == <<c7vars, tid>>

Ses(t) == [i \in 1..Len(Traces[t]) |-> Traces[t][i].inv]
ObsNow == Traces[tid][c7k].obs

EndOk(res, obs) ==
  CASE res.st = "ok" -> obs.end = "ok" \/ (res.open /\ obs.end = "nonzero" /\ obs.nout = 0)
    [] res.st = "fail" -> obs.end = "nonzero"
    [] res.st = "refuse" -> obs.end = "nonzero" /\ (obs.nout = 0 \/ res.aux.before # <<>>)
Refused(res, obs) == res.st = "refuse" \/ (res.open /\ obs.end = "nonzero")

\* a line whose pieces are all literal, as one string
AllLit(line) == \A p \in 1..Len(line) : line[p].t \in {"lit", "decn"}
LitText(line) == FoldLeft(LAMBDA acc, pc : acc \o (IF pc.t = "lit" THEN pc.s ELSE ToString(pc.n)), "", line)

MsgExplains(inv, res, obs) ==
  /\ obs.nout = Len(res.out) \/ (obs.nout = 0 /\ \A l \in 1..Len(res.out) : res.out[l][1].t = "optional")
  /\ inv.sub = "verify" /\ inv.addr.cls # "none" => obs.first = (IF res.st = "ok" THEN "sigok" ELSE "bad")
  /\ inv.sub = "verify" /\ inv.addr.cls = "none" /\ res.st = "ok" => obs.first = "other"
CoincExplains(inv, res, obs) ==
  /\ obs.nout = Len(res.out)
  /\ Len(obs.scripts) = Len(inv.texts) /\ Len(obs.asms) = Len(inv.texts)
  /\ \A a \in 1..Len(inv.texts) :
       LET s == CompileItems(inv.texts[a])  asm == res.out[6 * a][1] IN
       /\ obs.scripts[a] = s
       /\ asm.cls # "free" => obs.asms[a] \in asm.alts
B58Explains(inv, res, obs) ==
  /\ obs.nout = Len(res.out)
  /\ \A l \in 1..Len(res.out) : AllLit(res.out[l]) => obs.lines[l] = LitText(res.out[l])
BlockExplains(inv, res, obs) ==
  /\ Len(obs.heads) = Len(inv.files)
  /\ \A a \in 1..Len(inv.files) :
       LET f == inv.files[a]  o == obs.heads[a] IN
       /\ o.size = BlockSize(f.h, f.txs) /\ o.version = f.h.version /\ o.iso = IsoOf(f.h.time)
       /\ o.bits = f.h.bits /\ o.nonce = f.h.nonce /\ o.ntx = Len(f.txs) /\ Len(o.txs) = Len(f.txs)
       /\ \A i \in 1..Len(f.txs) :
            /\ o.txs[i].version = f.txs[i].version /\ o.txs[i].size = BW!Size(BW!Wire(f.txs[i]))
            /\ o.txs[i].nin = Len(f.txs[i].ins) /\ o.txs[i].nout = Len(f.txs[i].outs)
            /\ o.txs[i].wit = BW!HasWitness(f.txs[i])
KcExplains(inv, res, obs, view) ==
  /\ obs.nout = Len(res.out)
  /\ ToSet(obs.interest) = view.interest
  /\ \A a \in 1..Len(obs.answers) :
       \E pr \in view.probes : /\ pr.q = obs.answers[a].q /\ pr.secs = ToSet(obs.answers[a].secs)
                               /\ obs.answers[a].got \in pr.allowed
\* a refused keychain invocation leaves what the file is interested in as it was
KcRefusedExplains(obs, file, ses) ==
  ToSet(obs.interest) = KcInterestNames(file)

Explains(inv, res, obs, file, ses) ==
  /\ EndOk(res, obs)
  /\ IF Refused(res, obs) THEN (inv.cmd = "keychain" => KcRefusedExplains(obs, file, ses))
     ELSE CASE inv.cmd = "msg" -> MsgExplains(inv, res, obs)
            [] inv.cmd = "coinc" -> CoincExplains(inv, res, obs)
            [] inv.cmd = "b58" -> B58Explains(inv, res, obs)
            [] inv.cmd = "block" -> BlockExplains(inv, res, obs)
            [] inv.cmd = "keychain" -> KcExplains(inv, res, obs, KcView([inv |-> inv, file |-> file], ses))

TInit == CInit /\ tid \in 1..Len(Traces)
TBegin == Begin(Ses(tid)) /\ UNCHANGED tid
\* the demanded outcome of the event, for the harness' piece-by-piece comparison
TClassify == /\ Classify /\ UNCHANGED tid
TAct == /\ Act /\ UNCHANGED tid
        /\ PrintT(ToJson([k |-> "exp", tid |-> tid, i |-> c7k,
                          rec |-> LogRec([inv |-> Cur, res |-> Outcome(Cur), file |-> c7new'], c7ses)]))
TReport == /\ c7pc = "acted"
           \* (a blank observation, end "-", is how the harness asks for the demanded outcomes before it runs anything)
           /\ (ObsNow.end = "-" \/ Explains(Cur, Outcome(Cur), ObsNow, c7new, c7ses))
           /\ Report /\ UNCHANGED tid
TAdvance == /\ Advance /\ UNCHANGED tid
            /\ (c7pc' = "done" => PrintT(ToJson([k |-> "acc", tid |-> tid])))
            /\ PrintT(ToJson([k |-> "l", tid |-> tid, i |-> c7k]))
TNext == TBegin \/ TClassify \/ TAct \/ TReport \/ TAdvance
TSpec == TInit /\ [][TNext]_tvars
ASSUME PrintT(ToJson([k |-> "hdr", n |-> Len(Traces)]))
\* the lemmas of the rule module hold on recorded sessions too
TLemmas == RefusalsAreClean /\ SignVerifyAgree /\ NoKeyNoVerdict /\ KcIdempotent /\ KcMonotone /\ StagesAgree
=============================================================================
