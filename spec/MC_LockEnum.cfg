SPECIFICATION LSpec
INVARIANT StackUnchanged
CHECK_DEADLOCK FALSE
