CONSTANTS P = 83  A = 1  B = 7  Gx = 0  Gy = 16  N = 79
          ZSet = {1, 80}  ZDeep = {79}
SPECIFICATION Spec
INVARIANT ECDSALemmas
CHECK_DEADLOCK FALSE
