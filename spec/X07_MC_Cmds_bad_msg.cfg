CONSTANTS Cmd = "msg"  Tier = "q"  U = "q"
CONSTANT MsgVerdict <- BadMsgVerdict
SPECIFICATION Spec
INVARIANTS Lemmas LemmasDone
CHECK_DEADLOCK FALSE
