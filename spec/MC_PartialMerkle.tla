--------------------------- MODULE MC_PartialMerkle ---------------------------
(* PartialMerkle.tla model-checked, and exported for replay.                  *)
(*                                                                            *)
(* Initial states: every block size n in 1..N, EVERY subset M of its          *)
(* transactions, and for the honest proof Build(Leaves(n), M) every           *)
(* corruption of the kinds property C14 lists plus the BIP37/Core-only ones.  *)
(* The behaviour from there is the verifier's traversal (PartialMerkle:       *)
(* Descend / Ascend / Finish).  Invariants state what must hold when it       *)
(* stops.  With EMIT the finished case is printed as a merkleblock message    *)
(* (BlockWire.MerkleBlockParts) with the outcome the property demands.        *)
EXTENDS PartialMerkle, BlockWire, TLC, Json

CONSTANTS N, EMIT, MUT,
          KINDS        \* corruption kinds generated
VARIABLES c, vs, steps

\* ---------------------------------------------------------------- corruptions
ListedKinds == {"alter", "remove", "add", "padbit", "root"}
CoreKinds == {"flagbyte", "dropflag", "dupattack", "n0", "nplus", "nminus"}
NoCor == [kind |-> "none", i |-> 0, v |-> "-"]

InsAfter(s, i, x) == SubSeq(s, 1, i) \o <<x>> \o SubSeq(s, i + 1, Len(s))        \* after position i (0..Len)
DelAt(s, i) == SubSeq(s, 1, i - 1) \o SubSeq(s, i + 1, Len(s))
NBits(lv, M) == Len(Build(lv, M).bits)

\* the corruptions applicable to the honest proof p (bits used: nb) of a block of n transactions
Cors(n, M, p, nb) ==
  LET H == Len(p.hashes) IN
     { [kind |-> "alter", i |-> i, v |-> v] : i \in 1..H, v \in {"alien", "flip0", "flip255"} }
  \cup { [kind |-> "alter", i |-> i, v |-> "prev"] : i \in {j \in 2..H : p.hashes[j - 1] # p.hashes[j]} }
  \cup { [kind |-> "alter", i |-> i, v |-> "next"] : i \in {j \in 1..(H - 1) : p.hashes[j + 1] # p.hashes[j]} }
  \cup { [kind |-> "remove", i |-> i, v |-> "-"] : i \in 1..H }
  \cup { [kind |-> "add", i |-> i, v |-> v] : i \in 0..H, v \in {"alien", "copy"} }
  \cup { [kind |-> "padbit", i |-> k, v |-> "-"] : k \in nb..(8 * NBytes(nb) - 1) }
  \cup { [kind |-> "root", i |-> 0, v |-> v] : v \in {"alien", "flip0", "flip255"} \cup (IF n >= 2 THEN {"swap", "short"} ELSE {}) }
  \* not listed by the property; rules of BIP37 / Core
  \cup { [kind |-> "flagbyte", i |-> 0, v |-> v] : v \in {"00", "01", "80"} }
  \cup { [kind |-> "dropflag", i |-> 0, v |-> "-"] }
  \cup (IF n % 2 = 1 /\ n > 1 /\ n \in M THEN { [kind |-> "dupattack", i |-> 0, v |-> "-"] } ELSE {})
  \cup { [kind |-> "n0", i |-> 0, v |-> "-"] }

AlterTo(p, i, v) == CASE v = "alien" -> Alien(1)
                      [] v = "flip0" -> Flip(p.hashes[i], 0)
                      [] v = "flip255" -> Flip(p.hashes[i], 255)
                      [] v = "prev" -> p.hashes[i - 1]
                      [] v = "next" -> p.hashes[i + 1]
\* the message fields [n, hashes, flags, want] after the corruption
Apply(n, M, cor) ==
  LET lv == Leaves(n)
      p == Proof(lv, M)
      good == [n |-> n, hashes |-> p.hashes, flags |-> p.flags, want |-> Root(lv)]
      k == cor.kind
  IN CASE k = "none" -> good
       [] k = "alter" -> [good EXCEPT !.hashes[cor.i] = AlterTo(p, cor.i, cor.v)]
       [] k = "remove" -> [good EXCEPT !.hashes = DelAt(@, cor.i)]
       [] k = "add" -> [good EXCEPT !.hashes = InsAfter(@, cor.i, IF cor.v = "alien" THEN Alien(1)
                                                                  ELSE p.hashes[IF cor.i = 0 THEN 1 ELSE cor.i])]
       [] k = "padbit" -> [good EXCEPT !.flags = SetBit(@, cor.i)]
       [] k = "root" -> [good EXCEPT !.want =
                           CASE cor.v = "alien" -> Alien(2)
                             [] cor.v = "flip0" -> Flip(Root(lv), 0)
                             [] cor.v = "flip255" -> Flip(Root(lv), 255)
                             [] cor.v = "swap" -> Root([lv EXCEPT ![1] = lv[2], ![2] = lv[1]])
                             [] cor.v = "short" -> Root(SubSeq(lv, 1, n - 1))]
       [] k = "flagbyte" -> [good EXCEPT !.flags = Append(@, CASE cor.v = "00" -> 0 [] cor.v = "01" -> 1 [] cor.v = "80" -> 128)]
       [] k = "dropflag" -> [good EXCEPT !.flags = SubSeq(@, 1, Len(@) - 1)]
       \* CVE-2012-2459: claim n + 1 transactions, the last one repeated; the root is the same (Merkle.DupQuirk)
       [] k = "dupattack" -> LET lv2 == Append(lv, lv[n]) p2 == Proof(lv2, M \cup {n + 1}) IN
                             [n |-> n + 1, hashes |-> p2.hashes, flags |-> p2.flags, want |-> Root(lv)]
       [] k = "n0" -> [good EXCEPT !.n = 0]

\* ---------------------------------------------------------------- behaviour
Hdr(want) == [version |-> <<1, 0>>, prev |-> Alien(9), root |-> want,
              time |-> <<24301, 19739>>, bits |-> <<65535, 7424>>, nonce |-> <<4660, 31787>>]
Lv == Leaves(c.n)
Out == LET a == c.a IN
       [k |-> "mb", n |-> c.n, m |-> {i \in 1..c.n : i \in c.M}, cor |-> c.cor,
        image |-> MerkleBlockParts(Hdr(a.want), Limbs(a.n, 2), a.hashes, a.flags),
        nhashes |-> Len(a.hashes), flags |-> a.flags,
        demand |-> Demand(vs', Lv), core |-> vs'.st, fail |-> vs'.fail, matched |-> vs'.matched,
        bits |-> vs'.bitpos, used |-> vs'.hpos]
Emit == (EMIT /\ Done(vs')) => PrintT(ToJson(Out))

\* a case is chosen in two steps (block and match set, then the corruption) so that TLC's workers share the work
Init == \E n \in 1..N : \E M \in SUBSET (1..n) :
          /\ c = [n |-> n, M |-> M, cor |-> NoCor, a |-> Apply(n, M, NoCor), nb |-> NBits(Leaves(n), M), picked |-> FALSE]
          /\ vs = VInit(0, <<>>, <<>>, NoTerm)
          /\ steps = 0
Pick == /\ ~c.picked
        /\ \E cor \in {NoCor} \cup {x \in Cors(c.n, c.M, Proof(Leaves(c.n), c.M), c.nb) : x.kind \in KINDS} :
             LET a == Apply(c.n, c.M, cor) IN
             /\ c' = [c EXCEPT !.cor = cor, !.a = a, !.picked = TRUE]
             /\ vs' = VInit(a.n, a.flags, a.hashes, a.want)
        /\ UNCHANGED steps
\* a deliberately wrong verifier for MC_PartialMerkle_mut*.cfg: the lemmas below must fail for it
MutFinish(v) == CASE MUT = "none" -> v
                  [] MUT = "no_end_checks" -> LET F == v.fail \ {"unused_hashes", "padding_bits", "unused_bits"} IN
                                              [v EXCEPT !.fail = F, !.st = IF F = {} THEN "accept" ELSE "reject"]
                  [] MUT = "no_root_check" -> LET F == v.fail \ {"root_mismatch"} IN
                                              [v EXCEPT !.fail = F, !.st = IF F = {} THEN "accept" ELSE "reject"]
                  [] MUT = "reversed_matches" -> [v EXCEPT !.matched = [i \in 1..Len(@) |-> @[Len(@) + 1 - i]]]
Descend == c.picked /\ CanDescend(vs) /\ vs' = DescendOf(vs) /\ steps' = steps + 1 /\ UNCHANGED c /\ Emit
Ascend  == c.picked /\ CanAscend(vs)  /\ vs' = AscendOf(vs)  /\ steps' = steps + 1 /\ UNCHANGED c /\ Emit
Finish  == c.picked /\ CanFinish(vs)  /\ vs' = MutFinish(FinishOf(vs))  /\ steps' = steps + 1 /\ UNCHANGED c /\ Emit
\* total_transactions = 0 is refused before any traversal: the state is final at once; one step publishes it
Refused == c.picked /\ steps = 0 /\ Done(vs) /\ vs' = vs /\ steps' = 1 /\ UNCHANGED c /\ Emit
Next == Pick \/ Descend \/ Ascend \/ Finish \/ Refused
Spec == Init /\ [][Next]_<<c, vs, steps>>

\* ---------------------------------------------------------------- lemmas
Nodes(n) == LET RECURSIVE S(_) S(h) == Width(n, h) + (IF Width(n, h) = 1 THEN 0 ELSE S(h + 1)) IN S(0)
TypeOK == c.picked =>
          /\ vs.bitpos <= 8 * Len(vs.flags) /\ vs.hpos <= Len(vs.hashes)
          /\ Len(vs.stack) <= Height(IF vs.n = 0 THEN 1 ELSE vs.n) + 1
          /\ vs.st \in {"run", "accept", "reject"}
          /\ (vs.st = "accept" <=> (Done(vs) /\ vs.fail = {}))
          /\ steps <= 2 * Nodes(IF vs.n = 0 THEN 1 ELSE vs.n) + 1                  \* terminates: every node entered and left once
          /\ \A i \in 1..Len(vs.stack) : vs.stack[i].pos < Width(vs.n, vs.stack[i].h)
          /\ (Running(vs) => (CanDescend(vs) \/ CanAscend(vs) \/ CanFinish(vs)))  \* never stuck
\* the honest proof: accepted; yields exactly the matched ids in block order; every bit and hash is used;
\* its size is what BIP37 promises
HonestAccepted == (c.picked /\ c.cor.kind = "none" /\ Done(vs)) =>
  /\ vs.st = "accept"
  /\ vs.matched = MatchedIds(Lv, c.M)
  /\ Demand(vs, Lv) = "accept"
  /\ vs.bitpos = c.nb /\ vs.hpos = Len(c.a.hashes) /\ Len(c.a.flags) = NBytes(c.nb)
  /\ Len(c.a.hashes) <= c.n /\ c.nb <= Nodes(c.n)
  /\ (c.M = {} => c.a.hashes = <<Root(Lv)>> /\ c.a.flags = <<0>>)
  /\ (c.M = 1..c.n => c.a.hashes = Lv /\ c.nb = Nodes(c.n))
\* every listed corruption: rejected, and for the reason one expects
ListedRejected == (c.picked /\ c.cor.kind \in ListedKinds /\ Done(vs)) =>
  /\ vs.st = "reject" /\ Demand(vs, Lv) = "reject"
  /\ CASE c.cor.kind = "alter" -> "root_mismatch" \in vs.fail /\ vs.fail \subseteq {"root_mismatch", "dup"}
       [] c.cor.kind = "remove" -> vs.fail = {"no_hashes"}
       [] c.cor.kind = "add" -> "unused_hashes" \in vs.fail /\ vs.fail \subseteq {"unused_hashes", "root_mismatch", "dup"}
       [] c.cor.kind = "padbit" -> vs.fail = {"padding_bits"}
       [] c.cor.kind = "root" -> vs.fail = {"root_mismatch"}
\* BIP37 / Core refuse these too, but by rules the property does not list
CoreOnly == (c.picked /\ c.cor.kind \in CoreKinds /\ Done(vs)) =>
  /\ vs.st = "reject"
  /\ CASE c.cor.kind = "flagbyte" -> vs.fail = {"unused_bits"}
       [] c.cor.kind = "dropflag" -> vs.fail \in {{"no_bits"}, {"unused_bits"}}
       [] c.cor.kind = "dupattack" -> vs.fail = {"dup"} /\ Demand(vs, Lv) = "free"
       [] c.cor.kind = "n0" -> vs.fail = {"no_tx"}
       [] OTHER -> TRUE
=============================================================================
