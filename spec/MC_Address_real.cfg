CONSTANTS Table = "real"  Mode = "cases"  Fill = 17
SPECIFICATION Spec
CHECK_DEADLOCK FALSE
