CONSTANTS N = 4  W = 1  MaxAdd = 3  MaxLock = 1  AllowDup = TRUE
          MeldInterior = TRUE  SkipLocked = TRUE  KeepOnLock = TRUE
SPECIFICATION Spec
INVARIANT Canonical
INVARIANT TopsIndexed
INVARIANT NoError
INVARIANT ChainOk
INVARIANT IndexOk
PROPERTY Refines
CHECK_DEADLOCK FALSE
