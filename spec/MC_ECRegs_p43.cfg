CONSTANTS P = 43  A = 0  B = 7  Gx = 2  Gy = 12  N = 31
          R = 2  Concrete = TRUE  B1 = 5  B2 = 29  MaxCoef = 1000  MaxSteps = 2  Emit = FALSE
SPECIFICATION Spec
INVARIANTS RegsRepresent EqualScalarsEqualPoints
VIEW View
CHECK_DEADLOCK FALSE
