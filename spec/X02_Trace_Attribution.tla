----------------------- MODULE X02_Trace_Attribution -----------------------
(* Code -> spec binding for X02 (a).  A recorded session: a real transaction  *)
(* of standard puzzles is signed in several passes (keys possibly over-       *)
(* supplied, any inputs, any hash types) and then edited; after every event   *)
(* the recorder logs                                                          *)
(*   signed : C05's projection of the unlocking data (which listed keys have  *)
(*            a signature present, with its byte) - only used after signing   *)
(*            passes, to learn WHICH outcome the signer chose;                *)
(*   att    : what pycoin's who_signed reported for every input position.     *)
(* The specification replays the events on X02_Attribution (the passes must   *)
(* be steps of Signer.tla, the edits steps of TxValidate.tla) and compares    *)
(* att with Attribution / AttributionMay after every event.  The verdict of a trace is the     *)
(* index of the first event whose report differs (0: none), with what the     *)
(* specification demands there.  A trace that cannot be replayed to its end   *)
(* (an event that is no step of the specification) prints no verdict: that is *)
(* a defect of the recorder, not of pycoin.                                   *)
EXTENDS X02_Attribution, Json, IOUtils

Traces == JsonDeserialize(IOEnv.TRACE_FILE)
VARIABLES tid, l, bad, want
tvars == <<xvars, tid, l, bad, want>>
T == Traces[tid]
Ev == T.ev
Cur == Ev[l]

NoShapesT == {}
Pairs(arr) == {<<e[1], e[2]>> : e \in ToSet(arr)}
PassOf(e) == [mech |-> "lookup", K |-> ToSet(e.K), I |-> ToSet(e.I), ht |-> e.ht, scr |-> TRUE,
              reg |-> {}, sec |-> {}, fresh |-> TRUE, ic |-> e.ic]

TInit == /\ tid \in 1..Len(Traces) /\ l = 1 /\ bad = 0 /\ want = <<>>
         /\ XInitWith(T.coin, T.shape, T.nout)

\* does the report of the current event equal the attribution of the state the event leads to
ReportOK == /\ Len(Cur.att) = Len(ins')
            /\ \A pos \in 1..Len(ins') : /\ Attribution(pos)' \subseteq Pairs(Cur.att[pos])
                                           /\ Pairs(Cur.att[pos]) \subseteq AttributionMay(pos)'
Judge == /\ bad' = IF bad = 0 /\ ~ReportOK THEN l ELSE bad
         /\ want' = IF bad = 0 /\ ~ReportOK THEN [pos \in 1..Len(ins') |-> [must |-> Attribution(pos)', may |-> AttributionMay(pos)']] ELSE want
         /\ l' = l + 1 /\ UNCHANGED tid
         /\ (l' = Len(Ev) + 1 => PrintT(ToJson([k |-> "res", tid |-> tid, bad |-> bad', want |-> want'])))

TSign == /\ l <= Len(Ev) /\ Cur.t = "sign"
         /\ XSignWith(PassOf(Cur), [i \in Ins |-> {e[1] : e \in ToSet(Cur.signed[i])}])
         /\ signed' = [i \in Ins |-> Pairs(Cur.signed[i])]        \* the bytes are those the pass asked for
         /\ Judge
TMut == /\ l <= Len(Ev) /\ Cur.t = "mut"
        /\ XMutate([m |-> Cur.m, a |-> Cur.a, b |-> Cur.b])
        /\ Judge
TRetag == /\ l <= Len(Ev) /\ Cur.t = "retag"
          /\ XRetag(Cur.a, Cur.key, Cur.b)
          /\ Judge
TNext == TSign \/ TMut \/ TRetag
TSpec == TInit /\ [][TNext]_tvars
=============================================================================
