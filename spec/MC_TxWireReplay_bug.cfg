CONSTANTS Tier = "q"  Emit = FALSE  Bug = "drop-empty-witness-items"
SPECIFICATION Spec
INVARIANT NoFail RoundTrip
CHECK_DEADLOCK FALSE
