----------------------------- MODULE Trace_Parse -----------------------------
(* Code -> spec binding for C18: recorded calls of pycoin's text parsers are  *)
(* checked against ParseDispatch.tla over the real prefix table.  A session   *)
(* is ONE text (a real serialisation - address, WIF, extended key, SEC text,  *)
(* seed, pair, numeral, script - possibly mutated in length / prefix /        *)
(* content with the checksum recomputed) pushed, as one parseable_str object  *)
(* whose cache is shared by the calls, through every entry point of a         *)
(* network.  One event = one call:                                            *)
(*   n    network symbol          e    entry point                            *)
(*   t    the structure of the text, computed by the harness's independent    *)
(*        decoders (Base58Check, Bech32, hex, numerals) with the curve-oracle *)
(*        bit                                                                 *)
(*   exc  "" or the type of the exception that escaped                        *)
(*   outs candidate projections of what was returned (a Contract is offered   *)
(*        both as an address contract and as a script)                        *)
(* The event is allowed iff nothing escaped and the rules leave the answer    *)
(* open or one candidate is among the outcomes the rules give.                *)
EXTENDS ParseDispatch, Json, TLCExt

Traces == JsonDeserialize(IOEnv.TRACE_FILE)
Nets == RealNets
NetOf(sym) == Nets[CHOOSE i \in DOMAIN Nets : Nets[i].sym = sym]

UnTok(x) == IF x[1] = "push" THEN Push(x[2], x[3], x[4]) ELSE Op(x[2])
TOf(t) == [t EXCEPT !.toks = [i \in DOMAIN t.toks |-> UnTok(t.toks[i])]]
Tok(x) == IF IsPush(x) THEN <<"push", x.len, x.enc, x.id>> ELSE <<"op", x.n>>
Norm(o) == [o EXCEPT !.toks = [i \in DOMAIN o.toks |-> Tok(o.toks[i])]]

VARIABLES tid, l
tvars == <<tid, l>>
Ev == Traces[tid].ev

EventOk(e) ==
  LET O == Out(NetOf(e.n), e.e, TOf(e.t)) IN
  /\ e.exc = ""
  /\ \/ OAny \in O
     \/ \E i \in DOMAIN e.outs : \E o \in O : Norm(o) = e.outs[i]

\* The rules are stateless: the calls of a session are judged one by one and EVERY call the rules do not
\* allow is collected (register 2), so that one known defect does not hide another one later in the session.
\* A session is accepted iff it contributes nothing to register 2.
TInit == /\ TLCSet(1, {}) /\ TLCSet(2, {})
         /\ tid \in 1..Len(Traces) /\ l = 1
TNext == /\ l <= Len(Ev)
         /\ IF EventOk(Ev[l]) THEN TRUE ELSE TLCSet(2, TLCGet(2) \cup {<<tid, l>>})
         /\ l' = l + 1 /\ UNCHANGED tid
TSpec == TInit /\ [][TNext]_tvars

Reached == IF l = Len(Ev) + 1 THEN TLCSet(1, TLCGet(1) \cup {tid}) ELSE TRUE
Post == PrintT(ToJson([k |-> "rejected", n |-> Len(Traces), unfinished |-> (1..Len(Traces)) \ TLCGet(1), at |-> TLCGet(2)]))
=============================================================================
