CONSTANTS MaxOps = 3  MaxEdit = 2  MaxSetLook = 1  Univ = 2  Ops <- OpsCore
          EditKinds <- KindsFew  LookKinds <- LKindsFew  FillSet <- SAll  ValSet <- SAll
          Ids <- MCIds  SegIds <- MCSegIds  NOut <- MCNOut  Confs <- MCConfsB2  Spenders <- MCSp
          BadFileRaises <- SwBadFile  OobIndexError <- SwOob
INIT MInit
NEXT MNextE
VIEW MView
CHECK_DEADLOCK FALSE
