CONSTANTS CacheMode = "none"  MaxOuts = 4  StartLists = {1}  ListIds = {1, 2, 3, 4, 5, 6}
CONSTANT Ready <- Unchecked
SPECIFICATION SSpec
INVARIANTS HistoryIndependent
CHECK_DEADLOCK FALSE
