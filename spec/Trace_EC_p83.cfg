CONSTANTS P = 83  A = 1  B = 7  Gx = 0  Gy = 16  N = 79  R = 5
SPECIFICATION TSpec
CONSTRAINT Reached
POSTCONDITION Post
CHECK_DEADLOCK FALSE
