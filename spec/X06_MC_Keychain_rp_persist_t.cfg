CONSTANTS U = "q"  MaxOps = 5  MaxGet = 0  Ops <- OpsPersist
          Roots <- URoots  Info <- UInfo  Ranges <- URanges  Singles <- USingles  Scripts <- UScripts  QKeys <- UQKeys
          RootSets <- MCRootSetsP  SecSets <- MCSecSetsP  AskSet <- MCAskUp  NoDerivCheck <- No  Logging <- Yes
          PathRoots <- RAP  PathForms <- FPrv  RangeIdx <- RI12  BackedSet <- OnFile
INIT MKInit
NEXT MKNextE
VIEW KView
CHECK_DEADLOCK FALSE
