CONSTANT U = "t"
SPECIFICATION TSpec
INVARIANT TLemmas
CHECK_DEADLOCK FALSE
