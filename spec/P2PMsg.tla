------------------------------- MODULE P2PMsg -------------------------------
(* The payloads of the Bitcoin peer-to-peer messages: their layouts and the  *)
(* wire encoding of every field type.  Sources: the Bitcoin protocol         *)
(* documentation ("Protocol documentation", message structures) and          *)
(*   BIP 31 (pong)            BIP 35 (mempool)        BIP 37 (filter*, merkleblock)*)
(*   BIP 61 (reject)          BIP 130 (sendheaders)   BIP 133 (feefilter)     *)
(*   BIP 144 (witness tx)     BIP 152 (compact blocks) BIP 155 (sendaddrv2)   *)
(* Only the message NAMES and the FIELD NAMES (the keyword arguments of the  *)
(* library's pack/parse API) are taken from pycoin; every type, order and    *)
(* encoding below is the standard's.                                         *)
(*                                                                           *)
(* Type letters (pycoin's naming of the field codecs, used here as names):   *)
(*   L  uint32, 4 bytes little-endian         value: Num(2) (16-bit limbs)   *)
(*   Q  uint64, 8 bytes little-endian         value: Num(4)                  *)
(*   6  48-bit short id, 6 bytes little-end.  value: Num(3)                  *)
(*   I  compact size 1/3/5/9 bytes            value: Num(4)                  *)
(*   1  uint8                                 value: 0..255                  *)
(*   b  bool, one byte 00/01                  value: BOOLEAN                 *)
(*   O  optional trailing bool                value: <<>> (absent) | <<b>>   *)
(*   h  uint16 BIG-endian (network order: ports)   value: 0..65535           *)
(*   S  var_str: compact-size length + bytes  value: Bytes                   *)
(*   #  32-byte hash, bytes as on the wire    value: Bytes of size 32        *)
(*   @  16-byte IPv6 / IPv4-mapped address    value: Bytes of size 16        *)
(*   A  net_addr without time: Q @ h          value: [services, ip, port]    *)
(*   v  inventory vector: L #                 value: [type, hash]            *)
(*   z  block header, 80 bytes: L # # L L L   value: [version, prev, merkle, time, bits, nonce] *)
(*   T  transaction (module TxWire; BIP144 form iff it has witness data)     *)
(*   B  block: z, compact-size count, that many T                            *)
(*  [..] array: compact-size count, then the elements; an element of several *)
(*       letters is a tuple whose components follow each other.              *)
(* Bytes = run-length byte strings and Num(k) = k limbs, see module Bytes.   *)
EXTENDS TxWire

\* ---------------------------------------------------------------- layouts
Sc(l)   == [arr |-> FALSE, of |-> <<l>>]
Arr(ls) == [arr |-> TRUE, of |-> ls]
F(n, t) == [name |-> n, ty |-> t]

Empty == <<>>
InvList == << F("items", Arr(<<"v">>)) >>
Locator == << F("version", Sc("L")), F("hashes", Arr(<<"#">>)), F("hash_stop", Sc("#")) >>
Nonce == << F("nonce", Sc("Q")) >>

Messages == {"version", "verack", "addr", "inv", "getdata", "notfound", "reject", "getblocks",
             "getheaders", "sendheaders", "tx", "block", "headers", "getaddr", "mempool",
             "feefilter", "sendcmpct", "cmpctblock", "getblocktxn", "blocktxn", "sendaddrv2",
             "ping", "pong", "filterload", "filteradd", "filterclear", "merkleblock", "alert"}

Layout(m) ==
  CASE m = "version" ->      \* int32 version, uint64 services, int64 timestamp, addr_recv, addr_from,
                             \* uint64 nonce, var_str user_agent, int32 start_height, [bool relay] (BIP37)
         << F("version", Sc("L")), F("services", Sc("Q")), F("timestamp", Sc("Q")),
            F("remote_address", Sc("A")), F("local_address", Sc("A")), F("nonce", Sc("Q")),
            F("subversion", Sc("S")), F("last_block_index", Sc("L")), F("relay", Sc("O")) >>
    [] m = "verack"      -> Empty
    [] m = "addr"        -> << F("date_address_tuples", Arr(<<"L", "A">>)) >>     \* uint32 time + net_addr = 30 bytes each
    [] m = "inv"         -> InvList
    [] m = "getdata"     -> InvList
    [] m = "notfound"    -> InvList
    [] m = "reject"      ->      \* BIP61; data = hash of the rejected tx / block
         << F("message", Sc("S")), F("code", Sc("1")), F("reason", Sc("S")), F("data", Sc("#")) >>
    [] m = "getblocks"   -> Locator
    [] m = "getheaders"  -> Locator
    [] m = "sendheaders" -> Empty                                                  \* BIP130
    [] m = "tx"          -> << F("tx", Sc("T")) >>
    [] m = "block"       -> << F("block", Sc("B")) >>
    [] m = "headers"     -> << F("headers", Arr(<<"z", "I">>)) >>                  \* header + transaction count (0)
    [] m = "getaddr"     -> Empty
    [] m = "mempool"     -> Empty                                                  \* BIP35
    [] m = "feefilter"   -> << F("fee_filter_value", Sc("Q")) >>                   \* BIP133
    [] m = "sendcmpct"   -> << F("enabled", Sc("b")), F("version", Sc("Q")) >>     \* BIP152: announce, version
    [] m = "cmpctblock"  ->      \* BIP152 HeaderAndShortIDs: the 80-byte HEADER, nonce, 6-byte short ids,
                                 \* prefilled transactions (compact-size differential index, tx)
         << F("header", Sc("z")), F("nonce", Sc("Q")), F("short_ids", Arr(<<"6">>)),
            F("prefilled_txs", Arr(<<"I", "T">>)) >>
    [] m = "getblocktxn" -> << F("header_hash", Sc("#")), F("indices", Arr(<<"I">>)) >>   \* BIP152, differential indexes
    [] m = "blocktxn"    -> << F("header_hash", Sc("#")), F("txs", Arr(<<"T">>)) >>
    [] m = "sendaddrv2"  -> Empty                                                  \* BIP155
    [] m = "ping"        -> Nonce                                                  \* BIP31
    [] m = "pong"        -> Nonce
    [] m = "filterload"  ->      \* BIP37: uint8[] filter, uint32 nHashFuncs, uint32 nTweak, uint8 nFlags (0, 1, 2)
         << F("filter", Arr(<<"1">>)), F("hash_function_count", Sc("L")), F("tweak", Sc("L")),
            F("flags", Sc("1")) >>
    [] m = "filteradd"   -> << F("data", Arr(<<"1">>)) >>
    [] m = "filterclear" -> Empty
    [] m = "merkleblock" ->      \* BIP37: header, uint32 total, hashes, flag bytes
         << F("header", Sc("z")), F("total_transactions", Sc("L")), F("hashes", Arr(<<"#">>)),
            F("flags", Arr(<<"1">>)) >>
    [] m = "alert"       -> << F("payload", Sc("S")), F("signature", Sc("S")) >>
    \* not a message: the structure carried in alert.payload (the library parses it into "alert_info")
    [] m = "alert_info"  ->
         << F("version", Sc("L")), F("relayUntil", Sc("Q")), F("expiration", Sc("Q")), F("id", Sc("L")),
            F("cancel", Sc("L")), F("setCancel", Arr(<<"L">>)), F("minVer", Sc("L")), F("maxVer", Sc("L")),
            F("setSubVer", Arr(<<"S">>)), F("priority", Sc("L")), F("comment", Sc("S")),
            F("statusBar", Sc("S")), F("reserved", Sc("S")) >>

NFields(m) == Len(Layout(m))
FieldIndex(m, n) == CHOOSE i \in 1..NFields(m) : Layout(m)[i].name = n

\* ---------------------------------------------------------------- addresses, headers
V4Prefix == Cat(Run(0, 10), Run(255, 2))               \* ::ffff:0:0/96, the IPv4-mapped IPv6 prefix
V4(a, b, c, d) == Cat(V4Prefix, Lit(<<a, b, c, d>>))    \* the 16-byte form of a.b.c.d
IsV4(ip) == Take(ip, 12) = V4Prefix
V4Octets(ip) == Expand(Drop(ip, 12))

PortBE(p) == Lit(<<p \div 256, p % 256>>)

SerHeader(h) == CatAll(<<LE16(h.version), h.prev, h.merkle, LE16(h.time), LE16(h.bits), LE16(h.nonce)>>)

IsRaw(v) == "raw" \in DOMAIN v      \* a transaction / block given as its wire bytes (a real one)

\* ---------------------------------------------------------------- encoding of one value
PackVal(l, v) ==
  CASE l = "L" -> LE16(v)
    [] l = "Q" -> LE16(v)
    [] l = "6" -> LE16(v)
    [] l = "I" -> CompactSizeNum(v)
    [] l = "1" -> Lit(<<v>>)
    [] l = "b" -> Lit(<<IF v THEN 1 ELSE 0>>)
    [] l = "O" -> IF v = <<>> THEN <<>> ELSE Lit(<<IF v[1] THEN 1 ELSE 0>>)
    [] l = "h" -> PortBE(v)
    [] l = "S" -> VarBytes(v)
    [] l = "#" -> v
    [] l = "@" -> v
    [] l = "A" -> CatAll(<<LE16(v.services), v.ip, PortBE(v.port)>>)
    [] l = "v" -> Cat(LE16(v.type), v.hash)
    [] l = "z" -> SerHeader(v)
    [] l = "T" -> IF IsRaw(v) THEN v.raw ELSE Wire(v)
    [] l = "B" -> IF IsRaw(v) THEN v.raw
                  ELSE CatAll(<<SerHeader(v.header), CompactSize(Len(v.txs)),
                                CatAll([i \in 1..Len(v.txs) |-> Wire(v.txs[i])])>>)

PackElem(of, e) == IF Len(of) = 1 THEN PackVal(of[1], e)
                   ELSE CatAll([k \in 1..Len(of) |-> PackVal(of[k], e[k])])
PackField(ty, v) == IF ty.arr THEN Cat(CompactSize(Len(v)), CatAll([j \in 1..Len(v) |-> PackElem(ty.of, v[j])]))
                    ELSE PackVal(ty.of[1], v)

\* f: the field values in layout order
FieldBytes(m, f) == [i \in 1..NFields(m) |-> PackField(Layout(m)[i].ty, f[i])]
Pack(m, f) == CatAll(FieldBytes(m, f))
\* the same with the fields given by name (a record), as the API takes them
FieldSeq(m, rec) == [i \in 1..NFields(m) |-> rec[Layout(m)[i].name]]
PackRec(m, rec) == Pack(m, FieldSeq(m, rec))

\* ---------------------------------------------------------------- widths, stated independently of PackVal
CSW(n) == IF n < 253 THEN 1 ELSE IF n <= 65535 THEN 3 ELSE 5
CSWNum(x) == LET t == Trim(x) IN IF Len(t) = 0 THEN 1 ELSE IF Len(t) = 1 THEN CSW(t[1]) ELSE IF Len(t) = 2 THEN 5 ELSE 9
Width(l, v) ==
  CASE l = "L" -> 4 [] l = "Q" -> 8 [] l = "6" -> 6 [] l = "I" -> CSWNum(v) [] l = "1" -> 1 [] l = "b" -> 1
    [] l = "O" -> Len(v) [] l = "h" -> 2 [] l = "S" -> CSW(Size(v)) + Size(v) [] l = "#" -> 32 [] l = "@" -> 16
    [] l = "A" -> 26 [] l = "v" -> 36 [] l = "z" -> 80
    [] l = "T" -> Size(PackVal("T", v))
    [] l = "B" -> Size(PackVal("B", v))
SumSeq(s) == FoldLeft(LAMBDA a, b : a + b, 0, s)
ElemWidth(of, e) == IF Len(of) = 1 THEN Width(of[1], e) ELSE SumSeq([k \in 1..Len(of) |-> Width(of[k], e[k])])
FieldWidth(ty, v) == IF ty.arr THEN CSW(Len(v)) + SumSeq([j \in 1..Len(v) |-> ElemWidth(ty.of, v[j])])
                     ELSE Width(ty.of[1], v)
MsgWidth(m, f) == SumSeq([i \in 1..NFields(m) |-> FieldWidth(Layout(m)[i].ty, f[i])])

\* ---------------------------------------------------------------- decoding of one value (not T, B: those are
\* read by the state machine of module P2PParse).  Result [ok, v, rest].
Bad == [ok |-> FALSE, v |-> <<>>, rest |-> <<>>]
Ok(v, r) == [ok |-> TRUE, v |-> v, rest |-> r]
ReadLE(s, k) == LET r == ReadFixed(s, k) IN IF r.ok THEN Ok(FromLE(r.v), r.rest) ELSE Bad
ReadByte(s) == LET r == ReadFixed(s, 1) IN IF r.ok THEN Ok(r.v[1][1], r.rest) ELSE Bad

ReadHeader(s) ==
  LET a == ReadLE(s, 4)       p == ReadFixed(a.rest, 32) m == ReadFixed(p.rest, 32)
      t == ReadLE(m.rest, 4)  b == ReadLE(t.rest, 4)     n == ReadLE(b.rest, 4) IN
  IF a.ok /\ p.ok /\ m.ok /\ t.ok /\ b.ok /\ n.ok
  THEN Ok([version |-> a.v, prev |-> p.v, merkle |-> m.v, time |-> t.v, bits |-> b.v, nonce |-> n.v], n.rest)
  ELSE Bad

ReadPort(s) == LET r == ReadFixed(s, 2) IN
               IF r.ok THEN LET e == Expand(r.v) IN Ok(e[1] * 256 + e[2], r.rest) ELSE Bad

Read(l, s) ==
  CASE l = "L" -> ReadLE(s, 4)
    [] l = "Q" -> ReadLE(s, 8)
    [] l = "6" -> ReadLE(s, 6)
    [] l = "I" -> LET c == ReadCompactSize(s) IN IF c.ok THEN Ok(c.num, c.rest) ELSE Bad
    [] l = "1" -> ReadByte(s)
    [] l = "b" -> LET r == ReadByte(s) IN IF r.ok THEN Ok(r.v # 0, r.rest) ELSE Bad
    \* the optional flag is the last field: absent iff the payload ends here
    [] l = "O" -> IF s = <<>> THEN Ok(<<>>, <<>>)
                  ELSE LET r == ReadByte(s) IN Ok(<<r.v # 0>>, r.rest)
    [] l = "h" -> ReadPort(s)
    [] l = "S" -> LET r == ReadVarBytes(s) IN IF r.ok THEN Ok(r.v, r.rest) ELSE Bad
    [] l = "#" -> LET r == ReadFixed(s, 32) IN IF r.ok THEN Ok(r.v, r.rest) ELSE Bad
    [] l = "@" -> LET r == ReadFixed(s, 16) IN IF r.ok THEN Ok(r.v, r.rest) ELSE Bad
    [] l = "A" -> LET q == ReadLE(s, 8) a == ReadFixed(q.rest, 16) p == ReadPort(a.rest) IN
                  IF q.ok /\ a.ok /\ p.ok THEN Ok([services |-> q.v, ip |-> a.v, port |-> p.v], p.rest) ELSE Bad
    [] l = "v" -> LET t == ReadLE(s, 4) h == ReadFixed(t.rest, 32) IN
                  IF t.ok /\ h.ok THEN Ok([type |-> t.v, hash |-> h.v], h.rest) ELSE Bad
    [] l = "z" -> ReadHeader(s)

\* ---------------------------------------------------------------- types (what a field value must look like)
IsBytesN(v, n) == WellFormed(v) /\ Size(v) = n
IsHeader(v) == /\ IsNum(v.version, 2) /\ IsNum(v.time, 2) /\ IsNum(v.bits, 2) /\ IsNum(v.nonce, 2)
               /\ IsBytesN(v.prev, 32) /\ IsBytesN(v.merkle, 32)
IsVal(l, v) ==
  CASE l = "L" -> IsNum(v, 2) [] l = "Q" -> IsNum(v, 4) [] l = "6" -> IsNum(v, 3) [] l = "I" -> IsNum(v, 4)
    [] l = "1" -> v \in Byte [] l = "b" -> v \in BOOLEAN
    [] l = "O" -> v = <<>> \/ (Len(v) = 1 /\ v[1] \in BOOLEAN)
    [] l = "h" -> v \in 0..65535 [] l = "S" -> WellFormed(v)
    [] l = "#" -> IsBytesN(v, 32) [] l = "@" -> IsBytesN(v, 16)
    [] l = "A" -> IsNum(v.services, 4) /\ IsBytesN(v.ip, 16) /\ v.port \in 0..65535
    [] l = "v" -> IsNum(v.type, 2) /\ IsBytesN(v.hash, 32)
    [] l = "z" -> IsHeader(v)
    [] l = "T" -> IF IsRaw(v) THEN WellFormed(v.raw) ELSE IsTx(v) /\ Len(v.ins) >= 1
    [] l = "B" -> IF IsRaw(v) THEN WellFormed(v.raw)
                  ELSE IsHeader(v.header) /\ \A i \in 1..Len(v.txs) : IsTx(v.txs[i])
IsElem(of, e) == IF Len(of) = 1 THEN IsVal(of[1], e) ELSE Len(e) = Len(of) /\ \A k \in 1..Len(of) : IsVal(of[k], e[k])
IsField(ty, v) == IF ty.arr THEN \A j \in 1..Len(v) : IsElem(ty.of, v[j]) ELSE IsVal(ty.of[1], v)
IsMsg(m, f) == Len(f) = NFields(m) /\ \A i \in 1..NFields(m) : IsField(Layout(m)[i].ty, f[i])

\* ---------------------------------------------------------------- export (text for the harness)
TypeText(ty) == LET body == FoldLeft(LAMBDA a, b : a \o b, "", ty.of) IN IF ty.arr THEN "[" \o body \o "]" ELSE body
ShowHeader(h) == [version |-> h.version, prev |-> Show(h.prev), merkle |-> Show(h.merkle),
                  time |-> h.time, bits |-> h.bits, nonce |-> h.nonce]
ShowIn(x)  == [hash |-> Show(x.hash), index |-> x.index, script |-> Show(x.script), seq |-> x.seq,
               wit |-> [k \in 1..Len(x.wit) |-> Show(x.wit[k])]]
ShowOut(o) == [amount |-> o.amount, script |-> Show(o.script)]
ShowTx(t)  == IF IsRaw(t) THEN [raw |-> Show(t.raw)]
              ELSE [version |-> t.version, lock |-> t.lock,
                    ins |-> [i \in 1..Len(t.ins) |-> ShowIn(t.ins[i])],
                    outs |-> [j \in 1..Len(t.outs) |-> ShowOut(t.outs[j])]]
ShowVal(l, v) ==
  CASE l \in {"L", "Q", "6", "I", "1", "b", "O", "h"} -> v
    [] l \in {"S", "#", "@"} -> Show(v)
    [] l = "A" -> [services |-> v.services, ip |-> Show(v.ip), port |-> v.port,
                   v4 |-> IsV4(v.ip), octets |-> IF IsV4(v.ip) THEN V4Octets(v.ip) ELSE <<>>]
    [] l = "v" -> [type |-> v.type, hash |-> Show(v.hash)]
    [] l = "z" -> ShowHeader(v)
    [] l = "T" -> ShowTx(v)
    [] l = "B" -> IF IsRaw(v) THEN [raw |-> Show(v.raw)]
                  ELSE [header |-> ShowHeader(v.header), txs |-> [i \in 1..Len(v.txs) |-> ShowTx(v.txs[i])]]
ShowElem(of, e) == IF Len(of) = 1 THEN ShowVal(of[1], e) ELSE [k \in 1..Len(of) |-> ShowVal(of[k], e[k])]
ShowField(ty, v) == IF ty.arr THEN [j \in 1..Len(v) |-> ShowElem(ty.of, v[j])] ELSE ShowVal(ty.of[1], v)
ShowFields(m, f) == [i \in 1..NFields(m) |-> [n |-> Layout(m)[i].name, t |-> TypeText(Layout(m)[i].ty),
                                              v |-> ShowField(Layout(m)[i].ty, f[i])]]
=============================================================================
