CONSTANTS Configs <- ConfigsBig  Pool <- PoolSmall  MaxAdds = 4
SPECIFICATION Spec
INVARIANTS BTypeOK NoFalseNegative Exact AtMost Layout SparseOK PeerMatches
PROPERTY Monotone
CHECK_DEADLOCK FALSE
