--------------------------- MODULE Trace_Spendable ---------------------------
(* Code -> spec binding for C07 (spendables).  A trace is one pycoin           *)
(* Spendable and the codec calls made on it, each logged with its result:      *)
(*   as_text -> characters            from_text(characters) -> fields          *)
(*   as_dict -> dictionary            from_dict(dictionary) -> fields          *)
(*   as_bin / as_bin_spendable -> bytes      from_bin(bytes) -> fields         *)
(* (strings as ASCII codes, bytes as runs, integers as limbs; a call that      *)
(* raised is logged with raised = TRUE, which no step of the spec allows).     *)
(* TLC accepts a trace iff every logged result is the one Spendable.tla gives. *)
EXTENDS Spendable, Json, IOUtils

Traces == JsonDeserialize(IOEnv.TRACE_FILE)
VARIABLES tid, l
tvars == <<tid, l>>
S == Traces[tid].s
Ev == Traces[tid].ev

TInit == tid \in 1..Len(Traces) /\ l = 1

\* the dictionary as logged: numbers as limbs (trimmed), strings as characters
Pad4(n) == [i \in 1..4 |-> IF i <= Len(n) THEN n[i] ELSE 0]
DictOk(d, s) ==
  /\ DOMAIN d = {"coin_value", "script_hex", "tx_hash_hex", "tx_out_index", "block_index_available",
                 "does_seem_spent", "block_index_spent"}
  /\ NumEq(d.coin_value, s.amount) /\ d.script_hex = HexChars(s.script)
  /\ d.tx_hash_hex = HexChars(Reverse8(s.hash)) /\ NumEq(d.tx_out_index, s.index)
  /\ NumEq(d.block_index_available, s.bia) /\ NumEq(d.does_seem_spent, <<Bit(s.spent)>>)
  /\ NumEq(d.block_index_spent, s.bis)
FromDictOk(d, r) ==
  /\ IsHexField(d.script_hex) /\ IsHexField(d.tx_hash_hex)
  /\ r = [amount |-> Pad4(d.coin_value), script |-> UnHex(d.script_hex), hash |-> Reverse8(UnHex(d.tx_hash_hex)),
          index |-> SubSeq(Pad4(d.tx_out_index), 1, 2), bia |-> Pad4(d.block_index_available),
          spent |-> ~IsZero(d.does_seem_spent), bis |-> Pad4(d.block_index_spent)]

Matches(e) ==
  CASE e.call = "as_text"   -> e.result = TextChars(S)
    [] e.call = "from_text" -> LET r == ParseTextChars(e.arg) IN r.ok /\ r.s = e.result
    [] e.call = "as_dict"   -> DictOk(e.result, S)
    [] e.call = "from_dict" -> FromDictOk(e.arg, e.result)
    [] e.call = "as_bin"    -> e.result = OutPart(S)
    [] e.call = "as_bin_spendable" -> e.result = BinForm(S)
    [] e.call = "from_bin"  -> LET r == ParseBin(e.arg) IN r.ok /\ r.s = e.result /\ r.rest = <<>>

TNext == /\ l <= Len(Ev)
         /\ IsSpendable(S)
         /\ ~Ev[l].raised
         /\ Matches(Ev[l])
         /\ l' = l + 1 /\ UNCHANGED tid
         /\ PrintT(ToJson([k |-> "prog", tid |-> tid, l |-> l, done |-> (l = Len(Ev))]))
TSpec == TInit /\ [][TNext]_tvars
Post == PrintT(ToJson([k |-> "loaded", n |-> Len(Traces), states |-> TLCGet("distinct")]))
=============================================================================
