CONSTANTS P = 23  A = 1  B = 19  Gx = 2  Gy = 11  N = 19
          DS = {1, 2, 3, 8, 9, 10, 16, 17, 18}  KS = {1, 2, 3, 4, 5, 6, 7, 8, 9, 10, 11, 12, 13, 14, 15, 16, 17, 18}
          Z1 = {1, 2, 3, 4, 5, 6, 7, 8, 9, 10, 11, 12, 13, 14, 15, 16, 17, 18, 19}
          Z2 = {1, 2, 3, 4, 5, 6, 7, 8, 9, 10, 11, 12, 13, 14, 15, 16, 17, 18, 19}  D2 = {1, 9, 18}
          OS1 = {1, 18}  DeepD = {1, 18}  M = 24  Dealers = 64
SPECIFICATION Spec
INVARIANTS LemmasHold TablesOk
CHECK_DEADLOCK FALSE
