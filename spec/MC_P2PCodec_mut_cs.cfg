CONSTANTS Tier = "q"  Emit = FALSE
CONSTANT CompactSizeNum <- CSNumMut
SPECIFICATION Spec
INVARIANT RoundTrip Widths Typed Truncated ByteOrder
CHECK_DEADLOCK FALSE
