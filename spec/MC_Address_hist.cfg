CONSTANTS Table = "real"  Mode = "hist"  Fill = 17
SPECIFICATION Spec
CHECK_DEADLOCK FALSE
