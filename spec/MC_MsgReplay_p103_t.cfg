CONSTANTS P = 103  A = 0  B = 5  Gx = 2  Gy = 42  N = 97  WithText = TRUE
CONSTANTS DSet <- DAll  ESet <- ETwo  KSet <- KAll  HSet <- HSix  RSet <- RAll  SSet <- SFew  ERSet <- ETwo
SPECIFICATION Spec
CHECK_DEADLOCK FALSE
