--------------------------- MODULE X05_MC_CrackProd ---------------------------
(* X05 on the production curve, where TLC cannot compute the group.           *)
(*                                                                            *)
(* (1) ECDSA: TLC enumerates CASES over named residues (classes of keys,      *)
(*     nonces and digests, digests also lifted by the group order) and prints *)
(*     for each the class outcome of X05_Crack.tla Part 2 (ClassOutcome,      *)
(*     proved to agree with the computed outcome on every toy case by         *)
(*     X05_MC_Crack).  The harness concretises the names on secp256k1; the    *)
(*     expected nonce / key of a case are the case's own k and d.             *)
(* (2) BIP32: TLC walks every index path (as MC_BIP32 does), checks on the    *)
(*     terms of BIP32.tla that the ascent inverts CKDpriv - as a node, hence  *)
(*     as text - from every node and along every suffix of every path, that   *)
(*     hardened steps and strangers are refused, and prints the nodes (in     *)
(*     MC_BIP32's compact format, finished by C09's evaluator) together with  *)
(*     the ascent / crack requests and their demanded answers BY NAME (paths).*)
(* The curve constants of EC.tla are set to the smallest toy curve; nothing   *)
(* here uses them.                                                            *)
EXTENDS X05_Crack, Json

CONSTANTS DC, KC,          \* names of key / nonce residues
          Z1C, Z2C,        \* names of digest residues for the first / second signature
          Values, MaxDepth, SeedLen

VARIABLES mode, path, nd
vars == <<mode, path, nd>>

(* ------------------------------------------------------------ (1) ECDSA cases *)
Lifts01 == {0, 1}
\* a digest: residue name + multiple of the order added ("0" only lifted: the library refuses the digest 0)
ZV(names) == {[res |-> rr, lift |-> ll] : rr \in names, ll \in Lifts01} \ {[res |-> "0", lift |-> 0]}
\* the names come in pairs of negatives: another NONCE must not be the negative of the first (that is the low-s case: same r)
NegOf(nm) == CASE nm = "1" -> "n-1" [] nm = "n-1" -> "1" [] nm = "2" -> "n-2" [] nm = "n-2" -> "2"
               [] nm = "h" -> "h+1" [] nm = "h+1" -> "h" [] OTHER -> "none"
Other(nm, names) == CHOOSE o \in names : o # nm /\ o # NegOf(nm)
SigCases(d, k) ==
  {[second |-> "same", d |-> d, kk |-> k, z1 |-> z1, z2 |-> z2, e1 |-> ee[1], e2 |-> ee[2],
    out |-> ClassOutcome([second |-> "same", zsame |-> z1.res = z2.res, e1 |-> ee[1], e2 |-> ee[2]])] :
      z1 \in ZV(Z1C), z2 \in ZV(Z2C), ee \in Sgn \X Sgn}
  \cup
  {[second |-> sec, d |-> d, kk |-> k, z1 |-> z1, z2 |-> z2, e1 |-> 1, e2 |-> e2,
    d2 |-> Other(d, DC), k2 |-> Other(k, KC),
    out |-> ClassOutcome([second |-> sec, zsame |-> z1.res = z2.res, e1 |-> 1, e2 |-> e2])] :
      sec \in {"otherkey", "othernonce", "copy"}, z1 \in ZV(Z1C), z2 \in {zz \in ZV(Z2C) : zz.lift = 0}, e2 \in Sgn}
\* one signature, nonce known: the answer is the key - also for a lifted digest, and for the normalised signature with ITS nonce;
\* r = 0 (mod n) says nothing about the key
FromKCases(d, k) ==
  {[d |-> d, kk |-> k, z |-> z, e |-> e, rform |-> rf,
    out |-> IF rf = "r" THEN "key" ELSE IF rf = "r+n" THEN "key-or-refuse" ELSE "refuse"] :
      z \in ZV(Z1C), e \in Sgn, rf \in {"r", "r+n", "0", "n"}}

(* ------------------------------------------------------------ (2) BIP32 *)
Seed == T!Sym("seed", SeedLen)
Root == T!Master(Seed)
Indices == {T!Idx(h, v) : h \in BOOLEAN, v \in Values}
AnyH(p) == \E i \in 1..Len(p) : p[i].h
NamePrv(p) == <<"prv", p>>
NamePub(p) == <<"pub", p>>
Prefixes(p) == {SubSeq(p, 1, n) : n \in 0..Len(p)}
Suffix(p, n) == SubSeq(p, n + 1, Len(p))
Parent == T!PrivPath(Root, FrontOf(path))

Init == \/ mode = "bip" /\ path = <<>> /\ nd = Root
        \/ mode = "sig" /\ path = <<>> /\ nd \in DC \X KC
Step == /\ mode = "bip" /\ Len(path) < MaxDepth
        /\ \E ix \in Indices : path' = Append(path, ix) /\ nd' = T!CKDpriv(nd, ix)
        /\ UNCHANGED mode
SigPrint == /\ mode = "sig" /\ path = <<>> /\ path' = <<T!Idx(FALSE, 0)>> /\ UNCHANGED <<mode, nd>>
            /\ PrintT(ToJson([k |-> "sigcases", d |-> nd[1], kk |-> nd[2],
                              cases |-> SigCases(nd[1], nd[2]), fromk |-> FromKCases(nd[1], nd[2])]))
Next == Step \/ SigPrint
Spec == Init /\ [][Next]_vars

\* ---- lemmas on the terms, at every node of the walk
AscentLemmas == mode = "bip" =>
  /\ \A ix \in Indices : AscendInverts(nd, ix)
  /\ nd = T!PrivPath(Root, path)
  \* from every ancestor, along the rest of the path: the whole ancestor comes back - or a hardened step forbids it
  /\ \A n \in 0..Len(path) : CrackInverts(T!PrivPath(Root, SubSeq(path, 1, n)), Suffix(path, n))
  \* what is not the child at that index is refused: the node's own key, its parent's, a sibling's, the child at another index
  /\ \A ix \in {i \in Indices : ~i.h} :
        /\ Ascend(T!Neuter(nd), nd.key, ix) = T!Refused
        /\ \A jx \in Indices \ {ix} : AscendRefusesStranger(nd, nd, ix, jx)
        /\ path # <<>> => /\ Ascend(T!Neuter(nd), Parent.key, ix) = T!Refused
                          /\ Ascend(T!Neuter(Parent), T!CKDpriv(nd, ix).key, ix) = T!Refused       \* a grandchild is not a child
  \* the key of this node offered to any of its ancestors (or to itself) under any index: refused, unless it is the parent and the index
  /\ \A q \in Prefixes(path), jx \in {i \in Indices : ~i.h} :
        (path = <<>> \/ q # FrontOf(path) \/ jx # path[Len(path)]) =>
           Ascend(T!Neuter(T!PrivPath(Root, q)), nd.key, jx) = T!Refused
  \* the recovered node has the parent's text (every family's version bytes wrap the same 74 bytes)
  /\ \A ix \in {i \in Indices : ~i.h} :
        T!Ser74(Ascend(T!Neuter(nd), T!CKDpriv(nd, ix).key, ix), TRUE) = T!Ser74(nd, TRUE)

\* deliberately wrong definitions (X05_MC_CrackProd_bad_*.cfg): the lemmas must notice
NoCancel(t) == t                                  \* a + nd - nd is not recognised as a
RootOnlyPubPath(xx, pp) == xx                     \* ascends several levels against the SAME public node

\* ---- export (bip): the nodes as MC_BIP32 prints them, and the requests by name
Emit ==
  mode = "bip" =>
  LET ix == path'[Len(path')]
      y == PubPath(T!Neuter(Root), path) IN       \* the public-only chain (Refused below a hardened step)
  PrintT(ToJson([k |-> "path", path |-> path',
                 prv |-> T!CKDpriv(T!Lift(NamePrv(path), nd), ix),
                 pub |-> IF AnyH(path') THEN [refused |-> TRUE] ELSE T!CKDpub(T!Lift(NamePub(path), y), ix),
                 pubrefused |-> AnyH(path'),
                 ser |-> [prv |-> T!Ser74(T!Lift(NamePrv(path'), nd'), TRUE),
                          pub |-> T!Ser74(T!Lift(NamePrv(path'), nd'), FALSE)],
                 \* ascend(public copy of the node at `path`, private key of the node at path', ix): the key at `path`, or refused
                 ascend |-> IF ix.h THEN "refuse" ELSE "parent",
                 \* crack(public copy of the node at prefix m - 1, private key at path', the suffix): that node, or refused
                 crack |-> [m \in 1..(Len(path') + 1) |-> IF AnyH(Suffix(path', m - 1)) THEN "refuse" ELSE "node"],
                 \* the same key offered under another index / to another node
                 strangers |-> {[pub |-> q, ix |-> jx] : q \in Prefixes(path'), jx \in {T!Idx(FALSE, v) : v \in Values}}
                                \ (IF ix.h THEN {} ELSE {[pub |-> path, ix |-> ix]})]))
EmitRoot == PrintT(ToJson([k |-> "root", prv |-> Root,
                           ser |-> [prv |-> T!Ser74(T!Lift(NamePrv(<<>>), Root), TRUE),
                                    pub |-> T!Ser74(T!Lift(NamePrv(<<>>), Root), FALSE)],
                           versions |-> {[net |-> nf[1], fam |-> nf[2],
                                          prv |-> T!Version(nf[1], nf[2], TRUE), pub |-> T!Version(nf[1], nf[2], FALSE)] :
                                           nf \in {<<"BTC", "bip32">>, <<"BTC", "bip49">>, <<"BTC", "bip84">>, <<"XTN", "bip32">>,
                                                   <<"LTC", "bip32">>, <<"DOGE", "bip32">>, <<"XTN", "bip84">>}}]))
InitE == Init /\ (mode = "bip" => EmitRoot)
SpecE == InitE /\ [][Next]_vars
=============================================================================
