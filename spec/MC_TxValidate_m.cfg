CONSTANTS MaxSteps = 3  MaxInserts = 1  Mode = "model"  Cases <- ModelCasesM
SPECIFICATION MSpec
INVARIANTS FreshlySignedValid ReportedIsCurrent UnknownNeverValid CommitmentTable
CHECK_DEADLOCK FALSE
