------------------------------ MODULE MC_Word32 ------------------------------
(* Lemmas that pin the 16-bit-limb arithmetic of Word32 to 32-bit machine     *)
(* arithmetic: ring laws, two's complement, the links between multiplication, *)
(* rotation and shift, byte order, and agreement with TLC's native integers   *)
(* wherever those do not overflow.  Checked on a grid of boundary words x     *)
(* boundary words x every rotation amount.                                    *)
EXTENDS Word32, TLC

VARIABLES a, b, s, picked
wvars == <<a, b, s, picked>>

Limbs == {0, 1, 2, 255, 256, 32767, 32768, 43690, 65534, 65535}
Extra == { W(57005, 48879), W(4660, 22136), W(64420, 51093), W(52382, 11601) }   \* deadbeef 12345678 fba4c795 cc9e2d51
Words == { W(hi, lo) : hi \in {0, 1, 32767, 32768, 65535}, lo \in {0, 1, 255, 32768, 65535} } \cup Extra
Smalls == {0, 1, 2, 3, 255, 256, 257, 4097, 32766, 32767}

Extra1 == W(40503, 31161)   \* 0x9e3779b9
\* one initial state per a; b and s are chosen in a step so that TLC's workers share the grid
Init == a \in Words /\ b = Zero32 /\ s = 0 /\ picked = FALSE
Next == ~picked /\ picked' = TRUE /\ b' \in Words /\ s' \in 0..31 /\ UNCHANGED a

Ones == W(65535, 65535)
One == W(0, 1)
Pow2Word(k) == IF k < 16 THEN W(0, 2^k) ELSE W(2^(k - 16), 0)
Shl(x, k) == Rol(WAnd(x, Shr(Ones, k)), k)

TypeOK == IsWord(Add(a, b)) /\ IsWord(Mul32(a, b)) /\ IsWord(Rol(a, s)) /\ IsWord(Shr(a, s)) /\ IsWord(WXor(a, b))
AddLaws == /\ Add(a, b) = Add(b, a)
           /\ Add(a, Zero32) = a
           /\ Add(Add(a, b), Extra1) = Add(a, Add(b, Extra1))
           /\ Add(a, WNot(a)) = Ones
           /\ Add3(a, WNot(a), One) = Zero32
MulLaws == /\ Mul32(a, b) = Mul32(b, a)
           /\ Mul32(a, One) = a /\ Mul32(a, Zero32) = Zero32
           /\ Mul32(a, Add(b, Extra1)) = Add(Mul32(a, b), Mul32(a, Extra1))
           /\ Mul32(Mul32(a, b), Extra1) = Mul32(a, Mul32(b, Extra1))
           /\ Mul32(a, W(0, 5)) = Add5(a, a, a, a, a)
           /\ Mul32(a, Ones) = Add(WNot(a), One)                        \* a * (-1) = -a
           /\ Mul32(a, Pow2Word(s)) = Shl(a, s)
RotLaws == /\ Rol(Rol(a, s), (32 - s) % 32) = a
           /\ Ror(Rol(a, s), s) = a
           /\ Rol(a, s) = WOr(Shl(a, s), IF s = 0 THEN Zero32 ELSE Shr(a, 32 - s))
           /\ Rol(WXor(a, b), s) = WXor(Rol(a, s), Rol(b, s))
           /\ Shr(Shl(Shr(a, s), s), s) = Shr(a, s)
BitLaws == /\ WXor(a, a) = Zero32 /\ WXor(a, Zero32) = a
           /\ WNot(WAnd(a, b)) = WOr(WNot(a), WNot(b))
           /\ WXor(a, b) = WAnd(WOr(a, b), WNot(WAnd(a, b)))
           /\ Add(a, b) = Add(WXor(a, b), Mul32(WAnd(a, b), W(0, 2)))   \* a + b = (a xor b) + 2 (a and b)
ByteLaws == /\ LET x == BytesLE(a) IN WordLE(x[1], x[2], x[3], x[4]) = a
            /\ LET x == BytesBE(a) IN WordBE(x[1], x[2], x[3], x[4]) = a
            /\ BytesBE(a) = [i \in 1..4 |-> BytesLE(a)[5 - i]]
            /\ LimbsToWord(WordToLimbs(a)) = a
            /\ LimbsToWord(WordToLimbs(a) \o <<b[1], b[2]>>) = a
\* agreement with native integers below the overflow limit
NativeConst == /\ \A x \in Smalls, y \in Smalls : NatOfWord(Mul32(WordOfNat(x), WordOfNat(y))) = x * y
               /\ \A x \in Smalls, y \in Smalls : NatOfWord(Add(WordOfNat(x * 32768 + y), WordOfNat(y * 32768 + x))) = 32769 * (x + y)
ASSUME NativeConst
Native == /\ a[1] < 32768 => /\ \A m \in {1, 2, 7, 8, 24, 160, 288000, 1000003} : ModWord(a, m) = NatOfWord(a) % m
                             /\ NatOfWord(Shr(a, s)) = (IF s < 31 THEN NatOfWord(a) \div 2^s ELSE 0)
          /\ a[1] = 0 /\ s < 15 => NatOfWord(Rol(a, s)) = a[2] * 2^s
          /\ \A x \in Smalls : LET w4 == Wide4MulSmall(<<a[2], a[1], b[2], b[1]>>, x)
                               IN  <<w4[2], w4[1]>> = Mul32(a, WordOfNat(x))
          /\ LET w4 == Wide4Add(<<a[2], a[1], 7, 9>>, <<b[2], b[1], 65535, 1>>) IN <<w4[2], w4[1]>> = Add(a, b)
=============================================================================
