CONSTANTS FULLGRID = TRUE  SIZES = {1, 2, 3, 4, 5, 6, 7, 8, 9, 10, 11, 12, 13, 15, 16, 17, 31, 32, 33, 64, 65}  BIG = {252, 253, 254, 300}  EMIT = TRUE
SPECIFICATION Spec
INVARIANTS HeaderImage BlockImage BlockHeadReadBack
CHECK_DEADLOCK FALSE
