CONSTANTS NIn = 2  NSrc = 2  MaxIdx = 2  MaxOuts = 2  Amt = {1, 2}  Scr = {1, 2}
SPECIFICATION MSpec
INVARIANTS MRetIffBacked RaiseHasReason MProgress
CHECK_DEADLOCK FALSE
