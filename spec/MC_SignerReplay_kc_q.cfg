CONSTANTS NK = 5  NM = 2  MaxPasses = 4  Mode = "kc"  PruneNoop = FALSE  WithPairs = FALSE
          Cases <- KcCasesQ  Shapes <- NoShapes  Coins <- AllCoins  HashTypes <- StdHashTypes
SPECIFICATION RSpec
CHECK_DEADLOCK FALSE
