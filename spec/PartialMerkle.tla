---------------------------- MODULE PartialMerkle ----------------------------
(* C14: BIP37 partial merkle trees ("merkleblock" proofs).                    *)
(*                                                                            *)
(* Transcribed from BIP37 section "Partial Merkle branch format" and its      *)
(* reference implementation, Bitcoin Core merkleblock.cpp                     *)
(* (CPartialMerkleTree::TraverseAndBuild / TraverseAndExtract /               *)
(* ExtractMatches), not from pycoin.                                          *)
(*                                                                            *)
(*   Build(lv, M)   the honest prover: depth-first traversal of the tree over *)
(*                  the leaves lv; for every node visited one FLAG BIT (is a  *)
(*                  matched leaf below / is this leaf matched); a node whose  *)
(*                  flag is 0, and every leaf, contributes its HASH.          *)
(*   Verify         the verifier, as a STATE MACHINE over a record vs: one    *)
(*                  step per node entered (Descend), one per node left        *)
(*                  (Ascend), and a last step with the end-of-proof checks    *)
(*                  (Finish).  Hashes are the terms of Merkle.tla; equality   *)
(*                  of the computed root with the header's is equality of     *)
(*                  terms.                                                    *)
(*                                                                            *)
(* Every way a proof can fail has a name (vs.fail is a SET: like Core's fBad, *)
(* a duplicate pair does not stop the traversal):                             *)
(*   no_tx          total_transactions = 0                       (Core)       *)
(*   no_bits        traversal needs a flag bit beyond the flag bytes (BIP37)  *)
(*   no_hashes      traversal needs a hash beyond the hash list  (BIP37)  [P] *)
(*   dup            a node's two children carry the same hash    (Core,       *)
(*                  the CVE-2012-2459 rule)                                   *)
(*   unused_bits    whole flag bytes were never read             (BIP37)      *)
(*   padding_bits   a bit after the last one read, in the last byte, is 1 [P] *)
(*   unused_hashes  hashes were left over                        (BIP37)  [P] *)
(*   root_mismatch  computed root # the header's merkle root     (BIP37)  [P] *)
(* [P] marks the failures property C14 lists ("a supplied hash altered,       *)
(* hashes added or removed, set padding bits remain, the computed root        *)
(* differs from the header's"): those MUST be rejected.  The others are       *)
(* rules of BIP37/Core the property is silent about (see Demand).  A leaf's   *)
(* flag bit is committed to by no hash, so flipping it is not a corruption    *)
(* anyone can detect; nothing here generates it.                              *)
EXTENDS Merkle, FiniteSets

\* ---------------------------------------------------------------- flag bits <-> flag bytes
\* bit k (k = 0, 1, ..) lives in byte k div 8 at weight 2^(k mod 8): least significant bit first
NBytes(nbits) == (nbits + 7) \div 8
PackBits(bits) ==
  [j \in 1..NBytes(Len(bits)) |->
     LET w(k) == IF 8 * (j - 1) + k + 1 <= Len(bits) /\ bits[8 * (j - 1) + k + 1] THEN Pow2(k) ELSE 0
     IN w(0) + w(1) + w(2) + w(3) + w(4) + w(5) + w(6) + w(7)]
BitAt(bytes, k) == (bytes[(k \div 8) + 1] \div Pow2(k % 8)) % 2 = 1
SetBit(bytes, k) == [bytes EXCEPT ![(k \div 8) + 1] = @ + (IF BitAt(bytes, k) THEN 0 ELSE Pow2(k % 8))]

\* ---------------------------------------------------------------- the honest prover
\* M: the set of matched leaf indices (1-based).  Result [bits |-> Seq(BOOLEAN), hashes |-> Seq(term)]
RECURSIVE BuildAt(_, _, _, _)
BuildAt(lv, M, h, pos) ==
  LET n == Len(lv)
      parentOfMatch == \E i \in CoverLo(h, pos)..CoverHi(n, h, pos) : i \in M
  IN IF h = 0 \/ ~parentOfMatch
     THEN [bits |-> <<parentOfMatch>>, hashes |-> <<NodeHash(lv, h, pos)>>]
     ELSE LET a == BuildAt(lv, M, h - 1, 2 * pos)
              b == IF HasRight(n, h, pos) THEN BuildAt(lv, M, h - 1, 2 * pos + 1)
                   ELSE [bits |-> <<>>, hashes |-> <<>>]
          IN [bits |-> <<TRUE>> \o a.bits \o b.bits, hashes |-> a.hashes \o b.hashes]
Build(lv, M) == BuildAt(lv, M, Height(Len(lv)), 0)

\* what a merkleblock message carries besides the header
Proof(lv, M) == LET p == Build(lv, M) IN [n |-> Len(lv), hashes |-> p.hashes, flags |-> PackBits(p.bits)]
\* the matched ids in block order
MatchedIds(lv, M) == LET idx == {i \in 1..Len(lv) : i \in M}
                         RECURSIVE Asc(_, _)
                         Asc(i, acc) == IF i > Len(lv) THEN acc ELSE Asc(i + 1, IF i \in M THEN Append(acc, lv[i]) ELSE acc)
                     IN Asc(1, <<>>)

\* ---------------------------------------------------------------- the verifier
NoTerm == [op |-> "none"]
Frame(h, pos) == [h |-> h, pos |-> pos, phase |-> "enter", left |-> NoTerm]

\* n: total_transactions; flags: flag bytes; hashes: terms; want: the header's merkle root
VInit(n, flags, hashes, want) ==
  [n |-> n, flags |-> flags, hashes |-> hashes, want |-> want,
   bitpos |-> 0, hpos |-> 0,
   stack |-> IF n = 0 THEN <<>> ELSE <<Frame(Height(n), 0)>>,
   ret |-> NoTerm, matched |-> <<>>, dup |-> FALSE,
   st |-> IF n = 0 THEN "reject" ELSE "run",
   fail |-> IF n = 0 THEN {"no_tx"} ELSE {}]

Running(vs) == vs.st = "run"
Top(vs) == vs.stack[Len(vs.stack)]
Pop(s) == SubSeq(s, 1, Len(s) - 1)
CanDescend(vs) == Running(vs) /\ vs.ret = NoTerm /\ vs.stack # <<>> /\ Top(vs).phase = "enter"
CanAscend(vs)  == Running(vs) /\ vs.ret # NoTerm /\ vs.stack # <<>>
CanFinish(vs)  == Running(vs) /\ vs.ret # NoTerm /\ vs.stack = <<>>

Abort(vs, why) == [vs EXCEPT !.st = "reject", !.fail = {why}]

\* enter the node on top of the stack: read its flag bit; an unflagged node or a leaf takes the
\* next hash and returns it (a flagged leaf is a match); a flagged inner node opens its left child
DescendOf(vs) ==
  LET f == Top(vs) IN
  IF vs.bitpos >= 8 * Len(vs.flags) THEN Abort(vs, "no_bits")
  ELSE LET bit == BitAt(vs.flags, vs.bitpos)
           v1 == [vs EXCEPT !.bitpos = @ + 1]
       IN IF f.h = 0 \/ ~bit
          THEN IF vs.hpos >= Len(vs.hashes) THEN Abort(v1, "no_hashes")
               ELSE LET x == vs.hashes[vs.hpos + 1] IN
                    [v1 EXCEPT !.hpos = @ + 1, !.ret = x, !.stack = Pop(@),
                               !.matched = IF f.h = 0 /\ bit THEN Append(@, x) ELSE @]
          ELSE [v1 EXCEPT !.stack = Append([@ EXCEPT ![Len(@)].phase = "left"], Frame(f.h - 1, 2 * f.pos))]

\* a child returned vs.ret to the node on top of the stack
AscendOf(vs) ==
  LET f == Top(vs) IN
  IF f.phase = "left"
  THEN IF HasRight(vs.n, f.h, f.pos)
       THEN [vs EXCEPT !.ret = NoTerm,
                       !.stack = Append([@ EXCEPT ![Len(@)].phase = "right", ![Len(@)].left = vs.ret],
                                        Frame(f.h - 1, 2 * f.pos + 1))]
       ELSE [vs EXCEPT !.ret = Node(vs.ret, vs.ret), !.stack = Pop(@)]      \* no right child: paired with itself
  ELSE \* "right": both children known; identical children can only come from a forged proof
       [vs EXCEPT !.ret = Node(f.left, vs.ret), !.stack = Pop(@), !.dup = @ \/ (f.left = vs.ret)]

\* the traversal is over: vs.ret is the computed root
PaddingSet(vs) == \E k \in vs.bitpos..(8 * Len(vs.flags) - 1) : k \div 8 = (vs.bitpos - 1) \div 8 /\ BitAt(vs.flags, k)
Failures(vs) ==
     (IF vs.dup THEN {"dup"} ELSE {})
  \cup (IF NBytes(vs.bitpos) # Len(vs.flags) THEN {"unused_bits"} ELSE {})
  \cup (IF PaddingSet(vs) THEN {"padding_bits"} ELSE {})
  \cup (IF vs.hpos # Len(vs.hashes) THEN {"unused_hashes"} ELSE {})
  \cup (IF vs.ret # vs.want THEN {"root_mismatch"} ELSE {})
FinishOf(vs) == LET F == Failures(vs) IN [vs EXCEPT !.fail = F, !.st = IF F = {} THEN "accept" ELSE "reject"]

VStep(vs) == IF CanDescend(vs) THEN DescendOf(vs)
             ELSE IF CanAscend(vs) THEN AscendOf(vs)
             ELSE IF CanFinish(vs) THEN FinishOf(vs) ELSE vs
Done(vs) == ~Running(vs)

\* ---------------------------------------------------------------- what property C14 demands of an implementation
Listed == {"no_hashes", "padding_bits", "unused_hashes", "root_mismatch"}
\* is the proof exactly what the honest prover sends for the leaves lv and the match set it yields?
Honest(vs, lv) ==
  /\ vs.n = Len(lv) /\ vs.want = Root(lv)
  /\ LET M == {i \in 1..Len(lv) : \E j \in 1..Len(vs.matched) : vs.matched[j] = lv[i]}
         p == Proof(lv, M)
     IN p.hashes = vs.hashes /\ p.flags = vs.flags
\*   "accept"  must be accepted and yield exactly vs.matched
\*   "reject"  must be rejected
\*   "free"    the property does not say (BIP37/Core's verdict is vs.st)
Demand(vs, lv) == IF vs.fail \cap Listed # {} THEN "reject"
                  ELSE IF vs.st = "accept" /\ Honest(vs, lv) THEN "accept"
                  ELSE "free"
=============================================================================
