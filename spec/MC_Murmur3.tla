----------------------------- MODULE MC_Murmur3 -----------------------------
(* Lemmas on the word arithmetic and spec -> code export for MurmurHash3:     *)
(* TLC evaluates Murmur3 on a grid (every tail length, several blocks, fills, *)
(* 32-bit and wider seeds, the unreduced BIP37 seeds i*0xFBA4C795+tweak) and  *)
(* on the well-known test vectors, and prints data, seed and hash.            *)
EXTENDS Murmur3, Json, TLC

CONSTANTS Lens, Fills
VARIABLES len, data, seed, picked
mvars == <<len, data, seed, picked>>

Fill(f, n) == CASE f = "zero" -> [i \in 1..n |-> 0]
                [] f = "ones" -> [i \in 1..n |-> 255]
                [] f = "ramp" -> [i \in 1..n |-> (17 * i + 16) % 256]        \* 0x21, 0x32, 0x43 ...
                [] f = "high" -> [i \in 1..n |-> 128 + ((i * i + 3 * i) % 128)]  \* top bit set everywhere
                [] f = "mix"  -> [i \in 1..n |-> (7 * i * i + 31 * i + n) % 256]

BloomKWide == << 51093, 64420, 0, 0 >>                                  \* 0xFBA4C795
\* the seed BIP37 forms for hash function i with a given tweak, NOT reduced (as a Python
\* caller computes it with unbounded integers)
WideSeed(i, tw) == Wide4Add(Wide4MulSmall(BloomKWide, i), Wide4(tw))
Tweaks == { <<0>>, <<127>>, <<1, 32768>>, <<65535, 65535>> }            \* 0, 127, 0x80000001, 0xFFFFFFFF
Seeds == { <<0>>, <<1>>, <<0, 32768>>, <<65535, 65535>>,                \* 0, 1, 2^31, 2^32-1
           <<5, 0, 1>>, <<65535, 65535, 65535, 65535>>,                 \* 2^32+5, 2^64-1
           <<60910, 20610>> }                                           \* 0x5082EDEE
         \cup { WideSeed(i, tw) : i \in {1, 2, 49}, tw \in Tweaks }
SeedsAll == Seeds \cup { WideSeed(i, tw) : i \in 0..50, tw \in Tweaks }

\* well-known vectors (stackoverflow 14747343; also in pycoin's tests): <<data, seed>>
VecCases == { << << >>, <<0>> >>, << << >>, <<1>> >>, << << >>, <<65535, 65535>> >>,
              << <<255, 255, 255, 255>>, <<0>> >>, << <<33, 67, 101, 135>>, <<0>> >>,
              << <<33, 67, 101, 135>>, <<60910, 20610>> >>, << <<33, 67, 101>>, <<0>> >>,
              << <<33, 67>>, <<0>> >>, << <<33>>, <<0>> >>, << <<0, 0, 0, 0>>, <<0>> >>,
              << <<0, 0, 0>>, <<0>> >>, << <<0, 0>>, <<0>> >>, << <<0>>, <<0>> >> }
\* more published vectors (SMHasher-derived test suites of several murmur3 libraries):
\*   'Hello, world!' seed 0x4d2
\*   'Hello, world!' seed 0x9747b28c
\*   'The quick brown fox jumps over the lazy dog' seed 0x9747b28c
\*   'The quick brown fox jumps over the lazy dog' seed 0x0
\*   'abcdbcdecdefdefgefghfghighijhijkijkljklmklmnlmnomnopnopq' seed 0x0
\*   'test' seed 0x9747b28c
\*   '' seed 0x9747b28c
\*   'aaa' seed 0x9747b28c
\*   'ab' seed 0x9747b28c
\*   'abc' seed 0x0
VecCases2 == {
              << << 72, 101, 108, 108, 111, 44, 32, 119, 111, 114, 108, 100, 33 >>, <<1234>> >>,
              << << 72, 101, 108, 108, 111, 44, 32, 119, 111, 114, 108, 100, 33 >>, <<45708, 38727>> >>,
              << << 84, 104, 101, 32, 113, 117, 105, 99, 107, 32, 98, 114, 111, 119, 110, 32, 102, 111, 120, 32, 106, 117, 109, 112, 115, 32, 111, 118, 101, 114, 32, 116, 104, 101, 32, 108, 97, 122, 121, 32, 100, 111, 103 >>, <<45708, 38727>> >>,
              << << 84, 104, 101, 32, 113, 117, 105, 99, 107, 32, 98, 114, 111, 119, 110, 32, 102, 111, 120, 32, 106, 117, 109, 112, 115, 32, 111, 118, 101, 114, 32, 116, 104, 101, 32, 108, 97, 122, 121, 32, 100, 111, 103 >>, <<0>> >>,
              << << 97, 98, 99, 100, 98, 99, 100, 101, 99, 100, 101, 102, 100, 101, 102, 103, 101, 102, 103, 104, 102, 103, 104, 105, 103, 104, 105, 106, 104, 105, 106, 107, 105, 106, 107, 108, 106, 107, 108, 109, 107, 108, 109, 110, 108, 109, 110, 111, 109, 110, 111, 112, 110, 111, 112, 113 >>, <<0>> >>,
              << << 116, 101, 115, 116 >>, <<45708, 38727>> >>,
              << <<  >>, <<45708, 38727>> >>,
              << << 97, 97, 97 >>, <<45708, 38727>> >>,
              << << 97, 98 >>, <<45708, 38727>> >>,
              << << 97, 98, 99 >>, <<0>> >> }

CONSTANT SeedSet
\* One initial state per length (and one for the vectors); the case is chosen, evaluated and
\* printed in a single step, so that the work is spread over TLC's workers.
VecLen == 0 - 1
Init == /\ len \in Lens \cup {VecLen} /\ data = << >> /\ seed = << 0 >> /\ picked = FALSE
Export == PrintT(ToJson([k |-> "mm3", data |-> data', seed |-> seed', h |-> Murmur3(data', seed')]))
Pick == /\ ~picked /\ picked' = TRUE /\ UNCHANGED len
        /\ IF len = VecLen
           THEN \E v \in VecCases \cup VecCases2 : data' = v[1] /\ seed' = v[2]
           ELSE \E f \in Fills, s \in SeedSet : data' = Fill(f, len) /\ seed' = s
        /\ Export
Next == Pick

Lens20 == 0..20
Lens70 == 0..70

(* ---- lemmas --------------------------------------------------------------------------*)
\* reducing the unbounded BIP37 seed modulo 2^32 is the uint32 computation of the reference
\* client: (i * 0xFBA4C795 + tweak) mod 2^32 = (i *32 0xFBA4C795) +32 (tweak mod 2^32)
BloomKW == W(64420, 51093)
SeedLemma == \A i \in 0..60, tw \in Tweaks \cup {<<5, 0, 1>>, <<7, 9, 11, 13>>} :
               LimbsToWord(WideSeed(i, tw)) = Add(Mul32(WordOfNat(i), BloomKW), LimbsToWord(tw))
\* the hash depends on the seed only modulo 2^32
SeedReduced == picked => Murmur3(data, seed) = Murmur3(data, WordToLimbs(LimbsToWord(seed)) \o <<1234, 77>>)
\* result is a word
ResultOK == picked => IsWord(Murmur3(data, seed))
ASSUME SeedLemma
=============================================================================
