--------------------------- MODULE MC_MsgNetReplay ---------------------------
(* Spec -> code binding for C17 on the real networks (secp256k1).  256-bit    *)
(* arithmetic cannot happen inside TLC (limitation L1), so signatures are     *)
(* ABSTRACT here: a signature is the record of who signed which digest in     *)
(* which key form; recovering it under the same digest gives the signer,      *)
(* under any other digest a key outside the universe (the ideal-signature     *)
(* assumption; MC_MsgSign proves the same statement on the toy curves, where  *)
(* "other digest" means another class modulo N).  What remains concrete is    *)
(* the digest RULE: DigestTerm(network name, message) with the magic          *)
(* "<name> Signed Message:\n", and the armoured text.                         *)
(*                                                                            *)
(* The networks come from the harness (pycoin.networks.registry: symbol and   *)
(* network_name as bytes) through the JSON file named by C17_NETS.  TLC       *)
(* prints: "msg" the messages, "dig" the digest term of every (magic,         *)
(* message), "case" every signing case with the verdict the spec demands for  *)
(* each cross probe (other key / form / message / network), and "arm" the     *)
(* armoured text of messages with its parse.                                  *)
EXTENDS MsgText, Json, IOUtils

CONSTANTS NK,          \* number of abstract keys (the harness maps them to secret exponents)
          Full         \* TRUE: full cross product; FALSE: the quick selection
Nets == JsonDeserialize(IOEnv.C17_NETS).nets            \* << [sym |-> "BTC", name |-> <<66, ...>>], ... >>
NN == Len(Nets)
Name(i) == Nets[i].name

T(s) == RunText(s)
Msgs == << <<>>,                                                    \* 1 empty
           T(<<97>>),                                               \* 2 "a"
           T(<<108,49,10,108,50,10,10,108,52>>),                    \* 3 LF multi-line with an empty line
           T(<<97,13,10,98,13,10>>),                                \* 4 CR LF, trailing break
           T(<<233,8364,128512,8232,98>>),                          \* 5 2-, 3-, 4-byte UTF-8 and U+2028
           T(<<32,97,32>>),                                         \* 6 blanks around
           T(<<10>>),                                               \* 7 a lone line feed
           T(<<0,97>>),                                             \* 8 NUL inside
           <<<<97, 252>>>>, <<<<97, 253>>>>,                        \* 9, 10 compact-size boundary 252 / 253 bytes
           <<<<8364, 85>>>>,                                        \* 11 255 bytes from 85 characters
           <<<<98, 1>>, <<97, 65534>>>>, <<<<97, 65536>>>>,         \* 12, 13 boundary 65535 / 65536 bytes
           T(<<97,10>>) >>                                          \* 14 trailing line feed
NM == Len(Msgs)
\* run texts are canonical (adjacent runs differ), so equal messages are equal values
ASSUME \A m \in 1..NM : \A i \in 1..(Len(Msgs[m]) - 1) : Msgs[m][i][1] # Msgs[m][i + 1][1]
ASSUME \A m1 \in 1..NM, m2 \in 1..NM : m1 # m2 => Msgs[m1] # Msgs[m2]

(* ---------------------------------------------------------- abstract scheme *)
Digest(i, m) == DigestTerm(Name(i), Msgs[m])
Sig(i, key, comp, m) == [signer |-> key, comp |-> comp, dig |-> Digest(i, m)]
\* 0: a key outside 1..NK
RecoverAbs(sig, dig) == IF dig = sig.dig THEN sig.signer ELSE 0
VerifyAbs(kd, key, comp, sig, dig) == RecoverAbs(sig, dig) = key /\ (kd = "addr" => comp = sig.comp)
\* lemma: verification accepts exactly (signer [and form], message, network magic)
ASSUME ExactlyOne ==
  \A i \in 1..NN, j \in 1..NN, m1 \in 1..NM, m2 \in 1..NM :
     (Digest(i, m1) = Digest(j, m2)) <=> (Name(i) = Name(j) /\ m1 = m2)

(* ------------------------------------------------------------------- cases *)
VARIABLES kind, a, b, c, d, ph
vars == <<kind, a, b, c, d, ph>>

NextKey(k) == IF k = NK THEN 1 ELSE k + 1
NextMsg(m) == IF m = NM THEN 1 ELSE m + 1
\* the next network (cyclically) whose name differs / equals
Cyc(i, n) == ((i + n - 1) % NN) + 1
OtherNet(i) == Cyc(i, CHOOSE n \in 1..NN : Name(Cyc(i, n)) # Name(i) /\ \A n2 \in 1..(n - 1) : Name(Cyc(i, n2)) = Name(i))
HasAlias(i) == \E j \in 1..NN : j # i /\ Name(j) = Name(i)
AliasNet(i) == CHOOSE j \in 1..NN : j # i /\ Name(j) = Name(i)

Probe(sig, j, kd, key, comp, m) == [net |-> j, kd |-> kd, key |-> key, comp |-> comp, msg |-> m,
                                   exp |-> VerifyAbs(kd, key, comp, sig, Digest(j, m))]
Probes(i, key, comp, m) ==
  LET sig == Sig(i, key, comp, m) IN
  << Probe(sig, i, "key", key, comp, m), Probe(sig, i, "key", key, ~comp, m), Probe(sig, i, "addr", key, comp, m),
     Probe(sig, i, "addr", key, ~comp, m),
     Probe(sig, i, "key", NextKey(key), comp, m), Probe(sig, i, "addr", NextKey(key), comp, m),
     Probe(sig, i, "key", key, comp, NextMsg(m)), Probe(sig, i, "addr", key, comp, NextMsg(m)),
     Probe(sig, OtherNet(i), "key", key, comp, m), Probe(sig, OtherNet(i), "addr", key, comp, m) >>
  \o (IF HasAlias(i) THEN << Probe(sig, AliasNet(i), "key", key, comp, m), Probe(sig, AliasNet(i), "addr", key, comp, m) >> ELSE <<>>)

IsBTC(i) == Nets[i].sym = "BTC"
CaseSel(i, key, m) == Full \/ IsBTC(i) \/ (key = 1 /\ m \in {2, 5})
CInit == kind = "case" /\ a \in 1..NN /\ b \in 1..NK /\ c \in BOOLEAN /\ d \in 1..NM /\ CaseSel(a, b, d) /\ ph = 0
CEmit == /\ kind = "case" /\ ph = 0
         /\ PrintT(ToJson([k |-> "case", net |-> a, key |-> b, comp |-> c, msg |-> d, probes |-> Probes(a, b, c, d)]))
         /\ ph' = 1 /\ UNCHANGED <<kind, a, b, c, d>>

\* one digest term per (distinct magic, message)
FirstOfName(i) == \A j \in 1..(i - 1) : Name(j) # Name(i)
DInit == kind = "dig" /\ a \in 1..NN /\ FirstOfName(a) /\ b \in 1..NM /\ c = FALSE /\ d = 0 /\ ph = 0
DEmit == /\ kind = "dig" /\ ph = 0
         /\ PrintT(ToJson([k |-> "dig", net |-> a, msg |-> b, term |-> Digest(a, b)]))
         /\ ph' = 1 /\ UNCHANGED <<kind, a, b, c, d>>

MInit == kind = "msg" /\ a \in 1..NM /\ b = 0 /\ c = FALSE /\ d = 0 /\ ph = 0
MEmit == /\ kind = "msg" /\ ph = 0
         /\ PrintT(ToJson([k |-> "msg", msg |-> a, runs |-> Msgs[a], bytes |-> RunBytes(Msgs[a]), chars |-> RunChars(Msgs[a])]))
         /\ ph' = 1 /\ UNCHANGED <<kind, a, b, c, d>>

(* ------------------------------------------------------------------ armour *)
\* messages: up to ALines lines from ALineSet, joined by LF or CR LF; address and signature are the
\* placeholders <<-1>> and <<-2>> which the harness replaces by what pycoin produced
ALineSet == { <<>>, <<97>>, <<32, 98, 32>>, <<233, 8364, 128512>>, <<8232, 133>>, <<65,100,100,114,101,115,115, 58, 32, 120>>,
              D5 \o TBegin \o <<SP>> \o TSignature \o <<45,45,45,45>>,
              HeaderLine(<<66,73,84,67,79,73,78>>), FooterLine(<<66,73,84,67,79,73,78>>) }
ALines == IF Full THEN 3 ELSE 2
ANets == {i \in 1..NN : Nets[i].sym \in {"BTC", "XTN", "LTC", "DOGE"}}
AInit == kind = "arm" /\ a \in ANets /\ b \in UNION {[1..n -> ALineSet] : n \in 1..ALines} /\ c \in BOOLEAN /\ d = 0 /\ ph = 0
          /\ (Full \/ IsBTC(a) \/ Len(b) = 1)
ArmRecord(i, ls, dos) ==
  LET m == JoinLines(ls, IF dos THEN <<CR, LF>> ELSE <<LF>>)
      text == Format(UpperAscii(Name(i)), m, <<0 - 1>>, <<0 - 2>>)
  IN [k |-> "arm", net |-> i, msg |-> m, text |-> text, parsed |-> ParseSigned(text), indomain |-> MsgDomain(ls)]
AEmit == /\ kind = "arm" /\ ph = 0
         /\ PrintT(ToJson(ArmRecord(a, b, c)))
         /\ ph' = 1 /\ UNCHANGED <<kind, a, b, c, d>>

(* --------------------------------------------- signature classes on secp256k1 *)
\* The classes of MsgSign!RecoverFull / RecoverCompactV and of MsgSign!TextClass.  TLC cannot build their
\* members on a 256-bit curve; the harness concretizes one member per (class, header byte, message), checks
\* with its independent evaluator of Recover(e, r, s, recid) that the member belongs to the class, and runs
\* pycoin's verifier on it.  The verdict is the rule: only class "ok" has a key, every other class is FALSE.
SigClasses == << "ok", "hdr_range", "r_zero", "r_ge_n", "s_zero", "s_ge_n", "x_ge_p", "no_point", "q_inf",
                 "not_base64", "wrong_length" >>
ClassHeaders(cls) == IF cls = "hdr_range" THEN {0, 26, 35, 255}
                     ELSE IF cls = "x_ge_p" THEN {29, 30, 33, 34}            \* recovery ids 2, 3 only
                     ELSE IF cls \in {"not_base64", "wrong_length"} THEN {27}
                     ELSE 27..34
SInit == kind = "cls" /\ a \in 1..Len(SigClasses) /\ b \in ClassHeaders(SigClasses[a]) /\ c = FALSE /\ d \in {2, 5, 10} /\ ph = 0
SEmit == /\ kind = "cls" /\ ph = 0
         /\ PrintT(ToJson([k |-> "cls", cls |-> SigClasses[a], h |-> b, msg |-> d,
                           recid |-> IF HeaderOk(b) THEN HeaderRecid(b) ELSE 0 - 1, comp |-> HeaderOk(b) /\ HeaderComp(b),
                           exp |-> SigClasses[a] = "ok"]))
         /\ ph' = 1 /\ UNCHANGED <<kind, a, b, c, d>>

Init == CInit \/ DInit \/ MInit \/ AInit \/ SInit
Next == CEmit \/ DEmit \/ MEmit \/ AEmit \/ SEmit
Spec == Init /\ [][Next]_vars
=============================================================================
