------------------------------- MODULE UnspentRules -----------------------------
(* C13 - authenticating what a transaction believes it spends.               *)
(*                                                                           *)
(* A transaction carries, for each input, the outpoint [src, idx] it spends  *)
(* and the "unspent" [amt, scr] it was told that outpoint holds.  A database *)
(* answers a lookup of transaction id src with one of                        *)
(*    [st |-> "missing"]                      nothing known                  *)
(*    [st |-> "tx", id |-> t, outs |-> ..]    a transaction whose id is t    *)
(* (ids are hashes of the content: a database that answers with other        *)
(* content necessarily answers with another id, t # src).                    *)
(*                                                                           *)
(* Standard: the check may return normally only if every input is Backed:    *)
(* the database holds the very transaction src, it has an output idx, and    *)
(* that output's amount and script are the recorded ones.  Then it returns   *)
(* the fee (inputs - outputs).  Any discrepancy - wrong amount, wrong script,*)
(* missing source, other transaction under that id, index past the last      *)
(* output - must end in an exception (the property does not fix which).      *)
(*                                                                           *)
(* This module is the declarative part (no state); Unspents.tla is the       *)
(* checking procedure as a state machine, shown by TLC to decide AllBacked.  *)
EXTENDS Integers, Sequences, FiniteSets, TLC

Missing == [st |-> "missing", id |-> 0, outs |-> << >>]
Stored(t, o) == [st |-> "tx", id |-> t, outs |-> o]

\* idx is 0-based as in an outpoint
Backed(tx, db, i) ==
  LET in == tx.ins[i]
      e  == db[in.src] IN
  /\ e.st = "tx"
  /\ e.id = in.src
  /\ in.idx < Len(e.outs)
  /\ e.outs[in.idx + 1].amt = tx.unspents[i].amt
  /\ e.outs[in.idx + 1].scr = tx.unspents[i].scr

AllBacked(tx, db) == \A i \in 1..Len(tx.ins) : Backed(tx, db, i)

\* loading the unspents from a database: possible iff the database holds the very source and
\* the named output of every input; then input i is paired with that output
Fetchable(tx, db) ==
  \A i \in 1..Len(tx.ins) : LET in == tx.ins[i] e == db[in.src] IN
    e.st = "tx" /\ e.id = in.src /\ in.idx < Len(e.outs)
Fetched(tx, db) == [i \in 1..Len(tx.ins) |-> db[tx.ins[i].src].outs[tx.ins[i].idx + 1]]

\* why input i is not backed (first failing clause; reporting only)
Reason(tx, db, i) ==
  LET in == tx.ins[i]
      e  == db[in.src] IN
  IF e.st # "tx" THEN "missing"
  ELSE IF e.id # in.src THEN "wrongtx"
  ELSE IF in.idx >= Len(e.outs) THEN "index"
  ELSE IF e.outs[in.idx + 1].amt # tx.unspents[i].amt THEN "amount"
  ELSE IF e.outs[in.idx + 1].scr # tx.unspents[i].scr THEN "script"
  ELSE "ok"
=============================================================================
