CONSTANTS U = "x"
          Roots <- URoots  Info <- UInfo  Ranges <- URanges  Singles <- USingles  Scripts <- UScripts  QKeys <- UQKeys
          BackedSet <- Both  NoDerivCheck <- No
SPECIFICATION TSpec
CHECK_DEADLOCK FALSE
