CONSTANTS MaxKeys = 3  MaxSigs = 2
SPECIFICATION SSpec
INVARIANT ResultShape
INVARIANT NullFail
INVARIANT NoNeed
CHECK_DEADLOCK FALSE
