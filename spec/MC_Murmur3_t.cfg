CONSTANTS Lens <- Lens70  Fills = {"ones", "ramp", "high", "mix"}
          SeedSet <- SeedsAll
INIT Init
NEXT Next
INVARIANTS SeedReduced ResultOK
CHECK_DEADLOCK FALSE
