CONSTANTS NIn = 3  MaxMut = 2
SPECIFICATION RSpec
INVARIANTS RRetIffBacked RaiseHasReason
CHECK_DEADLOCK FALSE
