-------------------------------- MODULE BIP32 --------------------------------
(* Hierarchical deterministic keys after BIP32 (C09), transcribed from the    *)
(* BIP, over UNINTERPRETED terms.                                             *)
(*                                                                            *)
(* TLC cannot compute HMAC-SHA512, HASH160 or secp256k1 points.  Every value  *)
(* below is therefore a TERM (a record tree) that says WHAT is hashed, added  *)
(* or serialised and in which byte layout; a stdlib evaluator (hmac, hashlib, *)
(* a 30-line affine curve) finishes terms into bytes.  Equality of terms      *)
(* stands for equality of values (assumption: no hash collisions).            *)
(*                                                                            *)
(*  byte-string terms                                                         *)
(*    B(s)         the literal bytes s (Seq(0..255))                          *)
(*    Sym(n, len)  an unknown byte string of len bytes named n (the seed)     *)
(*    Cat(ps)      concatenation                                              *)
(*    Hmac(k, m)   HMAC-SHA512 with key k of message m          (64 bytes)    *)
(*    L32(x) R32(x) left / right 32 bytes of a 64-byte string                 *)
(*    Ser256(k)    the scalar k as 32 bytes, most significant first           *)
(*    SerP(P)      the point P in compressed SEC1 form          (33 bytes)    *)
(*    H160(x)      RIPEMD160(SHA256(x))                         (20 bytes)    *)
(*    First4(x)    first four bytes                                           *)
(*    Ref(o, f, len) field f of an extended key known by the name o           *)
(*  scalar terms   Sum(ts)  = sum of parse256(ts[i]) mod n                    *)
(*  point terms    Pt(base, ts) = base + (sum of parse256(ts[i])) G           *)
(*                 base = <<>> (the neutral element) or <<x>>, x a 33-byte    *)
(*                 string term holding a point in SEC form                    *)
(* so that  point(Sum(ts)) = Pt(<<>>, ts)  and  point(parse256(IL)) + K  =    *)
(* K with IL appended: the homomorphism k -> kG is STRUCTURAL.                *)
(*                                                                            *)
(* A child index is [h, v]: hardened flag and 31-bit value (i = 2^31 h + v    *)
(* does not fit a TLC integer); ser32 is spelt out as four bytes.             *)
(*                                                                            *)
(* Not modelled: BIP32's "IL >= n or ki = 0: proceed with the next i"         *)
(* (probability < 2^-127; the evaluator asserts it does not happen).          *)
EXTENDS Integers, Sequences, SequencesExt, FiniteSets, TLC, Subpaths

\* ----------------------------------------------------------------- terms
B(s)        == [t |-> "b", v |-> s]
Sym(n, len) == [t |-> "sym", n |-> n, len |-> len]
Cat(ps)     == [t |-> "cat", p |-> ps]
Hmac(k, m)  == [t |-> "hmac512", k |-> k, m |-> m]
L32(x)      == [t |-> "l32", a |-> x]
R32(x)      == [t |-> "r32", a |-> x]
Ser256(k)   == [t |-> "ser256", a |-> k]
SerP(P)     == [t |-> "serP", a |-> P]
H160(x)     == [t |-> "h160", a |-> x]
First4(x)   == [t |-> "first4", a |-> x]
Sum(ts)     == [t |-> "sum", ts |-> ts]
Pt(base, ts) == [t |-> "pt", base |-> base, ts |-> ts]

\* a byte string already known by name: field f ("chain", "pfp", "k" = ser256 of the private key,
\* "K" = serP of the public key) of the extended key called o
Ref(o, f, len) == [t |-> "ref", o |-> o, f |-> f, len |-> len]

IsScalar(k) == k.t = "sum"
IsPoint(K)  == K.t = "pt"

\* point(k) = k G, and the two additions of the BIP
PointOf(k)     == Pt(<<>>, k.ts)
ScalarAdd(x, k) == Sum(Append(k.ts, x))              \* parse256(x) + k  (mod n)
PointAdd(x, K)  == Pt(K.base, Append(K.ts, x))       \* point(parse256(x)) + K

\* length in bytes of a byte-string term
RECURSIVE Size(_)
Size(x) == CASE x.t = "b" -> Len(x.v)
             [] x.t \in {"sym", "ref"} -> x.len
             [] x.t = "cat" -> FoldLeft(LAMBDA acc, y : acc + Size(y), 0, x.p)
             [] x.t = "hmac512" -> 64
             [] x.t \in {"l32", "r32", "ser256"} -> 32
             [] x.t = "serP" -> 33
             [] x.t = "h160" -> 20
             [] x.t = "first4" -> 4

\* ----------------------------------------------------------------- indices
\* ser32(i), most significant byte first; the hardened bit is bit 31
Ser32(ix) == << (ix.v \div 16777216) + (IF ix.h THEN 128 ELSE 0),
                (ix.v \div 65536) % 256, (ix.v \div 256) % 256, ix.v % 256 >>
IsIndex(ix) == ix.h \in BOOLEAN /\ ix.v \in 0..MaxIndex
(* The BIP numbers the children of a key 0 .. 2^32-1: child number i = 2^31 [hardened] + v, the big-endian value    *)
(* of ser32.  [h, v] and the single number i are two SPELLINGS of one child.  A library that takes (value, flag)    *)
(* need not accept the single number above 2^31-1 - it may refuse it - but it must not answer it with any other     *)
(* child than the one the BIP gives that number: the outcomes allowed for the spelling are                           *)
ChildNumberBytes(ix) == Ser32(ix)
NumberSpellingOutcomes(ix) == IF ix.h THEN {"refused", "that child"} ELSE {"that child"}

\* ----------------------------------------------------------------- extended keys
(* An extended key: [depth, pfp, cn, chain, key]                              *)
(*   depth  0 for the master, parent's + 1                                    *)
(*   pfp    fingerprint of the PARENT's key (4 bytes; 0x00000000 for master)  *)
(*   cn     the child number [h, v] this key was derived with (0 for master)  *)
(*   chain  32-byte chain code                                                *)
(*   key    a scalar term (extended private key) or point term (public)       *)
IsPrivate(x) == IsScalar(x.key)
PubKey(x) == IF IsPrivate(x) THEN PointOf(x.key) ELSE x.key
\* identifier = HASH160(serP(K)); fingerprint = its first 32 bits
Identifier(x) == H160(SerP(PubKey(x)))
Fingerprint(x) == First4(Identifier(x))

SeedKey == B(<<66, 105, 116, 99, 111, 105, 110, 32, 115, 101, 101, 100>>)     \* "Bitcoin seed"
Master(seed) == LET I == Hmac(SeedKey, seed) IN
  [depth |-> 0, pfp |-> B(<<0, 0, 0, 0>>), cn |-> Idx(FALSE, 0), chain |-> R32(I), key |-> Sum(<<L32(I)>>)]

\* N((k, c)) = (point(k), c)
Neuter(x) == [x EXCEPT !.key = PubKey(x)]

\* what is HMAC'd, with the parent's chain code as the HMAC key
PrivData(par, ix) == IF ix.h THEN Cat(<<B(<<0>>), Ser256(par.key), B(Ser32(ix))>>)      \* 0x00 || ser256(kpar) || ser32(i)
                             ELSE Cat(<<SerP(PointOf(par.key)), B(Ser32(ix))>>)         \* serP(point(kpar)) || ser32(i)
PubData(par, ix)  == Cat(<<SerP(par.key), B(Ser32(ix))>>)                               \* serP(Kpar) || ser32(i)

\* CKDpriv((kpar, cpar), i) -> (ki, ci)
CKDpriv(par, ix) == LET I == Hmac(par.chain, PrivData(par, ix)) IN
  [depth |-> par.depth + 1, pfp |-> Fingerprint(par), cn |-> ix,
   chain |-> R32(I), key |-> ScalarAdd(L32(I), par.key)]

\* CKDpub((Kpar, cpar), i) -> (Ki, ci), defined only for non-hardened i
Refused == [refused |-> TRUE]
CKDpub(par, ix) == IF ix.h THEN Refused ELSE
  LET I == Hmac(par.chain, PubData(par, ix)) IN
  [depth |-> par.depth + 1, pfp |-> Fingerprint(par), cn |-> ix,
   chain |-> R32(I), key |-> PointAdd(L32(I), par.key)]

(* Derivation as a library offers it: from a node x, child ix, wanted         *)
(* "prv"/"pub"/"dflt" (= as the parent is).  From a public parent only        *)
(* CKDpub exists; a private result cannot be had from it (want = "prv" on a   *)
(* public parent with a normal index is left to the library: not specified).  *)
Want(x, want) == IF want = "dflt" THEN (IF IsPrivate(x) THEN "prv" ELSE "pub") ELSE want
Specified(x, ix, want) == IsPrivate(x) \/ ix.h \/ Want(x, want) = "pub"
Derive(x, ix, want) ==
  IF IsPrivate(x) THEN (IF Want(x, want) = "prv" THEN CKDpriv(x, ix) ELSE Neuter(CKDpriv(x, ix)))
  ELSE CKDpub(x, ix)

\* the key at the end of a path of indices, the private way
RECURSIVE PrivPath(_, _)
PrivPath(x, path) == IF path = <<>> THEN x ELSE PrivPath(CKDpriv(x, Head(path)), Tail(path))

\* ----------------------------------------------------------------- naming (compact terms)
(* Terms nest: the key at depth d contains the terms of all its ancestors.    *)
(* For export a key is described RELATIVE to its parent: Lift(o, x) is x with *)
(* its byte-valued fields replaced by references to "the key named o".        *)
(* Unfold substitutes the real fields back; parse256(ser256(k)) = k and       *)
(* point(serP(K)) = K flatten the sums.  MC_BIP32* check that                 *)
(* Unfold(F(Lift(o, x)), x) = F(x) for the derivations F that are exported.   *)
Lift(o, x) == [depth |-> x.depth, pfp |-> Ref(o, "pfp", 4), cn |-> x.cn, chain |-> Ref(o, "chain", 32),
               key |-> IF IsPrivate(x) THEN Sum(<<Ref(o, "k", 32)>>) ELSE Pt(<<Ref(o, "K", 33)>>, <<>>)]

RECURSIVE UnfoldB(_, _), UnfoldK(_, _)
UnfoldB(x, par) ==
  CASE x.t = "ref" -> (CASE x.f = "chain" -> par.chain [] x.f = "pfp" -> par.pfp
                         [] x.f = "k" -> Ser256(par.key) [] x.f = "K" -> SerP(PubKey(par)))
    [] x.t \in {"b", "sym"} -> x
    [] x.t = "cat" -> Cat([i \in 1..Len(x.p) |-> UnfoldB(x.p[i], par)])
    [] x.t = "hmac512" -> Hmac(UnfoldB(x.k, par), UnfoldB(x.m, par))
    [] x.t \in {"l32", "r32", "h160", "first4", "b58check"} -> [x EXCEPT !.a = UnfoldB(@, par)]
    [] x.t \in {"ser256", "serP"} -> [x EXCEPT !.a = UnfoldK(@, par)]
UnfoldK(k, par) ==
  LET ts == [i \in 1..Len(k.ts) |-> UnfoldB(k.ts[i], par)]
      flat == FoldLeft(LAMBDA acc, u : IF u.t = "ser256" THEN acc \o u.a.ts ELSE Append(acc, u), <<>>, ts) IN
  IF k.t = "sum" THEN Sum(flat)
  ELSE IF k.base = <<>> THEN Pt(<<>>, flat)
  ELSE LET b == UnfoldB(k.base[1], par) IN
       IF b.t = "serP" THEN Pt(b.a.base, b.a.ts \o flat) ELSE Pt(<<b>>, flat)
UnfoldNode(y, par) == IF y = Refused THEN Refused ELSE
  [depth |-> y.depth, pfp |-> UnfoldB(y.pfp, par), cn |-> y.cn, chain |-> UnfoldB(y.chain, par), key |-> UnfoldK(y.key, par)]

\* ----------------------------------------------------------------- serialisation
(* 4 version | 1 depth | 4 parent fingerprint | 4 child number (ser32) |      *)
(* 32 chain code | 33 key data: 0x00 || ser256(k)  or  serP(K)       = 78     *)
KeyData(x, asPrivate) == IF asPrivate THEN Cat(<<B(<<0>>), Ser256(x.key)>>) ELSE SerP(PubKey(x))
Ser74(x, asPrivate) == Cat(<<B(<<x.depth>>), x.pfp, B(Ser32(x.cn)), x.chain, KeyData(x, asPrivate)>>)
Ser78(x, asPrivate, version) == Cat(<<B(version), Ser74(x, asPrivate)>>)
\* text form: Base58Check (C11's subject; here an uninterpreted wrapper)
B58Check(x) == [t |-> "b58check", a |-> x]
ExtText(x, asPrivate, version) == B58Check(Ser78(x, asPrivate, version))
CanSerialise(x, asPrivate) == x.depth \in 0..255 /\ (asPrivate => IsPrivate(x))

\* ----------------------------------------------------------------- path strings
\* "a/bH/c" and an optional ".pub" suffix that forces the result public
DotPub == <<".", "p", "u", "b">>
HasDotPub(s) == Len(s) >= 4 /\ SubSeq(s, Len(s) - 3, Len(s)) = DotPub
PathPart(s) == IF HasDotPub(s) THEN SubSeq(s, 1, Len(s) - 4) ELSE s
IsPathString(s) == IsSinglePath(PathPart(s))
PathIndices(s) == SinglePath(PathPart(s))

=============================================================================
