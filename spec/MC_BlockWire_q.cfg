CONSTANTS FULLGRID = FALSE  SIZES = {1, 2, 3, 4, 5, 6, 7, 8, 9, 16, 17}  BIG = {252, 253}  EMIT = TRUE
SPECIFICATION Spec
INVARIANTS HeaderImage BlockImage BlockHeadReadBack
CHECK_DEADLOCK FALSE
