CONSTANTS P = 43  A = 0  B = 7  Gx = 2  Gy = 12  N = 31
          ZSet = {1, 2, 3, 4, 5, 6, 7, 8, 9, 10, 11, 12, 13, 14, 15, 16, 17, 18, 19, 20, 21, 22, 23, 24, 25, 26, 27, 28, 29, 30, 31, 32, 33, 61, 62}  ZDeep = {1, 2, 30, 31}
SPECIFICATION Spec
INVARIANT ECDSALemmas
CHECK_DEADLOCK FALSE
