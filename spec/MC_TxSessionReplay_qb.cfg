CONSTANTS CacheMode = "none"  MaxOuts = 4  StartLists = {5, 6}  ListIds = {1, 2, 3, 4, 5, 6}  SessionLen = 2
SPECIFICATION RSpec
INVARIANTS HistoryIndependent Shape SurplusNeverCounted
CHECK_DEADLOCK FALSE
