---------------------------- MODULE X06_KcUniverse ----------------------------
(* The small worlds X06_Keychain is explored in: roots (two of them related,   *)
(* one plain key), path ranges, single paths, scripts, and the keys asked      *)
(* about.  U selects the world: "q" (quick), "t" (thorough), "x" (the larger   *)
(* world recorded traces live in).  Shared by the model/export module and by   *)
(* the module that prints the BIP32 terms of every key of the world.           *)
EXTENDS Integers, Sequences, SequencesExt, FiniteSets, TLC, Subpaths

CONSTANT U

N(v) == Idx(FALSE, v)
H(v) == Idx(TRUE, v)

\* A, C, D: masters.  B = A/0, E = A/0H/1: related to A.  P, Q: plain keys.
UInfo == [A |-> [kind |-> "hd", master |-> "A", at |-> <<>>],
          B |-> [kind |-> "hd", master |-> "A", at |-> <<N(0)>>],
          C |-> [kind |-> "hd", master |-> "C", at |-> <<>>],
          D |-> [kind |-> "hd", master |-> "D", at |-> <<>>],
          E |-> [kind |-> "hd", master |-> "A", at |-> <<H(0), N(1)>>],
          P |-> [kind |-> "plain", master |-> "P", at |-> <<>>],
          Q |-> [kind |-> "plain", master |-> "Q", at |-> <<>>]]
URoots == CASE U = "q" -> {"A", "B", "C", "P"}
            [] U = "t" -> {"A", "B", "C", "P", "E"}
            [] OTHER -> {"A", "B", "C", "D", "E", "P", "Q"}

\* range strings, character by character
R_0to1 == <<"0", "-", "1">>                                  \* 0-1
R_0s0to1 == <<"0", "/", "0", "-", "1">>                      \* 0/0-1     (from A: the same keys as 0-1 from B)
R_0Hs13 == <<"0", "H", "/", "1", ",", "3">>                  \* 0H/1,3    (hardened first step)
R_empty == <<>>                                              \* the root itself
R_1 == <<"1">>
R_0to3 == <<"0", "-", "3">>
R_deep == <<"0", "/", "1", "'", "/", "2", "-", "5">>         \* 0/1'/2-5
R_grid == <<"0", "-", "1", "/", "0", "-", "1">>              \* 0-1/0-1
R_list == <<"2", ",", "5", ",", "9", "-", "1", "1">>         \* 2,5,9-11
R_0p == <<"7", "p">>
URanges == CASE U = "q" -> <<R_0to1, R_0s0to1, R_0Hs13, R_empty>>
             [] U = "t" -> <<R_0to1, R_0s0to1, R_0Hs13, R_empty, R_1, R_0to3>>
             [] OTHER -> <<R_0to1, R_0s0to1, R_0Hs13, R_empty, R_1, R_0to3, R_deep, R_grid, R_list, R_0p>>
USingles == CASE U = "q" -> << <<N(1)>>, <<N(0), N(1)>> >>
              [] OTHER -> << <<N(1)>>, <<N(0), N(1)>>, <<H(0), N(1)>>, <<>> >>
UScripts == IF U = "q" THEN {"S1", "S2"} ELSE {"S1", "S2", "S3"}

UKeyOf(r, p) == IF UInfo[r].kind = "plain" THEN <<r, <<>>>> ELSE <<UInfo[r].master, UInfo[r].at \o p>>
RangeSet(g) == LET ps == Paths(URanges[g]) IN {ps[j] : j \in 1..Len(ps)}
UAllPaths == UNION {RangeSet(g) : g \in 1..Len(URanges)} \cup {USingles[s] : s \in 1..Len(USingles)} \cup {<<>>}
\* every key that can ever be registered or asked about in this world
UAllKeys == {UKeyOf(r, p) : r \in URoots, p \in UAllPaths}
\* the keys somebody asks about (the quick world asks about the ones where roots overlap)
UQKeys == IF U = "q"
          THEN {<<"A", <<N(0), N(1)>>>>, <<"A", <<N(0)>>>>, <<"A", <<H(0), N(1)>>>>, <<"A", <<>>>>, <<"C", <<N(1)>>>>, <<"P", <<>>>>}
          ELSE UAllKeys

\* text of a path / key / range for the export
IdxStr(ix) == ToString(ix.v) \o (IF ix.h THEN "H" ELSE "")
PathStr(p) == IF p = <<>> THEN "" ELSE FoldLeft(LAMBDA acc, ix : acc \o "/" \o IdxStr(ix), IdxStr(p[1]), Tail(p))
KeyStr(k) == k[1] \o ":" \o PathStr(k[2])
RangeStr(g) == FoldLeft(LAMBDA acc, c : acc \o c, "", URanges[g])

\* sanity of the worlds (evaluated by TLC): what the ranges denote
ASSUME /\ Paths(R_0to1) = << <<N(0)>>, <<N(1)>> >>
       /\ Paths(R_0s0to1) = << <<N(0), N(0)>>, <<N(0), N(1)>> >>
       /\ Paths(R_0Hs13) = << <<H(0), N(1)>>, <<H(0), N(3)>> >>
       /\ Paths(R_empty) = << <<>> >>
       /\ Len(Paths(R_deep)) = 4 /\ Paths(R_deep)[4] = <<N(0), H(1), N(5)>>
       /\ Len(Paths(R_grid)) = 4 /\ Len(Paths(R_list)) = 5 /\ Paths(R_0p) = << <<H(7)>> >>
       /\ UKeyOf("B", <<N(1)>>) = UKeyOf("A", <<N(0), N(1)>>)
       /\ UKeyOf("E", <<>>) = UKeyOf("A", <<H(0), N(1)>>)
=============================================================================
