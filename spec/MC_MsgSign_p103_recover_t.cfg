CONSTANTS P = 103  A = 0  B = 5  Gx = 2  Gy = 42  N = 97  Mode = "recover"  RMax = 104
CONSTANT ESet <- ETwo
CONSTANT SSet <- SFew
CONSTANT DSet <- DAll
SPECIFICATION Spec
INVARIANT Holds
CHECK_DEADLOCK FALSE
