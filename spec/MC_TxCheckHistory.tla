--------------------------- MODULE MC_TxCheckHistory ---------------------------
(* C20, the HISTORY dimension: one long-lived transaction object, and every     *)
(* sequence of up to Depth actions on it - the calls check(), is_coinbase(),    *)
(* bad_solution_count() and field edits (a script replaced by one of another    *)
(* size class, also across the 1,000,000-byte limit; an output value moved      *)
(* across the cap; an outpoint replaced by a duplicate / the null outpoint /    *)
(* a fresh one; a witness attached; inputs and outputs appended and removed).   *)
(* The verdict of every check() is TxCheck!Verdict of the CURRENT fields: the   *)
(* machine has no other state.  Every behaviour that ends in a call is printed  *)
(* with the fields after each step and the result of each call, for the harness *)
(* to run on one pycoin object and, at every check(), on a fresh object too.    *)
EXTENDS TxCheck, TxGrid, Json

CONSTANTS Emit, Depth

HA == HashX(10)
HB == HashX(11)
HC == HashX(12)
V(mag) == Val(FALSE, mag)
O(v, l) == [value |-> v, script |-> Script(106, l)]
I(h, x, l) == In(h, x, Script(81, l), Max32N, <<>>)
TxOf(ins, outs) == [version |-> V1, ins |-> ins, outs |-> outs, lock |-> Zero32N]

\* ---------------------------------------------------------------- where the histories start
Plain == TxOf(<<I(HA, Zero32N, 3)>>, <<O(V(<<1>>), 0)>>)
AtCap(c) == TxOf(<<I(HA, Zero32N, 3), I(HB, <<1, 0>>, 0)>>, <<O(V(Pred(MaxMoney(c))), 0), O(V(<<1>>), 1)>>)
Coinbase == TxOf(<<I(NullHash, NullIndex, 2)>>, <<O(V(<<1>>), 0)>>)
AtLimit == WithInScript1(Plain, FitInScript1(Plain, MaxSize))             \* stripped size exactly 1,000,000
OverLimit == WithInScript1(Plain, FitInScript1(Plain, MaxSize + 1))       \* 1,000,001
Starts == {<<"BTC", Plain>>, <<"BTC", AtCap("BTC")>>, <<"GRS", AtCap("GRS")>>, <<"BTC", Coinbase>>,
           <<"BTC", AtLimit>>, <<"GRS", OverLimit>>}

VARIABLES hstart,   \* the fields the object started with
          hacts,    \* the actions so far: <<name, parameters...>>
          houts     \* after each action: [result, fields]
vars == <<cvars, hstart, hacts, houts>>

M0 == MaxMoney(coin)
\* ---------------------------------------------------------------- export
ShowVal(v) == [neg |-> v.neg, mag |-> v.mag]
ShowCIn(x) == [hash |-> Show(x.hash), index |-> x.index, script |-> Show(x.script), seq |-> x.seq,
               wit |-> [k \in 1..Len(x.wit) |-> Show(x.wit[k])]]
ShowCOut(o) == [value |-> ShowVal(o.value), script |-> Show(o.script)]
ShowObj(t) == [version |-> t.version, lock |-> t.lock,
               ins |-> [i \in 1..Len(t.ins) |-> ShowCIn(t.ins[i])],
               outs |-> [j \in 1..Len(t.outs) |-> ShowCOut(t.outs[j])]]
Facts(t) == [verdict |-> Verdict(t, M0), defects |-> Defects(t, M0), coinbase |-> IsCoinbase(t),
             stripped |-> StrippedSize(t), total |-> TotalSize(t)]

\* one step of the history: the object machine's action, logged
Step(name, action) ==
  /\ action
  /\ hacts' = Append(hacts, name) /\ UNCHANGED hstart
  /\ houts' = Append(houts, [result |-> result', obj |-> ShowObj(obj'), facts |-> Facts(obj')])

IsCall(name) == name[1] \in {"check", "is_coinbase", "bad_solution_count"}
Record == [k |-> "hist", coin |-> coin, maxmoney |-> M0, start |-> hstart, acts |-> hacts', outs |-> houts']

Calls == \/ Step(<<"check">>, Check /\ (Verdict(obj, M0) = "any" => result' = "accept"))
         \/ Step(<<"is_coinbase">>, AskCoinbase /\ (result' = IF IsCoinbase(obj) THEN "yes" ELSE "no"))
         \/ Step(<<"bad_solution_count">>, CountBad /\ (result' = "zero"))
\* (the fitted lengths exist only while the rest of the transaction leaves room for them)
ScriptLens == {0, 2, 101} \cup {n \in {FitInScript1(obj, MaxSize), FitInScript1(obj, MaxSize + 1)} : n >= 65536}
Edits == \/ \E n \in ScriptLens : Step(<<"set_in_script", 1, Show(Run(81, n))>>, SetInScript(1, Run(81, n)))
         \/ Step(<<"set_out_script", 1, Show(Script(106, 1100000))>>, SetOutScript(1, Script(106, 1100000)))
         \/ Step(<<"set_witness", 1, <<Show(Item(1100000))>> >>, SetWitness(1, <<Item(1100000)>>))
         \/ \E v \in {V(<<1>>), V(M0), V(Succ(M0)), Val(TRUE, <<1>>)} :
               Step(<<"set_value", 1, ShowVal(v)>>, SetValue(1, v))
         \/ \E hx \in {<<HA, Zero32N>>, <<NullHash, NullIndex>>, <<HC, <<7, 0>> >>} :
               Step(<<"set_outpoint", Len(obj.ins), Show(hx[1]), hx[2]>>, SetOutpoint(Len(obj.ins), hx[1], hx[2]))
         \/ Step(<<"append_in", ShowCIn(I(HC, <<9, 0>>, 1))>>, AppendIn(I(HC, <<9, 0>>, 1)))
         \/ Step(<<"append_in", ShowCIn(I(HA, Zero32N, 1))>>, AppendIn(I(HA, Zero32N, 1)))
         \/ Step(<<"remove_in">>, RemoveIn)
         \/ Step(<<"append_out", ShowCOut(O(V(<<1>>), 0))>>, AppendOut(O(V(<<1>>), 0)))
         \/ Step(<<"remove_out">>, RemoveOut)

Init == /\ \E s \in Starts : obj = s[2] /\ coin = s[1] /\ hstart = ShowObj(s[2])
        /\ calls = 0 /\ result = "none" /\ hacts = <<>> /\ houts = <<>>
\* a history ends in a call (an edit nobody looks at afterwards is invisible): the last step is a call
Next == \/ calls < Depth /\ Calls /\ (Emit => PrintT(ToJson(Record)))
        \/ calls < Depth - 1 /\ Edits
Spec == Init /\ [][Next]_vars

\* ---------------------------------------------------------------- lemmas
\* the result of every check() in the history is the verdict of the fields at that moment - whatever came before
VerdictIsOfCurrentFields ==
  \A k \in 1..Len(hacts) : hacts[k][1] = "check" =>
     (houts[k].facts.verdict = "any" \/ houts[k].result = houts[k].facts.verdict)
\* a call never changes the fields
CallsChangeNothing ==
  \A k \in 1..Len(hacts) : IsCall(hacts[k]) => houts[k].obj = (IF k = 1 THEN hstart ELSE houts[k - 1].obj)
ObjWellFormed == IsTx(WireView(obj))
\* the size fitting is exact: the two start objects sit on the limit and one byte above it
FitExact == /\ StrippedSize(AtLimit) = MaxSize /\ StrippedSize(OverLimit) = MaxSize + 1
            /\ Verdict(AtLimit, MaxMoney("BTC")) = "accept" /\ Verdict(OverLimit, MaxMoney("GRS")) = "reject"
=============================================================================
