------------------------------- MODULE TxWire -------------------------------
(* The Bitcoin transaction wire format (legacy form and the BIP144 extended  *)
(* form), transaction ids, and pycoin's documented "unspents" extension.     *)
(*                                                                           *)
(* An abstract transaction is the record                                     *)
(*   [version |-> Num(2), ins |-> Seq(In), outs |-> Seq(Out), lock |-> Num(2)]*)
(*   In  = [hash |-> Bytes(32), index |-> Num(2), script |-> Bytes,          *)
(*          seq |-> Num(2), wit |-> Seq(Bytes)]      (wit: the witness stack)*)
(*   Out = [amount |-> Num(4), script |-> Bytes]                             *)
(* Num(k) = k 16-bit limbs, least significant first; Bytes = run-length byte *)
(* strings (module Bytes).                                                   *)
(*                                                                           *)
(* This module is the serialiser (a function) and the ids; the parser, a      *)
(* cursor state machine over the byte string, is module TxParse.             *)
EXTENDS Bytes

\* ---------------------------------------------------------------- types
IsIn(x) == /\ WellFormed(x.hash) /\ Size(x.hash) = 32
           /\ IsNum(x.index, 2) /\ IsNum(x.seq, 2)
           /\ WellFormed(x.script)
           /\ \A k \in 1..Len(x.wit) : WellFormed(x.wit[k])
IsOut(o) == IsNum(o.amount, 4) /\ WellFormed(o.script)
IsTx(t) == /\ IsNum(t.version, 2) /\ IsNum(t.lock, 2)
           /\ \A i \in 1..Len(t.ins) : IsIn(t.ins[i])
           /\ \A j \in 1..Len(t.outs) : IsOut(t.outs[j])

\* ---------------------------------------------------------------- serialisation
SerIn(x)  == CatAll(<<x.hash, LE16(x.index), VarBytes(x.script), LE16(x.seq)>>)
SerOut(o) == Cat(LE16(o.amount), VarBytes(o.script))
SerWit(w) == Cat(CompactSize(Len(w)), CatAll([k \in 1..Len(w) |-> VarBytes(w[k])]))

HasWitness(tx) == \E i \in 1..Len(tx.ins) : tx.ins[i].wit # <<>>

Marker == Lit(<<0, 1>>)      \* BIP144: marker 0x00, flag 0x01

\* The general extended form.  Bitcoin (BIP144) knows flag 0x01 only.  Litecoin adds bit 3 (0x08): after the
\* witness stacks (if any) and before the lock time comes the MWEB part - one byte, 0 meaning "no MWEB
\* transaction attached" (the marker of the block's integrating HogEx transaction); that is the only value
\* modelled here, MWEB transaction bodies are not.  flag 0 = legacy form (no marker at all).
SerializeFlag(tx, flag) ==
  LET ww == flag \in {1, 9}  mw == flag \in {8, 9} IN
  CatAll(<< LE16(tx.version),
            IF flag # 0 THEN Lit(<<0, flag>>) ELSE <<>>,
            CompactSize(Len(tx.ins)),
            CatAll([i \in 1..Len(tx.ins) |-> SerIn(tx.ins[i])]),
            CompactSize(Len(tx.outs)),
            CatAll([j \in 1..Len(tx.outs) |-> SerOut(tx.outs[j])]),
            IF ww THEN CatAll([i \in 1..Len(tx.ins) |-> SerWit(tx.ins[i].wit)]) ELSE <<>>,
            IF mw THEN Lit(<<0>>) ELSE <<>>,
            LE16(tx.lock) >>)
SerializeTx(tx, withWitness) == SerializeFlag(tx, IF withWitness THEN 1 ELSE 0)
\* Litecoin: witness bit iff some witness stack is non-empty, MWEB bit as given
WireLTC(tx, hogex) == SerializeFlag(tx, (IF HasWitness(tx) THEN 1 ELSE 0) + (IF hogex THEN 8 ELSE 0))

\* the standard form: extended iff some witness stack is non-empty
Wire(tx)     == SerializeTx(tx, HasWitness(tx))
Stripped(tx) == SerializeTx(tx, FALSE)

StripWitness(tx) == [tx EXCEPT !.ins = [i \in 1..Len(tx.ins) |-> [tx.ins[i] EXCEPT !.wit = <<>>]]]

\* ids: uninterpreted double-SHA256 terms; the harness evaluates them with hashlib
H256d(bytes) == [op |-> "h256d", arg |-> bytes]
TxId(tx)  == H256d(Stripped(tx))
WTxId(tx) == H256d(Wire(tx))

\* pycoin's extension: after the transaction, one serialised output per input (the outputs being spent)
SerUnspents(us) == CatAll([i \in 1..Len(us) |-> SerOut(us[i])])
WireExt(tx, us) == Cat(Wire(tx), SerUnspents(us))

=============================================================================
