------------------------------ MODULE RFC6979 ------------------------------
(* RFC 6979 section 3.2: deterministic generation of the ECDSA nonce k with   *)
(* HMAC_DRBG, transcribed from the RFC (steps a..h) as a state machine with   *)
(* one HMAC invocation per step.                                              *)
(*                                                                            *)
(* HMAC cannot be computed by TLC.  Two modes, chosen by the case record:      *)
(*  term mode   (cs.oracle = << >>): every invocation appends a definition     *)
(*     [key |-> part, msg |-> <<part, ...>>] to `defs' and its value is the    *)
(*     reference [t |-> index]; a part is a literal [b |-> bytes] or such a    *)
(*     reference.  The machine runs MaxCand rounds of step h and exports the   *)
(*     candidate terms; a stdlib evaluator (vf/ecterms.py: hmac) computes the  *)
(*     digests and takes the first candidate in range.  WHAT is hashed, in     *)
(*     which order, with which separators and reductions stays here.           *)
(*  oracle mode (cs.oracle = sequence of [key, msg, out] byte-string records,  *)
(*     the HMAC calls observed in a real run): the value of an invocation is   *)
(*     looked up; an invocation that was never observed disables the step, so  *)
(*     TLC rejects the trace.  Here TLC also performs bits2int and the range   *)
(*     test  1 <= k < q  on byte strings, and ends with the nonce itself.      *)
(*                                                                            *)
(* Case record: q (the group order, big-endian, rolen bytes), qlen (its bit   *)
(* length), x (private key, int2octets, rolen bytes), h1 (the hash of the      *)
(* message: hlen bytes), hlen (output length of the hash in bytes).            *)
EXTENDS BigBytes, FiniteSets

CONSTANT MaxCand

VARIABLES cs,      \* the case (never changes)
          pc,      \* "d" "e" "f" "g" "gen" "cand" "rejK" "rejV" "done"
          K, V,    \* HMAC_DRBG state: parts
          T,       \* sequence of parts generated in the current round of step h
          defs,    \* term mode: definitions so far
          cands,   \* term mode: one T per completed round
          nonce    \* oracle mode: the accepted candidate (rolen bytes), << >> before
rvars == <<cs, pc, K, V, T, defs, cands, nonce>>

Lit(bytes) == [b |-> bytes]
Ref(i) == [t |-> i]
OracleMode == Len(cs.oracle) > 0
RoLen == Len(cs.q)

(* -------- section 2.3: conversions -------- *)
\* bits2int: the leftmost qlen bits of a bit string, as a number (here: still bytes, rolen of them)
Bits2Int(bytes) == LET blen == 8 * Len(bytes) IN
                   IF blen > cs.qlen THEN BFit(BShr(bytes, blen - cs.qlen), RoLen)
                   ELSE BFit(bytes, RoLen)
\* bits2octets: bits2int, then reduced modulo q (one subtraction suffices: the value is below 2^qlen <= 2q)
Bits2Octets(bytes) == LET z1 == Bits2Int(bytes) IN
                      IF BCmp(z1, cs.q) >= 0 THEN BSub(z1, cs.q) ELSE z1
InRangeNonce(kb) == ~BIsZero(kb) /\ BLess(kb, cs.q)

(* -------- HMAC as term constructor / oracle lookup -------- *)
RECURSIVE Flat(_)
Flat(parts) == IF parts = <<>> THEN <<>> ELSE Head(parts).b \o Flat(Tail(parts))
\* the set of possible results (empty: not in the oracle); a result is [val, defs]
HRes(key, msg) ==
  IF OracleMode
  THEN LET km == key.b
           mm == Flat(msg)
           hits == {i \in 1..Len(cs.oracle) : cs.oracle[i].key = km /\ cs.oracle[i].msg = mm}
       IN {[val |-> Lit(cs.oracle[i].out), defs |-> defs] : i \in hits}
  ELSE {[val |-> Ref(Len(defs) + 1), defs |-> Append(defs, [key |-> key, msg |-> msg])]}

Init(case) ==
  /\ cs = case
  /\ pc = "d"
  /\ V = Lit(Fill(case.hlen, 1))        \* step b
  /\ K = Lit(Fill(case.hlen, 0))        \* step c
  /\ T = <<>> /\ defs = <<>> /\ cands = <<>> /\ nonce = <<>>

\* the same as an action, for specs that run the generator several times (Trace_ECDSA)
Start(case) ==
  /\ cs' = case
  /\ pc' = "d"
  /\ V' = Lit(Fill(case.hlen, 1))
  /\ K' = Lit(Fill(case.hlen, 0))
  /\ T' = <<>> /\ defs' = <<>> /\ cands' = <<>> /\ nonce' = <<>>

\* steps d and f: K = HMAC_K(V || sep || int2octets(x) || bits2octets(h1))
Seed(sep) == <<V, Lit(<<sep>>), Lit(cs.x), Lit(Bits2Octets(cs.h1))>>
StepD == /\ pc = "d"
         /\ \E h \in HRes(K, Seed(0)) : K' = h.val /\ defs' = h.defs
         /\ pc' = "e" /\ UNCHANGED <<cs, V, T, cands, nonce>>
StepE == /\ pc = "e"
         /\ \E h \in HRes(K, <<V>>) : V' = h.val /\ defs' = h.defs
         /\ pc' = "f" /\ UNCHANGED <<cs, K, T, cands, nonce>>
StepF == /\ pc = "f"
         /\ \E h \in HRes(K, Seed(1)) : K' = h.val /\ defs' = h.defs
         /\ pc' = "g" /\ UNCHANGED <<cs, V, T, cands, nonce>>
StepG == /\ pc = "g"
         /\ \E h \in HRes(K, <<V>>) : V' = h.val /\ defs' = h.defs
         /\ pc' = "gen" /\ UNCHANGED <<cs, K, T, cands, nonce>>
\* step h.2: while tlen < qlen: V = HMAC_K(V); T = T || V
GenT  == /\ pc = "gen"
         /\ 8 * cs.hlen * Len(T) < cs.qlen
         /\ \E h \in HRes(K, <<V>>) : V' = h.val /\ defs' = h.defs /\ T' = Append(T, h.val)
         /\ UNCHANGED <<cs, pc, K, cands, nonce>>
GenDone == /\ pc = "gen" /\ 8 * cs.hlen * Len(T) >= cs.qlen
           /\ pc' = "cand" /\ UNCHANGED <<cs, K, V, T, defs, cands, nonce>>
\* step h.3: k = bits2int(T); accept if in [1, q-1]
Candidate ==
  /\ pc = "cand"
  /\ IF OracleMode
     THEN LET kb == Bits2Int(Flat(T)) IN
          IF InRangeNonce(kb) THEN nonce' = kb /\ pc' = "done" /\ UNCHANGED cands
                              ELSE pc' = "rejK" /\ UNCHANGED <<nonce, cands>>
     ELSE /\ cands' = Append(cands, T)
          /\ pc' = IF Len(cands) + 1 >= MaxCand THEN "done" ELSE "rejK"
          /\ UNCHANGED nonce
  /\ UNCHANGED <<cs, K, V, T, defs>>
\* otherwise K = HMAC_K(V || 0x00); V = HMAC_K(V); and again
RejectK == /\ pc = "rejK"
           /\ \E h \in HRes(K, <<V, Lit(<<0>>)>>) : K' = h.val /\ defs' = h.defs
           /\ pc' = "rejV" /\ UNCHANGED <<cs, V, T, cands, nonce>>
RejectV == /\ pc = "rejV"
           /\ \E h \in HRes(K, <<V>>) : V' = h.val /\ defs' = h.defs
           /\ pc' = "gen" /\ T' = <<>> /\ UNCHANGED <<cs, K, cands, nonce>>

Next == StepD \/ StepE \/ StepF \/ StepG \/ GenT \/ GenDone \/ Candidate \/ RejectK \/ RejectV

(* -------- invariants of the machine itself -------- *)
TypeOK == /\ pc \in {"d", "e", "f", "g", "gen", "cand", "rejK", "rejV", "done"}
          /\ Len(cs.x) = RoLen
          /\ cs.qlen = BBitLen(cs.q)
          /\ Len(Bits2Octets(cs.h1)) = RoLen
          /\ BLess(Bits2Octets(cs.h1), cs.q)
          /\ (nonce # <<>> => InRangeNonce(nonce) /\ pc = "done")
=============================================================================
