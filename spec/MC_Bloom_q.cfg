CONSTANTS Configs <- ConfigsSmall  Pool <- PoolSmall  MaxAdds = 3
SPECIFICATION Spec
INVARIANTS BTypeOK NoFalseNegative Exact AtMost Layout SparseOK PeerMatches
PROPERTY Monotone
CHECK_DEADLOCK FALSE
