SPECIFICATION Spec
CONSTRAINT Diag
CHECK_DEADLOCK FALSE
