CONSTANTS Values = {0, 1}  Wants = {"prv", "pub", "dflt"}  PathSet = "small"  MaxOps = 3  SeedLen = 16  KeyMode = "noHard"  TwoRoots = FALSE
SPECIFICATION Spec
VIEW View
INVARIANTS ResultIsPure
CHECK_DEADLOCK FALSE
