------------------------------ MODULE ScriptPush ------------------------------
(* Data pushes of Bitcoin Script (Bitcoin Core: script.h GetScriptOp,         *)
(* CScript::operator<<(vector), interpreter.cpp CheckMinimalPush; DESIGN.md   *)
(* Appendix A 2a/2e).                                                         *)
(*                                                                            *)
(*   opcode 0            OP_0          pushes the empty string                *)
(*   opcode 1..75        direct push   the next <opcode> bytes                *)
(*   opcode 76 (4c)      OP_PUSHDATA1  1-byte length, then the data           *)
(*   opcode 77 (4d)      OP_PUSHDATA2  2-byte little-endian length, data      *)
(*   opcode 78 (4e)      OP_PUSHDATA4  4-byte little-endian length, data      *)
(*   opcode 79 (4f)      OP_1NEGATE    pushes <<0x81>>                        *)
(*   opcode 81..96       OP_1..OP_16   push <<1>> .. <<16>>                   *)
(*                                                                            *)
(* ENCODER   the shortest instruction that pushes a given byte string.        *)
(* DECODER   a cursor state machine over a script: read the opcode, read the  *)
(*           length field byte by byte, take the data; a script that ends     *)
(*           inside the length field or inside the data is MALFORMED.         *)
(* MINIMAL   Core's CheckMinimalPush, the rule MINIMALDATA enforces.          *)
(* REPORT    what fetching an instruction reports (Fetch): malformed before   *)
(*           anything else, then - for complete pushes only - minimality.     *)
(*                                                                            *)
(* Byte strings are RUN-LENGTH sequences <<[n |-> count, b |-> byte], ...>>   *)
(* in canonical form (counts >= 1, neighbouring runs differ), so a 70,000     *)
(* byte push is two runs, equality of byte strings is equality of values, and *)
(* only the harness ever expands one.                                         *)
EXTENDS Naturals, Integers, Sequences

-----------------------------------------------------------------------------
(* run-length byte strings *)
Run(n, x) == [n |-> n, b |-> x]
IsRBytes(s) == \A i \in 1..Len(s) : /\ s[i].n \in Nat \ {0}
                                    /\ s[i].b \in 0..255
                                    /\ (i > 1 => s[i].b # s[i - 1].b)
RECURSIVE RLen(_)
RLen(s) == IF s = <<>> THEN 0 ELSE s[1].n + RLen(Tail(s))
ROne(x) == <<Run(1, x)>>
RRep(n, x) == IF n = 0 THEN <<>> ELSE <<Run(n, x)>>
RCat(s, t) ==
  IF s = <<>> THEN t
  ELSE IF t = <<>> THEN s
  ELSE IF s[Len(s)].b = t[1].b
       THEN SubSeq(s, 1, Len(s) - 1) \o <<Run(s[Len(s)].n + t[1].n, t[1].b)>> \o Tail(t)
       ELSE s \o t
RECURSIVE RFromSeq(_)
RFromSeq(q) == IF q = <<>> THEN <<>> ELSE RCat(ROne(q[1]), RFromSeq(Tail(q)))
RECURSIVE RToSeq(_)
RToSeq(s) == IF s = <<>> THEN <<>> ELSE [i \in 1..s[1].n |-> s[1].b] \o RToSeq(Tail(s))
RECURSIVE RAt(_, _)      \* byte at offset i (0-based), i < RLen(s)
RAt(s, i) == IF i < s[1].n THEN s[1].b ELSE RAt(Tail(s), i - s[1].n)
RECURSIVE RTake(_, _)    \* the first k bytes (all of s when it is shorter)
RTake(s, k) == IF k = 0 \/ s = <<>> THEN <<>>
               ELSE IF k >= s[1].n THEN <<s[1]>> \o RTake(Tail(s), k - s[1].n)
               ELSE <<Run(k, s[1].b)>>
RECURSIVE RDrop(_, _)    \* s without its first k bytes
RDrop(s, k) == IF k = 0 \/ s = <<>> THEN s
               ELSE IF k >= s[1].n THEN RDrop(Tail(s), k - s[1].n)
               ELSE <<Run(s[1].n - k, s[1].b)>> \o Tail(s)
RSlice(s, from, n) == RTake(RDrop(s, from), n)
\* test data: len bytes, the first one `first`, the others `fill`
Blob(len, first, fill) == IF len = 0 THEN <<>> ELSE RCat(ROne(first), RRep(len - 1, fill))

-----------------------------------------------------------------------------
(* opcodes *)
OP_0 == 0
OP_PUSHDATA1 == 76
OP_PUSHDATA2 == 77
OP_PUSHDATA4 == 78
OP_1NEGATE == 79
OP_1 == 81
OP_16 == 96

\* width of the length field that follows the opcode
Width(op) == CASE op = OP_PUSHDATA1 -> 1 [] op = OP_PUSHDATA2 -> 2 [] op = OP_PUSHDATA4 -> 4 [] OTHER -> 0
Pow256(i) == CASE i = 0 -> 1 [] i = 1 -> 256 [] i = 2 -> 65536 [] i = 3 -> 16777216
LE(n, w) == [i \in 1..w |-> (n \div Pow256(i - 1)) % 256]           \* n < 2^31
RECURSIVE LEVal(_)
LEVal(q) == IF q = <<>> THEN 0 ELSE q[1] + 256 * LEVal(Tail(q))      \* only when < 2^31

-----------------------------------------------------------------------------
(* ENCODER *)
\* every instruction able to push d (lengths here stay below 2^31)
CanPush(op, d) ==
  LET n == RLen(d) IN
  \/ op = OP_0 /\ n = 0
  \/ op \in 1..75 /\ n = op
  \/ op = OP_PUSHDATA1 /\ n <= 255
  \/ op = OP_PUSHDATA2 /\ n <= 65535
  \/ op = OP_PUSHDATA4
  \/ op = OP_1NEGATE /\ d = ROne(129)
  \/ op \in OP_1..OP_16 /\ d = ROne(op - 80)
EncWith(op, d) ==
  IF op = OP_0 \/ op >= OP_1NEGATE THEN ROne(op)
  ELSE RCat(RFromSeq(<<op>> \o LE(RLen(d), Width(op))), d)

\* the rule: number opcodes for the one-byte values they stand for, else the
\* narrowest length field that holds the length
PushOpFor(d) ==
  LET n == RLen(d) IN
  IF n = 0 THEN OP_0
  ELSE IF n = 1 /\ RAt(d, 0) \in 1..16 THEN 80 + RAt(d, 0)
  ELSE IF n = 1 /\ RAt(d, 0) = 129 THEN OP_1NEGATE
  ELSE IF n <= 75 THEN n
  ELSE IF n <= 255 THEN OP_PUSHDATA1
  ELSE IF n <= 65535 THEN OP_PUSHDATA2
  ELSE OP_PUSHDATA4
EncodePush(d) == EncWith(PushOpFor(d), d)

-----------------------------------------------------------------------------
(* MINIMAL: bool CheckMinimalPush(const valtype& data, opcodetype opcode),   *)
(* called for opcodes 0 <= opcode <= OP_PUSHDATA4 only.                      *)
CheckMinimalPush(d, op) ==
  LET n == RLen(d) IN
  IF n = 0 THEN op = OP_0
  ELSE IF n = 1 /\ RAt(d, 0) >= 1 /\ RAt(d, 0) <= 16 THEN FALSE      \* should have used OP_1 .. OP_16
  ELSE IF n = 1 /\ RAt(d, 0) = 129 THEN FALSE                       \* should have used OP_1NEGATE
  ELSE IF n <= 75 THEN op = n
  ELSE IF n <= 255 THEN op = OP_PUSHDATA1
  ELSE IF n <= 65535 THEN op = OP_PUSHDATA2
  ELSE TRUE

-----------------------------------------------------------------------------
(* DECODER: the cursor.  ph: "op" about to read an opcode, "len" inside the  *)
(* length field, "data" about to take the data, and the final phases "done"  *)
(* (one instruction read), "bad" (malformed), "end" (cursor at end of script)*)
Start(pc) == [ph |-> "op", pc |-> pc, at |-> pc, op |-> -1, lenb |-> <<>>, data |-> <<>>, why |-> ""]
Final(st) == st.ph \in {"done", "bad", "end"}

\* the announced size fits in `avail` bytes.  A 4-byte length with the top bit set is >= 2^31:
\* beyond TLC's integers and beyond any script this spec handles, so it never fits.
Huge(lenb) == Len(lenb) = 4 /\ lenb[4] >= 128
Size(st) == IF st.op <= 75 THEN st.op ELSE LEVal(st.lenb)
SizeFits(st, avail) == ~Huge(st.lenb) /\ Size(st) <= avail

Step(s, st) ==
  CASE st.ph = "op" ->
         IF st.pc >= RLen(s) THEN [st EXCEPT !.ph = "end"]
         ELSE LET o == RAt(s, st.pc) IN
              IF o \in 1..75 THEN [st EXCEPT !.ph = "data", !.op = o, !.pc = @ + 1]
              ELSE IF o \in OP_PUSHDATA1..OP_PUSHDATA4 THEN [st EXCEPT !.ph = "len", !.op = o, !.pc = @ + 1]
              ELSE [st EXCEPT !.ph = "done", !.op = o, !.pc = @ + 1]
    [] st.ph = "len" ->
         IF st.pc >= RLen(s) THEN [st EXCEPT !.ph = "bad", !.why = "length field truncated"]
         ELSE LET lb == Append(st.lenb, RAt(s, st.pc)) IN
              [st EXCEPT !.lenb = lb, !.pc = @ + 1,
                         !.ph = IF Len(lb) = Width(st.op) THEN "data" ELSE "len"]
    [] st.ph = "data" ->
         IF ~SizeFits(st, RLen(s) - st.pc) THEN [st EXCEPT !.ph = "bad", !.why = "data truncated"]
         ELSE [st EXCEPT !.ph = "done", !.data = RSlice(s, st.pc, Size(st)), !.pc = @ + Size(st)]
    [] OTHER -> st

RECURSIVE RunDec(_, _)
RunDec(s, st) == IF Final(st) THEN st ELSE RunDec(s, Step(s, st))
DecodeAt(s, pc) == RunDec(s, Start(pc))

\* the instructions of a script, up to and including the first malformed one
RECURSIVE Parse(_, _)
Parse(s, pc) == LET r == DecodeAt(s, pc) IN
                IF r.ph = "end" THEN <<>>
                ELSE IF r.ph = "bad" THEN <<r>>
                ELSE <<r>> \o Parse(s, r.pc)
WellFormed(s) == LET p == Parse(s, 0) IN \A i \in 1..Len(p) : p[i].ph = "done"

\* what a decoded instruction puts on the stack (Appendix A: "OP_1NEGATE, OP_1..16 push the number")
IsPush(st) == st.op \in 0..OP_1NEGATE \/ st.op \in OP_1..OP_16
PushedValue(st) == IF st.op <= OP_PUSHDATA4 THEN st.data
                   ELSE IF st.op = OP_1NEGATE THEN ROne(129)
                   ELSE ROne(st.op - 80)
\* MINIMALDATA on a decoded instruction (Appendix A 2e)
MinimalOK(st) == st.op > OP_PUSHDATA4 \/ CheckMinimalPush(st.data, st.op)

(* FETCH, THEN JUDGE.  interpreter.cpp EvalScript, per instruction:           *)
(*     if (!script.GetOp(pc, opcode, vchPushValue))                           *)
(*         return set_error(serror, SCRIPT_ERR_BAD_OPCODE);                   *)
(*     ...                                                                    *)
(*     if (fRequireMinimal && !CheckMinimalPush(vchPushValue, opcode))        *)
(*         return set_error(serror, SCRIPT_ERR_MINIMALDATA);                  *)
(* The minimal-push rule is asked about pushes that were FETCHED.  What the   *)
(* decoder reports for the instruction it stopped on (st final, not "end"),   *)
(* with MINIMALDATA required or not:                                          *)
(*   "malformed"   the instruction is cut short - whatever length it          *)
(*                 announces and whatever the flag                            *)
(*   "nonminimal"  complete, flag set, CheckMinimalPush refuses it            *)
(*   "ok"          complete and (flag clear or minimal)                       *)
Fetch(st, minflag) == IF st.ph = "bad" THEN "malformed"
                      ELSE IF minflag /\ ~MinimalOK(st) THEN "nonminimal"
                      ELSE "ok"
\* a whole script, instruction after instruction: the first report that is not "ok" decides
RECURSIVE FirstReport(_, _, _)
FirstReport(p, i, minflag) == IF i > Len(p) THEN "ok"
                              ELSE IF Fetch(p[i], minflag) # "ok" THEN Fetch(p[i], minflag)
                              ELSE FirstReport(p, i + 1, minflag)
ScriptReport(s, minflag) == FirstReport(Parse(s, 0), 1, minflag)

-----------------------------------------------------------------------------
(* The same well-formedness said without a cursor: the instruction at pc is  *)
(* complete iff its header and the announced data lie inside the script.     *)
HdrLen(o) == 1 + Width(o)
Field(s, pc) == [i \in 1..Width(RAt(s, pc)) |-> RAt(s, pc + i)]
CompleteAt(s, pc) ==
  /\ pc < RLen(s)
  /\ LET o == RAt(s, pc) IN
     \/ o = 0 \/ o > OP_PUSHDATA4
     \/ o \in 1..75 /\ pc + 1 + o <= RLen(s)
     \/ /\ o \in OP_PUSHDATA1..OP_PUSHDATA4
        /\ pc + HdrLen(o) <= RLen(s)
        /\ ~Huge(Field(s, pc))
        /\ LEVal(Field(s, pc)) <= RLen(s) - pc - HdrLen(o)      \* (written so that 2^31 - 1 does not overflow)

-----------------------------------------------------------------------------
(* Lemmas (TLC checks them for every data string of MC_ScriptPush).          *)
PushOps == 0..OP_1NEGATE \cup OP_1..OP_16
\* the encoder's instruction pushes d, ends exactly at the end, and nothing that pushes d is shorter;
\* the shortest one is unique
LemmaShortest(d) ==
  /\ CanPush(PushOpFor(d), d)
  /\ \A op \in PushOps : CanPush(op, d) => RLen(EncodePush(d)) <= RLen(EncWith(op, d))
  /\ \A op \in PushOps : (CanPush(op, d) /\ RLen(EncWith(op, d)) = RLen(EncodePush(d))) => op = PushOpFor(d)
\* MINIMALDATA accepts the encoder's choice and, among the data-carrying opcodes able to push d, only it
LemmaMinimal(d) ==
  /\ PushOpFor(d) <= OP_PUSHDATA4 => CheckMinimalPush(d, PushOpFor(d))
  /\ \A op \in 0..OP_PUSHDATA4 : (CanPush(op, d) /\ CheckMinimalPush(d, op)) => op = PushOpFor(d)
\* the decoder reads every candidate back as d
LemmaReadBack(d, op) ==
  CanPush(op, d) => LET r == DecodeAt(EncWith(op, d), 0) IN
                    /\ r.ph = "done" /\ r.op = op /\ r.pc = RLen(EncWith(op, d))
                    /\ IsPush(r) /\ PushedValue(r) = d
                    /\ MinimalOK(r) <=> (op = PushOpFor(d))
\* every proper, non-empty prefix of an encoded push is malformed
LemmaPrefix(d, k) ==
  (0 < k /\ k < RLen(EncodePush(d))) => DecodeAt(RTake(EncodePush(d), k), 0).ph = "bad"
\* and so is every proper, non-empty prefix of ANY candidate that pushes d, minimal or not, under either flag:
\* the length it announces plays no part in the report
LemmaCut(d, op, k) ==
  (CanPush(op, d) /\ 0 < k /\ k < RLen(EncWith(op, d))) =>
     LET r == DecodeAt(RTake(EncWith(op, d), k), 0) IN
     /\ r.ph = "bad" /\ r.at = 0
     /\ Fetch(r, FALSE) = "malformed" /\ Fetch(r, TRUE) = "malformed"
=============================================================================
