----------------------------- MODULE MC_RFC6979 -----------------------------
(* Term-mode runs of RFC6979.tla (spec -> code direction of C01).             *)
(* The cases are                                                              *)
(*  "vec"  the RFC's own test vectors, read by the harness from               *)
(*         REPO/tests/ecdsa/rfc6979_test.py (ground truth: validated first);  *)
(*  "toy"  for each toy order n: every private key d in 1..n-1 x a set of     *)
(*         256-bit hash patterns (top byte, low byte) - the top qlen bits are *)
(*         what bits2octets keeps, the whole value mod n is what is signed;   *)
(*  "prod" for each production order q (32 bytes, from the harness): boundary *)
(*         classes of d in {1, 2, q-2, q-1, random..} x z in {1, q-1, q, q+1, *)
(*         2^255, 2^256-1, random..}, built here with BigBytes arithmetic.    *)
(* Every finished run prints its term definitions and candidate terms.        *)
EXTENDS RFC6979, Json, IOUtils, TLC

Given == JsonDeserialize(IOEnv.CASE_FILE)

Id(cls, a, b, c, dn, zn) == [cls |-> cls, a |-> a, b |-> b, c |-> c, dn |-> dn, zn |-> zn]
Case(id, q, x, h1, hlen) == [id |-> id, q |-> q, qlen |-> BBitLen(q), x |-> x, h1 |-> h1, hlen |-> hlen, oracle |-> <<>>]

VecCases == {Case(Id("vec", i, 0, 0, "", ""), Given.vec[i].q, Given.vec[i].x, Given.vec[i].h1, Given.vec[i].hlen)
             : i \in 1..Len(Given.vec)}

Tops == {0, 16, 92, 128, 167, 208, 255}
Lows == {1, 2, 255}
ZPat(t, l) == <<t>> \o Zeros(30) \o <<l>>
ToyCases == UNION {{Case(Id("toy", n, d, BModInt(ZPat(t, l), n), "", ""), <<n>>, <<d>>, ZPat(t, l), 32)
                    : d \in 1..(n - 1), t \in Tops, l \in Lows} : n \in {Given.toy[i] : i \in 1..Len(Given.toy)}}

One(n) == BFromInt(1, n)
DClasses(pr) == << <<"1", One(32)>>, <<"2", BFromInt(2, 32)>>, <<"q-2", BSubInt(pr.q, 2)>>, <<"q-1", BSubInt(pr.q, 1)>> >>
                \o [i \in 1..Len(pr.rnd) |-> <<"rnd", pr.rnd[i]>>]
ZClasses(pr) == << <<"1", One(32)>>, <<"q-1", BSubInt(pr.q, 1)>>, <<"q", pr.q>>, <<"q+1", BAddInt(pr.q, 1)>>,
                   <<"2^255", <<128>> \o Zeros(31)>>, <<"2^256-1", Fill(32, 255)>> >>
                \o [i \in 1..Len(pr.rnd) |-> <<"rnd", pr.rnd[Len(pr.rnd) + 1 - i]>>]
ProdCases == UNION {{Case(Id("prod", pi, di, zi, DClasses(Given.prod[pi])[di][1], ZClasses(Given.prod[pi])[zi][1]),
                          Given.prod[pi].q, DClasses(Given.prod[pi])[di][2], ZClasses(Given.prod[pi])[zi][2], 32)
                     : di \in 1..Len(DClasses(Given.prod[pi])), zi \in 1..Len(ZClasses(Given.prod[pi]))}
                    : pi \in 1..Len(Given.prod)}

MCInit == \E case \in VecCases \cup ToyCases \cup ProdCases : Init(case)
Emit == pc' = "done" =>
          PrintT(ToJson([k |-> "rfc", id |-> cs.id, q |-> cs.q, qlen |-> cs.qlen, x |-> cs.x, h1 |-> cs.h1,
                         hlen |-> cs.hlen, defs |-> defs', cands |-> cands']))
\* Emit is an ACTION_CONSTRAINT (see the cfg), so that TLC's coverage still names the actions of RFC6979!Next
MCSpec == MCInit /\ [][Next]_rvars
=============================================================================
