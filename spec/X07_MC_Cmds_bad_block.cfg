CONSTANTS Cmd = "block"  Tier = "q"  U = "q"
CONSTANT BlockSize <- BadBlockSize
SPECIFICATION Spec
INVARIANTS Lemmas LemmasDone
CHECK_DEADLOCK FALSE
