CONSTANTS W = 89
SPECIFICATION Spec
VIEW View
INVARIANT NonZero
CHECK_DEADLOCK FALSE
