CONSTANTS N = 8  W = 9
          T = 5  MaxOut = 2  Base = 1  Fee = 1  KMax = 7
          SendAmts = {}  OwnModes = {}  MaxIns = 9  MaxBlockTx = 9
          MaxDeliver = 99  MaxMem = 99  MaxSend = 99  MaxRewind = 99
          RewindInclusive = TRUE  KeepOnConfirm = TRUE  KeepOnMempool = TRUE
          UnconfInZero = TRUE  ZeroSentinel = FALSE
SPECIFICATION TSpec
CONSTRAINT Reached
POSTCONDITION Post
CHECK_DEADLOCK FALSE
