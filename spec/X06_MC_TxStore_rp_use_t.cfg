CONSTANTS MaxOps = 3  MaxEdit = 1  MaxSetLook = 0  Univ = 3  Ops <- OpsUse
          EditKinds <- KindsAll  LookKinds <- LKindsAll  FillSet <- SAll  ValSet <- SAll
          Ids <- MCIds  SegIds <- MCSegIds  NOut <- MCNOut  Confs <- MCConfsQ  Spenders <- MCSp
          BadFileRaises <- SwBadFile  OobIndexError <- SwOob
INIT MInit
NEXT MNextE
VIEW MView
CHECK_DEADLOCK FALSE
