CONSTANTS Table = "real"  Mode = "keys"  Fill = 17
SPECIFICATION Spec
CHECK_DEADLOCK FALSE
