CONSTANTS P = 83  A = 1  B = 7  Gx = 0  Gy = 16  N = 79  WithText = TRUE
CONSTANTS DSet <- DAll  ESet <- ETwo  KSet <- KAll  HSet <- HSix  RSet <- RAll  SSet <- SFew  ERSet <- ETwo
SPECIFICATION Spec
CHECK_DEADLOCK FALSE
