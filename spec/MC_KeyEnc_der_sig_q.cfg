CONSTANTS P = 43  A = 0  B = 7  Gx = 2  Gy = 12  N = 31
          SecLens <- LensQ
          Stage = "der"
          SecPfx = {4}  SecXs = {0}  SecYs = {0}  SecLongYs = {0} DerPos <- PosSigQ  DerExt <- Sigma8  DerExtLen = 3
SPECIFICATION Spec
INVARIANT NoBad
CHECK_DEADLOCK FALSE
