CONSTANTS P = 11  A = 1  B = 6  Gx = 2  Gy = 4  N = 13  Scope = "full"  Iterated = TRUE
SPECIFICATION Spec
INVARIANT GroupLaw
CHECK_DEADLOCK FALSE
