CONSTANTS Variant = "std"  MaxSum = 6  MaxIns = 1  MaxPays = 4  MaxFee = 2
          ScaleKs = {12}  ScaleRs = {0}
SPECIFICATION Spec
INVARIANTS Unique
CHECK_DEADLOCK FALSE
