---------------------------- MODULE X07_MC_Cmds ----------------------------
(* X07: the sessions TLC enumerates (argument shapes x boundary classes),     *)
(* run through the machine of X07_Cmds; the lemmas are checked on every       *)
(* session, and every finished session is printed with the outcome the rule   *)
(* books demand of each invocation (harness/vf/props/x07.py executes them on  *)
(* the real commands).  Cmd selects the command, Tier the size of the grid.   *)
EXTENDS X07_Cmds

CONSTANTS Cmd, Tier
Full == Tier = "t"

(* ========================================================================= msg *)
NK == 2
T(s) == MR!MS!RunText(s)
Msgs == << <<>>,                                             \* 1 empty
           T(<<97>>),                                        \* 2 "a"
           T(<<108,49,10,108,50,10,10,108,52>>),             \* 3 several lines, an empty one
           T(<<233,8364,128512,32,98>>),                     \* 4 2-, 3-, 4-byte UTF-8
           T(<<97,10>>),                                     \* 5 trailing line feed
           <<<<97, 253>>>>,                                  \* 6 compact-size boundary
           T(<<32,97,32>>) >>                                \* 7 blanks around
NM == Len(Msgs)
MsgNets == <<"BTC", "XTN", "LTC">>
WifTok(cls, k, comp, net) == [cls |-> cls, key |-> k, comp |-> comp, net |-> net]
AddrTok(cls, k, comp, net) == [cls |-> cls, key |-> k, comp |-> comp, net |-> net]
NoAddr == AddrTok("none", 0, FALSE, "")
SignInv(net, wif, m, src) == [cmd |-> "msg", net |-> net, sub |-> "sign", src |-> src, msg |-> Msgs[m], mi |-> m, wif |-> wif]
VerifyInv(net, sig, addr, m, src) ==
  [cmd |-> "msg", net |-> net, sub |-> "verify", src |-> src, msg |-> Msgs[m], mi |-> m, sig |-> sig, addr |-> addr]
OtherKey(k) == IF k = NK THEN 1 ELSE k + 1
OtherMsg(m) == IF m = NM THEN 1 ELSE m + 1
OtherSrc(src) == IF src = "m" THEN "i" ELSE "m"
\* the network after n in MsgNets with another / the same magic
SameMagicNet(net) == CHOOSE x \in ToSet(MsgNets) : (x # net /\ NameOf(x) = NameOf(net)) \/ (x = net /\ \A y \in ToSet(MsgNets) : y # net => NameOf(y) # NameOf(net))
OtherMagicNet(net) == CHOOSE x \in ToSet(MsgNets) : NameOf(x) # NameOf(net)
\* sign, then every way of asking about the printed signature
SignSession(net, k, comp, m, src) ==
  LET sig == SigTok(k, comp, net, Msgs[m])
      own == AddrTok("addr", k, comp, net) IN
  << SignInv(net, WifTok("wif", k, comp, net), m, src),
     VerifyInv(net, sig, own, m, OtherSrc(src)),                                   \* the signer's address: ok
     VerifyInv(net, sig, NoAddr, m, src),                                          \* prints the signer's address
     VerifyInv(net, sig, AddrTok("addr", k, ~comp, net), m, src),                  \* the other form of the same key
     VerifyInv(net, sig, AddrTok("addr", OtherKey(k), comp, net), m, src),         \* another key
     VerifyInv(net, sig, own, OtherMsg(m), src),                                   \* another message
     VerifyInv(net, sig, NoAddr, OtherMsg(m), src),
     VerifyInv(OtherMagicNet(net), sig, AddrTok("addr", k, comp, OtherMagicNet(net)), m, src),   \* another magic
     VerifyInv(SameMagicNet(net), sig, AddrTok("addr", k, comp, SameMagicNet(net)), m, src),     \* same magic, that network's address
     VerifyInv(net, sig, AddrTok("addr", k, comp, OtherMagicNet(net)), m, src),    \* another network's address text
     VerifyInv(net, sig, AddrTok("garbage", 0, FALSE, ""), m, src) >>
SignKeys == {t \in (1..Len(MsgNets)) \X (1..NK) \X BOOLEAN \X (1..NM) \X {"m", "i", "stdin"} :
               Full \/ (t[1] = 1 /\ t[5] # "stdin" /\ (t[4] \in {2, 4} \/ (t[2] = 1 /\ t[3]))) \/ (t[2] = 1 /\ t[4] = 3 /\ t[5] = "stdin") \/ (t[2] = 2 /\ t[4] = 2 /\ t[5] = "m")}
SignSessions == {SignSession(MsgNets[t[1]], t[2], t[3], t[4], t[5]) : t \in SignKeys}
\* arguments that denote no signing key / no subcommand / no readable message
RefusedMsg ==
  { <<SignInv("BTC", WifTok(c, 1, TRUE, "BTC"), 2, "m")>> : c \in {"garbage", "address"} }
  \cup { <<SignInv(n[1], WifTok("wif", 1, n[3], n[2]), 2, "m")>> : n \in {<<"BTC", "XTN", TRUE>>, <<"XTN", "BTC", FALSE>>, <<"LTC", "BTC", TRUE>>} }
  \cup { <<[SignInv("BTC", WifTok("wif", 1, TRUE, "BTC"), 2, s) EXCEPT !.sub = sub]>> : s \in {"both", "nofile"}, sub \in {"sign"} }
  \cup { <<[SignInv("BTC", WifTok("wif", 1, TRUE, "BTC"), 2, "m") EXCEPT !.sub = "none"]>> }
  \cup { <<VerifyInv("BTC", SigTok(1, TRUE, "BTC", Msgs[2]), NoAddr, 2, s)>> : s \in {"both", "nofile"} }
\* signatures the command did not make itself: the library's verdict on every class of MsgSign
SigClasses == << "hdr_range", "r_zero", "r_ge_n", "s_zero", "s_ge_n", "x_ge_p", "no_point", "q_inf", "not_base64", "wrong_length" >>
ClassHeaders(cls) == IF cls = "hdr_range" THEN {26, 35}
                     ELSE IF cls = "x_ge_p" THEN {29, 34}
                     ELSE IF cls \in {"not_base64", "wrong_length"} THEN {27}
                     ELSE IF Full THEN 27..34 ELSE {27, 32}
ForeignSessions ==
  { <<VerifyInv("BTC", BadSigTok(SigClasses[c], h), a, 2, "m")>> :
       c \in 1..Len(SigClasses), h \in 26..35, a \in {NoAddr, AddrTok("addr", 1, TRUE, "BTC")} }
OkForeign ==
  { <<VerifyInv(n, SigTok(k, comp, n, Msgs[m]), AddrTok("addr", k, comp, n), m, "m"),
      VerifyInv(n, SigTok(k, comp, n, Msgs[m]), NoAddr, OtherMsg(m), "m")>> :
       n \in ToSet(MsgNets), k \in 1..NK, comp \in BOOLEAN, m \in (IF Full THEN 1..NM ELSE {2, 6}) }
MsgSessions == SignSessions \cup RefusedMsg \cup OkForeign
               \cup {s \in ForeignSessions : s[1].sig.h \in ClassHeaders(s[1].sig.cls)}

(* ==================================================================== keychain *)
KTok(cls, r, form) == [cls |-> cls, r |-> r, form |-> form]
KInv(g, keys, m) == [cmd |-> "keychain", net |-> "BTC", range |-> g, keys |-> keys, m |-> m]
BadRanges == << <<"0", "-">>, <<"a">>, <<"1", "/", "/", "2">>, <<"0", ",">>, <<"2", "1", "4", "7", "4", "8", "3", "6", "4", "8">> >>
KeyLists == << <<KTok("hd", "A", "pub")>>, <<KTok("hd", "A", "prv")>>, <<KTok("hd", "B", "pub")>>,
               <<KTok("hd", "A", "pub"), KTok("hd", "C", "pub")>>, <<KTok("hd", "C", "prv"), KTok("hd", "A", "pub")>>,
               <<KTok("hd", "A", "pub"), KTok("hd", "B", "pub")>>, <<KTok("hd", "B", "prv"), KTok("hd", "A", "prv"), KTok("hd", "C", "pub")>> >>
BadKeyLists == << <<KTok("garbage", "", "pub")>>, <<KTok("hd", "A", "pub"), KTok("wif", "P", "prv")>>,
                  <<KTok("othernet", "A", "pub")>>, <<KTok("hd", "C", "prv"), KTok("garbage", "", "pub")>> >>
Upgrade(keys) == [i \in 1..Len(keys) |-> [keys[i] EXCEPT !.form = "prv"]]
GoodFirst == { KInv(URanges[g], KeyLists[l], m) : g \in 1..Len(URanges), l \in 1..Len(KeyLists), m \in 0..2 }
FirstSel(i) == Full \/ i.m = 0 \/ (i.range = URanges[1] /\ Len(i.keys) <= 2) \/ (i.range = URanges[2] /\ Len(i.keys) = 3)
Seconds(i) ==
  { i,                                                              \* the same again
    [i EXCEPT !.keys = Upgrade(i.keys)],                            \* the private forms of the same roots
    KInv(URanges[1], KeyLists[3], 0),                               \* B over 0-1: the keys A reaches over 0/0-1
    KInv(URanges[3], KeyLists[1], 0),                               \* refused: hardened step from a public root
    KInv(i.range, BadKeyLists[1], i.m),                             \* refused: no key
    KInv(BadRanges[1], i.keys, 0),                                  \* refused: no range
    KInv(i.range, i.keys, Len(i.keys) + 1) }                        \* refused: more signatures than keys
KcSessions ==
  { <<i, i>> : i \in {x \in GoodFirst : FirstSel(x) /\ KcClassify(x) \in {"", "sigcount", "hardened-from-public"}} }
  \cup UNION { { <<i, j>> : j \in Seconds(i) } : i \in {x \in GoodFirst : FirstSel(x) /\ KcClassify(x) = ""} }
  \cup { <<KInv(BadRanges[b], KeyLists[1], 0)>> : b \in 1..Len(BadRanges) }
  \cup { <<KInv(URanges[1], BadKeyLists[b], 0)>> : b \in 1..Len(BadKeyLists) }
  \cup { <<KInv(URanges[3], KeyLists[2], 0), KInv(URanges[3], KeyLists[1], 0), KInv(URanges[4], KeyLists[1], 1)>> }

(* ======================================================================= coinc *)
Op(nm) == [k |-> "op", name |-> nm, d |-> <<>>]
Data(len, first, fill) == [k |-> "data", name |-> "", d |-> DS!Blob(len, first, fill)]
Raw(bs) == [k |-> "raw", name |-> "", d |-> DS!RFromSeq(bs)]
BadItem(cls) == [k |-> "bad", name |-> cls, d |-> <<>>]
OpNames == {"OP_0", "OP_1NEGATE", "OP_1", "OP_16", "OP_NOP", "OP_IF", "OP_ENDIF", "OP_RETURN", "OP_DUP", "OP_EQUAL", "OP_EQUALVERIFY",
            "OP_HASH160", "OP_HASH256", "OP_CHECKSIG", "OP_CHECKMULTISIG", "OP_NOP1", "OP_NOP2", "OP_CHECKLOCKTIMEVERIFY", "OP_NOP3",
            "OP_CHECKSEQUENCEVERIFY", "OP_NOP10", "OP_INVALIDOPCODE", "OP_RESERVED", "OP_VERIF"}
OpsSmall == {"OP_0", "OP_DUP", "OP_CHECKSIG", "OP_NOP2", "OP_16"}
DataItems == { Data(t[1], t[2], t[3]) : t \in {<<0, 0, 0>>, <<1, 0, 0>>, <<1, 5, 0>>, <<1, 16, 0>>, <<1, 17, 0>>, <<1, 129, 0>>, <<1, 128, 0>>,
                                               <<2, 171, 205>>, <<20, 117, 30>>, <<33, 2, 121>>, <<75, 1, 2>>, <<76, 1, 2>>,
                                               <<255, 7, 7>>, <<256, 7, 8>>, <<520, 9, 9>>, <<65535, 1, 0>>, <<65536, 1, 0>>} }
DataSmall == { Data(0, 0, 0), Data(1, 5, 0), Data(20, 117, 30), Data(76, 1, 2) }
RawItems == { Raw(<<170>>), Raw(<<76, 0>>), Raw(<<76>>), Raw(<<1>>), Raw(<<186>>), Raw(<<1, 5>>), Raw(<<77, 1, 0, 9>>), Raw(<<>>) }
BadItems == { BadItem(c) : c \in {"unknown_name", "badhex_bracket", "oddhex_bracket", "badhex_0x", "oddhex_0x"} }
Singles7 == {Op(nm) : nm \in OpNames} \cup DataItems \cup RawItems \cup BadItems \cup {[k |-> "lower", name |-> "OP_DUP", d |-> <<>>]}
Small7 == {Op(nm) : nm \in OpsSmall} \cup DataSmall \cup {Raw(<<76, 0>>)}
H20 == Data(20, 117, 30)
Templates == { <<Op("OP_DUP"), Op("OP_HASH160"), H20, Op("OP_EQUALVERIFY"), Op("OP_CHECKSIG")>>,
               <<Op("OP_HASH160"), H20, Op("OP_EQUAL")>>,
               <<Op("OP_1"), Data(33, 2, 121), Data(33, 3, 121), Op("OP_16"), Op("OP_CHECKMULTISIG")>>,
               <<Op("OP_RETURN"), Data(80, 1, 1)>>, <<Raw(<<170>>)>>, <<>> }
CInv(net, texts) == [cmd |-> "coinc", net |-> net, texts |-> texts]
CoincNets == {"BTC", "XTN", "LTC", "DOGE"}
CoincSessions ==
  { <<CInv("BTC", <<<<it>>>>)>> : it \in Singles7 }
  \cup { <<CInv("BTC", <<<<a, b>>>>)>> : a \in Small7, b \in Small7 }
  \cup (IF Full THEN { <<CInv("BTC", <<<<a, b, c>>>>)>> : a \in Small7, b \in Small7, c \in Small7 } ELSE {})
  \cup { <<CInv(n, <<t>>)>> : n \in CoincNets, t \in Templates }
  \cup { <<CInv("BTC", <<t, u>>)>> : t \in Templates, u \in {<<Op("OP_1")>>, <<BadItem("unknown_name")>>} }

(* ======================================================================= block *)
Asc(from) == BW!Lit([i \in 1..32 |-> from + i - 1])
Vals == << <<0, 0>>, <<1, 0>>, <<255, 0>>, <<256, 0>>, <<65535, 0>>, <<0, 1>>, <<65535, 32767>>, <<0, 32768>>, <<65535, 65535>>, <<513, 1027>> >>
\* times around the calendar's corners: epoch, a leap day, end of a century year, 2038, the last second
Times == << <<0, 0>>, <<24301, 19739>>, <<3071, 14523>>, <<3072, 14523>>, <<17279, 14445>>, <<8063, 62676>>, <<65535, 32767>>, <<0, 32768>>, <<65535, 65535>>, <<49023, 25854>>, <<33023, 1041>>, <<33024, 1041>> >>
BaseH == [version |-> <<1, 0>>, prev |-> BW!B(Asc(0)), root |-> BW!B(Asc(100)),
          time |-> <<24301, 19739>>, bits |-> <<65535, 7424>>, nonce |-> <<4660, 31787>>]
Headers == { [BaseH EXCEPT !.version = Vals[i]] : i \in 1..Len(Vals) } \cup { [BaseH EXCEPT !.time = Times[i]] : i \in 1..Len(Times) }
           \cup { [BaseH EXCEPT !.bits = Vals[i]] : i \in 1..Len(Vals) } \cup { [BaseH EXCEPT !.nonce = Vals[i]] : i \in 1..Len(Vals) }
           \cup { [BaseH EXCEPT !.prev = BW!B(BW!Run(255, 32)), !.root = BW!B(BW!Cat(BW!Lit(<<1>>), BW!Run(0, 31)))] }
BT(k, sw) ==
  [version |-> <<k, 0>>,
   ins |-> << [hash |-> BW!Run(k % 251, 32), index |-> <<k, 0>>, script |-> <<>>, seq |-> <<65534, 65535>>,
               wit |-> IF sw THEN << BW!Lit(<<k % 256, 7>>) >> ELSE <<>>] >>
           \o (IF k = 3 THEN << [hash |-> BW!Run(9, 32), index |-> <<1, 0>>, script |-> BW!Lit(<<81>>), seq |-> <<65535, 65535>>, wit |-> <<>>] >> ELSE <<>>),
   outs |-> [j \in 1..(IF k = 2 THEN 2 ELSE 1) |-> [amount |-> <<k, 0, 1, 0>>, script |-> BW!Lit(<<81>>)]],
   lock |-> <<k, 0>>]
BTxs(n, sw) == [k \in 1..n |-> BT(k, CASE sw = "none" -> FALSE [] sw = "second" -> k = 2 [] sw = "all" -> k > 1)]
TxShapes == {<<1, "none">>, <<2, "none">>, <<2, "second">>, <<3, "all">>, <<3, "second">>}
             \cup (IF Full THEN {<<5, "all">>, <<8, "none">>} ELSE {})
BFile(h, txs, honest, dmg, cut) == [h |-> h, txs |-> txs, honest |-> honest, dmg |-> dmg, cut |-> cut]
BInv(files) == [cmd |-> "block", net |-> "BTC", files |-> files]
Cuts(h, txs) == {0, 1, 4, 79, 80, 81, 85, BlockSize(h, txs) - 5, BlockSize(h, txs) - 1}
BlockSessions ==
  { <<BInv(<<BFile(h, BTxs(1, "none"), TRUE, "none", 0)>>)>> : h \in Headers }
  \cup { <<BInv(<<BFile(BaseH, BTxs(t[1], t[2]), hon, "none", 0)>>)>> : t \in TxShapes, hon \in BOOLEAN }
  \cup UNION { { <<BInv(<<BFile(BaseH, BTxs(t[1], t[2]), TRUE, "cut", c)>>)>> : c \in {x \in Cuts(BaseH, BTxs(t[1], t[2])) : x < BlockSize(BaseH, BTxs(t[1], t[2]))} } :
               t \in {<<1, "none">>, <<3, "all">>} }
  \cup { <<BInv(<<BFile(BaseH, BTxs(t[1], t[2]), TRUE, "trail", c)>>)>> : t \in {<<1, "none">>, <<2, "second">>}, c \in {1, 100} }
  \cup { <<BInv(<<BFile(BaseH, <<>>, FALSE, "missing", 0)>>)>> }
  \cup { <<BInv(<<BFile(BaseH, BTxs(1, "none"), TRUE, "none", 0), BFile(BaseH, BTxs(3, "all"), TRUE, "none", 0)>>)>>,
         <<BInv(<<BFile(BaseH, BTxs(1, "none"), TRUE, "none", 0), BFile(BaseH, BTxs(1, "none"), TRUE, "cut", 50)>>)>> }

(* ========================================================================= b58 *)
Text7(t) == [cls |-> "text", t |-> t, p |-> <<>>]
Checked7(p) == [cls |-> "checked", t |-> <<>>, p |-> p]
B58Texts == { <<>>, <<48,48>>, <<48,48,48,48>>, <<54,49>>, <<102,102>>, <<70,70>>, <<48,48,102,102>>, <<97,66>>,
              [i \in 1..40 |-> IF i % 2 = 1 THEN 48 + ((i \div 2) % 10) ELSE 97 + ((i \div 2) % 6)],
              <<49,49>>, <<97,98,99,100>>, <<49,49,49,49>>,                                      \* hex and Base58 at once
              <<97,98,99>>, <<122>>, <<49>>, <<49,49,49>>, <<50,103>>, <<83,116,86,49,68,76,54,67,119,84,114,121,75,121,86>>,
              [i \in 1..10 |-> 122], <<49,49,122>>, <<49,65,49>>,
              <<48>>, <<79,48>>, <<108>>, <<97,98,79>>, <<32>>, <<233>>, <<97,98,99,48,49>> }
B58Payloads == { <<>>, <<0>>, <<0, 0, 7>>, <<255>>, [i \in 1..21 |-> IF i = 1 THEN 0 ELSE 16 + i], [i \in 1..21 |-> IF i = 1 THEN 5 ELSE 200 + i] }
               \cup (IF Full THEN { [i \in 1..n |-> (i * 37) % 256] : n \in 1..40 } ELSE {})
BToks == {Text7(t) : t \in B58Texts} \cup {Checked7(p) : p \in B58Payloads}
B58Inv(toks, b) == [cmd |-> "b58", toks |-> toks, b |-> b]
B58Sessions == { <<B58Inv(<<t>>, b)>> : t \in BToks, b \in BOOLEAN }
               \cup { <<B58Inv(<<Text7(<<48,48>>), t>>, FALSE)>> : t \in {Text7(<<97,98,99>>), Text7(<<48>>), Checked7(<<0>>)} }

(* ================================================================ the sessions *)
Sessions == CASE Cmd = "msg" -> MsgSessions
              [] Cmd = "keychain" -> KcSessions
              [] Cmd = "coinc" -> CoincSessions
              [] Cmd = "block" -> BlockSessions
              [] Cmd = "b58" -> B58Sessions
SesSeq == SetToSeq(Sessions)
NSes == Len(SesSeq)

VARIABLE c7i      \* which session this behaviour runs (dealt over a few initial states so that workers share the load)
Lanes == 16
Init == CInit /\ c7i \in 1..Lanes
Pick == \E j \in {x \in 1..NSes : x % Lanes = c7i % Lanes} : Begin(SesSeq[j]) /\ c7i' = j

Finish == /\ c7pc = "done" /\ c7k # 0
          /\ c7k' = 0 /\ UNCHANGED <<c7ses, c7pc, c7cls, c7file, c7new, c7log, c7i>>
          /\ PrintT(ToJson([k |-> "ses", cmd |-> Cmd, id |-> c7i, log |-> [i \in 1..Len(c7log) |-> LogRec(c7log[i], c7ses)]]))
Stage == (Classify \/ Act \/ Report \/ Advance) /\ UNCHANGED c7i
Next == Pick \/ Stage \/ Finish
Spec == Init /\ [][Next]_<<c7vars, c7i>>

ASSUME PrintT(ToJson([k |-> "hdr", cmd |-> Cmd, n |-> NSes, names |-> IF Cmd = "coinc" THEN DS!AllNames ELSE {}]))
\* the calendar against known dates
ASSUME /\ IsoOf(<<0, 0>>) = "1970-01-01T00:00:00+00:00"
       /\ IsoOf(<<24301, 19739>>) = "2010-12-29T16:16:45+00:00"
       /\ IsoOf(<<3071, 14523>>) = "2000-02-28T23:59:59+00:00"
       /\ IsoOf(<<3072, 14523>>) = "2000-02-29T00:00:00+00:00"
       /\ IsoOf(<<17279, 14445>>) = "1999-12-31T23:59:59+00:00"
       /\ IsoOf(<<8063, 62676>>) = "2100-02-28T23:59:59+00:00"
       /\ IsoOf(<<65535, 32767>>) = "2038-01-19T03:14:07+00:00"
       /\ IsoOf(<<0, 32768>>) = "2038-01-19T03:14:08+00:00"
       /\ IsoOf(<<65535, 65535>>) = "2106-02-07T06:28:15+00:00"
       /\ IsoOf(<<49023, 25854>>) = "2023-09-11T07:19:27+00:00"
       /\ IsoOf(<<33023, 1041>>) = "1972-02-29T23:59:59+00:00"
       /\ IsoOf(<<33024, 1041>>) = "1972-03-01T00:00:00+00:00"
       /\ IsoOf(<<48733, 18790>>) = "2009-01-09T03:02:53+00:00"

Lemmas == /\ RefusalsAreClean /\ SignVerifyAgree /\ NoKeyNoVerdict
          /\ KcIdempotent /\ KcMonotone /\ KcExact /\ KcUpgrade
          /\ StagesAgree
LemmasDone == Done => ValueLemmas
\* vacuity guards: every ending occurs, and the interesting cases are among the sessions
Vacuity ==
  /\ \E s \in Sessions : Outcome(s[1]).st = "refuse"
  /\ \E s \in Sessions : Outcome(s[1]).st = "ok"
ASSUME Vacuity

\* model mutations (cfg substitutions) that must break a lemma: binding self-tests of the lemmas
\* the address comparison forgets the key form
BadMsgVerdict(inv, rc) == inv.addr.cls = "addr" /\ rc.ok /\ rc.Q = KeyQ(inv.addr.key) /\ SameAddrText(inv.addr.net, inv.net)
\* only the first key given is registered
BadKcFill(file, inv) ==
  LET ps == KcPaths(inv) IN
  [reg |-> file.reg \cup {<<inv.keys[1].r, ps[j], UKeyOf(inv.keys[1].r, ps[j])>> : j \in 1..Len(ps)}, scr |-> file.scr]
BadItemBytes(it) == IF it.k = "data" /\ DS!RLen(it.d) = 76 THEN DS!EncWith(77, it.d) ELSE
                    CASE it.k = "op" -> DS!ROne(DS!OpOfName(it.name)) [] it.k = "lower" -> DS!ROne(DS!OpOfName(it.name))
                      [] it.k = "data" -> DS!EncodePush(it.d) [] it.k = "raw" -> it.d [] OTHER -> <<>>
BadBlockSize(h, txs) == 80 + 1 + FoldLeft(LAMBDA acc, i : acc + BW!Size(BW!Stripped(txs[i])), 0, [i \in 1..Len(txs) |-> i])
=============================================================================
