----------------------------- MODULE X06_MC_Config -----------------------------
(* Model checking and spec -> code export for X06_Config: every history of at  *)
(* most MaxOps steps over two threads, two networks, a handful of environment  *)
(* values; every transition is printed with the behaviour that led to it and   *)
(* the answer demanded at each step.  The harness replays each with real       *)
(* threads, a real os.environ and fake provider objects.  Trace mode (TRACE    *)
(* set in the environment): recorded histories are read from TRACE_FILE and    *)
(* each logged answer must be the one the action yields.                       *)
EXTENDS X06_Config, Json, IOUtils

CONSTANT MaxOps
MCThreads == {"T1", "T2"}
MCThreads3 == {"T1", "T2", "T3"}
MCNets == {"BTC", "XTN"}
MCDescr == [bci |-> "BlockchainInfoProvider", bcy |-> "BlockcypherProvider", bex |-> "BlockExplorerProvider",
            cso |-> "ChainSoProvider", ins |-> "InsightProvider", btg |-> "BTGExpProvider"]
MCKindInfo == [BlockchainInfoProvider |-> [tx |-> TRUE, sp |-> TRUE], BlockcypherProvider |-> [tx |-> TRUE, sp |-> TRUE],
               BlockExplorerProvider |-> [tx |-> TRUE, sp |-> FALSE], ChainSoProvider |-> [tx |-> TRUE, sp |-> TRUE],
               InsightProvider |-> [tx |-> TRUE, sp |-> TRUE], BTGExpProvider |-> [tx |-> TRUE, sp |-> FALSE]]
MCWords == {"bci", "bcy", "bex", "cso", "ins", "btg", "junk", "junk2"}
MCEnvStrings == {<<>>, <<"bci">>, <<"bex", "junk", "cso">>, <<"ins", "btg", "bcy", "bci">>, <<"junk2">>, <<"bex", "btg">>}
MCDirLists == {<<>>, <<"d1">>, <<"d2", "", "d1">>, <<"", "d3", "d1", "d2">>}
MCCacheVals == {"", "c1", "c2"}
Fake(id, tx, sp) == [id |-> id, kind |-> "fake", tx |-> tx, sp |-> sp]
MCLists == {<<>>, <<Fake(1, TRUE, TRUE)>>, <<Fake(2, FALSE, TRUE), Fake(3, TRUE, FALSE)>>,
            <<Fake(4, TRUE, FALSE), Fake(5, FALSE, FALSE), Fake(6, TRUE, TRUE)>>, <<Fake(7, FALSE, TRUE)>>}

VARIABLES acts, tid, l, fin          \* tid, l, fin: only used in trace mode
mcvars == <<cvars, acts, tid, l, fin>>
Log == acts' = Append(acts, last')
Emit == PrintT(ToJson([k |-> "beh", acts |-> acts']))
MCInit == CInit /\ acts = <<>> /\ tid = 0 /\ l = 0 /\ fin = FALSE
MCNext == /\ n < MaxOps
          /\ \/ \E c \in CacheVals : SetCache(c)
             \/ \E dl \in DirLists : SetDirs(dl)
             \/ \E x \in Nets : \E ws \in EnvStrings : SetProv(x, ws)
             \/ \E th \in Threads : \E x \in Nets : \E lst \in Lists : SetDefault(th, x, lst)
             \/ \E th \in Threads : \E x \in Nets : GetDefault(th, x)
             \/ \E th \in Threads : \E x \in Nets : MakeDb(th, x)
          /\ Log /\ UNCHANGED <<tid, l, fin>>
MCNextE == MCNext /\ Emit
CView == <<env, tl, n>>
CViewM == <<env, tl, n, last>>
PIsolated == [][\A th \in Threads : \A x \in Nets :
                 (last'.op \in {"setdefault", "getdefault", "makedb"} /\ last'.th # th) => tl'[th][x] = tl[th][x]]_mcvars
ASSUME ParseLemma

\* ---- trace mode
Traces == IF "TRACE_FILE" \in DOMAIN IOEnv THEN JsonDeserialize(IOEnv.TRACE_FILE) ELSE <<>>
tcvars == <<cvars, acts, tid, l, fin>>
Ev == Traces[tid]
Cur == Ev[l]
TInit == tid \in 1..Len(Traces) /\ l = 1 /\ fin = FALSE /\ CInit /\ acts = <<>>
Progress == IF "X06_PROGRESS" \in DOMAIN IOEnv THEN IOEnv.X06_PROGRESS = "1" ELSE FALSE
TStep == /\ l' = l + 1 /\ UNCHANGED <<tid, fin, acts>>
         /\ (Progress => PrintT(ToJson([k |-> "step", tid |-> tid, l |-> l])))
Open == l <= Len(Ev) /\ ~fin
TSetCache == Open /\ Cur.op = "setcache" /\ SetCache(Cur.c) /\ TStep
TSetDirs == Open /\ Cur.op = "setdirs" /\ SetDirs(Cur.dl) /\ TStep
TSetProv == Open /\ Cur.op = "setprov" /\ SetProv(Cur.net, Cur.ws) /\ TStep
TSetDefault == Open /\ Cur.op = "setdefault" /\ SetDefault(Cur.th, Cur.net, Cur.lst) /\ TStep
TGetDefault == /\ Open /\ Cur.op = "getdefault" /\ GetDefault(Cur.th, Cur.net)
               /\ last'.lst = Cur.lst /\ last'.same = Cur.same /\ Len(last'.warned) = Cur.warned /\ TStep
TMakeDb == /\ Open /\ Cur.op = "makedb" /\ MakeDb(Cur.th, Cur.net)
           /\ last'.store = Cur.store /\ last'.msg_cache = Cur.msg_cache /\ last'.msg_tx = Cur.msg_tx /\ last'.msg_sp = Cur.msg_sp
           /\ TStep
TDone == /\ l = Len(Ev) + 1 /\ ~fin /\ fin' = TRUE /\ UNCHANGED <<cvars, acts, tid, l>>
         /\ PrintT(ToJson([k |-> "acc", tid |-> tid]))
TNext == TSetCache \/ TSetDirs \/ TSetProv \/ TSetDefault \/ TGetDefault \/ TMakeDb \/ TDone
TSpec == TInit /\ [][TNext]_tcvars
ASSUME PrintT(ToJson([k |-> "hdr", n |-> Len(Traces)]))
=============================================================================
