CONSTANTS P = 251  A = 1  B = 25  Gx = 0  Gy = 5  N = 241  MaxM = 252
SPECIFICATION Spec
CHECK_DEADLOCK FALSE
