SPECIFICATION TSpec
INVARIANT AtMost
CHECK_DEADLOCK FALSE
