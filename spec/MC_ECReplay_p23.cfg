CONSTANTS P = 23  A = 1  B = 19  Gx = 2  Gy = 11  N = 19  MaxM = 24
SPECIFICATION Spec
CHECK_DEADLOCK FALSE
