---------------------------- MODULE X02_Annotate ----------------------------
(* X02 (b): the annotated disassembly of an input is a PROJECTION of the      *)
(* evaluation the consensus interpreter performs on it.                       *)
(*                                                                            *)
(* VerifyScript.tla (C03) evaluates a spend as a sequence of Advance steps    *)
(* through scriptSig, scriptPubKey, P2SH redeem script and witness script.    *)
(* This module walks that very sequence and keeps, of every interpreter       *)
(* instruction stepped into, what a disassembly line shows:                   *)
(*    pc (offset in the script being run), opcode, the data it pushes,        *)
(*    which script (phase) it belongs to                                      *)
(* and, of every signature-checking instruction that is EXECUTED, which stack *)
(* items it consumes as public keys and which as signatures (the items an     *)
(* annotation may label "SEC for ..." / "r: s: z: sig for ...").              *)
(*                                                                            *)
(*   exec : the rows of the instructions carried out, in execution order      *)
(*   fail : the row of the instruction at which the evaluation failed, if it  *)
(*          failed at an instruction (0 or 1 rows)                            *)
(*   rest : the instructions never reached, read statically: the remainder of *)
(*          the script that failed and - if that was the scriptSig - the      *)
(*          whole scriptPubKey.  Nothing can be said statically about a       *)
(*          redeem / witness script that was never reached.  A malformed push *)
(*          ends a script: nothing after it is an instruction.                *)
(* A truthful listing is exec, then possibly a prefix of fail \o rest:        *)
(* never an instruction at an offset where the script has none, never one out *)
(* of order, never one twice.                                                 *)
EXTENDS VerifyScript

DA == INSTANCE Disasm          \* the opcode names (Bitcoin Core's script.h), property C12's table

----------------------------------------------------------------------------
(* one disassembly row *)
\* the data an instruction pushes: a sequence of 0 or 1 byte strings ("none" is not "the empty string")
PushedData(d) == IF ~d.ok THEN <<>>
                 ELSE IF d.op <= OP_PUSHDATA4 THEN <<d.data>>
                 ELSE IF d.op = OP_1NEGATE THEN << <<129>> >>
                 ELSE IF d.op >= OP_1 /\ d.op <= OP_16 THEN << <<d.op - 80>> >>
                 ELSE <<>>
\* how the instruction may be written: a word opcode by (one of) its names; a data push by its bytes -
\* or, when it pushes exactly what OP_1 .. OP_16 push, by the name of that opcode
WordNames(d) == IF d.op >= 1 /\ d.op <= OP_PUSHDATA4 THEN {} ELSE DA!Names(d.op)
PushAlias(d) == IF d.ok /\ d.op >= 1 /\ d.op <= OP_PUSHDATA4 /\ Len(d.data) = 1 /\ d.data[1] >= 1 /\ d.data[1] <= 16
                THEN DA!Names(80 + d.data[1]) ELSE {}
RowOf(script, pc, phase) ==
    LET d == Decode(script, pc)
    IN [pc |-> pc - 1, op |-> d.op, data |-> PushedData(d), ok |-> d.ok, phase |-> phase,
        ispush |-> d.op >= 1 /\ d.op <= OP_PUSHDATA4, names |-> WordNames(d), alias |-> PushAlias(d), next |-> d.next]

\* the instructions of a script read statically from pc on
RECURSIVE StaticFrom(_, _, _)
StaticFrom(s, pc, phase) ==
    IF pc > Len(s) THEN <<>>
    ELSE LET r == RowOf(s, pc, phase) IN
         IF ~r.ok THEN <<r>> ELSE <<r>> \o StaticFrom(s, r.next, phase)

----------------------------------------------------------------------------
(* which stack items an executed signature-checking instruction consumes *)
NoRoles == [keys |-> {}, sigs |-> {}]
IsSigOp(op) == op \in {OP_CHECKSIG, OP_CHECKSIGVERIFY, OP_CHECKMULTISIG, OP_CHECKMULTISIGVERIFY}
Roles(vm, env, d) ==
    LET st == vm.stack  sz == Len(st) IN
    IF ~(d.ok /\ IsSigOp(d.op) /\ FExec(vm)) THEN NoRoles
    ELSE IF d.op \in {OP_CHECKSIG, OP_CHECKSIGVERIFY}
    THEN IF sz < 2 THEN NoRoles ELSE [keys |-> {Top(st, 1)}, sigs |-> {Top(st, 2)}]
    ELSE \* the operands as ExecCheckMultiSig reads them; a count that cannot be read names nothing
         IF sz < 1 \/ ~NumOK(Top(st, 1), Minimal(env), 4) THEN NoRoles
         ELSE LET nk == NumDec(Top(st, 1)) IN
         IF nk.neg \/ MagNat(nk.mag) > 20 THEN NoRoles
         ELSE LET nKeys == MagNat(nk.mag) IN
         IF sz < nKeys + 2 \/ ~NumOK(Top(st, nKeys + 2), Minimal(env), 4) THEN NoRoles
         ELSE LET ns == NumDec(Top(st, nKeys + 2)) IN
         IF ns.neg \/ MagNat(ns.mag) > nKeys THEN NoRoles
         ELSE LET nSigs == MagNat(ns.mag) IN
         IF sz < nKeys + nSigs + 3 THEN NoRoles
         ELSE [keys |-> {Top(st, 1 + i) : i \in 1..nKeys}, sigs |-> {Top(st, nKeys + 2 + i) : i \in 1..nSigs}]

----------------------------------------------------------------------------
(* the walk: VerifyScript's steps, with the listing accumulated *)
\* w = [st, exec, fail, keys, sigs, loose, cur]; cur = [phase, pc]: the first instruction not yet listed
StartWalk(sp) == [st |-> Start(sp), exec |-> <<>>, fail |-> <<>>, keys |-> {}, sigs |-> {},
                  loose |-> {},        \* stack items at a signature-checking instruction that FAILED: their labelling is left open
                  cur |-> [phase |-> "sig", pc |-> 1]]      \* (spends only: the walk starts in the scriptSig)
Stepping(w, sp) == w.st.status = "run" /\ w.st.vm.status = "run" /\ ~AtEnd(w.st.vm, EnvOf(w.st, sp))
WalkStep(w, sp) ==
    LET st == w.st
        st2 == Advance(st, sp)
    IN IF ~Stepping(w, sp)
       THEN \* a pipeline decision: the next script begins (or the verdict falls)
            [w EXCEPT !.st = st2,
                      !.cur = IF st2.phase # st.phase THEN [phase |-> st2.phase, pc |-> 1] ELSE @]
       ELSE LET vm == st.vm
                env == EnvOf(st, sp)
                d == Decode(st.script, vm.pc)
                row == RowOf(st.script, vm.pc, st.phase)
                ro == Roles(vm, env, d)
            IN IF st2.vm.status = "need" THEN [w EXCEPT !.st = st2]          \* an oracle entry is missing: the harness supplies it
               ELSE IF st2.vm.status = "fail"
               THEN [w EXCEPT !.st = st2, !.fail = <<row>>, !.cur = [phase |-> st.phase, pc |-> row.next],
                              !.loose = IF d.ok /\ IsSigOp(d.op) THEN ToSet(vm.stack) ELSE {}]
               ELSE [w EXCEPT !.st = st2, !.exec = Append(@, row), !.cur = [phase |-> st.phase, pc |-> row.next],
                              !.keys = @ \cup ro.keys, !.sigs = @ \cup ro.sigs]
WalkDone(w) == w.st.status # "run"

\* the verdict of a finished walk
Rest(w, sp) == IF w.st.status # "fail" THEN <<>>
               ELSE IF w.cur.phase = "sig" THEN StaticFrom(sp.sig, w.cur.pc, "sig") \o StaticFrom(sp.pk, 1, "pk")
               ELSE IF w.cur.phase = "pk" THEN StaticFrom(sp.pk, w.cur.pc, "pk")
               ELSE <<>>
Strip(rows) == [i \in 1..Len(rows) |-> [pc |-> rows[i].pc, op |-> rows[i].op, data |-> rows[i].data, ok |-> rows[i].ok,
                                        phase |-> rows[i].phase, ispush |-> rows[i].ispush, names |-> rows[i].names,
                                        alias |-> rows[i].alias]]
ListingOf(w, sp) == [status |-> w.st.status, err |-> w.st.err, need |-> w.st.need, endphase |-> w.cur.phase,
                     exec |-> Strip(w.exec), fail |-> Strip(w.fail), rest |-> Strip(Rest(w, sp)),
                     keys |-> w.keys, sigs |-> w.sigs, loose |-> w.loose]

\* run to the end (short scripts; long ones are walked one TLC state per step)
RECURSIVE WalkFrom(_, _)
WalkFrom(w, sp) == IF WalkDone(w) THEN w ELSE WalkFrom(WalkStep(w, sp), sp)
Listing(sp) == LET w == WalkFrom(StartWalk(sp), sp) IN ListingOf(w, sp)

----------------------------------------------------------------------------
(* acceptance of a reported listing (code -> spec) *)
\* rep: the rows as reported, records with (at least) pc, op and - for TextOK - shown (the bytes the text of the
\* row displays: <<>> when it displays a word, <<bytes>> when it displays data) and text; L: the listing demanded
SameRow(a, r) == a.pc = r.pc /\ a.op = r.op
\* how a row may be written (see WordNames / PushAlias)
\* (a push of the empty string has no bytes to show)
TextOK(a, r) == IF r.ispush THEN a.shown = r.data \/ (a.shown = <<>> /\ (a.text \in r.alias \/ r.data = << <<>> >>))
                ELSE a.shown = <<>> /\ (r.names = {} \/ a.text \in r.names)
Full(L) == L.exec \o L.fail \o L.rest
Accepts(L, rep) ==
    /\ Len(rep) >= Len(L.exec) /\ Len(rep) <= Len(Full(L))
    /\ \A i \in 1..Len(rep) : SameRow(rep[i], Full(L)[i])
\* first row that is wrong (0: none; Len + 1: rows are missing)
FirstBad(L, rep) ==
    LET F == Full(L)
        bad == {i \in 1..Len(rep) : i > Len(F) \/ ~SameRow(rep[i], F[i])}
    IN IF bad # {} THEN CHOOSE i \in bad : \A j \in bad : i <= j
       ELSE IF Len(rep) < Len(L.exec) THEN Len(rep) + 1 ELSE 0

\* rows (before the first wrong one) whose text misstates the instruction
TextBad(L, rep) == LET fb == FirstBad(L, rep)
                       n == IF fb = 0 THEN Len(rep) ELSE fb - 1
                   IN {i \in 1..n : ~TextOK(rep[i], Full(L)[i])}
\* labels: rep[i].sec / rep[i].sig say whether the row is annotated as public key / as signature.  An item is
\* labelled as a key iff an executed signature check consumes it as one; nothing is labelled as a signature that no
\* executed signature check consumes as one (items on the stack of a signature check that FAILED are left open)
\* (rows never reached push nothing: no label is demanded of them, none is excluded - labels go by the VALUE pushed)
RoleBad(L, rep) == LET fb == FirstBad(L, rep)
                       n0 == IF fb = 0 THEN Len(rep) ELSE fb - 1
                       n == IF n0 < Len(L.exec) + Len(L.fail) THEN n0 ELSE Len(L.exec) + Len(L.fail)
                       F == Full(L)
                   IN {i \in 1..n : /\ F[i].data # <<>> /\ F[i].data[1] \notin L.loose
                                     /\ \/ rep[i].sec # (F[i].data[1] \in L.keys)
                                        \/ (rep[i].sig /\ F[i].data[1] \notin L.sigs)}

----------------------------------------------------------------------------
(* Lemmas (TLC: X02_MC_Annotate*.cfg) *)
Pcs(rows, ph) == [i \in 1..Len(SelectSeq(rows, LAMBDA r : r.phase = ph)) |-> SelectSeq(rows, LAMBDA r : r.phase = ph)[i].pc]
Increasing(s) == \A i \in 1..(Len(s) - 1) : s[i] < s[i + 1]
Proj(rows) == [i \in 1..Len(rows) |-> <<rows[i].phase, rows[i].pc, rows[i].op, rows[i].data>>]
\* LA1 a spend that succeeds has executed everything: nothing fails, nothing is left
OkMeansComplete(L) == L.status = "ok" => L.fail = <<>> /\ L.rest = <<>>
\* LA2 dynamic = static: whatever the verdict, the rows carried out in scriptSig / scriptPubKey, the failing row and the
\*     rows never reached are together exactly the static reading of scriptSig followed by scriptPubKey - no instruction
\*     missing, none twice, none out of place
DynamicIsStatic(L, sp) ==
    L.status \in {"ok", "fail"} =>
        LET S == StaticFrom(sp.sig, 1, "sig") \o StaticFrom(sp.pk, 1, "pk")
            F == SelectSeq(Full(L), LAMBDA r : r.phase \in {"sig", "pk"})
        IN Proj(F) = Proj(S)
\* LA3 offsets grow within every script; scripts come in pipeline order
PhaseRank(ph) == CASE ph = "sig" -> 1 [] ph = "pk" -> 2 [] ph = "p2sh" -> 3 [] ph = "wit" -> 4 [] ph = "p2shwit" -> 4 [] OTHER -> 0
Ordered(L) == LET F == Full(L) IN
              /\ \A i \in 1..(Len(F) - 1) : PhaseRank(F[i].phase) <= PhaseRank(F[i + 1].phase)
              /\ \A ph \in {"sig", "pk", "p2sh", "wit", "p2shwit"} : Increasing(Pcs(F, ph))
\* LA4 only executed signature checks name keys and signatures
RolesOnlyFromSigOps(L) == (\A i \in 1..Len(L.exec) : ~IsSigOp(L.exec[i].op)) => L.keys = {} /\ L.sigs = {}
\* LA5 the listing demanded is accepted, and stays accepted when the optional tail is cut anywhere; it is rejected
\*     when two rows are swapped or one is dropped from the middle
Proj2(rows) == [i \in 1..Len(rows) |-> [pc |-> rows[i].pc, op |-> rows[i].op]]
AcceptsItself(L) == /\ Accepts(L, Proj2(Full(L)))
                    /\ \A n \in Len(L.exec)..Len(Full(L)) : Accepts(L, SubSeq(Proj2(Full(L)), 1, n))
=============================================================================
