CONSTANTS P = 83  A = 1  B = 7  Gx = 0  Gy = 16  N = 79
          SignZ = {1, 2, 3, 4, 5, 6, 7, 8, 9, 10, 11, 12, 13, 14, 15, 16, 17, 18, 19, 20, 78, 79, 80, 157, 158}  VerZ = {1, 78, 79, 80}  VerQ = {2, 3, 20, 40, 41, 60, 77, 78, 79}  RecZ = {1, 2, 78, 79, 80}
SPECIFICATION Spec
INVARIANT ReturnedVerifies
CHECK_DEADLOCK FALSE
