--------------------------- MODULE Trace_ScriptVM ---------------------------
(* Code -> spec binding for the interpreter: pycoin's own traceback hook logs *)
(* (pc, stack, altstack) before every instruction of a script run, plus the   *)
(* verdict and final stack.  The specification executes the same script and   *)
(* every logged snapshot must equal the specification's machine at that       *)
(* instruction; the verdict and the final stack must agree.  Once consensus   *)
(* has failed the script, further logged steps are ignored (the property      *)
(* binds verdict and final stack, not the order of error checks).             *)
EXTENDS VerifyScript, Json, IOUtils, TLCExt

Traces == JsonDeserialize(IOEnv.TRACE_FILE)
VARIABLES tid, l, st
tvars == <<tid, l, st>>
T == Traces[tid]
Case(c) == [kind |-> c.kind, sig |-> c.sig, pk |-> c.pk, wit |-> c.wit, stack |-> c.stack, sv |-> c.sv,
            flags |-> ToSet(c.flags), ctx |-> c.ctx, hashes |-> c.hashes, sigs |-> c.sigs, sigmode |-> c.sigmode]

TInit == /\ TLCSet(1, {})
         /\ tid \in 1..Len(Traces)
         /\ l = 1
         /\ st = Start(Case(Traces[tid].case))

AboutToExecute == st.status = "run" /\ st.vm.status = "run" /\ ~AtEnd(st.vm, EnvOf(st, Case(T.case)))
Snapshot == /\ T.steps[l].pc = st.vm.pc
            /\ T.steps[l].stack = st.vm.stack
            /\ T.steps[l].alt = st.vm.alt
TNext == /\ st.status = "run"
         /\ (AboutToExecute /\ l <= Len(T.steps)) => Snapshot
         /\ st' = Advance(st, Case(T.case))
         /\ l' = IF AboutToExecute /\ l <= Len(T.steps) THEN l + 1 ELSE l
         /\ UNCHANGED tid
TSpec == TInit /\ [][TNext]_tvars

Accepted == \/ st.status = "ok" /\ T.res = "ok" /\ T.out = st.stack /\ l = Len(T.steps) + 1
            \/ st.status = "fail" /\ T.res # "ok"
Reached == IF Accepted THEN TLCSet(1, TLCGet(1) \cup {tid}) ELSE TRUE
Post == PrintT(ToJson([k |-> "rejected", n |-> Len(Traces), ids |-> (1..Len(Traces)) \ TLCGet(1)]))
=============================================================================
