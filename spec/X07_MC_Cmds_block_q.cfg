CONSTANTS Cmd = "block"  Tier = "q"  U = "q"
SPECIFICATION Spec
INVARIANTS Lemmas LemmasDone
CHECK_DEADLOCK FALSE
