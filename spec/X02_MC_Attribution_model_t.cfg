CONSTANTS NK = 5  NM = 2  MaxPasses = 2  MaxSteps = 1  MaxInserts = 1  EditFrom = "any"  MutSet = "all"
          Shapes <- NoShapes  Coins <- AllCoins  HashTypes <- StdHashTypes  Cases <- CasesModelT
SPECIFICATION MSpec
INVARIANTS AttributionIsSigned CommitmentInvariance NoInvention RetagKills TransplantKills OpenOnlyInCorner ValidIffAttributed
PROPERTIES EditOnlyRemoves SigningOnlyAdds
CHECK_DEADLOCK FALSE
