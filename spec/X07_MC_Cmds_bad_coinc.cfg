CONSTANTS Cmd = "coinc"  Tier = "q"  U = "q"
CONSTANT ItemBytes <- BadItemBytes
SPECIFICATION Spec
INVARIANTS Lemmas LemmasDone
CHECK_DEADLOCK FALSE
