----------------------------- MODULE MC_Subpaths -----------------------------
(* Model check + replay export for Subpaths (C09).  The input string grows by *)
(* one TOKEN per step (a token is a short string, so that boundary numbers    *)
(* such as 2147483647 are reachable); the machine state is carried along and  *)
(* compared with the definition by splitting at every string.                 *)
EXTENDS Subpaths, Json
CONSTANTS Tokens,      \* set of sequences of characters
          MaxTok,      \* tokens per string
          MaxPaths     \* strings denoting more paths are not exported (still checked)
\* token sets for the configurations (a cfg file cannot write tuples)
T1 == { <<"0">>, <<"1">>, <<"7">>, <<"-">>, <<",">>, <<"/">>, <<"H">>, <<"p">>, <<"'">> }
TBig == { <<"2","1","4","7","4","8","3","6","4","7">>, <<"2","1","4","7","4","8","3","6","4","8">>,
          <<"1","6","7","7","7","2","1","6">>, <<"0","0","9">>, <<"x">>, <<".">> }
TokQ == T1 \cup TBig
TokT == T1 \cup TBig \cup { <<"2">>, <<"9">>, <<"1","0">> }
VARIABLES inp, st, ntok
vars == <<inp, st, ntok>>

Init == inp = <<>> /\ st = P0 /\ ntok = 0
Next == /\ ntok < MaxTok /\ st.ph # "bad"
        /\ \E t \in Tokens : /\ inp' = inp \o t
                             /\ st' = FoldLeft(Step, st, t)
        /\ ntok' = ntok + 1
Spec == Init /\ [][Next]_vars

Res == IF Accepting(st) THEN [ok |-> TRUE, comps |-> Comps(st)] ELSE [ok |-> FALSE, comps |-> <<>>]
Small == Res.ok /\ NumPaths(Res.comps) <= MaxPaths          \* only these are expanded
ResPaths == Expand(Res.comps)

\* the incremental machine is the fold, and the fold is the denotation
MachineIsFold == st = Run(inp)
MachineIsDenotation == Res = Denote(inp)
\* the three hardening marks are one spelling
SpellingIrrelevant == \A m \in HardMarks : Parse(Respell(inp, m)) = Res
\* number of paths = product over components of the number of alternatives; no range syntax => one path
CountLemma == /\ Small => Len(ResPaths) = NumPaths(Res.comps)
              /\ IsSinglePath(inp) => NumPaths(Res.comps) = 1
\* every path has one index per component, every index is a legal child number
Shape == Small => \A i \in 1..Len(ResPaths) :
            /\ Len(ResPaths[i]) = Len(Res.comps)
            /\ \A j \in 1..Len(ResPaths[i]) : ResPaths[i][j].v \in 0..MaxIndex /\ ResPaths[i][j].h \in BOOLEAN
BadIsSticky == st.ph = "bad" => ~Res.ok

Emit == LET acc == Accepting(st')
            small == acc /\ NumPaths(Comps(st')) <= MaxPaths IN
        (st'.ph # "bad" /\ (~acc \/ small)) =>
          PrintT(ToJson([k |-> "rng", s |-> inp', ok |-> acc,
                         paths |-> IF acc THEN Expand(Comps(st')) ELSE <<>>]))
=============================================================================
