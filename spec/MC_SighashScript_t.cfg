CONSTANTS Alphabet = {0, 1, 2, 76, 77, 171, 172}  MaxLen = 6
SPECIFICATION Spec
INVARIANTS WalkIsFilter Parsing Accounting Algebra PushIsAtomic
CHECK_DEADLOCK FALSE
