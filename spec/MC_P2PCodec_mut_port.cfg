CONSTANTS Tier = "q"  Emit = FALSE
CONSTANT PortBE <- PortLE
SPECIFICATION Spec
INVARIANT RoundTrip Widths Typed Truncated ByteOrder
CHECK_DEADLOCK FALSE
