------------------------------- MODULE ECRegs -------------------------------
(* A register machine over an elliptic-curve group, for C02 (limitation L1 of *)
(* DESIGN.md: 256-bit numbers cannot enter TLC).                              *)
(*                                                                            *)
(* Each register holds a point; its ABSTRACT value is the point's discrete    *)
(* logarithm written as a polynomial of total degree <= 2 in two symbols      *)
(* b1, b2 with small integer coefficients:                                    *)
(*      <<c, c1, c2, c11, c12, c22>>  =  c + c1*b1 + c2*b2 + c11*b1^2 + c12*b1*b2 + c22*b2^2 *)
(* TLC never needs the values of b1, b2 to run the machine: every action is a *)
(* ring operation on polynomials (the group of a curve of prime order N is    *)
(* Z/N as a Z-module, and scalar multiplication composes multiplicatively).   *)
(* Multipliers carry an extra multiple of the group order:  m*N + f  - which  *)
(* the abstract value ignores (N*Q = Inf), so unreduced, negative and k >= N  *)
(* scalars reach the implementation.                                          *)
(*                                                                            *)
(* Two uses:                                                                  *)
(*  Concrete = TRUE  (toy curves, MC_ECRegs_*.cfg): b1, b2 are the integers   *)
(*     B1, B2, registers also hold the real point computed with the formulas  *)
(*     of EC.tla, and TLC checks RegsRepresent: every register holds          *)
(*     eval(poly)*G.  This validates the polynomial bookkeeping itself.       *)
(*  Concrete = FALSE (production curves, Sim_ECRegs.cfg, tlc -simulate): only *)
(*     the polynomials are tracked; every behaviour is printed and executed   *)
(*     simultaneously on pure-Python secp256k1/secp256r1/BLS12-381, OpenSSL   *)
(*     secp256k1/secp256r1 and the affine reference, with b1, b2 concretized  *)
(*     as fixed 256-bit numbers; after every action all backends must hold    *)
(*     eval(poly)*G.                                                          *)
EXTENDS EC, Json, TLC

CONSTANTS R,          \* number of registers
          Concrete,   \* BOOLEAN, see above
          B1, B2,     \* values of the symbols when Concrete
          MaxCoef,    \* actions that would make a coefficient exceed this are disabled
          MaxSteps,
          Emit        \* BOOLEAN: print each complete behaviour (replay export)

VARIABLES sc,     \* 1..R -> polynomial            (abstract value)
          pt,     \* 1..R -> point of EC.tla       (only meaningful when Concrete)
          blind,  \* the generator's current blinding factor, a polynomial
          hist    \* the actions taken so far (for the export)
vars == <<sc, pt, blind, hist>>
Regs == 1..R

(* -------- polynomials of degree <= 2 in b1, b2 -------- *)
PZero == <<0, 0, 0, 0, 0, 0>>
PConst(c) == <<c, 0, 0, 0, 0, 0>>
PB1 == <<0, 1, 0, 0, 0, 0>>
PB2 == <<0, 0, 1, 0, 0, 0>>
PAdd(f, g) == [i \in 1..6 |-> f[i] + g[i]]
PNeg(f) == [i \in 1..6 |-> 0 - f[i]]
PSub(f, g) == PAdd(f, PNeg(g))
PDeg(f) == IF f[4] # 0 \/ f[5] # 0 \/ f[6] # 0 THEN 2
           ELSE IF f[2] # 0 \/ f[3] # 0 THEN 1 ELSE 0
\* product; only used when PDeg(f) + PDeg(g) <= 2, so no term of degree 3 or 4 arises
PMul(f, g) == << f[1] * g[1],
                 f[1] * g[2] + f[2] * g[1],
                 f[1] * g[3] + f[3] * g[1],
                 f[1] * g[4] + f[4] * g[1] + f[2] * g[2],
                 f[1] * g[5] + f[5] * g[1] + f[2] * g[3] + f[3] * g[2],
                 f[1] * g[6] + f[6] * g[1] + f[3] * g[3] >>
Abs(x) == IF x < 0 THEN 0 - x ELSE x
PBounded(f) == \A i \in 1..6 : Abs(f[i]) <= MaxCoef
\* value modulo N when the symbols are the integers B1, B2
PEval(f) == LET b1 == B1 % N   b2 == B2 % N
                t(c, v) == ((c % N) * (v % N)) % N
            IN ((f[1] % N) + t(f[2], b1) + t(f[3], b2) + t(f[4], b1 * b1) + t(f[5], b1 * b2) + t(f[6], b2 * b2)) % N

(* -------- multipliers  m*N + f -------- *)
SmallConsts == {-3, -2, -1, 0, 1, 2, 3, 5}
LinForms == {PB1, PB2, PAdd(PB1, PB2), PSub(PB1, PB2), PNeg(PB1), PAdd(PB2, PConst(1)), PSub(PB1, PConst(1)),
             PAdd(PB1, PB1)}
QuadForms == {PMul(PB1, PB1), PMul(PB1, PB2), PSub(PMul(PB2, PB2), PB1)}
MultForms == {PConst(c) : c \in SmallConsts} \cup LinForms
LoadForms == MultForms \cup QuadForms
OrderMults == {-1, 0, 1, 2}
KVal(m, f) == m * N + PEval(f)          \* Concrete only (PEval is already reduced; the harness passes m*N + the unreduced value)

Rec(op, i, j, dst, m, f) == [op |-> op, i |-> i, j |-> j, dst |-> dst, m |-> m, f |-> f]
Did(r, newsc, newpt) == hist' = Append(hist, [a |-> r, sc |-> newsc, pt |-> IF Concrete THEN newpt ELSE Inf])

Init == /\ sc = [i \in Regs |-> PZero]
        /\ pt = [i \in Regs |-> Inf]
        /\ blind = PZero
        /\ hist = <<>>

Step(dst, newsc, newpt, r) ==
        /\ Len(hist) < MaxSteps
        /\ PBounded(newsc)
        /\ sc' = [sc EXCEPT ![dst] = newsc]
        /\ pt' = IF Concrete THEN [pt EXCEPT ![dst] = newpt] ELSE pt
        /\ Did(r, newsc, newpt)

\* dst := (m*N + f) * G, computed by the general multiplication applied to the point G
Load(dst, m, f) == Step(dst, f, SMul(KVal(m, f), G), Rec("load", 0, 0, dst, m, f)) /\ UNCHANGED blind
\* the same through the generator's fixed-base table, without and with blinding
GenMulRaw(dst, m, f) == Step(dst, f, GMul(KVal(m, f)), Rec("genraw", 0, 0, dst, m, f)) /\ UNCHANGED blind
GenMulBlinded(dst, m, f) == Step(dst, f, BlindedGenMul(KVal(m, f), PEval(blind)), Rec("genblind", 0, 0, dst, m, f))
                            /\ UNCHANGED blind
\* re-create the generator with another blinding factor: no register changes
SetBlind(f) == /\ Len(hist) < MaxSteps /\ blind' = f /\ UNCHANGED <<sc, pt>>
               /\ hist' = Append(hist, [a |-> Rec("setblind", 0, 0, 0, 0, f), sc |-> f, pt |-> Inf])
AddRR(i, j, dst) == Step(dst, PAdd(sc[i], sc[j]), Add(pt[i], pt[j]), Rec("add", i, j, dst, 0, PZero)) /\ UNCHANGED blind
SubRR(i, j, dst) == Step(dst, PSub(sc[i], sc[j]), Sub(pt[i], pt[j]), Rec("sub", i, j, dst, 0, PZero)) /\ UNCHANGED blind
NegR(i, dst)     == Step(dst, PNeg(sc[i]), Neg(pt[i]), Rec("neg", i, 0, dst, 0, PZero)) /\ UNCHANGED blind
MulR(i, dst, m, f) == /\ PDeg(sc[i]) + PDeg(f) <= 2
                      /\ Step(dst, PMul(f, sc[i]), SMul(KVal(m, f), pt[i]), Rec("mul", i, 0, dst, m, f))
                      /\ UNCHANGED blind
\* dst := (m*N + f) * register i through the key-agreement entry point: the caller hands over the scalar and the
\* affine coordinates of the other party's public point (a pair, not a point object) and receives the product.
\* It is scalar multiplication like any other: the same integers k are in scope.  A public key is never infinity.
SharedKey(i, dst, m, f) == /\ PDeg(sc[i]) + PDeg(f) <= 2
                           /\ sc[i] # PZero
                           /\ Concrete => pt[i] # Inf
                           /\ Step(dst, PMul(f, sc[i]), SMul(KVal(m, f), pt[i]), Rec("shared", i, 0, dst, m, f))
                           /\ UNCHANGED blind
Clear(dst) == Step(dst, PZero, Inf, Rec("clear", 0, 0, dst, 0, PZero)) /\ UNCHANGED blind

Next == \/ \E dst \in Regs, m \in OrderMults, f \in LoadForms :
              Load(dst, m, f) \/ GenMulRaw(dst, m, f) \/ GenMulBlinded(dst, m, f)
        \/ \E f \in LoadForms : SetBlind(f)
        \/ \E i \in Regs, j \in Regs, dst \in Regs : AddRR(i, j, dst) \/ SubRR(i, j, dst)
        \/ \E i \in Regs, dst \in Regs : NegR(i, dst)
        \/ \E i \in Regs, dst \in Regs, m \in OrderMults, f \in MultForms : MulR(i, dst, m, f) \/ SharedKey(i, dst, m, f)
        \/ \E dst \in Regs : Clear(dst)
Spec == Init /\ [][Next]_vars

(* -------- what TLC checks when Concrete -------- *)
RegsRepresent == Concrete => \A i \in Regs : pt[i] = SMul(PEval(sc[i]), G)
EqualScalarsEqualPoints == Concrete => \A i \in Regs, j \in Regs : (PEval(sc[i]) = PEval(sc[j])) <=> (pt[i] = pt[j])

(* -------- export of complete behaviours (simulation mode) -------- *)
Done == Len(hist) = MaxSteps
EmitBehaviour == (Emit /\ Done) => PrintT(ToJson([k |-> "beh", acts |-> hist]))
\* the exhaustive run ignores the history: two paths to the same registers are one state
View == <<sc, pt, blind, Len(hist)>>
=============================================================================
