SPECIFICATION MSpec
CONSTANTS
  Tier = "dev"
  HashHas <- ToyHashHas
  HashGet <- ToyHashGet
  SigHas <- ToySigHas
  SigGet <- ToySigGet
  Fill <- BadFill
INVARIANT LemmasHold
CHECK_DEADLOCK FALSE
