CONSTANTS MaxLen = 5  MaxText = 4  LongZ = 6  LongN = 24  Mut = "none"
SPECIFICATION Spec
INVARIANTS RoundTripBytes ZeroCount LengthBound Arithmetic RoundTripText CheckRoundTrip
CHECK_DEADLOCK FALSE
