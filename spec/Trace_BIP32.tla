----------------------------- MODULE Trace_BIP32 -----------------------------
(* Code -> spec binding for C09: recorded sessions of pycoin's BIP32Node      *)
(* (random seeds, deep paths, large indices, public copies, path strings,     *)
(* text on random networks, parsing back) are checked to be sessions of       *)
(* BIP32.tla / ExtKeyText.tla.                                                *)
(*                                                                            *)
(* Logged values are CONCRETE bytes.  A logged key c is lifted to a term      *)
(* node ToTerm(c) whose leaves are literals, the spec's own operators         *)
(* (Master, Derive, Neuter, Ser78, PathIndices ...) build the term of the     *)
(* expected result, and Eval* below reduces that term to bytes:               *)
(*   - concatenation, IL/IR splitting, ser32, field layout, and the addition  *)
(*     IL + kpar mod n (on 32-byte strings) are computed here by TLC;         *)
(*   - HMAC-SHA512, HASH160, k -> kG and point addition are ORACLE look-ups   *)
(*     in the event's fact tables.  The hmac table holds the calls pycoin     *)
(*     REALLY made (intercepted; digest re-checked with hashlib); the         *)
(*     others are computed by the reference evaluator.  A term whose look-up  *)
(*     fails (pycoin HMAC'd other data than the BIP says) evaluates to <<>>   *)
(*     and the event does not match.                                          *)
EXTENDS ExtKeyText, Json, IOUtils, TLCExt

Traces == JsonDeserialize(IOEnv.TRACE_FILE)
VARIABLES tid, l, objs,         \* objs: the concrete keys seen so far, by object number
          memo                  \* derivations already explained: [par, ix, want, child] (concrete keys)
tvars == <<tid, l, objs, memo>>
Ev == Traces[tid].ev

---------------------------------------------------------------------------
\* 256-bit arithmetic on 32-byte strings (most significant byte first)
NB == <<255, 255, 255, 255, 255, 255, 255, 255, 255, 255, 255, 255, 255, 255, 255, 254,
        186, 174, 220, 230, 175, 72, 160, 59, 191, 210, 94, 140, 208, 54, 65, 65>>      \* the group order n
Idx32 == [i \in 1..32 |-> i]
RawAdd(a, b) == FoldLeft(LAMBDA acc, i : LET j == 33 - i  t == a[j] + b[j] + acc.c
                                        IN [s |-> <<t % 256>> \o acc.s, c |-> t \div 256],
                         [s |-> <<>>, c |-> 0], Idx32)
\* a >= b for strings of equal length
Geq(a, b) == \/ a = b
             \/ \E i \in 1..Len(a) : a[i] > b[i] /\ \A j \in 1..i-1 : a[j] = b[j]
\* a - b for 33-byte strings, a >= b
RawSub(a, b) == FoldLeft(LAMBDA acc, i : LET j == Len(a) + 1 - i  t == a[j] - b[j] - acc.c
                                        IN [s |-> <<(t + 256) % 256>> \o acc.s, c |-> IF t < 0 THEN 1 ELSE 0],
                         [s |-> <<>>, c |-> 0], [i \in 1..Len(a) |-> i]).s
AddModN(a, b) == LET r == RawAdd(a, b) IN
                 IF r.c = 1 \/ Geq(r.s, NB) THEN Tail(RawSub(<<r.c>> \o r.s, <<0>> \o NB)) ELSE r.s
IsBytes(s, n) == Len(s) = n /\ \A i \in 1..n : s[i] \in 0..255
Zero32 == [i \in 1..32 |-> 0]
ValidScalar(k) == IsBytes(k, 32) /\ k # Zero32 /\ ~Geq(k, NB)

---------------------------------------------------------------------------
\* oracle tables: sequences of rows; a missing row gives <<>>
Look1(tab, a) == IF \E i \in 1..Len(tab) : tab[i][1] = a
                 THEN tab[CHOOSE i \in 1..Len(tab) : tab[i][1] = a][2] ELSE <<>>
Look2(tab, a, b) == IF \E i \in 1..Len(tab) : tab[i][1] = a /\ tab[i][2] = b
                    THEN tab[CHOOSE i \in 1..Len(tab) : tab[i][1] = a /\ tab[i][2] = b][3] ELSE <<>>

RECURSIVE EvalB(_, _), EvalS(_, _), EvalP(_, _)
EvalB(x, F) ==
  CASE x.t = "b" -> x.v
    [] x.t = "cat" -> FoldLeft(LAMBDA acc, y : acc \o EvalB(y, F), <<>>, x.p)
    [] x.t = "hmac512" -> Look2(F.hmac, EvalB(x.k, F), EvalB(x.m, F))
    [] x.t = "l32" -> LET v == EvalB(x.a, F) IN IF Len(v) = 64 THEN SubSeq(v, 1, 32) ELSE <<>>
    [] x.t = "r32" -> LET v == EvalB(x.a, F) IN IF Len(v) = 64 THEN SubSeq(v, 33, 64) ELSE <<>>
    [] x.t = "ser256" -> EvalS(x.a, F)
    [] x.t = "serP" -> EvalP(x.a, F)
    [] x.t = "h160" -> Look1(F.h160, EvalB(x.a, F))
    [] x.t = "first4" -> LET v == EvalB(x.a, F) IN IF Len(v) >= 4 THEN SubSeq(v, 1, 4) ELSE <<>>
\* a sum of 32-byte strings mod n; every summand must be a valid scalar (IL >= n: outside the model)
EvalS(k, F) == LET vs == [i \in 1..Len(k.ts) |-> EvalB(k.ts[i], F)] IN
               IF \E i \in 1..Len(vs) : ~IsBytes(vs[i], 32) \/ Geq(vs[i], NB) THEN <<>>
               ELSE FoldLeft(LAMBDA acc, v : AddModN(acc, v), vs[1], Tail(vs))
\* base + (sum ts) G: kG and P + Q come from the oracle
EvalP(K, F) == IF K.base = <<>> THEN Look1(F.pub, EvalS(Sum(K.ts), F))
               ELSE IF K.ts = <<>> THEN EvalB(K.base[1], F)
               ELSE Look2(F.add, EvalS(Sum(K.ts), F), EvalB(K.base[1], F))

\* a concrete key [depth, pfp, cn, chain, k, K]; k = <<>> for a public-only key
ToTerm(c) == [depth |-> c.depth, pfp |-> B(c.pfp), cn |-> c.cn, chain |-> B(c.chain),
              key |-> IF c.k # <<>> THEN Sum(<<B(c.k)>>) ELSE Pt(<<B(c.K)>>, <<>>)]
EvalNode(x, F) == [depth |-> x.depth, pfp |-> EvalB(x.pfp, F), cn |-> x.cn, chain |-> EvalB(x.chain, F),
                   k |-> IF IsPrivate(x) THEN EvalS(x.key, F) ELSE <<>>,
                   K |-> EvalP(PubKey(x), F)]
WellFormed(c) == /\ c.depth \in 0..255 /\ IsBytes(c.pfp, 4) /\ IsIndex(c.cn) /\ IsBytes(c.chain, 32)
                 /\ IsBytes(c.K, 33) /\ c.K[1] \in {2, 3}
                 /\ (c.k = <<>> \/ ValidScalar(c.k))
Node(e) == [depth |-> e.node.depth, pfp |-> e.node.pfp, cn |-> [h |-> e.node.cn[1] = 1, v |-> e.node.cn[2]],
            chain |-> e.node.chain, k |-> e.node.k, K |-> e.node.K]
NodeOf(n) == [depth |-> n.depth, pfp |-> n.pfp, cn |-> [h |-> n.cn[1] = 1, v |-> n.cn[2]],
              chain |-> n.chain, k |-> n.k, K |-> n.K]
EIx(e) == [h |-> e.ix[1] = 1, v |-> e.ix[2]]

---------------------------------------------------------------------------
\* the result object: a new number (appended) or an existing one that IS that key
Result(e, c) == IF e.res = Len(objs) + 1 THEN objs' = Append(objs, c)
                ELSE e.res \in 1..Len(objs) /\ objs[e.res] = c /\ UNCHANGED objs

(* A derivation is explained either afresh - the expected term evaluates, with   *)
(* the HMAC call pycoin made just now, to the logged key - or as a repetition:  *)
(* the same parent key, index and wanted form were explained before and gave    *)
(* this very key (the node objects memoise their children; a repeated call      *)
(* makes no HMAC call).  A memo keyed too coarsely returns a key that was       *)
(* explained for ANOTHER index or form: neither case applies.                   *)
(* Third case, so that the binding does not depend on HOW the library computes  *)
(* its HMAC: when no HMAC call keyed by the parent's chain code was observed    *)
(* at all (the harness sees the stdlib hmac entry points only), the event is    *)
(* judged on what needs no digest: depth, child number, parent fingerprint,     *)
(* private/public kind and k G = K.  (Chain code and key of such a step are     *)
(* then checked by the replay direction only; the harness counts these steps.)  *)
Entry(c, ix, want, child) == [par |-> c, ix |-> ix, want |-> Want(ToTerm(c), want), child |-> child]
Observed(chain, F) == \E i \in 1..Len(F.hmac) : F.hmac[i][1] = chain
MetaOk(c, ix, want, child, F) ==
  LET x == ToTerm(c) IN
  /\ child.depth = c.depth + 1 /\ child.cn = ix
  /\ child.pfp = EvalB(Fingerprint(x), F)
  /\ (child.k # <<>>) = (IsPrivate(x) /\ Want(x, want) = "prv")
  /\ (child.k # <<>> => Look1(F.pub, child.k) = child.K)
Explained(c, ix, want, child, F) ==
  \/ Entry(c, ix, want, child) \in memo
  \/ WellFormed(child) /\ EvalNode(Derive(ToTerm(c), ix, want), F) = child
  \/ ~Observed(c.chain, F) /\ WellFormed(child) /\ MetaOk(c, ix, want, child, F)

TMaster(e) == /\ e.op = "master" /\ UNCHANGED memo
              /\ LET c == Node(e) IN
                 /\ WellFormed(c)
                 /\ \/ EvalNode(Master(B(e.seed)), e.facts) = c
                    \/ /\ ~Observed(SeedKey.v, e.facts)
                       /\ c.depth = 0 /\ c.pfp = <<0, 0, 0, 0>> /\ c.cn = Idx(FALSE, 0)
                       /\ c.k # <<>> /\ Look1(e.facts.pub, c.k) = c.K
                 /\ Result(e, c)
TDerive(e) == /\ e.op = "derive" /\ e.o \in 1..Len(objs)
              /\ LET x == ToTerm(objs[e.o])
                     r == Derive(x, EIx(e), e.want) IN
                 /\ Specified(x, EIx(e), e.want)
                 /\ IF r = Refused THEN e.res = 0 /\ UNCHANGED <<objs, memo>>
                    ELSE /\ e.res # 0
                         /\ LET c == Node(e) IN
                            /\ Explained(objs[e.o], EIx(e), e.want, c, e.facts)
                            /\ Result(e, c)
                            /\ memo' = memo \cup {Entry(objs[e.o], EIx(e), e.want, c)}
TCopy(e) == /\ e.op = "copy" /\ e.o \in 1..Len(objs) /\ UNCHANGED memo
            /\ LET c == Node(e) IN
               /\ EvalNode(Neuter(ToTerm(objs[e.o])), e.facts) = c
               /\ Result(e, c)
\* subkey_for_path: TLC parses the logged string itself; every intermediate key was logged
RECURSIVE WalkOk(_, _, _, _, _)
WalkOk(c, ixs, steps, i, F) ==        \* steps[i..] are the keys after each index, or the walk ends in a refusal
  IF i > Len(ixs) THEN TRUE
  ELSE LET r == Derive(ToTerm(c), ixs[i], "dflt") IN
       IF r = Refused THEN Len(steps) = i - 1
       ELSE /\ Len(steps) >= i
            /\ Explained(c, ixs[i], "dflt", NodeOf(steps[i]), F)
            /\ WalkOk(NodeOf(steps[i]), ixs, steps, i + 1, F)
TPath(e) == /\ e.op = "path" /\ e.o \in 1..Len(objs)
            /\ IsPathString(e.s)
            /\ LET ixs == PathIndices(e.s)
                   start == objs[e.o] IN
               /\ WalkOk(start, ixs, e.steps, 1, e.facts)
               /\ memo' = memo \cup {Entry(IF i = 1 THEN start ELSE NodeOf(e.steps[i - 1]), ixs[i], "dflt", NodeOf(e.steps[i])) :
                                        i \in 1..Len(e.steps)}
               /\ IF Len(e.steps) < Len(ixs) THEN e.res = 0 /\ UNCHANGED objs
                  ELSE LET last == IF ixs = <<>> THEN start ELSE NodeOf(e.steps[Len(ixs)])
                           want == IF HasDotPub(e.s) THEN EvalNode(Neuter(ToTerm(last)), e.facts) ELSE last
                       IN e.res # 0 /\ Node(e) = want /\ Result(e, want)
\* text form: the 78 bytes under the Base58Check (decoded and checksum-verified by the harness)
TText(e) == /\ e.op = "text" /\ e.o \in 1..Len(objs)
            /\ e.net \in Nets /\ e.fam \in Families /\ Defines(e.net, e.fam)
            /\ LET x == ToTerm(objs[e.o]) IN
               /\ CanSerialise(x, e.prv)
               /\ EvalB(Ser78(x, e.prv, Version(e.net, e.fam, e.prv)), e.facts) = e.blob
               /\ Len(e.blob) = 78
            /\ UNCHANGED <<objs, memo>>
\* parsing a text: accepted exactly by the readers of its version; the key is what the layout says
FromBlob(b, F) == LET private == b[46] = 0 IN
  [depth |-> b[5], pfp |-> SubSeq(b, 6, 9), cn |-> UnSer32(SubSeq(b, 10, 13)), chain |-> SubSeq(b, 14, 45),
   k |-> IF private THEN SubSeq(b, 47, 78) ELSE <<>>,
   K |-> IF private THEN Look1(F.pub, SubSeq(b, 47, 78)) ELSE SubSeq(b, 46, 78)]
TParse(e) == /\ e.op = "parse" /\ UNCHANGED memo
             /\ e.net \in Nets /\ e.fam \in Families
             /\ LET accepted == Defines(e.net, e.fam) /\ SubSeq(e.blob, 1, 4) \in {Versions[e.net][e.fam].prv, Versions[e.net][e.fam].pub} IN
                IF ~accepted THEN e.res = 0 /\ UNCHANGED objs
                ELSE e.res # 0 /\ Node(e) = FromBlob(e.blob, e.facts) /\ Result(e, Node(e))

TInit == TLCSet(1, {}) /\ tid \in 1..Len(Traces) /\ l = 1 /\ objs = <<>> /\ memo = {}
TNext == /\ l <= Len(Ev)
         /\ LET e == Ev[l] IN TMaster(e) \/ TDerive(e) \/ TCopy(e) \/ TPath(e) \/ TText(e) \/ TParse(e)
         /\ l' = l + 1 /\ UNCHANGED tid
TSpec == TInit /\ [][TNext]_tvars
Reached == IF l = Len(Ev) + 1 THEN TLCSet(1, TLCGet(1) \cup {tid}) ELSE TRUE
\* ids of the traces whose last event was not reached, and how far each got would need a second register:
\* the harness re-runs a rejected trace alone to find the first unexplained event
Post == PrintT(ToJson([k |-> "rejected", n |-> Len(Traces), ids |-> (1..Len(Traces)) \ TLCGet(1)]))

\* self-check of the byte arithmetic (evaluated once)
ASSUME AddModN(NB, Zero32) = Zero32
ASSUME LET one == [i \in 1..32 |-> IF i = 32 THEN 1 ELSE 0]
           nm1 == [NB EXCEPT ![32] = 64] IN
       /\ AddModN(nm1, one) = Zero32 /\ AddModN(nm1, nm1) = [NB EXCEPT ![32] = 63]
       /\ AddModN(one, one) = [i \in 1..32 |-> IF i = 32 THEN 2 ELSE 0]
=============================================================================
