CONSTANTS MaxIn = 2  MaxOut = 2
          CoinSet = {"LTC"}
          ScenarioIds = {1, 3, 5, 8, 11, 12, 13, 14}  FewHtIds = {13, 14}
SPECIFICATION Spec
CHECK_DEADLOCK FALSE
