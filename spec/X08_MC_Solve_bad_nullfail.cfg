SPECIFICATION MSpec
CONSTANTS
  Tier = "dev"
  HashHas <- ToyHashHas
  HashGet <- ToyHashGet
  SigHas <- ToySigHas
  SigGet <- ToySigGet
  CNullFail <- BadNullFail
INVARIANT LemmasHold
CHECK_DEADLOCK FALSE
