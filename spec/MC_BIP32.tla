------------------------------ MODULE MC_BIP32 ------------------------------
(* Lemmas of BIP32.tla checked by TLC on every index path up to MaxDepth over *)
(* Values x {normal, hardened} (C09).  The state walks the tree of paths:     *)
(*   x   the extended PRIVATE key at the path (CKDpriv all the way)           *)
(*   y   what the PUBLIC side alone derives: CKDpub all the way from N(master)*)
(*       - or Refused from the first hardened index on                        *)
EXTENDS ExtKeyText, Json
CONSTANTS Values, MaxDepth, SeedLen,
          Filter       \* "all" | "vectors": which paths are walked
VARIABLES path, x, y
vars == <<path, x, y>>

Seed == Sym("seed", SeedLen)
Indices == {Idx(h, v) : h \in BOOLEAN, v \in Values}
V24 == 16777216
XVer == <<4, 136, 178, 30>>

\* the chains of the two official BIP32 test vectors
H(v) == Idx(TRUE, v)
Nn(v) == Idx(FALSE, v)
Vec1 == <<H(0), Nn(1), H(2), Nn(2), Nn(1000000000)>>
Vec2 == <<Nn(0), H(2147483647), Nn(1), H(2147483646), Nn(2)>>
Walked(p) == Filter = "all" \/ IsPrefix(p, Vec1) \/ IsPrefix(p, Vec2)

Init == path = <<>> /\ x = Master(Seed) /\ y = Neuter(Master(Seed))
Next == /\ Len(path) < MaxDepth
        /\ \E ix \in Indices :
             /\ Walked(Append(path, ix)) = TRUE
             /\ path' = Append(path, ix)
             /\ x' = CKDpriv(x, ix)
             /\ y' = IF y = Refused THEN Refused ELSE CKDpub(y, ix)
Spec == Init /\ [][Next]_vars

AnyHardened == \E i \in 1..Len(path) : path[i].h
Parent == PrivPath(Master(Seed), Front(path))

\* going public commutes with derivation: along whole paths ...
CommutesAlongPath == IF AnyHardened THEN y = Refused ELSE y = Neuter(x)
\* ... and for one more step from every key (also below hardened steps)
CommutesOneStep == \A ix \in Indices :
   IF ix.h THEN CKDpub(Neuter(x), ix) = Refused
   ELSE /\ CKDpub(Neuter(x), ix) = Neuter(CKDpriv(x, ix))
        /\ Derive(Neuter(x), ix, "pub") = Derive(x, ix, "pub")
\* public derivation never yields private material, private derivation always does
Kinds == /\ IsPrivate(x) /\ (y # Refused => ~IsPrivate(y))
         /\ \A ix \in Indices : IsPrivate(Derive(x, ix, "prv")) /\ ~IsPrivate(Derive(x, ix, "pub"))
                                /\ Derive(x, ix, "dflt") = Derive(x, ix, "prv")
\* metadata: depth counts the steps, the fingerprint is the PARENT's, the child number is the last index
Metadata == /\ x.depth = Len(path)
            /\ x = PrivPath(Master(Seed), path)
            /\ IF path = <<>> THEN x.pfp = B(<<0, 0, 0, 0>>) /\ x.cn = Idx(FALSE, 0)
               ELSE /\ x.pfp = First4(H160(SerP(PointOf(Parent.key))))
                    /\ x.pfp # Fingerprint(x)
                    /\ x.cn = Last(path)
                    /\ x.depth = Parent.depth + 1
            /\ y # Refused => (y.depth = x.depth /\ y.pfp = x.pfp /\ y.cn = x.cn /\ y.chain = x.chain)
\* the key is the master key plus one IL per step; the chain code is the IR of the same HMAC as the last IL
KeyIsSumOfTweaks == /\ Len(x.key.ts) = Len(path) + 1
                    /\ \A i \in 1..Len(x.key.ts) : x.key.ts[i].t = "l32" /\ x.key.ts[i].a.t = "hmac512"
                    /\ x.chain = R32(Last(x.key.ts).a)
                    /\ path # <<>> => Last(x.key.ts).a.k = Parent.chain
\* byte layouts
Layouts == /\ Size(Ser78(x, TRUE, XVer)) = 78 /\ Size(Ser78(x, FALSE, XVer)) = 78
           /\ Size(Ser74(x, TRUE)) = 74
           /\ \A ix \in Indices : /\ Size(PrivData(x, ix)) = 37
                                  /\ Size(PubData(Neuter(x), ix)) = 37
                                  /\ (ix.h => PrivData(x, ix).p[1] = B(<<0>>))
                                  /\ PrivData(x, ix) # PrivData(x, Idx(~ix.h, ix.v))
           /\ KeyData(x, TRUE) # KeyData(x, FALSE)
\* ser32: four bytes, big-endian, bit 31 = hardened; injective
ASSUME Ser32Ok == \A ix \in Indices : LET b == Ser32(ix) IN
             /\ Len(b) = 4 /\ \A i \in 1..4 : b[i] \in 0..255
             /\ (b[1] >= 128) = ix.h
             /\ (b[1] % 128) * V24 + b[2] * 65536 + b[3] * 256 + b[4] = ix.v
             /\ \A jx \in Indices : Ser32(jx) = b => jx = ix
\* text round trip (Bitcoin main net, the three families) of the key at every path
TextRoundTrip == \A kind \in Families : RoundTrips("BTC", kind, x, TRUE) /\ RoundTrips("BTC", kind, x, FALSE)
                                     /\ RoundTrips("BTC", kind, Neuter(x), FALSE)
\* the compact descriptions that Emit prints unfold to the full terms
CompactSound == \A ix \in Indices :
   /\ UnfoldNode(CKDpriv(Lift(path, x), ix), x) = CKDpriv(x, ix)
   /\ UnfoldNode(CKDpub(Lift(path, Neuter(x)), ix), Neuter(x)) = CKDpub(Neuter(x), ix)
   /\ UnfoldB(Ser74(Lift(path, x), TRUE), x) = Ser74(x, TRUE)
   /\ UnfoldB(Ser74(Lift(path, x), FALSE), x) = Ser74(x, FALSE)

(* Replay export.  One record per path: the private child and the public      *)
(* child, each as a one-step term over the fields of the parent (named by the *)
(* parent's path; "P" + path for the public-only chain), and the 74-byte      *)
(* serialisations over the key's own fields; and the last index spelt as the  *)
(* BIP's single child number with the outcomes that spelling may have.        *)
NamePrv(p) == <<"prv", p>>
NamePub(p) == <<"pub", p>>
Emit == LET ix == Last(path') IN
  PrintT(ToJson([k |-> "path", path |-> path',
                 prv |-> CKDpriv(Lift(NamePrv(path), x), ix),
                 pub |-> IF y = Refused \/ ix.h THEN [refused |-> TRUE] ELSE CKDpub(Lift(NamePub(path), y), ix),
                 pubrefused |-> (y = Refused \/ ix.h),
                 number |-> [be |-> ChildNumberBytes(ix), may |-> NumberSpellingOutcomes(ix)],
                 ser |-> [prv |-> Ser74(Lift(NamePrv(path'), x'), TRUE),
                          pub |-> Ser74(Lift(NamePrv(path'), x'), FALSE)]]))
EmitRoot == PrintT(ToJson([k |-> "root", prv |-> Master(Seed),
                           ser |-> [prv |-> Ser74(Lift(NamePrv(<<>>), Master(Seed)), TRUE),
                                    pub |-> Ser74(Lift(NamePrv(<<>>), Master(Seed)), FALSE)]]))
InitE == Init /\ EmitRoot
SpecE == InitE /\ [][Next]_vars
=============================================================================
