---------------------------- MODULE ChainTrack ----------------------------
(* C15 - the PROPERTY, stated independently of how pycoin computes it.        *)
(*                                                                            *)
(* Headers are 1..N.  par[h] is the parent: 0 = the anchor, -1 = a parent     *)
(* that is never delivered (an orphan root).  wt[h] >= 1 is the weight.       *)
(* After every delivery the reported chain is SOME maximum-weight chain that  *)
(* descends from the anchor through the locked prefix, among the headers      *)
(* delivered so far; the operations returned transform the previous chain    *)
(* into the new one; the index <-> hash lookups agree with the chain.         *)
EXTENDS Integers, Sequences, FiniteSets, SequencesExt, FiniteSetsExt

CONSTANTS N, W
Hashes == 1..N
Anchor == 0

VARIABLES par,        \* [Hashes -> -1..N]   (fixed per behaviour)
          wt,         \* [Hashes -> 1..W]    (fixed per behaviour)
          delivered,  \* set of headers delivered so far
          nlocked,    \* length of the locked prefix
          chain,      \* reported chain, anchor side first
          lastops,    \* operations returned by the last delivery
          idx         \* the hash -> index lookup as the API reports it
ctvars == <<par, wt, delivered, nlocked, chain, lastops, idx>>

ParentFns == [Hashes -> (-1..N)]
RECURSIVE ReachesRoot(_, _, _)
ReachesRoot(p, h, k) == IF h \notin Hashes THEN TRUE
                        ELSE IF k = 0 THEN FALSE ELSE ReachesRoot(p, p[h], k - 1)
Acyclic(p) == \A h \in Hashes : ReachesRoot(p, h, N + 1)

SeqSum(s, f(_)) == FoldLeft(LAMBDA acc, x : acc + f(x), 0, s)
Weight(c) == SeqSum(c, LAMBDA h : wt[h])

\* c is a chain hanging from the anchor made of headers of D
IsChain(c, D) == /\ \A i \in 1..Len(c) : c[i] \in D
                 /\ \A i \in 1..Len(c) : par[c[i]] = (IF i = 1 THEN Anchor ELSE c[i - 1])

\* the path from the anchor down to h (inclusive), or <<>> if h does not descend from it
RECURSIVE Up(_, _)
Up(h, D) == IF h = Anchor THEN <<Anchor>>
            ELSE IF h \notin D THEN <<>>
            ELSE LET u == Up(par[h], D) IN IF u = <<>> THEN <<>> ELSE Append(u, h)
PathTo(h, D) == LET u == Up(h, D) IN IF u = <<>> THEN <<>> ELSE Tail(u)

ChainsOf(D) == {<<>>} \cup {PathTo(h, D) : h \in {x \in D : Up(x, D) # <<>>}}
IsPrefix2(p, c) == Len(p) <= Len(c) /\ SubSeq(c, 1, Len(p)) = p
Candidates(D, prefix) == {c \in ChainsOf(D) : IsPrefix2(prefix, c)}
Heaviest(D, prefix) == {c \in Candidates(D, prefix) :
                           \A c2 \in Candidates(D, prefix) : Weight(c2) <= Weight(c)}

\* operations: <<"add"|"remove", hash, index>> (0-based index, as pycoin reports)
RECURSIVE ApplyOps(_, _)
ApplyOps(c, ops) ==
  IF ops = <<>> THEN c
  ELSE LET o == Head(ops) IN
       IF o[1] = "remove"
       THEN IF Len(c) > 0 /\ c[Len(c)] = o[2] /\ o[3] = Len(c) - 1
            THEN ApplyOps(SubSeq(c, 1, Len(c) - 1), Tail(ops)) ELSE <<-99>>
       ELSE IF o[3] = Len(c) THEN ApplyOps(Append(c, o[2]), Tail(ops)) ELSE <<-99>>

IndexOf(c) == [h \in Hashes |-> IF \E i \in 1..Len(c) : c[i] = h
                                 THEN (CHOOSE i \in 1..Len(c) : c[i] = h) - 1 ELSE -1]

CTInit == /\ par \in {p \in ParentFns : Acyclic(p)}
          /\ wt \in [Hashes -> 1..W]
          /\ delivered = {} /\ nlocked = 0 /\ chain = <<>> /\ lastops = <<>>
          /\ idx = [h \in Hashes |-> -1]

CTDeliver(B) ==
  /\ B # {} /\ B \subseteq Hashes
  /\ delivered' = delivered \cup B
  /\ chain' \in Heaviest(delivered', SubSeq(chain, 1, nlocked))
  /\ ApplyOps(chain, lastops') = chain'
  /\ idx' = IndexOf(chain')
  /\ UNCHANGED <<par, wt, nlocked>>

CTLock(k) ==
  /\ k \in (nlocked + 1)..Len(chain)
  /\ nlocked' = k
  \* a lock returns no operations and the cumulated operations must keep
  \* reproducing the reported chain: the chain does not change
  /\ UNCHANGED <<par, wt, delivered, lastops, chain, idx>>

\* locking a prefix that is already locked is not an event: nothing changes, the tracker keeps working
CTRelock(k) == k \in 1..nlocked /\ UNCHANGED <<par, wt, delivered, lastops, chain, idx, nlocked>>

CTNext == (\E B \in SUBSET Hashes : CTDeliver(B)) \/ (\E k \in 1..N : CTLock(k)) \/ (\E k \in 1..N : CTRelock(k))
CTSpec == CTInit /\ [][CTNext]_ctvars

\* what the statement says about every reachable state
CTChainOk == chain \in Heaviest(delivered, SubSeq(chain, 1, nlocked))
CTIndexOk == idx = IndexOf(chain)
=============================================================================
