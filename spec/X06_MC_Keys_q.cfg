CONSTANT U = "q"
SPECIFICATION Spec
CHECK_DEADLOCK FALSE
