CONSTANTS P = 251  A = 1  B = 4  Gx = 0  Gy = 2  N = 271  Toy = TRUE  MaxCand = 99
SPECIFICATION TSpec
CONSTRAINT Reached
POSTCONDITION Post
CHECK_DEADLOCK FALSE
