CONSTANTS Tier = "q"  Emit = FALSE
SPECIFICATION Spec
INVARIANT TypeOK NoFail Progress RoundTrip WidthLemma TxStd
CHECK_DEADLOCK FALSE
