CONSTANTS Tier = "q"  Emit = FALSE
SPECIFICATION Spec
INVARIANT TypeOK NoFail RoundTrip WidthLemma TxStd
CHECK_DEADLOCK FALSE
