CONSTANTS P = 103  A = 0  B = 5  Gx = 2  Gy = 42  N = 97
          ZSet = {98}  ZDeep = {}
SPECIFICATION Spec
INVARIANT ECDSALemmas
CHECK_DEADLOCK FALSE
