CONSTANTS P = 103  A = 0  B = 5  Gx = 2  Gy = 42  N = 97
          ZSet = {1, 2, 3, 50, 96, 97, 98, 194}  ZDeep = {97}
SPECIFICATION Spec
INVARIANT ECDSALemmas
CHECK_DEADLOCK FALSE
