CONSTANTS Mode = "corr"  MaxLen = 0  MaxText = 0  LongZ = 0  LongN = 0  NPay = 0  Rich = FALSE  NPat = 2  NRnd = 40
SPECIFICATION Spec
INVARIANTS Guarantee ValidBasesDecode
CHECK_DEADLOCK FALSE
