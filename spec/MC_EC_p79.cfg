CONSTANTS P = 79  A = 0  B = 3  Gx = 1  Gy = 2  N = 97  Scope = "full"  Iterated = FALSE
SPECIFICATION Spec
INVARIANT GroupLaw
CHECK_DEADLOCK FALSE
