CONSTANTS Variant = "std"  MaxSum = 5  MaxIns = 2  MaxPays = 4  MaxFee = 1
          ScaleKs = {12}  ScaleRs = {0}
          SrcPatterns = {"own"}  ToPatterns = {"distinct"}
          EmitScaled = TRUE
SPECIFICATION RSpec
INVARIANTS DoneIsBuild OutcomeOK
CHECK_DEADLOCK FALSE
