----------------------------- MODULE MC_Disasm -----------------------------
(* C12, script text: scripts are assembled item by item (an item is one      *)
(* instruction) and every script is a state; the Disasm lemmas are           *)
(* invariants; each script is exported with the verdict "claimed" (made of   *)
(* known opcodes and minimal pushes: compile(disassemble(s)) must be s).     *)
(*   AddOp(op)                 any opcode byte outside 1..78                 *)
(*   AddPush(len, first)       the minimal push of Blob(len, first, 0xab)    *)
(*   AddAlt(<<op, len, first>>) the same data through a non-minimal opcode   *)
(* Alphabet A (full) is used up to MaxA items, the smaller alphabet B up to  *)
(* MaxB items.                                                               *)
(*   {k:"asm", script, claimed, toks:[{t,d,name}], instr:[<<op,at,pc>>], text} *)
EXTENDS Disasm, TLC, Json, FiniteSets

CONSTANTS OpsA, LensA, FirstsA, AltsA, MaxA,
          OpsB, LensB, FirstsB, AltsB, MaxB,
          TextMax, Export

\* values for the configuration files (cfg syntax has no tuples and no ranges)
OpsFull == {0} \cup 79..185 \cup {186, 254, 255}         \* 186, 254: bytes that are no opcode
OpsSmall == {0, 79, 81, 96, 97, 118, 135, 172, 177, 178, 185, 255}
AltsFull == {<<76, 0, 0>>, <<77, 0, 0>>, <<78, 0, 0>>, <<1, 1, 5>>, <<1, 1, 129>>, <<76, 1, 200>>, <<77, 2, 0>>,
             <<76, 75, 1>>, <<78, 75, 1>>, <<77, 255, 3>>, <<78, 256, 0>>, <<78, 65535, 9>>}
AltsSmall == {<<76, 0, 0>>, <<1, 1, 5>>}
AltsOne == {<<76, 0, 0>>}
NoAlts == {}

VARIABLES its, scr
vars == <<its, scr>>

Fill == 171
OpItem(op) == <<"op", op, 0, 0>>
PushItem(len, first) == <<"push", -1, len, first>>
AltItem(a) == <<"alt", a[1], a[2], a[3]>>
ItemBytes(it) == CASE it[1] = "op" -> ROne(it[2])
                   [] it[1] = "push" -> EncodePush(Blob(it[3], it[4], Fill))
                   [] it[1] = "alt" -> EncWith(it[2], Blob(it[3], it[4], Fill))
InB(it) == CASE it[1] = "op" -> it[2] \in OpsB
             [] it[1] = "push" -> it[3] \in LensB /\ it[4] \in FirstsB
             [] it[1] = "alt" -> <<it[2], it[3], it[4]>> \in AltsB
Allowed(s) == \/ Len(s) <= MaxA
              \/ Len(s) <= MaxB /\ \A i \in 1..Len(s) : InB(s[i])

Emit(r) == IF Export THEN PrintT(ToJson(r)) ELSE TRUE
Init == its = <<>> /\ scr = <<>>
Add(it) ==
  /\ Allowed(Append(its, it))
  /\ its' = Append(its, it) /\ scr' = RCat(scr, ItemBytes(it))
  /\ LET p == Parse(scr', 0)
         c == ClaimedP(p)
         t == IF ReadableP(p) THEN DisassembleP(p, FALSE) ELSE <<>>
     IN Emit([k |-> "asm", script |-> scr', claimed |-> c, toks |-> t,
              instr |-> [i \in 1..Len(p) |-> <<p[i].op, p[i].at, p[i].pc>>],
              text |-> IF ReadableP(p) /\ RLen(scr') <= TextMax THEN Text(t) ELSE ""])
AddOp(op) == Add(OpItem(op))
AddPush(len, first) == Add(PushItem(len, first))
AddAlt(a) == CanPush(a[1], Blob(a[2], a[3], Fill)) /\ a[1] # PushOpFor(Blob(a[2], a[3], Fill)) /\ Add(AltItem(a))

UseA == Len(its) < MaxA
More == Len(its) < (IF MaxA > MaxB THEN MaxA ELSE MaxB)
\* the disjuncts of Next are named so that TLC's coverage reports them one by one
Ops == More /\ \E op \in (IF UseA THEN OpsA ELSE OpsB) : AddOp(op)
Pushes == More /\ \E len \in (IF UseA THEN LensA ELSE LensB), first \in (IF UseA THEN FirstsA ELSE FirstsB) : AddPush(len, first)
Alts == More /\ \E a \in (IF UseA THEN AltsA ELSE AltsB) : AddAlt(a)
Next == Ops \/ Pushes \/ Alts
Spec == Init /\ [][Next]_vars

-----------------------------------------------------------------------------
ASSUME NamesAreUnambiguous == LemmaNames
InvRoundTrip == LemmasText(scr)     \* = LemmaTextRoundTrip /\ LemmaNeedsMinimal /\ LemmaTokens
\* the verdict follows from the way the script was built
InvClaimed == Claimed(scr) <=> \A i \in 1..Len(its) : \/ its[i][1] = "push"
                                                      \/ its[i][1] = "op" /\ its[i][2] \in WordOps
\* items are instructions: the decoder finds exactly them
InvItems == LET p == Parse(scr, 0) IN
            /\ \A i \in 1..Len(p) : p[i].ph = "done"
            /\ Len(p) = Len(its)
            /\ IsRBytes(scr)
=============================================================================
