CONSTANTS Tier = "q"  SLen = 3  Wide = TRUE  EmitS = TRUE
SPECIFICATION Spec
INVARIANT Typed StoreIsFold Fresh Sensitive
CHECK_DEADLOCK FALSE
