---------------------------- MODULE MC_ScriptNum ----------------------------
(* C12, script integers: lemma checking and spec -> code export in one run.   *)
(*                                                                            *)
(* The case space is generated as a small state machine so that TLC spreads   *)
(* it over its workers and counts it:                                         *)
(*   PrependByte  grows a candidate ENCODING from its most significant end    *)
(*                (the end the rules look at): every byte string of length    *)
(*                <= FullLen; every string over AlphaA up to MaxA bytes; and  *)
(*                up to MaxB bytes with the two top bytes from AlphaA (the    *)
(*                classes that matter: 00 01 7f 80 81 ff) and the low bytes   *)
(*                from AlphaB;                                                *)
(*   Block/PickInt every integer of -IntMax..IntMax (TLC integers);           *)
(*   PickPow      +-(2^k - 1), +-2^k, +-(2^k + 1) for k <= MaxPow as          *)
(*                sign/magnitude byte sequences (beyond 32 bits).             *)
(* In every state the lemmas of ScriptNum are invariants.  With Export=TRUE   *)
(* each case is printed with the outcome the spec demands:                    *)
(*   {k:"dec", b, min, neg, mag}   decode b -> (neg,mag); strict decode       *)
(*                                 accepts iff min                            *)
(*   {k:"enc", neg, mag, enc}      encode (neg,mag) -> enc                    *)
EXTENDS ScriptNum, TLC, Json, FiniteSets

CONSTANTS FullLen, AlphaA, MaxA, AlphaB, MaxB, IntMax, BlockSize, MaxPow, UniqLen, Export

VARIABLES kind, b, num, n
vars == <<kind, b, num, n>>

Over(s, A) == \A i \in 1..Len(s) : s[i] \in A
InDomain(s) == \/ Len(s) <= FullLen
               \/ Len(s) <= MaxA /\ Over(s, AlphaA)
               \/ /\ Len(s) <= MaxB /\ Len(s) > 2
                  /\ Over(SubSeq(s, Len(s) - 1, Len(s)), AlphaA)
                  /\ Over(SubSeq(s, 1, Len(s) - 2), AlphaB)

Emit(r) == IF Export THEN PrintT(ToJson(r)) ELSE TRUE

Init == kind = "root" /\ b = <<>> /\ num = Zero /\ n = 0

PrependByte(x) ==
  /\ kind \in {"root", "bytes"}
  /\ InDomain(<<x>> \o b)
  /\ kind' = "bytes" /\ b' = <<x>> \o b /\ UNCHANGED <<num, n>>
  /\ Emit([k |-> "dec", b |-> b', min |-> Minimal(b'),
           neg |-> Decode(b').neg, mag |-> Decode(b').mag])

NBlocks == (2 * IntMax) \div BlockSize + 1
Block(i) == /\ kind = "root" /\ kind' = "blk" /\ n' = i /\ UNCHANGED <<b, num>>
BlockLo == -IntMax + n * BlockSize
BlockHi == IF BlockLo + BlockSize - 1 > IntMax THEN IntMax ELSE BlockLo + BlockSize - 1
PickInt(m) ==
  /\ kind' = "int" /\ n' = m /\ num' = FromInt(m) /\ b' = Encode(FromInt(m))
  /\ Emit([k |-> "enc", neg |-> num'.neg, mag |-> num'.mag, enc |-> b'])

PowMag(k, w) == CASE w = 0 -> MagPow2m1(k) [] w = 1 -> MagPow2(k) [] w = 2 -> MagPow2p1(k)
PickPow(k, w, sg) ==
  /\ kind = "root"
  /\ PowMag(k, w) # <<>> \/ ~sg
  /\ kind' = "pow" /\ n' = k /\ num' = [neg |-> sg, mag |-> PowMag(k, w)] /\ b' = Encode(num')
  /\ Emit([k |-> "enc", neg |-> num'.neg, mag |-> num'.mag, enc |-> b'])

NextBytes == IF Len(b) < FullLen THEN Byte ELSE AlphaA \cup AlphaB
\* the disjuncts of Next are named so that TLC's coverage reports them one by one
Bytes == kind \in {"root", "bytes"} /\ \E x \in NextBytes : PrependByte(x)
Blocks == kind = "root" /\ \E i \in 0..(NBlocks - 1) : Block(i)
Ints == kind = "blk" /\ \E m \in BlockLo..BlockHi : PickInt(m)
Pows == kind = "root" /\ \E k \in 0..MaxPow, w \in 0..2, sg \in BOOLEAN : PickPow(k, w, sg)
Next == Bytes \/ Blocks \/ Ints \/ Pows
Spec == Init /\ [][Next]_vars

-----------------------------------------------------------------------------
\* Core's literal formula for short operands, on TLC integers
NativeDecode(s) ==
  IF s = <<>> THEN 0
  ELSE LET raw == ValOf(s)  top == 128 * NumPow256(Len(s) - 1)
       IN IF s[Len(s)] >= 128 THEN -(raw - top) ELSE raw

\* the strings LemmaUnique is checked against
RECURSIVE Strings(_, _)
Strings(A, len) == IF len = 0 THEN {<<>>}
                   ELSE LET S == Strings(A, len - 1)
                        IN S \cup {Append(s, x) : s \in {t \in S : Len(t) = len - 1}, x \in A}
UniqSet == Strings(AlphaA, UniqLen)

InvBytes ==
  kind = "bytes" =>
    /\ LemmaDecodeTotal(b)
    /\ LemmaMinimalIff(b)
    /\ LemmaShorter(b)
    /\ LemmaRoundTrip(Decode(b)) /\ LemmaSize(Decode(b)) /\ LemmaNeg(Decode(b))
    /\ DecodeStrict(b).ok = Minimal(b)
    /\ (Len(b) <= 3 => ToInt(Decode(b)) = NativeDecode(b))
InvUnique ==
  (kind = "bytes" /\ Len(b) <= UniqLen /\ Over(b, AlphaA)) => \A c \in UniqSet : LemmaUnique(b, c)
InvInt ==
  kind = "int" =>
    /\ LemmaArith(n)
    /\ LemmaRoundTrip(num) /\ LemmaSize(num) /\ LemmaNeg(num) /\ LemmaMinimalIff(b)
\* 2^k needs k+1 magnitude bits plus the sign bit: (k + 2 + 7) \div 8 bytes, and so on
InvPow ==
  kind = "pow" =>
    /\ IsNum(num)
    /\ LemmaRoundTrip(num) /\ LemmaSize(num) /\ LemmaNeg(num) /\ LemmaMinimalIff(b)
    /\ num.mag = MagPow2(n)   => Len(b) = (n + 9) \div 8
    /\ (num.mag = MagPow2m1(n) /\ n > 0) => Len(b) = (n + 8) \div 8
    /\ (num.mag = MagPow2p1(n) /\ n > 0) => Len(b) = (n + 9) \div 8
=============================================================================
