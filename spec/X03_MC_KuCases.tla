--------------------------- MODULE X03_MC_KuCases ---------------------------
(* X03 - TLC enumerates invocations of the key utility and says, for each,    *)
(* what must be printed.                                                      *)
(*                                                                            *)
(* A case = (input form x key of the pool x network x how the network is      *)
(* chosen (-n / detected / --override-network) x option set x sub-key         *)
(* spelling).  The command is run as a small state machine                    *)
(*     pick -> parsed -> placed -> show* -> done                              *)
(* whose steps are the operators of X03_KuTable; at `done` the case is        *)
(* printed with, for every key reached, the TEMPLATE of its table (a key into *)
(* the tables X03_MC_KuTable prints), the terms the abstract key is bound to, *)
(* the rows that must appear, the rendering mode and (for some cases) the     *)
(* objects that the printed fields must denote when fed back.                 *)
(*                                                                            *)
(* The pool of keys is data (X03_POOL): 32-byte exponents with their public   *)
(* points and hashes, computed by the harness's reference arithmetic - TLC    *)
(* uses the points only to WRITE public input texts and, as facts, to check   *)
(* the lemmas of X03_KuConc on the literal keys.                              *)
EXTENDS X03_KuConc, Json, IOUtils
CONSTANTS Tier            \* "q" | "t"

Pool == JsonDeserialize(IOEnv.X03_POOL)
VARIABLES phase, kase, parsd, onnet, kobj, todo, shwn
vars == <<phase, kase, parsd, onnet, kobj, todo, shwn>>

\* ----------------------------------------------------------------- option sets
Json1 == [NoOpts EXCEPT !.json = TRUE]
O(p, j, u, s) == [pub |-> p, json |-> j, unc |-> u, sel |-> s, brief |-> <<>>]
Br(j, b) == [NoOpts EXCEPT !.json = j, !.brief = b]
AllOpts == {O(p, j, u, s) : p \in BOOLEAN, j \in BOOLEAN, u \in BOOLEAN, s \in {"", "w", "W", "a"}}
           \cup {Br(j, b) : j \in BOOLEAN, b \in {<<"wif", "address">>, <<"hash160">>, <<"public_pair_x", "chain_code", "p2sh_segwit">>,
                                                  <<"fingerprint">>}}
FewOpts == {NoOpts, O(TRUE, TRUE, FALSE, ""), O(FALSE, FALSE, FALSE, "a"), O(FALSE, FALSE, FALSE, "w"), O(TRUE, FALSE, TRUE, "a"),
            O(FALSE, FALSE, TRUE, "W")}

\* ----------------------------------------------------------------- sub-key spellings (sequences of characters)
S0 == <<>>
SubsHd == { <<"0">>, <<"1", "H">>, <<"0", "/", "1", "'">>, <<"2", "p", "/", "3">>, <<"0", "-", "1">>,
            <<"0", ",", "2", "H", "/", "1">>, <<"4", "4", "H", "/", "0", "H", "/", "0", "-", "1">>, <<"5", "-", "6", "/", "7", "-", "8">>,
            <<"0", "/", "1", ".", "p", "u", "b">>, <<"2", "1", "4", "7", "4", "8", "3", "6", "4", "7">>,
            <<"2", "1", "4", "7", "4", "8", "3", "6", "4", "7", "H">>, <<"1", "6", "7", "7", "7", "2", "1", "6", "/", "0", "0", "9">> }
SubsHdT == SubsHd \cup { <<"0", "/", "0", "/", "0", "/", "0", "/", "5", "-", "6">>, <<"1", "-", "2", "H", ",", "7", "/", "0", "-", "1">>,
                         <<"0", "H", ".", "p", "u", "b">>, <<"3", "p", "/", "2", "'", "/", "1", "H">> }
SubsE == { <<"0">>, <<"3", "/", "1">>, <<"0", "-", "1", "/", "0", "-", "1">>, <<"1", "0">> }

\* ----------------------------------------------------------------- input texts
FormsPrvKey == {"se_dec", "se_hex", "wif_c", "wif_u", "E_prv"}
FormsPubKey == {"sec_c", "sec_u", "hexsec_c", "hexsec_u", "pair_xy", "pair_hexpar", "E_pub"}
FormsSeed == {"P", "H", "E_seed"}
FormsHd == {"xprv", "xpub", "yprv", "ypub", "zprv", "zpub"}
FormsAddr == {"a_p2pkh", "a_p2sh", "a_p2wpkh", "hash160"}
AllForms == FormsPrvKey \cup FormsPubKey \cup FormsSeed \cup FormsHd \cup FormsAddr
FamOf(form) == CASE form \in {"xprv", "xpub"} -> "bip32" [] form \in {"yprv", "ypub"} -> "bip49" [] form \in {"zprv", "zpub"} -> "bip84"
PrvForm(form) == form \in {"xprv", "yprv", "zprv"}

SecC(kp) == <<2 + (kp.y[32] % 2)>> \o kp.x
SecUb(kp) == <<4>> \o kp.x \o kp.y
TX(f) == PD!TX(f)
Parity(kp) == IF kp.y[32] % 2 = 1 THEN "odd" ELSE "even"
ExtPayload(N, form, kp, depth, cn) ==
  Version(N.sym, FamOf(form), PrvForm(form)) \o <<depth>> \o (IF depth = 0 THEN <<0, 0, 0, 0>> ELSE kp.pfp) \o Ser32(cn) \o kp.chain
  \o (IF PrvForm(form) THEN <<0>> \o kp.se ELSE SecC(kp))

\* the network has what the form needs
Applies(form, N) ==
  /\ ~N.stub
  /\ (form \in {"wif_c", "wif_u"} => N.wif # <<>>)
  /\ (form \in {"hexsec_c", "hexsec_u"} => N.sec # <<>>)
  /\ (form \in FormsHd => N.sym \in Nets /\ Defines(N.sym, FamOf(form)) /\ (FamOf(form) # "bip32" => FamAddrDefined(N, FamOf(form))))
  /\ (form = "a_p2sh" => HasP2sh(N))
  /\ (form = "a_p2wpkh" => HasSegwit(N))
KeyApplies(form, kp) == /\ (form = "se_hex" => kp.sehex) /\ (form = "pair_hexpar" => kp.xhex)
                        /\ (form \in {"sec_c", "sec_u"} => kp.sechex)

InputOf(c) ==
  LET N == Net(c.net)  kp == Pool[c.key]  form == c.form IN
  CASE form = "se_dec" -> [TX("num") EXCEPT !.w = "dec", !.d = Strip0(kp.se)]
    [] form = "se_hex" -> LET b == Strip0(kp.se)  nd == 2 * Len(b) - (IF b[1] < 16 THEN 1 ELSE 0) IN
                          [TX("num") EXCEPT !.w = "hex", !.v = nd, !.d = b, !.d2 = IF nd % 2 = 0 THEN b ELSE <<>>]
    [] form = "wif_c"  -> [TX("b58c") EXCEPT !.d = KE!WifPayload(N.wif, kp.se, TRUE), !.w = N.chk]
    [] form = "wif_u"  -> [TX("b58c") EXCEPT !.d = KE!WifPayload(N.wif, kp.se, FALSE), !.w = N.chk]
    [] form = "sec_c"  -> [TX("num") EXCEPT !.w = "hex", !.v = 66, !.d = Strip0(SecC(kp)), !.d2 = SecC(kp), !.on = TRUE]
    [] form = "sec_u"  -> [TX("num") EXCEPT !.w = "hex", !.v = 130, !.d = Strip0(SecUb(kp)), !.d2 = SecUb(kp), !.on = TRUE]
    [] form = "hexsec_c" -> [TX("hexsec") EXCEPT !.a = N.sec, !.w = "hex", !.d = SecC(kp), !.on = TRUE]
    [] form = "hexsec_u" -> [TX("hexsec") EXCEPT !.a = N.sec, !.w = "hex", !.d = SecUb(kp), !.on = TRUE]
    [] form = "pair_xy" -> [TX("pair") EXCEPT !.w = "/", !.d = Strip0(kp.x), !.w2 = "num", !.d2 = Strip0(kp.y), !.on = TRUE, !.v = 10]
    [] form = "pair_hexpar" -> [TX("pair") EXCEPT !.w = ",", !.d = Strip0(kp.x), !.w2 = Parity(kp), !.on = TRUE, !.v = 16]
    [] form \in FormsHd -> [TX("b58c") EXCEPT !.d = ExtPayload(N, form, kp, c.depth, c.cn), !.w = N.chk, !.on = TRUE]
    [] form = "P" -> [TX("colon") EXCEPT !.a = PD!TagP, !.w = "nothex", !.w2 = "utf8", !.d2 = kp.pw]
    [] form = "H" -> [TX("colon") EXCEPT !.a = PD!TagH, !.w = "hex", !.d = kp.ms, !.w2 = "utf8", !.d2 = HexAscii(kp.ms)]
    [] form = "E_seed" -> [TX("colon") EXCEPT !.a = PD!TagE, !.w = "hex", !.d = kp.es, !.w2 = "utf8", !.d2 = HexAscii(kp.es)]
    [] form = "E_prv"  -> [TX("colon") EXCEPT !.a = PD!TagE, !.w = "hex", !.d = kp.se, !.w2 = "utf8", !.d2 = HexAscii(kp.se)]
    [] form = "E_pub"  -> [TX("colon") EXCEPT !.a = PD!TagE, !.w = "hex", !.d = kp.x \o kp.y, !.w2 = "utf8", !.d2 = HexAscii(kp.x \o kp.y), !.on = TRUE]
    [] form = "a_p2pkh" -> [TX("b58c") EXCEPT !.d = N.p2pkh \o kp.hc, !.w = N.chk]
    [] form = "a_p2sh"  -> [TX("b58c") EXCEPT !.d = N.p2sh \o kp.hs, !.w = N.chk]
    [] form = "a_p2wpkh" -> [TX("seg") EXCEPT !.a = N.hrp, !.v = 0, !.d = kp.hc, !.w = "bech32"]
    [] form = "hash160" -> [TX("num") EXCEPT !.w = "hex", !.v = 40, !.d = Strip0(kp.hu), !.d2 = kp.hu]

\* the facts of a pool key (for the lemmas on literal keys)
WitB(h) == <<0, 20>> \o h
FactsOf(kp) == [NoFacts EXCEPT !.pub = << <<kp.se, SecC(kp)>> >>, !.xy = << <<SecC(kp), kp.x \o kp.y>> >>,
                               !.h160 = << <<SecC(kp), kp.hc>>, <<SecUb(kp), kp.hu>>, <<WitB(kp.hc), kp.hs>> >>]

\* ----------------------------------------------------------------- the cases
C(form, key, n, nopt, ov, sub, opts, depth, cn, rf) ==
  [form |-> form, key |-> key, net |-> n, nopt |-> nopt, ov |-> ov, sub |-> sub, opts |-> opts, depth |-> depth, cn |-> cn, rf |-> rf]
Master0 == Idx(FALSE, 0)
NonStub == {i \in DOMAIN RealNets : ~RealNets[i].stub}
Syms(S) == {RealNets[i].sym : i \in S}
AllNets == Syms(NonStub)
OptNets == {"BTC", "LTC", "XTN", "DOGE"} \cap AllNets
SubNets == (IF Tier = "t" THEN {"BTC", "LTC", "XTN", "DOGE", "DASH", "ZEC"} ELSE {"BTC", "LTC"}) \cap AllNets
OvNets == {"BTC", "LTC", "XTN", "DOGE", "BCH", "DASH"} \cap AllNets
Ok(form, key, n) == Applies(form, Net(n)) /\ KeyApplies(form, Pool[key])
NK == Len(Pool)
K(i) == ((i - 1) % NK) + 1                 \* pool index, wrapping

\* S1: every network, every form, the network named with -n; text (fields fed back) and JSON
Sweep == {C(f, K(k), n, n, "", S0, o, IF k = 1 THEN 0 ELSE 3, IF k = 1 THEN Master0 ELSE Idx(TRUE, 5), o = NoOpts) :
             f \in AllForms, k \in {1, 2}, n \in AllNets, o \in {NoOpts, Json1}}
\* S2: no -n: the network is detected
NetForms == {"wif_c", "xprv", "xpub", "yprv", "zpub", "a_p2pkh", "a_p2sh", "a_p2wpkh", "hexsec_c"}
Detect == {C(f, K(3), n, "", "", S0, Json1, 1, Idx(FALSE, 2147483647), FALSE) : f \in NetForms, n \in AllNets}
          \cup {C(f, K(3), DefaultNet, "", "", S0, Json1, 0, Master0, FALSE) : f \in {"se_dec", "sec_c", "pair_hexpar", "P", "H", "E_prv", "hash160"}}
\* S3: every option set
OptForms == {"se_dec", "wif_u", "sec_u", "xprv", "xpub", "yprv", "zpub", "E_prv", "E_pub", "a_p2pkh", "P"}
Options == {C(f, K(4), n, n, "", S0, o, 2, Idx(TRUE, 0), FALSE) : f \in OptForms, n \in (IF Tier = "q" THEN OptNets ELSE AllNets), o \in AllOpts}
\* S4: sub-key paths
Subs == {C(f, K(2), n, n, "", s, o, 1, Idx(FALSE, 7), FALSE) :
            f \in {"xprv", "xpub", "yprv", "zpub", "P", "H"}, n \in SubNets, s \in (IF Tier = "q" THEN SubsHd ELSE SubsHdT), o \in FewOpts}
        \cup {C(f, K(2), n, n, "", s, o, 0, Master0, FALSE) : f \in {"E_prv", "E_pub"}, n \in SubNets, s \in SubsE \cup {S0},
                                                          o \in {NoOpts, O(FALSE, FALSE, TRUE, "a"), O(TRUE, TRUE, FALSE, "")}}
        \cup {C("E_seed", K(1), "BTC", "BTC", "", s, Json1, 0, Master0, FALSE) : s \in {S0, <<"0">>, <<"2", "/", "1">>}}
        \cup {C(f, K(2), n, n, "", <<"0", "/", "1">>, NoOpts, 0, Master0, FALSE) : f \in {"wif_c", "sec_c", "a_p2pkh"}, n \in SubNets}
\* S5: --override-network
OvForms == {"se_dec", "wif_c", "sec_c", "xprv", "xpub", "yprv", "ypub", "zprv", "a_p2pkh", "a_p2wpkh", "E_prv"}
OvPairs == {q \in OvNets \X OvNets : q[1] # q[2]}
\* (thorough) every ordered pair of networks, for the three forms whose text every network can write
OvAll == IF Tier # "t" THEN {} ELSE
         {C(f, K(5), q[1], q[1], q[2], S0, Json1, 1, Idx(TRUE, 3), FALSE) : f \in {"wif_c", "xprv", "a_p2pkh"}, q \in {r \in AllNets \X AllNets : r[1] # r[2]}}
Override == {C(f, K(2), q[1], q[1], q[2], S0, Json1, 2, Idx(FALSE, 1), FALSE) : f \in OvForms, q \in OvPairs}
            \cup {C("xprv", K(2), q[1], q[1], q[2], <<"0", "H", "/", "1">>, O(FALSE, FALSE, FALSE, "w"), 0, Master0, FALSE) : q \in OvPairs}
\* S6: every key of the pool
PoolSweep == {C(f, k, "BTC", "BTC", "", S0, o, 0, Master0, o = NoOpts) : f \in AllForms, k \in 1..NK, o \in {NoOpts, Json1}}

\* ("m": a handful of cases, for the runs in which a deliberately wrong operator must break a lemma)
Mini == {C(f, 1, "BTC", "BTC", "", S0, o, 0, Master0, FALSE) : f \in {"wif_c", "xprv", "yprv", "sec_c", "a_p2pkh"}, o \in {NoOpts, O(TRUE, TRUE, FALSE, "")}}
Cases == {c \in (IF Tier = "m" THEN Mini ELSE Sweep \cup Detect \cup Options \cup Subs \cup Override \cup OvAll \cup PoolSweep) : Ok(c.form, c.key, c.net)}

\* deliberately wrong variants (substituted by the _bad*.cfg files): each must violate the lemma named in the cfg
BadWifPayloadT(N, k, compressed) == Cat(<<B(N.wif), Ser256(k)>>)                      \* the compression marker is never written
BadPublicize(o) == o                                                                   \* -P keeps the private half
BadSecU(pt) == Cat(<<B(<<4>>), L32(XY64(pt)), L32(XY64(pt))>>)                            \* 04 || X || X

\* ----------------------------------------------------------------- the command as a state machine
NoObj == [cls |-> "none"]
NoParse == [st |-> "", o |-> PD!ONone, net |-> ""]
Init == /\ phase = "pick" /\ kase \in Cases /\ parsd = NoParse /\ onnet = "" /\ kobj = NoObj /\ todo = <<>> /\ shwn = <<>>

Printout(o, n, c) ==
  IF o = Refused THEN [refused |-> TRUE, obj |-> Refused]
  ELSE LET N == Net(n)
           rows == Table(o, N)
           sel == Selected(c.opts, rows)
           rk == Refeedable(o, N) IN
       [refused |-> FALSE, obj |-> o, tpl |-> TplKeyOf(o, n), mode |-> Mode(c.opts, sel), rows |-> RowKeys(Shown(c.opts, sel)),
        refeed |-> IF c.rf THEN [i \in DOMAIN rk |-> [row |-> rk[i], tpl |-> TplKeyOf(Refed(o, rk[i]), n), node |-> Refed(o, rk[i]).node]]
                   ELSE <<>>]

AParse == /\ phase = "pick"
          /\ LET r == KuParse(NetOrder(kase.nopt), InputOf(kase)) IN
             /\ parsd' = r /\ onnet' = r.net
             /\ IF r.st = "obj" THEN phase' = "parsed" /\ kobj' = ObjOf(r.o)
                ELSE phase' = (IF r.st = "none" THEN "cantparse" ELSE "open") /\ kobj' = kobj
          /\ UNCHANGED <<kase, todo, shwn>>
APlace == /\ phase = "parsed"
          /\ LET n == IF kase.ov = "" THEN onnet ELSE kase.ov IN
             /\ onnet' = n
             /\ phase' = IF Tabulable(kobj, Net(n)) /\ SubSpecified(kobj, kase.sub) THEN "placed" ELSE "open"
          /\ UNCHANGED <<kase, parsd, kobj, todo, shwn>>
AExpand == /\ phase = "placed" /\ phase' = "show"
           /\ todo' = SubKeys(kobj, kase.sub)
           /\ UNCHANGED <<kase, parsd, onnet, kobj, shwn>>
AShow == /\ phase = "show" /\ todo # <<>>
         /\ LET k == Head(todo)
                o == IF k = Refused THEN Refused ELSE IF kase.opts.pub THEN Publicize(k) ELSE k IN
            shwn' = Append(shwn, Printout(o, onnet, kase))
         /\ todo' = Tail(todo)
         /\ UNCHANGED <<phase, kase, parsd, onnet, kobj>>
Status == CASE phase \in {"show", "done"} -> "ok" [] phase = "cantparse" -> "cantparse" [] OTHER -> "open"
Export(o) == IF o.refused THEN [refused |-> TRUE]
             ELSE [refused |-> FALSE, tpl |-> o.tpl, node |-> o.obj.node, mode |-> o.mode, rows |-> o.rows, refeed |-> o.refeed]
AFinish == /\ \/ phase = "show" /\ todo = <<>>
              \/ phase \in {"cantparse", "open"}
           /\ phase' = "done"
           /\ UNCHANGED <<kase, parsd, onnet, kobj, todo, shwn>>
           /\ PrintT(ToJson([k |-> "case", st |-> Status, form |-> kase.form, key |-> kase.key, net |-> kase.net, nopt |-> kase.nopt, ov |-> kase.ov,
                             sub |-> kase.sub, opts |-> kase.opts, rf |-> kase.rf, t |-> InputOf(kase), outnet |-> onnet,
                             tables |-> [i \in DOMAIN shwn |-> Export(shwn[i])]]))
Next == AParse \/ APlace \/ AExpand \/ AShow \/ AFinish
Spec == Init /\ [][Next]_vars

\* ----------------------------------------------------------------- invariants
Finished == phase = "done"
Shows == phase = "done" /\ shwn # <<>>
\* the step machine computes what the one-shot operator (used by the trace spec) computes
PipelineAgrees == Finished =>
  LET p == Pipeline(InputOf(kase), kase.nopt, kase.ov, kase.sub, kase.opts) IN
  IF shwn = <<>> /\ p.st # "ok" THEN TRUE
  ELSE p.st = "ok" /\ p.net = onnet /\ p.objs = [i \in DOMAIN shwn |-> shwn[i].obj]
\* a well-formed input of the grid is never unparsable
GridParses == Finished => parsd.st # "none"
\* lemmas of every table shown
Tables == Shows => \A i \in DOMAIN shwn : ~shwn[i].refused =>
  LET o == shwn[i].obj  N == Net(onnet)  rows == Table(o, N) IN
  /\ TableLemmas(o, N)
  /\ JsonTextAgree(kase.opts, rows) /\ SingleIsRow(kase.opts, rows)
  /\ shwn[i].tpl.net = onnet
  /\ RowKeys(Template(shwn[i].tpl)) = RowKeys(rows)
\* lemmas on the literal keys of the pool (facts: the pool's points and hashes)
Literal == kase.form \notin FormsSeed /\ (kase.sub = S0 \/ kobj.cls \in {"key", "contract"})
\* (the feed-back lemma on the cases whose fields the harness feeds back as well, and on the overridden ones)
Concrete == Shows /\ Literal => \A i \in DOMAIN shwn : ~shwn[i].refused =>
  LET o == shwn[i].obj  N == Net(onnet)  F == FactsOf(Pool[kase.key]) IN
  /\ WifRowsDecode(o, N, F) /\ PairRowsAgree(o, N, F)
  /\ (kase.rf \/ kase.ov # "" => Refeeds(o, N, F))
\* the ranges: as many tables as the range has paths; a public parent refuses exactly the hardened paths
Counts == Shows /\ kobj.cls = "hd" /\ ~HasDotPub(kase.sub) =>
  /\ Len(shwn) = Len(Paths(kase.sub))
  /\ \A i \in DOMAIN shwn : shwn[i].refused <=> (~IsPrivate(kobj.node) /\ \E j \in DOMAIN Paths(kase.sub)[i] : Paths(kase.sub)[i][j].h)
VersionTables == \A i \in DOMAIN RealNets : VersionsAgree(RealNets[i])
ASSUME VersionTables
=============================================================================
