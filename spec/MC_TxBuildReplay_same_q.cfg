CONSTANTS Variant = "std"  MaxSum = 5  MaxIns = 3  MaxPays = 4  MaxFee = 1
          ScaleKs = {12}  ScaleRs = {0}
          SrcPatterns = {"shared"}  ToPatterns = {"same"}
          EmitScaled = FALSE
SPECIFICATION RSpec
INVARIANTS DoneIsBuild OutcomeOK
CHECK_DEADLOCK FALSE
