CONSTANTS P = 1019  A = 1  B = 24  Gx = 1  Gy = 364  N = 1009
SPECIFICATION TSpec
CHECK_DEADLOCK FALSE
