------------------------------ MODULE X05_Crack ------------------------------
(* X05 - what an attacker can compute, and what he cannot.                    *)
(*                                                                            *)
(* Part 1  ECDSA with a reused nonce, over the group of EC.tla / ECDSA.tla:   *)
(*         the two signing equations as a SYSTEM in the unknowns (k, d), its   *)
(*         solution set by definition (a set comprehension over the group) and *)
(*         in closed form (2x2 linear algebra mod N plus the equation          *)
(*         r = x(kG) mod N), the outcome a recovery helper is entitled to.     *)
(* Part 2  the same case analysis on CLASSES (no numbers): used for 256-bit    *)
(*         orders, proved to agree with Part 1 on every toy case.              *)
(* Part 3  BIP32: the ascent from (public parent, private non-hardened child)  *)
(*         as the inverse action of CKDpriv of BIP32.tla - on terms, and       *)
(*         interpreted over a toy group where TLC computes everything and the  *)
(*         BIP's "IL >= n or k_i = 0: this index is invalid" cases do occur.   *)
(*                                                                            *)
(* Written from SEC 1 (4.1.3), the textbook attack and BIP32 - not from        *)
(* pycoin's code.                                                              *)
EXTENDS ECDSA, TLC

\* BIP32.tla + ExtKeyText.tla (C09), read-only.  (They define an operator B(_); EC.tla has a constant B:
\* the instance keeps the two apart.)
T == INSTANCE ExtKeyText

\* TLC re-evaluates a LET-bound expression at every use; binding through a singleton set evaluates it once
Let1(S) == CHOOSE v \in S : TRUE

Zn     == 0..(N - 1)
ZnStar == 1..(N - 1)
Sgn    == {1, -1}

(* ======================= Part 1: the signing system ======================= *)
\* r as a function of the nonce
XR(k) == SMul(k, G)[1] % N
\* the same as a table (1..N-1), built by repeated addition of G (a recursive FUNCTION: TLC caches the
\* materialised tuple, which it would not do for anything that mentions the RECURSIVE operator SMul)
PtFX[kX \in 1..(N - 1)] == IF kX = 1 THEN G ELSE Add(PtFX[kX - 1], G)
PtTabX == SubSeq([kX \in 1..(N - 1) |-> PtFX[kX]], 1, N - 1)
XRT == SubSeq([kX \in 1..(N - 1) |-> PtTabX[kX][1] % N], 1, N - 1)
\* EC.tla's InvN is a lazy function (the CHOOSE is re-run at every application): materialise it once
InvT == SubSeq([aX \in 1..(N - 1) |-> InvN[aX]], 1, N - 1)
XRTOk == \A kX \in ZnStar : XRT[kX] = XR(kX) /\ PtTabX[kX] = SMul(kX, G) /\ (kX * InvT[kX]) % N = 1

\* ECDSA.tla's SigOf with r looked up in the table (r, s only): the lemmas below quantify over many digests
SigT(d, z, k) == LET r == XRT[k] IN [r |-> r, s |-> (InvT[k] * (((z % N) + r * d) % N)) % N]
SigTOk(d, z, k) == LET a == SigOf(d, z, k) IN SigT(d, z, k) = [r |-> a.r, s |-> a.s]
\* (r, s) is the signature on digest z made with key d and nonce k: BOTH equations of SEC 1 4.1.3
Signs(d, k, z, r, s) == /\ k \in ZnStar /\ r \in ZnStar /\ s \in ZnStar
                        /\ r = XRT[k]
                        /\ (s * k) % N = ((z % N) + r * d) % N
\* low-s normalisation (BIP62 rule 5 / Bitcoin Core's standardness): s is replaced by N - s when that is smaller;
\* here as a free choice, e = -1 means "s was replaced"
Flip(s, e) == IF e = 1 THEN s ELSE (N - s) % N
\* replacing s by N - s is signing with the nonce N - k: same r (x(-R) = x(R)), negated s
LowSIsNegNonce(d, k, z) == LET a == SigOf(d, z, k)  b == SigOf(d, z, N - k) IN
                           a.r = b.r /\ b.s = (N - a.s) % N
SignsIsSigOf(d, k, z) == LET a == SigOf(d, z, k) IN
   /\ SigUsable(a) => Signs(d, k, z, a.r, a.s)
   /\ \A r \in ZnStar, s \in ZnStar : Signs(d, k, z, r, s) => (a.r = r /\ a.s = s)

(* ---- one signature, nonce known ---- *)
\* s k = z + r d has exactly one solution d when r is invertible; with r = 0 (mod N) it says nothing about d
FromKDetermined(r) == r % N # 0
FromK(r, s, z, k) == ((((s % N) * (k % N) - (z % N)) % N) * InvT[r % N]) % N
FromKSound(d, k, z) == LET a == SigOf(d, z, k) IN
   SigUsable(a) => /\ FromK(a.r, a.s, z, k) = d
                   /\ FromK(a.r, (N - a.s) % N, z, N - k) = d                       \* the normalised signature with ITS nonce
                   /\ \A dd \in Zn : Signs(dd, k, z, a.r, a.s) => dd = d            \* uniqueness

(* ---- two signatures, one nonce ---- *)
(* An observation: r and, for each signature, s as seen (possibly low-s normalised) and the digest.    *)
(* The attacker's system: ONE key d and ONE nonce k with r = x(kG) mod N, and signs f1, f2 such that    *)
(*        f1 s1 k = z1 + r d     f2 s2 k = z2 + r d          (mod N).                                   *)
(* Its solutions, by definition:                                                                        *)
Holds(r, s1, z1, s2, z2, k, d, f1, f2) ==
   /\ XRT[k] = r
   /\ (f1 * s1 * k - z1 - r * d) % N = 0
   /\ (f2 * s2 * k - z2 - r * d) % N = 0
SolSet(r, s1, z1, s2, z2) ==
   {kd \in ZnStar \X Zn : \E f1 \in Sgn, f2 \in Sgn : Holds(r, s1, z1, s2, z2, kd[1], kd[2], f1, f2)}
\* ... with the signatures taken literally (no normalisation): what "two signatures with the same k" means
StrictSet(r, s1, z1, s2, z2) ==
   {kd \in ZnStar \X Zn : Holds(r, s1, z1, s2, z2, kd[1], kd[2], 1, 1)}

(* Closed form.  For fixed signs the two linear equations have determinant -r (f1 s1 - f2 s2):          *)
(*   full rank   f1 s1 # f2 s2: one solution  k = (z1 - z2) / (f1 s1 - f2 s2),  d = (f1 s1 k - z1) / r *)
(*   rank 1      f1 s1 = f2 s2: no solution when z1 # z2; when z1 = z2 EVERY k solves it (with the d   *)
(*               that goes with it) - the linear part determines nothing, only r = x(kG) is left, and   *)
(*               that is a discrete logarithm.                                                          *)
Den(s1, s2, f1, f2) == (f1 * s1 - f2 * s2) % N
PatK(s1, z1, s2, z2, f1, f2) == (((z1 - z2) % N) * InvT[Den(s1, s2, f1, f2)]) % N
PatD(r, s1, z1, f1, k) == (((f1 * s1 * k - z1) % N) * InvT[r]) % N
\* candidates <<k, d>> of the full-rank patterns that also satisfy r = x(kG) mod N (k = 0 is no nonce)
Cands(r, s1, z1, s2, z2) ==
   {c \in UNION {{<<k, PatD(r, s1, z1, ff[1], k)>> : k \in {PatK(s1, z1, s2, z2, ff[1], ff[2])} \ {0}} :
                   ff \in {gg \in Sgn \X Sgn : Den(s1, s2, gg[1], gg[2]) # 0}} :
      XRT[c[1]] = r}
\* the rank-deficient lines: every nonce with that r, each with its d
Lines(r, s1, z1, s2, z2) ==
   IF (z1 - z2) % N # 0 THEN {}
   ELSE {<<k, PatD(r, s1, z1, ff[1], k)>> : k \in {kk \in ZnStar : XRT[kk] = r},
                                            ff \in {gg \in Sgn \X Sgn : Den(s1, s2, gg[1], gg[2]) = 0}}
ClosedForm(r, s1, z1, s2, z2) == SolSet(r, s1, z1, s2, z2) = Cands(r, s1, z1, s2, z2) \cup Lines(r, s1, z1, s2, z2)
Undetermined(r, s1, z1, s2, z2) == Lines(r, s1, z1, s2, z2) # {}

\* the literal (strict) solution, 0 when there is none
StrictK(r, s1, z1, s2, z2) ==
   IF Den(s1, s2, 1, 1) = 0 THEN 0
   ELSE Let1({IF k # 0 /\ XRT[k] = r THEN k ELSE 0 : k \in {PatK(s1, z1, s2, z2, 1, 1)}})
StrictIsCand(r, s1, z1, s2, z2) ==
   LET k == StrictK(r, s1, z1, s2, z2) IN
   /\ k # 0 => /\ <<k, PatD(r, s1, z1, 1, k)>> \in Cands(r, s1, z1, s2, z2)
               /\ StrictSet(r, s1, z1, s2, z2) = {<<k, PatD(r, s1, z1, 1, k)>>}
   /\ (k = 0 /\ ~Undetermined(r, s1, z1, s2, z2)) => StrictSet(r, s1, z1, s2, z2) = {}

(* What a helper "recover the nonce from two signatures" owes its caller (r1, r2 as presented, in 1..N-1):  *)
(*   must    # 0: the signatures as given share that nonce - it is the answer, no refusal;                  *)
(*   else may # {}: only a low-s reading is consistent; the helper may return one of those nonces (it       *)
(*           handles the variants) or refuse (it says it cannot);                                           *)
(*   else    nothing satisfies the system, or the system is rank deficient: refuse.  Any number returned    *)
(*           would be a "nonce" that does not even reproduce r.                                             *)
Outcome(r1, s1, z1, r2, s2, z2) ==
   IF r1 # r2 THEN [must |-> 0, may |-> {}]             \* x(k1 G) # x(k2 G): not one nonce (nor k and -k)
   ELSE [must |-> StrictK(r1, s1, z1, s2, z2),
         may  |-> {c[1] : c \in Cands(r1, s1, z1, s2, z2)}]
KeysOf(r, s1, z1, s2, z2) == {c[2] : c \in Cands(r, s1, z1, s2, z2)}

\* the truth is always among the candidates, whichever signatures were normalised; (k, d) and (-k, d) go together:
\* the key is determined although the sign of the nonce is not
TruthIsCand(d, k, z1, z2, e1, e2) ==
   \A a \in {SigT(d, z1, k)}, b \in {SigT(d, z2, k)} :
   (SigUsable(a) /\ SigUsable(b) /\ (z1 - z2) % N # 0) =>
      \A s1 \in {Flip(a.s, e1)}, s2 \in {Flip(b.s, e2)} :
      \A C \in {Cands(a.r, s1, z1 % N, s2, z2 % N)} :
      /\ a.r = b.r
      /\ <<k, d>> \in C /\ <<N - k, d>> \in C
      /\ (e1 = e2) => StrictK(a.r, s1, z1 % N, s2, z2 % N) = (e1 * k) % N
      /\ ~Undetermined(a.r, s1, z1 % N, s2, z2 % N)
\* the same digest twice (or congruent digests): the second signature adds nothing
SameDigestUndetermined(d, k, z, e1, e2) ==
   LET a == SigT(d, z, k) IN
   SigUsable(a) => LET s1 == Flip(a.s, e1)  s2 == Flip(a.s, e2) IN
                   /\ Undetermined(a.r, s1, z % N, s2, z % N)
                   /\ Outcome(a.r, s1, z % N, a.r, s2, z % N) = [must |-> 0, may |-> {}]

(* ======================= Part 2: the case analysis on classes ======================= *)
(* A case names how the two signatures came about, without numbers:                                      *)
(*   second  "same"       same key, same nonce k                                                        *)
(*           "otherkey"   another key, same nonce (two wallets, one broken random generator)            *)
(*           "othernonce" same key, another nonce (r differs)                                           *)
(*           "copy"       the second "signature" is the first one's (r, s) attached to the other digest *)
(*   zsame   the two digests are congruent mod N                                                        *)
(*   e1, e2  which signatures are low-s normalised                                                      *)
(* The class outcome: kind "must" with the sign of the nonce to return, "may" (+k, -k or refusal),      *)
(* "refuse".  ClassAgrees ties it to Part 1 on every toy case; what Part 1 finds beyond it are          *)
(* coincidences of a small group (counted by MC_X05: they vanish as 1/N).                               *)
ClassOutcome(c) ==
   CASE c.second = "othernonce" -> [kind |-> "refuse", sign |-> 0]
     [] c.second \in {"otherkey", "copy"} -> [kind |-> "refuse", sign |-> 0]
     [] c.zsame -> [kind |-> "refuse", sign |-> 0]
     [] c.e1 = c.e2 -> [kind |-> "must", sign |-> c.e1]
     [] OTHER -> [kind |-> "may", sign |-> 0]
\* Part 1's outcome o refines the class outcome for true nonce k
ClassAgrees(co, o, k) ==
   CASE co.kind = "must"   -> o.must = (co.sign * k) % N
     [] co.kind = "may"    -> {k, N - k} \subseteq o.may
     [] co.kind = "refuse" -> TRUE                       \* o.may # {} here is a coincidence
Coincidence(co, o, k) ==
   CASE co.kind = "must"   -> FALSE
     [] co.kind = "may"    -> o.must # 0 \/ o.may # {k, N - k}
     [] co.kind = "refuse" -> o.must # 0 \/ o.may # {}

(* ======================= Part 3: BIP32 - ascending from a child ======================= *)
(* On terms.  k_i = parse256(IL) + k_par with I = HMAC(c_par, serP(K_par) || ser32(i)) for a             *)
(* non-hardened i: everything under the HMAC is PUBLIC, so who holds (K_par, c_par) and k_i computes    *)
(* k_par = k_i - parse256(IL).  For a hardened i the HMAC data contains ser256(k_par): no ascent.       *)
Diff(a, b) == [t |-> "diff", a |-> a, b |-> b]                 \* scalar term: a - parse256(b)  (mod n)
AscendKey(pubPar, childKey, ix) == Diff(childKey, T!L32(T!Hmac(pubPar.chain, T!PubData(pubPar, ix))))
\* a difference whose subtrahend IS the last summand cancels (a + x - x = a)
Cancel(t) == IF t.t = "diff" /\ t.a.t = "sum" /\ t.a.ts # <<>> /\ t.a.ts[Len(t.a.ts)] = t.b
             THEN T!Sum(SubSeq(t.a.ts, 1, Len(t.a.ts) - 1)) ELSE t
\* the recovered node keeps the parent's depth, parent fingerprint, child number and chain code.  It is accepted only
\* if it reproduces the public key the attacker started from (k G = K_par), otherwise the pair did not belong together.
Ascend(pubPar, childKey, ix) ==
   IF ix.h THEN T!Refused
   ELSE LET kk == Cancel(AscendKey(pubPar, childKey, ix)) IN
        IF kk.t = "sum" /\ T!PointOf(kk) = T!PubKey(pubPar) THEN [pubPar EXCEPT !.key = kk] ELSE T!Refused
\* the public nodes along a path (CKDpub all the way)
RECURSIVE PubPath(_, _)
PubPath(x, path) == IF path = <<>> THEN x ELSE PubPath(T!CKDpub(x, Head(path)), Tail(path))
FrontOf(s) == SubSeq(s, 1, Len(s) - 1)
\* from a descendant's private key up to the node itself
RECURSIVE Crack(_, _, _)
Crack(pub, key, path) ==
   IF path = <<>> THEN (IF T!PointOf(key) = T!PubKey(pub) THEN [pub EXCEPT !.key = key] ELSE T!Refused)
   ELSE IF \E i \in 1..Len(path) : path[i].h THEN T!Refused
   ELSE LET a == Ascend(PubPath(pub, FrontOf(path)), key, path[Len(path)]) IN
        IF a = T!Refused THEN T!Refused ELSE Crack(pub, a.key, FrontOf(path))

\* the lemmas: ascent inverts derivation - as a key and as a node (hence as text) - and refuses what is not a child
AscendInverts(par, ix) ==
   IF ix.h THEN Ascend(T!Neuter(par), T!CKDpriv(par, ix).key, ix) = T!Refused
   ELSE /\ T!PubData(T!Neuter(par), ix) = T!PrivData(par, ix)                         \* why it works
        /\ Ascend(T!Neuter(par), T!CKDpriv(par, ix).key, ix) = par
        /\ \A vv \in {<<4, 136, 173, 228>>} :
              T!ExtText(Ascend(T!Neuter(par), T!CKDpriv(par, ix).key, ix), TRUE, vv) = T!ExtText(par, TRUE, vv)
AscendRefusesStranger(par, other, ix, jx) ==
   (other # par \/ jx # ix) => Ascend(T!Neuter(par), T!CKDpriv(other, jx).key, ix) = T!Refused
CrackInverts(root, path) ==
   IF \E i \in 1..Len(path) : path[i].h THEN Crack(T!Neuter(root), T!PrivPath(root, path).key, path) = T!Refused
   ELSE Crack(T!Neuter(root), T!PrivPath(root, path).key, path) = root

(* Interpreted over the toy group.  HMAC-SHA512 is an arbitrary function: its left half, read as a       *)
(* number, is ANY il in 0..M-1 (M > N, so il >= N occurs).  BIP32: "In case parse256(IL) >= n or k_i = 0, *)
(* the resulting key is invalid, and one should proceed with the next value for i."                      *)
ToyValid(kpar, il) == il < N /\ (il + kpar) % N # 0
ToyCKD(kpar, il) == (il + kpar) % N
\* the attacker knows K_par (a point), il (he can compute the HMAC) and the claimed child key kc; 0 = refused
ToyAscend(Kpar, kc, il) ==
   IF il >= N \/ kc \notin ZnStar THEN 0                  \* no valid child exists at this index / not a private key
   ELSE LET kk == (kc - il) % N IN IF kk # 0 /\ PtTabX[kk] = Kpar THEN kk ELSE 0
\* meaning of the scalar terms of a ONE-step derivation from the parent named "par" (its key: kpar; the one HMAC: il)
ValLeaf(x, kpar, il) == CASE x.t = "ref" -> kpar [] x.t = "l32" -> il
RECURSIVE ValS(_, _, _)
ValS(t, kpar, il) ==
   CASE t.t = "sum"  -> LET f[i \in 0..Len(t.ts)] == IF i = 0 THEN 0 ELSE (f[i - 1] + ValLeaf(t.ts[i], kpar, il)) % N
                        IN f[Len(t.ts)]
     [] t.t = "diff" -> (ValS(t.a, kpar, il) - ValLeaf(t.b, kpar, il)) % N
ToyPar == T!Lift("par", [depth |-> 1, pfp |-> T!B(<<0, 0, 0, 0>>), cn |-> T!Idx(FALSE, 0),
                         chain |-> T!B(<<>>), key |-> T!Sum(<<T!B(<<>>)>>)])
\* BIP32.tla's CKDpriv, read in the toy group, is ToyCKD; Ascend's term is ToyAscend's value; they are inverse
\* exactly on the valid cases and ToyAscend refuses everything else
ToyCompose(kpar, il, ix) ==
   LET child == T!CKDpriv(ToyPar, ix)
       up == AscendKey(T!Neuter(ToyPar), child.key, ix)
       Kpar == PtTabX[kpar] IN
   /\ ValS(child.key, kpar, il) = ToyCKD(kpar, il)
   /\ ValS(up, kpar, il) = kpar /\ Cancel(up) = ToyPar.key
   /\ ToyValid(kpar, il) => ToyAscend(Kpar, ToyCKD(kpar, il), il) = kpar
   /\ \A kc \in 0..N : LET a == ToyAscend(Kpar, kc, il) IN
         /\ a # 0 => (a = kpar /\ ToyValid(kpar, il) /\ ToyCKD(kpar, il) = kc)         \* exact inverse, nothing else
         /\ ~ToyValid(kpar, il) => a = 0
=============================================================================
