----------------------------- MODULE MC_Classify -----------------------------
(* C08 - TLC enumerates token scripts and prints, for each, the set of        *)
(* answers a faithful classifier may give (Classify!Allowed); the harness     *)
(* turns every script into bytes and asks pycoin.  Two enumerations:          *)
(*   Mode = "grow"   every token sequence of length 0..MaxLen over Alphabet   *)
(*   Mode = "neigh"  every script within edit distance Dist (substitute,      *)
(*                   insert, delete one token) of an instance of a template   *)
(*   Mode = "msig"   the multisig shape  X <k keys> Y OP_CHECKMULTISIG  for k   *)
(*                   in {1,2,3,15..21}, keys of 33 or 65 bytes, and EVERY     *)
(*                   candidate token in the m position X and the n position   *)
(*                   Y: OP_1..OP_16, the opcodes just above OP_16 (OP_NOP =   *)
(*                   0x61, OP_VER, OP_IF, OP_NOTIF, OP_VERIF), OP_0,          *)
(*                   OP_1NEGATE, data pushes, other opcodes.  MsigLemma says  *)
(*                   which of them ARE multisig: exactly X = OP_m, Y = OP_k   *)
(*                   with 1 <= m <= k <= 16 (n is a small-integer opcode: an  *)
(*                   opcode beyond OP_16 is not a number, whatever its byte)  *)
(* The lemmas of Classify are invariants of all three.                        *)
EXTENDS Classify, Json

CONSTANTS Mode, MaxLen, Dist, PushLens, WithBig

Ops == {"DUP", "HASH160", "EQUALVERIFY", "CHECKSIG", "EQUAL", "1", "2", "3", "16",
        "CHECKMULTISIG", "RETURN", "NOP"}
Encs == IF WithBig THEN {"min", "big"} ELSE {"min"}
\* the token alphabet at position i (the position is the identity of the data)
Alphabet(i) == {Op(n) : n \in Ops} \cup {Push(l, e, i) : l \in PushLens, e \in Encs}

\* ---- template instances (hashes 20/32, keys 33/65) ------------------------
Templates ==
  { Build("p2pkh", [h |-> Data(20, 3)]), Build("p2sh", [h |-> Data(20, 2)]),
    Build("p2wpkh", [h |-> Data(20, 2)]), Build("p2wsh", [h |-> Data(32, 2)]),
    Build("p2tr", [h |-> Data(32, 2)]),
    Build("p2pk", [h |-> Data(33, 1)]), Build("p2pk", [h |-> Data(65, 1)]),
    Build("multisig", [m |-> 1, keys |-> <<Data(33, 2)>>]),
    Build("multisig", [m |-> 1, keys |-> <<Data(33, 2), Data(65, 3)>>]),
    Build("multisig", [m |-> 2, keys |-> <<Data(33, 2), Data(33, 3)>>]),
    Build("multisig", [m |-> 2, keys |-> <<Data(33, 2), Data(65, 3), Data(33, 4)>>]),
    Build("nulldata", [rest |-> <<Push(20, "min", 2)>>]),
    Build("nulldata", [rest |-> <<>>]) }

\* re-identify the pushes of a script by position
Renum(s) == [i \in DOMAIN s |-> IF IsPush(s[i]) THEN Push(s[i].len, s[i].enc, i) ELSE s[i]]
Edits(s) ==
  LET subs == {[s EXCEPT ![i] = a] : i \in DOMAIN s, a \in Alphabet(0)}
      ins  == {SubSeq(s, 1, i) \o <<a>> \o SubSeq(s, i + 1, Len(s)) : i \in 0..Len(s), a \in Alphabet(0)}
      del  == {SubSeq(s, 1, i - 1) \o SubSeq(s, i + 1, Len(s)) : i \in DOMAIN s}
  IN {Renum(x) : x \in subs \cup ins \cup del}
\* the edit ball is explored as TLC steps (one edit per step), so that it is built in parallel and
\* deduplicated by fingerprint; the view is the script alone
VARIABLES s, dist
\* ---- the multisig shape with every candidate in the m and n positions ----------------
SmallInts == {SmallInt(k) : k \in 1..16}
MPos == SmallInts \cup {Op("NOP"), Op("VER"), Op("1NEGATE"), Op("DUP"), OP0, Push(1, "min", 1), Push(33, "min", 1)}
NPos == SmallInts \cup {Op("NOP"), Op("VER"), Op("IF"), Op("NOTIF"), Op("VERIF"), Op("1NEGATE"), Op("CHECKMULTISIG"), Op("DUP"),
                        OP0, Push(1, "min", 1), Push(20, "min", 1), Push(1, "big", 1)}
KeyCounts == {1, 2, 3, 15, 16, 17, 18, 19, 20, 21}
MsigShape(x, k, kl, y) == Renum(<<x>> \o [i \in 1..k |-> Push(kl, "min", 0)] \o <<y, Op("CHECKMULTISIG")>>)
MsigScripts == {MsigShape(x, k, kl, y) : x \in MPos, k \in KeyCounts, kl \in {33, 65}, y \in NPos}
\* which of them are multisig (k = number of pushes between the first token and the last two)
MsigLemma == Mode = "msig" =>
   LET k == Len(s) - 3 IN
   IsKind("multisig", s) <=> (/\ k \in 1..16 /\ s[Len(s) - 1] = SmallInt(k)
                               /\ \E m \in 1..k : s[1] = SmallInt(m))

Init == CASE Mode = "grow" -> s = <<>> /\ dist = 0
          [] Mode = "neigh" -> s \in {Renum(t) : t \in Templates} /\ dist = 0
          [] Mode = "msig" -> s \in MsigScripts /\ dist = 0
Next == \/ /\ Mode = "grow" /\ Len(s) < MaxLen
           /\ \E a \in Alphabet(Len(s) + 1) : s' = Append(s, a)
           /\ dist' = dist
        \/ /\ Mode = "neigh" /\ dist < Dist
           /\ s' \in Edits(s)
           /\ dist' = dist + 1
Spec == Init /\ [][Next]_<<s, dist>>
View == s

\* compact token form for the export: <<"op", name>> / <<"push", len, enc, id>>
Tok(x) == IF IsPush(x) THEN <<"push", x.len, x.enc, x.id>> ELSE <<"op", x.n>>
Toks(x) == [i \in DOMAIN x |-> Tok(x[i])]
Emit == PrintT(ToJson([k |-> "cls", s |-> Toks(s), addr |-> AddrKindOf(s),
                       allowed |-> {[r EXCEPT !.rest = Toks(r.rest)] : r \in Allowed(s)}]))
\* exported once per distinct state (the constraint is evaluated once per state)
Export == Emit

Lemmas == OneKind(s) /\ Canonical(s) /\ MsigLemma
\* every parameter set in the grid builds a script of its own kind and nothing else
Params == [h : {Data(l, 1) : l \in PushLens}]
BuildLemma == /\ \A K \in AddrKindSet \cup {"p2pk"} : \A prm \in Params : BuildFaithful(K, prm)
              /\ \A K1 \in AddrKindSet, K2 \in AddrKindSet : \A p1 \in Params, p2 \in Params :
                   (InDomain(K1, p1) /\ InDomain(K2, p2) /\ Build(K1, p1) = Build(K2, p2)) => (K1 = K2 /\ p1 = p2)
ASSUME BuildLemma
=============================================================================
