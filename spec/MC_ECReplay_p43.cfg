CONSTANTS P = 43  A = 0  B = 7  Gx = 2  Gy = 12  N = 31  MaxM = 44
SPECIFICATION Spec
CHECK_DEADLOCK FALSE
