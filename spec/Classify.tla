------------------------------ MODULE Classify ------------------------------
(* C08 - faithful classification of output scripts.                           *)
(*                                                                            *)
(* Rule book (BIP16, BIP141, BIP341, the "standard" output templates of       *)
(* Bitcoin Core's Solver): a script is a sequence of TOKENS, an opcode or a   *)
(* data push.  A push is described by the length of its data, by HOW it is    *)
(* encoded (the shortest possible push opcode, "min", or the next larger      *)
(* PUSHDATA form, "big") and by an identity of the data (id) so that the      *)
(* parameter a classifier extracts can be told apart from the other pushes.   *)
(*                                                                            *)
(*   Build(K, prm)  the one script of kind K with parameters prm: data is     *)
(*                  always pushed with the shortest opcode.                   *)
(*   a script IS of kind K  iff  Build(K, prm) = script for some prm.         *)
(*                                                                            *)
(* The property demands: a classifier may report kind K with parameters prm   *)
(* only if Build(K, prm) is the script (byte for byte), and the five address  *)
(* kinds must be recognised exactly (their addresses must parse back).        *)
EXTENDS Naturals, Sequences, SequencesExt, FiniteSets, TLC

Op(n) == [t |-> "op", n |-> n, len |-> 0, enc |-> "", id |-> 0]
Push(len, enc, id) == [t |-> "push", n |-> "", len |-> len, enc |-> enc, id |-> IF len = 0 THEN 0 ELSE id]
IsPush(tok) == tok.t = "push"
\* the value a push puts on the stack
Data(len, id) == [len |-> len, id |-> IF len = 0 THEN 0 ELSE id]
DataOf(tok) == Data(tok.len, tok.id)
MinPush(d) == Push(d.len, "min", d.id)
OP0 == Push(0, "min", 0)          \* OP_0 is the shortest push of the empty string
SmallInt(k) == Op(ToString(k))    \* OP_1 .. OP_16
SmallVal(tok) == IF tok.t = "op" /\ \E k \in 1..16 : tok.n = ToString(k)
                 THEN CHOOSE k \in 1..16 : tok.n = ToString(k) ELSE 0

AddrKinds == <<"p2pkh", "p2sh", "p2wpkh", "p2wsh", "p2tr">>
AddrKindSet == {AddrKinds[i] : i \in DOMAIN AddrKinds}
HashLen(K) == CASE K = "p2pkh" -> 20 [] K = "p2sh" -> 20 [] K = "p2wpkh" -> 20
                [] K = "p2wsh" -> 32 [] K = "p2tr" -> 32

\* ---- the templates -------------------------------------------------------
\* (multisig: m and n are SMALL-INTEGER opcodes OP_1 .. OP_16; n is the number of keys.  A token in the n
\*  position that is not one of these sixteen opcodes - OP_NOP = OP_16 + 1, OP_VER, OP_0, OP_1NEGATE, a data
\*  push - is not a number, so such a script is not multisig however many keys it carries: rebuilding it from
\*  (m, keys) would write a different byte there)
\* prm: [h |-> data]               for the address kinds and p2pk (h = the key)
\*      [m |-> 1..16, keys |-> <<data,...>>]                    for multisig
\*      [rest |-> <<tokens>>]      for nulldata (everything after OP_RETURN)
Build(K, prm) ==
  CASE K = "p2pkh"  -> <<Op("DUP"), Op("HASH160"), MinPush(prm.h), Op("EQUALVERIFY"), Op("CHECKSIG")>>
    [] K = "p2sh"   -> <<Op("HASH160"), MinPush(prm.h), Op("EQUAL")>>
    [] K = "p2wpkh" -> <<OP0, MinPush(prm.h)>>
    [] K = "p2wsh"  -> <<OP0, MinPush(prm.h)>>
    [] K = "p2tr"   -> <<SmallInt(1), MinPush(prm.h)>>
    [] K = "p2pk"   -> <<MinPush(prm.h), Op("CHECKSIG")>>
    [] K = "multisig" -> <<SmallInt(prm.m)>> \o [i \in DOMAIN prm.keys |-> MinPush(prm.keys[i])]
                         \o <<SmallInt(Len(prm.keys)), Op("CHECKMULTISIG")>>
    [] K = "nulldata" -> <<Op("RETURN")>> \o prm.rest

InDomain(K, prm) ==
  CASE K \in AddrKindSet -> prm.h.len = HashLen(K)
    [] K = "p2pk" -> prm.h.len >= 1
    [] K = "multisig" -> Len(prm.keys) \in 1..16 /\ prm.m \in 1..Len(prm.keys)
                         /\ \A i \in DOMAIN prm.keys : prm.keys[i].len >= 1
    [] K = "nulldata" -> TRUE

\* ---- matching: the parameters can only be the data the script pushes ------
HParam(tok) == [h |-> DataOf(tok)]
Candidates(K, s) ==
  CASE K = "p2pkh"  -> IF Len(s) = 5 /\ IsPush(s[3]) THEN {HParam(s[3])} ELSE {}
    [] K = "p2sh"   -> IF Len(s) = 3 /\ IsPush(s[2]) THEN {HParam(s[2])} ELSE {}
    [] K \in {"p2wpkh", "p2wsh", "p2tr"} -> IF Len(s) = 2 /\ IsPush(s[2]) THEN {HParam(s[2])} ELSE {}
    [] K = "p2pk"   -> IF Len(s) = 2 /\ IsPush(s[1]) THEN {HParam(s[1])} ELSE {}
    [] K = "multisig" ->
         IF Len(s) >= 4 /\ SmallVal(s[1]) > 0 /\ \A i \in 2..(Len(s) - 2) : IsPush(s[i])
         THEN {[m |-> SmallVal(s[1]), keys |-> [i \in 1..(Len(s) - 3) |-> DataOf(s[i + 1])]]} ELSE {}
    [] K = "nulldata" -> IF Len(s) >= 1 THEN {[rest |-> Tail(s)]} ELSE {}

AllKinds == <<"p2pkh", "p2sh", "p2wpkh", "p2wsh", "p2tr", "p2pk", "multisig", "nulldata">>
Matches(K, s) == {prm \in Candidates(K, s) : InDomain(K, prm) /\ Build(K, prm) = s}
IsKind(K, s) == Matches(K, s) # {}
KindsOf(s) == {AllKinds[i] : i \in {j \in DOMAIN AllKinds : IsKind(AllKinds[j], s)}}
AddrKindOf(s) == IF \E K \in AddrKindSet : IsKind(K, s) THEN CHOOSE K \in AddrKindSet : IsKind(K, s) ELSE "none"

\* what a faithful classifier may answer for s: an address kind must be recognised, any
\* other standard kind may be reported or not ("unknown"), nothing else may be reported
NoPrm == [h |-> Data(0, 0)]
Report(K, prm) ==
  [kind |-> K,
   h    |-> IF K \in AddrKindSet \cup {"p2pk"} THEN prm.h ELSE Data(0, 0),
   m    |-> IF K = "multisig" THEN prm.m ELSE 0,
   keys |-> IF K = "multisig" THEN prm.keys ELSE <<>>,
   rest |-> IF K = "nulldata" THEN prm.rest ELSE <<>>]
Unknown == [kind |-> "unknown", h |-> Data(0, 0), m |-> 0, keys |-> <<>>, rest |-> <<>>]
Allowed(s) ==
  LET std == UNION {{Report(K, prm) : prm \in Matches(K, s)} : K \in KindsOf(s)} IN
  IF AddrKindOf(s) # "none" THEN std ELSE std \cup {Unknown}

\* ---- lemmas (checked by MC_Classify over every enumerated script) ---------
\* the templates do not overlap: a script has at most one kind and one parameter set
OneKind(s) == Cardinality(KindsOf(s)) <= 1 /\ \A K \in KindsOf(s) : Cardinality(Matches(K, s)) = 1
\* a script of a kind pushes all its parameters minimally
Canonical(s) == \A K \in KindsOf(s) \ {"nulldata"} : \A i \in DOMAIN s : IsPush(s[i]) => s[i].enc = "min"
\* Build is injective and lands in its own kind (addresses <-> scripts is one-to-one)
BuildFaithful(K, prm) == InDomain(K, prm) => prm \in Matches(K, Build(K, prm))
=============================================================================
