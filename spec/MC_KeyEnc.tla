------------------------------ MODULE MC_KeyEnc ------------------------------
(* Model checking of KeyEnc.tla / DerSig.tla and the spec -> code export for   *)
(* property C10.  One TLC state per WORK ITEM (a blob prefix, an exponent, a   *)
(* prefix byte ...); the single step of an item evaluates the rule book on     *)
(* every case of the item, checks the lemmas on each of them (invariant        *)
(* NoBad) and prints the expected outcomes as one JSON record.  The harness    *)
(* (harness/vf/props/c10.py) runs every printed case - and, for the exhaustive *)
(* stages, every blob of the family the header record describes - on pycoin    *)
(* and compares with what is printed here.                                     *)
(*                                                                             *)
(* Stage        work items                      cases of an item               *)
(*  "sec"       <<pfx>> || X (small curves)     alone, and followed by every Y *)
(*  "secmut"    as "sec", for a sloppy decoder  (must VIOLATE the lemmas)      *)
(*  "toykey"    an exponent; an abscissa; a     range rule; every ordinate;    *)
(*              point                           Decode(Encode(P)) = P lemmas   *)
(*  "pubrep"    (representation kind, abscissa) every ordinate the kind can    *)
(*              infinity spellings, k*G, Q-Q    carry; all refused             *)
(*  "sec256"    (length, prefix octet)          x class x y class x mode       *)
(*  "wif"       a 32-byte exponent              payload shapes x prefix ok/bad *)
(*  "der"       a blob prefix                   every extension over DerExt    *)
(*  "dersig"    r                               every s; trailing mutations;   *)
(*                                              over-announced integer lengths *)
(*  "derask"    a blob handed in by the harness the machine's verdict on it    *)
(*              (file named by DER_ASK)         (phase, reason, deviations)    *)
EXTENDS KeyEnc, DerSig, Json, IOUtils

CONSTANTS Stage,
          SecLens,                              \* "sec256": blob lengths
          SecPfx, SecXs, SecYs, SecLongYs,      \* "sec": prefix octets, X values, Y values, Y values also tried with one octet too many
          DerPos,                               \* "der": the alphabet of each position of the prefix (a sequence of sets)
          DerExt, DerExtLen                     \* extension alphabet (a sequence), longest extension

\* values the cfg files substitute (a cfg cannot spell tuples)
Sigma8  == <<0, 1, 2, 48, 127, 128, 129, 255>>          \* 00 01 02 30 7f 80 81 ff
Sigma12 == <<0, 1, 2, 3, 4, 5, 6, 48, 127, 128, 129, 255>>
Set8    == {Sigma8[i] : i \in 1..8}
Set12   == {Sigma12[i] : i \in 1..12}
Set13   == Set12 \cup {130}                            \* ... and 82, the two-octet long form
Only30  == {48}
PosNone  == <<Only30>>
PosShort == <<Set12, Set12>>                           \* with Sigma12^(0..3): every string of <= 5 octets over Sigma12
PosGridQ == <<Only30, Set13, Set13, Set8>>             \* with Sigma8^(0..3): 30 .. of 4..7 octets
PosGridT == <<Only30, Set13, Set13, Set8, Set8>>       \* with Sigma8^(0..3): 30 .. of 5..8 octets
PosSigQ  == <<Only30, {5, 6, 7}, {2}, {1, 2}, Set8, Set8>>          \* with Sigma8^(0..3): 30 06 02 01 r 02 01 s and neighbours, 6..9 octets
PosSigT  == <<Only30, {4, 5, 6, 7, 8, 129}, {2}, {0, 1, 2, 3, 129}, Set8, Set8, Set8>>   \* with Sigma8^(0..3): 7..10 octets
One0    == <<0>>
AllBytes == 0..255
LensQ == {0, 1, 32, 33, 34, 64, 65, 66}
LensT == 0..70
SlicePfx == {0, 1, 2, 3, 4, 5, 6, 7, 8, 255}
SlicePfx7 == {0, 2, 3, 4, 6, 7, 255}
SlicePfx32 == (0..15) \cup {16, 32, 64, 127, 128, 129, 130, 131, 132, 134, 135, 192, 252, 253, 254, 255}
FieldEdge == (0..5) \cup ((P - 3)..(P + 5)) \cup ((2 * P - 2)..(2 * P + 2)) \cup {255, 256, 257, 65535 - P, 65534, 65535}
FieldEdgeWide == (0..(2 * P + 5)) \cup {65535 - P, 65534, 65535}
AllX2 == 0..65535

VARIABLES item, ph, res
vars == <<item, ph, res>>

(* ================================================================== stage "sec" *)
SecShorts ==      \* every blob shorter than a compressed key
  {<<>>} \cup {<<a>> : a \in KByte} \cup (IF CL = 2 THEN {<<a, h>> : a \in SecPfx, h \in KByte} ELSE {})
SecItems == {[t |-> "short", b |-> s] : s \in SecShorts}
       \cup {[t |-> "px", pfx |-> a, x |-> x] : a \in SecPfx, x \in SecXs}
SecBlobsOf(it) ==
  IF it.t = "short" THEN {it.b}
  ELSE LET b0 == <<it.pfx>> \o BEEnc(it.x, CL)
       IN {b0} \cup {b0 \o BEEnc(y, CL) : y \in SecYs}
               \cup {b0 \o BEEnc(y, CL) \o <<0>> : y \in SecLongYs}
               \cup (IF CL = 2 THEN {b0 \o <<y % 256>> : y \in SecLongYs} ELSE {})
SecEval(it) ==
  LET bs == SecBlobsOf(it)
      \* <<blob, strict decoding, non-strict decoding>>, each computed once
      ds == {<<b, SecDecode(b, TRUE), SecDecode(b, FALSE)>> : b \in bs}
  IN [k |-> "sec", it |-> it, n |-> Cardinality(bs),
      acc |-> {[b |-> d[1], strict |-> d[2] # NoPt, pt |-> d[3], comp |-> SecCompressed(d[1])] : d \in {d \in ds : d[3] # NoPt}},
      bad |-> {d[1] : d \in {d \in ds : ~SecLemmasR(d[1], d[2], d[3])}}]
SecHeader == [k |-> "sechdr", p |-> P, a |-> A, b |-> B, gx |-> Gx, gy |-> Gy, n |-> N, cl |-> CL,
              pfx |-> SecPfx, xs |-> SecXs, ys |-> SecYs, longys |-> SecLongYs, npoints |-> Cardinality(Affine)]

(* ================================================================ stage "secmut" *)
\* Teeth of the lemmas: a decoder that reduces the coordinates modulo p instead of refusing
\* x >= p (the slip the property's rationale names) must be caught by Canonical - this stage is
\* EXPECTED to violate NoBad.
LooseDecode(b) ==
  IF Len(b) = 1 + CL /\ b[1] \in {2, 3} THEN
       LET x == SecX(b) % P  ys == {y \in Ys(x) : y % 2 = b[1] - 2}
       IN IF ys = {} THEN NoPt ELSE <<x, CHOOSE y \in ys : TRUE>>
  ELSE SecDecode(b, TRUE)
MutEval(it) ==
  LET bs == SecBlobsOf(it)
  IN [k |-> "secmut", it |-> it, bad |-> {b \in bs : ~CanonicalR(b, LooseDecode(b), LooseDecode(b))}]

(* =============================================================== stage "toykey" *)
ToySes == ((0 - 2)..(N + 2)) \cup {2 * N - 1, 2 * N, 2 * N + 1, 255, 256, 65535}
ToyCoords == 0..(P + 2)
ToyItems == {[t |-> "se", v |-> k] : k \in ToySes} \cup {[t |-> "pair", x |-> x] : x \in ToyCoords}
            \cup {[t |-> "pt", pt |-> pt] : pt \in Affine}
ToyEval(it) ==
  IF it.t = "pt"            \* the per-point lemmas; the encodings of the point in the three forms
  THEN [k |-> "toypt", pt |-> it.pt, c |-> SecEncode(it.pt, "c"), u |-> SecEncode(it.pt, "u"), h |-> SecEncode(it.pt, "h"),
        bad |-> IF DecEncPt(it.pt) /\ NoLift(it.pt) THEN {} ELSE {it.pt}]
  ELSE IF it.t = "se"
  THEN [k |-> "toyse", v |-> it.v, ok |-> SeOk(it.v), pub |-> IF SeOk(it.v) THEN PubOf(it.v) ELSE <<>>,
        bad |-> IF SeOk(it.v) /\ ~(PubOf(it.v) \in Affine /\ PairOk(PubOf(it.v)[1], PubOf(it.v)[2])) THEN {it.v} ELSE {}]
  ELSE [k |-> "toypair", x |-> it.x, n |-> Cardinality(ToyCoords),
        ys |-> {y \in ToyCoords : PairOk(it.x, y)},
        \* integers that are not field elements but are congruent to a point: refused or read as it (LiftOutcomeOk)
        lift |-> {y \in ToyCoords : ~PairOk(it.x, y) /\ OnCurveXY(it.x, y)},
        liftread |-> {<<y, LiftRead(it.x, y)>> : y \in {y \in ToyCoords : ~PairOk(it.x, y) /\ OnCurveXY(it.x, y)}},
        bad |-> {y \in ToyCoords : PairOk(it.x, y) /\ <<it.x, y>> \notin Affine}]

(* =============================================================== stage "pubrep" *)
\* Every way a caller can hand in a public point: representation kind x value.  The foreign curve is
\* another of the small curves (its points are offered, as point objects of THAT curve, to a key of this one).
Foreign == CASE P = 43 -> [p |-> 83, a |-> 1, b |-> 7, gx |-> 0, gy |-> 16, n |-> 79]
             [] P = 83 -> [p |-> 103, a |-> 0, b |-> 5, gx |-> 2, gy |-> 42, n |-> 97]
             [] OTHER  -> [p |-> 43, a |-> 0, b |-> 7, gx |-> 2, gy |-> 12, n |-> 31]
FOn(x, y) == x < Foreign.p /\ y < Foreign.p
             /\ (y * y - (x * x * x + Foreign.a * x + Foreign.b)) % Foreign.p = 0     \* x, y < 2^10: no overflow
RepKinds == {"tuple", "list", "ownpoint", "foreignpoint"}
RepCoords == 0..((IF P > Foreign.p THEN P ELSE Foreign.p) + 1)
\* which values a representation can carry at all (a point object only exists for a point of its curve)
Carries(kind, x, y) == CASE kind = "ownpoint"     -> PairOk(x, y)
                         [] kind = "foreignpoint" -> FOn(x, y)
                         [] OTHER                 -> TRUE
InfHows == {"none-tuple", "none-list", "own-infinity", "foreign-infinity"}
HalfHows == {"none-x", "none-y"}
RepItems == {[t |-> "col", kind |-> kd, x |-> x] : kd \in RepKinds, x \in RepCoords}
       \cup {[t |-> "inf", how |-> h] : h \in InfHows \cup HalfHows}
       \cup {[t |-> "kg", k |-> k] : k \in {0, N, 2 * N, 0 - N}}
       \cup {[t |-> "qmq"]}
RepEval(it) ==
  CASE it.t = "col" ->
        LET cand == {y \in RepCoords : Carries(it.kind, it.x, y)} IN
        [k |-> "repcol", kind |-> it.kind, x |-> it.x, cand |-> cand,
         acc |-> {y \in cand : PubOk(<<it.x, y>>)},
         \* not field elements but congruent to a point: refused or read as that point (LiftOutcomeOk)
         lift |-> {y \in cand : ~PubOk(<<it.x, y>>) /\ OnCurveXY(it.x, y)},
         liftread |-> {<<y, LiftRead(it.x, y)>> : y \in {y \in cand : ~PubOk(<<it.x, y>>) /\ OnCurveXY(it.x, y)}},
         bad |-> {y \in cand : PubOk(<<it.x, y>>) /\ <<it.x, y>> \notin Affine}]
    [] it.t = "inf" -> [k |-> "repinf", how |-> it.how, ok |-> FALSE, bad |-> {}]       \* infinity / not a pair: never a key
    [] it.t = "kg"  -> [k |-> "repkg", kk |-> it.k, isinf |-> PubOf(it.k) = Inf, ok |-> PubOk(PubOf(it.k)),
                        bad |-> IF PubOf(it.k) = Inf /\ ~PubOk(PubOf(it.k)) THEN {} ELSE {it.k}]
    [] it.t = "qmq" -> [k |-> "repqmq", pts |-> Affine, ok |-> FALSE,
                        bad |-> {q \in Affine : Add(q, Neg(q)) # Inf \/ PubOk(Add(q, Neg(q)))}]
\* the same rule on classes of values, for curves TLC cannot compute on (the harness concretizes on secp256k1,
\* foreign = secp256r1 and a small curve)
\* "lifted": own-affine with p added to one or both coordinates (refused, or read as the point: LiftOutcomeOk)
RepClasses == {"own-affine", "foreign-only", "off-both", "infinity", "half-none", "lifted"}
ClassCarried(kind, cls) == CASE kind = "ownpoint"     -> cls \in {"own-affine", "infinity"}
                             [] kind = "foreignpoint" -> cls \in {"foreign-only", "infinity"}
                             [] OTHER                 -> TRUE
RepTable == {[kind |-> kd, cls |-> c, ok |-> c = "own-affine", either |-> c = "lifted"] : kd \in RepKinds, c \in RepClasses}
RepHeader == [k |-> "rephdr", p |-> P, a |-> A, b |-> B, gx |-> Gx, gy |-> Gy, n |-> N, foreign |-> Foreign,
              table |-> {r \in RepTable : ClassCarried(r.kind, r.cls)}]

(* =============================================================== stage "sec256" *)
\* secp256k1: coordinates are 32 octets; the blob is described by classes the harness concretizes.
\*  x classes  "pt"     abscissa of a point             "nopt"    field element, no point has it
\*             "pt+p"   the former plus p (< 2^256)     "nopt+p"  the latter plus p
\*  y classes  "even" / "odd"  the root of that parity  "off"     a field element that is no root
\*             "root+p"  a root plus p (< 2^256)
Lens256 == SecLens
XClasses == {"pt", "nopt", "pt+p", "nopt+p"}
YClasses == {"even", "odd", "off", "root+p"}
Fields256(len, pfx, xc, yc) ==
  LET sh == Shape(len, 32) IN
  [shape |-> sh, pfx |-> IF len >= 1 THEN pfx ELSE -1,
   xlt |-> sh # "bad" /\ xc \in {"pt", "nopt"},
   ylt |-> sh = "u" /\ yc # "root+p",
   haspt |-> sh = "c" /\ xc = "pt",
   onc |-> sh = "u" /\ xc = "pt" /\ yc \in {"even", "odd"},
   ypar |-> IF yc = "odd" THEN 1 ELSE 0]
Sec256Items == {[len |-> l, pfx |-> a] : l \in Lens256, a \in KByte}
Sec256Eval(it) ==
  [k |-> "sec256", len |-> it.len, pfx |-> it.pfx,
   v |-> {[xc |-> xc, yc |-> yc,
           s |-> SecOkF(Fields256(it.len, it.pfx, xc, yc), TRUE),
           l |-> SecOkF(Fields256(it.len, it.pfx, xc, yc), FALSE),
           comp |-> SecCompressedF(Fields256(it.len, it.pfx, xc, yc))] : xc \in XClasses, yc \in YClasses},
   bad |-> {<<xc, yc>> \in XClasses \X YClasses :
              LET f == Fields256(it.len, it.pfx, xc, yc)
              IN \/ (SecOkF(f, TRUE) /\ ~SecOkF(f, FALSE))                  \* strict is a restriction of lax
                 \/ (SecOkF(f, FALSE) /\ ~(f.xlt /\ (f.haspt \/ f.onc)))}]  \* nothing off the curve, nothing >= p

(* ================================================================== stage "wif" *)
N1 == DecBytes(SecpN)
SeSet32 == { Small32(0), Small32(1), Small32(2), Small32(255), Small32(256), Small32(257),
             N1, DecBytes(N1), SecpN, IncBytes(SecpN), SecpP, Fill32(255), DecBytes(Fill32(255)),
             [i \in 1..32 |-> IF i = 1 THEN 128 ELSE 0],                     \* 2^255
             [i \in 1..32 |-> IF i = 1 THEN 1 ELSE 0],                       \* 2^248
             [i \in 1..32 |-> IF i = 32 THEN 1 ELSE IF i = 1 THEN 0 ELSE 255],
             [i \in 1..32 |-> IF i <= 16 THEN 255 ELSE 0],                   \* equals n on its first 15 octets only
             [i \in 1..32 |-> i] }
PFX == <<128>>                   \* stands for the network's WIF prefix; the harness substitutes the real one
BADPFX == <<129>>                \* ... and a prefix differing in its last octet
WifShapes == {"u", "c", "m00", "m02", "m80", "mff", "drop-first", "drop-last", "c+01", "c+00", "00+c", "00+u",
              "u+0101", "empty", "one"}
WifBody(se, sh) ==
  CASE sh = "u" -> se
    [] sh = "c" -> se \o <<1>>
    [] sh = "m00" -> se \o <<0>>
    [] sh = "m02" -> se \o <<2>>
    [] sh = "m80" -> se \o <<128>>
    [] sh = "mff" -> se \o <<255>>
    [] sh = "drop-first" -> Tail(se)
    [] sh = "drop-last" -> SubSeq(se, 1, 31)
    [] sh = "c+01" -> se \o <<1, 1>>
    [] sh = "c+00" -> se \o <<1, 0>>
    [] sh = "00+c" -> <<0>> \o se \o <<1>>
    [] sh = "00+u" -> <<0>> \o se
    [] sh = "u+0101" -> se \o <<1, 1, 1>>
    [] sh = "empty" -> <<>>
    [] sh = "one" -> <<1>>
WifItems == {[se |-> se] : se \in SeSet32}
WifEval(it) ==
  [k |-> "wif", se |-> it.se, ok |-> Se32Ok(it.se, SecpN),
   v |-> {[sh |-> sh, pfx |-> pf, body |-> WifBody(it.se, sh),
           r |-> WifParse(PFX, (IF pf = "ok" THEN PFX ELSE BADPFX) \o WifBody(it.se, sh), SecpN)]
          : sh \in WifShapes, pf \in {"ok", "bad"}},
   bad |-> {sh \in WifShapes : \/ ~WifEncDec(PFX, PFX \o WifBody(it.se, sh), SecpN)
                               \/ WifParse(PFX, BADPFX \o WifBody(it.se, sh), SecpN).ok}
           \cup {c \in BOOLEAN : ~WifDecEnc(PFX, it.se, c, SecpN)}]

(* ================================================================== stage "der" *)
DerPreLen == Len(DerPos)
DerAlphaAt(j) == DerPos[j]
RECURSIVE DerPrefixes(_)         \* every prefix of exactly k octets
DerPrefixes(k) == IF k = 0 THEN {<<>>}
                  ELSE {Append(s, a) : s \in DerPrefixes(k - 1), a \in DerAlphaAt(k)}
DerItems == {[pre |-> s] : s \in UNION {DerPrefixes(k) : k \in 0..DerPreLen}}
NA == Len(DerExt)
RECURSIVE Pow(_, _)
Pow(a, k) == IF k = 0 THEN 1 ELSE a * Pow(a, k - 1)
\* the e-th extension of length m in lexicographic order of DerExt (e in 0..NA^m - 1)
ExtOf(e, m) == [j \in 1..m |-> DerExt[((e \div Pow(NA, m - j)) % NA) + 1]]
DerExtsOf(pre) == IF Len(pre) < DerPreLen THEN {<<>>}
                  ELSE UNION {{ExtOf(e, m) : e \in 0..(Pow(NA, m) - 1)} : m \in 0..DerExtLen}
DerClass(run) == IF StrictValid(run) THEN "valid"
                 ELSE IF HasTrailing(run) THEN "trailing"
                 ELSE IF run.ph = "done" THEN "lax" ELSE "fail"
DerEval(it) ==
  LET exts == DerExtsOf(it.pre)
      rs == {<<e, DerRun(it.pre \o e)>> : e \in exts}          \* each blob parsed once
  IN [k |-> "der", pre |-> it.pre, n |-> Cardinality(exts),
      valid |-> {[e |-> d[1], r |-> MagOf(d[2].r), s |-> MagOf(d[2].s)] : d \in {d \in rs : StrictValid(d[2])}},
      trailing |-> {d[1] : d \in {d \in rs : HasTrailing(d[2])}},
      \* readable with other deviations (the property is silent) - kept for the report
      lax |-> {[e |-> d[1], dev |-> d[2].dev, r |-> d[2].r, s |-> d[2].s] : d \in {d \in rs : DerClass(d[2]) = "lax"}},
      bad |-> {d[1] : d \in {d \in rs : ~(EncDecR(it.pre \o d[1], d[2]) /\ PrefixLemmaR(it.pre \o d[1], d[2]))}}]
DerHeader == [k |-> "derhdr", pos |-> DerPos, ext |-> DerExt, extlen |-> DerExtLen]

(* =============================================================== stage "dersig" *)
Ones(k, b) == [i \in 1..k |-> b]
Mags == { <<>>, <<0>>, <<1>>, <<127>>, <<128>>, <<255>>, <<1, 0>>, <<0, 0, 1>>, <<0, 128>>, <<127, 255>>, <<128, 0>>,
          <<255, 255>>, N1, SecpN, SecpP, Fill32(255),
          [i \in 1..32 |-> IF i = 1 THEN 128 ELSE 0],                        \* 2^255
          [i \in 1..32 |-> IF i = 1 THEN 127 ELSE 255],                      \* 2^255 - 1
          Ones(33, 1), Ones(126, 127), Ones(127, 127), Ones(127, 128), Ones(128, 1), Ones(200, 200), Ones(255, 255), Ones(300, 3) }
Tails == {<<0>>, <<1>>, <<255>>, <<2, 1, 1>>, <<48, 0>>}
SigItems == {[r |-> r] : r \in Mags}
\* The encoding of (r, s) in which the length octets of ONE integer (which = 1: r, 2: s) announce d octets more than
\* the integer has, everything else unchanged; the SEQUENCE length counts the octets that are there (adj = 0: the
\* integer then swallows the head of what follows, or runs past the sequence) or is raised as well (adj = d: the
\* sequence then runs past the blob).  What each such blob IS, is the machine's verdict (exported with the blob).
EncIntAnn(m, d) == LET z == StripZ(m)
                       c == IF z[1] >= 128 THEN <<0>> \o z ELSE z
                   IN <<TagInt>> \o EncLen(Len(c) + d) \o c
Overrun(r, s, which, d, adj) ==
  LET a == IF which = 1 THEN EncIntAnn(r, d) ELSE EncInt(r)
      c == IF which = 2 THEN EncIntAnn(s, d) ELSE EncInt(s)
  IN <<TagSeq>> \o EncLen(Len(a) + Len(c) + adj) \o a \o c
OverDs == {1, 2}
OverSet(r, s) == {Overrun(r, s, w, d, adj) : w \in {1, 2}, d \in OverDs, adj \in {0, 1, 2}}
\* when it is the LAST integer that announces too much, nothing can make up for the missing octets
OverrunLemma(r, s) == \A d \in OverDs : \A adj \in {0, d} : Unreadable(DerRun(Overrun(r, s, 2, d, adj)))
SigEval(it) ==
  [k |-> "dersig", r |-> it.r,
   v |-> {[s |-> s, enc |-> EncSig(it.r, s), rmin |-> StripZ(it.r), smin |-> StripZ(s),
           outer |-> {OuterTrail(EncSig(it.r, s), t) : t \in Tails},
           inner |-> {InnerTrail(it.r, s, t) : t \in Tails},
           over |-> {[b |-> d[1], cls |-> DerClass(d[2]), why |-> d[2].why, r |-> MagOf(d[2].r), s |-> MagOf(d[2].s)]
                     : d \in {<<b, DerRun(b)>> : b \in OverSet(it.r, s)}}] : s \in Mags},
   bad |-> {s \in Mags : ~(DecEnc(it.r, s) /\ EncDec(EncSig(it.r, s)) /\ (\A t \in Tails : TrailLemma(it.r, s, t))
                            /\ OverrunLemma(it.r, s))}]

(* =============================================================== stage "derask" *)
DerAsk == IF Stage = "derask" THEN JsonDeserialize(IOEnv.DER_ASK) ELSE <<>>
AskItems == {[i |-> i] : i \in DOMAIN DerAsk}
AskEval(it) == LET run == DerRun(DerAsk[it.i])
               IN [k |-> "derask", i |-> it.i, cls |-> DerClass(run), why |-> run.why, dev |-> run.dev, bad |-> {}]

(* ======================================================================= driver *)
Items == CASE Stage = "sec"    -> SecItems
           [] Stage = "secmut" -> SecItems
           [] Stage = "toykey" -> ToyItems
           [] Stage = "pubrep" -> RepItems
           [] Stage = "sec256" -> Sec256Items
           [] Stage = "wif"    -> WifItems
           [] Stage = "der"    -> DerItems
           [] Stage = "dersig" -> SigItems
           [] Stage = "derask" -> AskItems
Eval(it) == CASE Stage = "sec"    -> SecEval(it)
              [] Stage = "secmut" -> MutEval(it)
              [] Stage = "toykey" -> ToyEval(it)
              [] Stage = "pubrep" -> RepEval(it)
              [] Stage = "sec256" -> Sec256Eval(it)
              [] Stage = "wif"    -> WifEval(it)
              [] Stage = "der"    -> DerEval(it)
              [] Stage = "dersig" -> SigEval(it)
              [] Stage = "derask" -> AskEval(it)
Header == CASE Stage = "sec" -> SecHeader
            [] Stage = "toykey" -> SecHeader
            [] Stage = "pubrep" -> RepHeader
            [] Stage = "der" -> DerHeader
            [] OTHER -> [k |-> "hdr", stage |-> Stage]

\* (the per-point lemmas DecEncPt, NoLift and k*G on the curve are checked by the "toykey" items)
ASSUME CurveLemmas == Stage \in {"sec", "toykey"} =>
          /\ Cardinality(Affine) = N - 1
ASSUME PrintT(ToJson(Header))

Init == item \in Items /\ ph = 0 /\ res = <<>>
Step == /\ ph = 0 /\ ph' = 1 /\ UNCHANGED item
        /\ res' = Eval(item)
        /\ PrintT(ToJson(res'))
Next == Step
Spec == Init /\ [][Next]_vars

NoBad == ph = 1 => res.bad = {}
=============================================================================
