CONSTANTS MaxOps = 5  MaxEdit = 1  MaxSetLook = 1  Univ = 2  Ops <- OpsCore
          EditKinds <- KindsAll  LookKinds <- LKindsFew  FillSet <- SAll  ValSet <- SAll
          Ids <- MCIds  SegIds <- MCSegIds  NOut <- MCNOut  Confs <- MCConfsB  Spenders <- MCSp
          BadFileRaises <- SwBadFile  OobIndexError <- SwOob
INIT MInit
NEXT MNextE
VIEW MView
CHECK_DEADLOCK FALSE
