CONSTANTS Mode = "fee"  LemDigits = {0}  MaxSize = 10  MaxSmall = 10
          LSet = {0, 7, 14, 21, 28, 35, 42, 49, 56, 63, 70, 77, 84, 91, 98, 105, 112, 119, 126, 133, 140, 147, 154, 161, 168, 175, 182, 189, 196, 203, 210, 217, 224, 231, 238, 245, 252, 253, 254, 259, 266, 273, 280, 287, 294, 905, 906, 907, 908, 909, 910, 911, 912, 913, 914, 915, 916, 917, 918, 919, 1905, 1906, 1907, 1908, 1909, 1910, 1911, 1912, 1913, 1914, 1915, 1916, 1917, 1918, 1919, 2905, 2906, 2907, 2908, 2909, 2910, 2911, 2912, 2913, 2914, 2915, 2916, 2917, 2918, 2919, 65448, 65449, 65450}
          WSet = {907, 908, 909, 910, 911}
          NIn = {1, 2, 3, 18, 19, 20, 21, 22, 43, 44, 45, 46, 68, 69}  NOut = {1, 2, 5}  Dealers = 16
SPECIFICATION Spec
INVARIANT LemmasHold
CHECK_DEADLOCK FALSE
