CONSTANTS Values = {0}  Wants = {"prv", "pub", "dflt"}  PathSet = "marks"  MaxOps = 3  SeedLen = 16  KeyMode = "full"  TwoRoots = FALSE
SPECIFICATION Spec
VIEW View
INVARIANTS CacheTransparent ResultIsPure CompactSound MemoSound PublicStaysPublic ResOk
ACTION_CONSTRAINT Emit
CHECK_DEADLOCK FALSE
