CONSTANTS NK = 20  NM = 2  MaxPasses = 22  Mode = "lim"  PruneNoop = TRUE  WithPairs = TRUE
          Cases <- LimCasesQ  Shapes <- NoShapes  Coins <- AllCoins  HashTypes <- StdHashTypes
SPECIFICATION RSpec
CHECK_DEADLOCK FALSE
