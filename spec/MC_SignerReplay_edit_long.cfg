CONSTANTS NK = 5  NM = 2  MaxPasses = 5  Mode = "edit_long"  PruneNoop = FALSE  WithPairs = FALSE
          Cases <- EditCasesLong  Shapes <- NoShapes  Coins <- AllCoins  HashTypes <- StdHashTypes
SPECIFICATION RSpec
CHECK_DEADLOCK FALSE
