CONSTANTS MaxOps = 4
          Threads <- MCThreads  Nets <- MCNets  Descr <- MCDescr  KindInfo <- MCKindInfo  Words <- MCWords
          EnvStrings <- MCEnvStrings  DirLists <- MCDirLists  CacheVals <- MCCacheVals  Lists <- MCLists
INIT MCInit
NEXT MCNext
VIEW CViewM
INVARIANTS SetGet Lookups
PROPERTIES PIsolated
CHECK_DEADLOCK FALSE
