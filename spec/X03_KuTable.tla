----------------------------- MODULE X03_KuTable -----------------------------
(* X03 - the key utility reports ONE consistent key in every representation.  *)
(*                                                                            *)
(* `ku` reads a text that denotes a key (or an address), optionally moves it  *)
(* to another network, walks a range of sub-key paths, optionally strips the  *)
(* private half, and prints, for every key reached, a TABLE of fields.  This  *)
(* module states what that table is: a record of TERMS over one abstract key, *)
(* composed from the rule books that already exist -                          *)
(*     ParseDispatch (+ Address, NetTable)   which text denotes what, on      *)
(*                                           which network; address texts     *)
(*     KeyEnc                                WIF payload / WIF parser         *)
(*     BIP32, ExtKeyText, Subpaths           derivation, 78-byte text, ranges *)
(*     ElectrumKD                            Electrum's old-style wallets     *)
(* - and the pipeline of the command (parse -> override -> sub-keys ->        *)
(* public -> table -> selection -> rendering) as operators that the MC and    *)
(* Trace modules run as a small state machine.                                *)
(*                                                                            *)
(* Terms.  Byte-string, scalar and point terms are those of BIP32.tla /       *)
(* ElectrumKD.tla (t |-> ..).  Address texts are the terms of Address.tla     *)
(* (op |-> ..) wrapped around a BIP32 hash term.  A printed VALUE is a        *)
(* rendering term (x |-> ..):                                                 *)
(*     Lit(s)      the characters s                                           *)
(*     HexT(b)     the bytes b in lower-case hex, two digits per byte         *)
(*     HexMinT(b)  the integer b (big-endian) in hex without leading zeros    *)
(*     DecT(b)     the integer b in decimal                                   *)
(*     ParT(b)     "even" / "odd": parity of the integer b                    *)
(*     TxtT(t)     the text term t (Base58Check or segwit)                    *)
(*     InputT      the item as the user typed it                              *)
(* Written from the standards and from ku's documentation (its --help, the    *)
(* docstrings of Key / BIP32Node / subpaths), not from its code.              *)
EXTENDS ExtKeyText, ElectrumKD

PD == INSTANCE ParseDispatch
\* KeyEnc's WIF rule book (payload layout, parser, exponent range), its curve parameter fixed
KE == INSTANCE X03_KeyEncWif

RealNets == PD!RealNets
NetIdx(sym) == CHOOSE i \in DOMAIN RealNets : RealNets[i].sym = sym
Net(sym) == RealNets[NetIdx(sym)]
IsNet(sym) == \E i \in DOMAIN RealNets : RealNets[i].sym = sym

\* ----------------------------------------------------------------- rendering terms
Lit(s)     == [x |-> "lit", s |-> s]
HexT(b)    == [x |-> "hex", a |-> b]
HexMinT(b) == [x |-> "hexmin", a |-> b]
DecT(b)    == [x |-> "dec", a |-> b]
ParT(b)    == [x |-> "parity", a |-> b]
TxtT(t)    == [x |-> "text", a |-> t]
InputT     == [x |-> "input"]

\* ----------------------------------------------------------------- objects
(* What a text denotes: [cls, fam, kind, node]                                *)
(*   cls   "hd" (extended key of family fam), "key" (a single key),           *)
(*         "electrum" (old-style Electrum wallet), "contract" (an address of  *)
(*         kind `kind` committing to the hash node.chain... see Contract)     *)
(*   node  a BIP32 extended-key record; for "key"/"electrum" only node.key    *)
(*         (a scalar term = private, a point term = public) means something   *)
NoNodeFields(key) == [depth |-> 0, pfp |-> B(<<0, 0, 0, 0>>), cn |-> Idx(FALSE, 0), chain |-> B(<<>>), key |-> key]
HdObj(fam, node)  == [cls |-> "hd", fam |-> fam, kind |-> "", node |-> node]
KeyObj(key)       == [cls |-> "key", fam |-> "", kind |-> "", node |-> NoNodeFields(key)]
ElectrumObj(key)  == [cls |-> "electrum", fam |-> "", kind |-> "", node |-> NoNodeFields(key)]
\* an address: the hash it commits to is kept where a key would be (a byte-string term)
Contract(kind, h) == [cls |-> "contract", fam |-> "", kind |-> kind, node |-> NoNodeFields(h)]
ObjKey(o) == o.node.key
ObjPrivate(o) == o.cls # "contract" /\ IsScalar(ObjKey(o))
ObjPub(o) == IF IsScalar(ObjKey(o)) THEN PointOf(ObjKey(o)) ELSE ObjKey(o)

\* ----------------------------------------------------------------- the fields of one key
\* SEC 1 2.3.3: 04 || X || Y   (BIP32's SerP is the compressed form 02/03 || X)
SecU(K) == Cat(<<B(<<4>>), XY64(K)>>)
Xof(K) == L32(XY64(K))
Yof(K) == R32(XY64(K))
HashC(K) == H160(SerP(K))
HashU(K) == H160(SecU(K))
\* BIP141 P2WPKH program script: OP_0 <20 bytes>
WitScript(h) == Cat(<<B(<<0, 20>>), h>>)

\* WIF (KeyEnc!WifPayload on terms): version || ser256(k) [|| 01]
WifPayloadT(N, k, compressed) == Cat(<<B(N.wif), Ser256(k)>> \o (IF compressed THEN <<B(<<1>>)>> ELSE <<>>))
WifT(N, k, compressed) == B58Check(WifPayloadT(N, k, compressed))

AddrT(N, K, h) == PD!AddrTerm(N, K, h)
HasSegwit(N) == PD!Defined(N, "p2wpkh")
HasP2sh(N) == PD!Defined(N, "p2sh")

\* child number as ku writes it: "5" or "5H (2147483653)"
Dig(n, k) == ToString((n \div k) % 10)
Six(n) == Dig(n, 100000) \o Dig(n, 10000) \o Dig(n, 1000) \o Dig(n, 100) \o Dig(n, 10) \o Dig(n, 1)
\* decimal digits of 2^31 + v  (2^31 = 2147 * 10^6 + 483648; no 32-bit overflow on the way)
Dec31(v) == LET lo == (v % 1000000) + 483648
                hi == (v \div 1000000) + 2147 + (lo \div 1000000)
            IN ToString(hi) \o Six(lo % 1000000)
ChildIndexText(cn) == IF cn.h THEN ToString(cn.v) \o "H (" \o Dec31(cn.v) \o ")" ELSE ToString(cn.v)

\* ----------------------------------------------------------------- the table
(* A row: json key k, label lab as the text form shows it, value v; legacy    *)
(* rows ("BTC_address" ...) repeat a value under an older key and appear in   *)
(* the JSON form only.                                                        *)
Row(k, lab, v) == [k |-> k, lab |-> lab, v |-> v, legacy |-> FALSE]
Legacy(k, v)   == [k |-> k, lab |-> "legacy", v |-> v, legacy |-> TRUE]

HeadRows(N) == << Row("input", "input", InputT),
                  Row("network", "network", Lit(N.name \o " " \o N.subnet)),
                  Row("symbol", "symbol", Lit(N.symbol)) >>

HkRows(N, fam, x) ==
  << Row("wallet_key", "wallet key", TxtT(Text(N.sym, fam, x, IsPrivate(x)))) >>
  \o (IF IsPrivate(x) THEN << Row("public_version", "public version", TxtT(Text(N.sym, fam, x, FALSE))) >> ELSE <<>>)
  \o << Row("tree_depth", "tree depth", Lit(ToString(x.depth))),
        Row("fingerprint", "fingerprint", HexT(Fingerprint(x))),
        Row("parent_fingerprint", "parent f'print", HexT(x.pfp)),
        Row("child_index", "child index", Lit(ChildIndexText(x.cn))),
        Row("chain_code", "chain code", HexT(x.chain)),
        Row("private_key", "private key", Lit(IF IsPrivate(x) THEN "yes" ELSE "no")) >>

SecretRows(N, k) ==
  << Row("secret_exponent", "secret exponent", DecT(Ser256(k))),
     Row("secret_exponent_hex", " hex", HexMinT(Ser256(k))),
     Row("wif", "wif", TxtT(WifT(N, k, TRUE))),
     Row("wif_uncompressed", " uncompressed", TxtT(WifT(N, k, FALSE))) >>

PublicRows(K) ==
  << Row("public_pair_x", "public pair x", DecT(Xof(K))),
     Row("public_pair_y", "public pair y", DecT(Yof(K))),
     Row("public_pair_x_hex", " x as hex", HexMinT(Xof(K))),
     Row("public_pair_y_hex", " y as hex", HexMinT(Yof(K))),
     Row("y_parity", "y parity", ParT(Yof(K))),
     Row("key_pair_as_sec", "key pair as sec", HexT(SerP(K))),
     Row("key_pair_as_sec_uncompressed", " uncompressed", HexT(SecU(K))) >>

\* the addresses of a single key: P2PKH of either SEC form; where the network has segwit, P2WPKH of the
\* compressed form and (where it has P2SH) that program wrapped in P2SH (BIP141), with the wrapped script
AddressRows(N, K) ==
  LET hc == HashC(K)  hu == HashU(K) IN
  << Row("hash160", "hash160", HexT(hc)),
     Row("hash160_uncompressed", " uncompressed", HexT(hu)),
     Row("address", N.name \o " address", TxtT(AddrT(N, "p2pkh", hc))),
     Legacy(N.symbol \o "_address", TxtT(AddrT(N, "p2pkh", hc))),
     Row("address_uncompressed", N.name \o " address uncompressed", TxtT(AddrT(N, "p2pkh", hu))),
     Legacy(N.symbol \o "_address_uncompressed", TxtT(AddrT(N, "p2pkh", hu))) >>
  \o (IF ~HasSegwit(N) THEN <<>> ELSE
      << Row("address_segwit", N.name \o " segwit address", TxtT(AddrT(N, "p2wpkh", hc))),
         Legacy(N.symbol \o "_address_segwit", TxtT(AddrT(N, "p2wpkh", hc))) >>
      \o (IF HasP2sh(N) THEN << Row("p2sh_segwit", "p2sh segwit", TxtT(AddrT(N, "p2sh", H160(WitScript(hc))))) >> ELSE <<>>)
      \o << Row("p2sh_segwit_script", " corresponding p2sh script", HexT(WitScript(hc))) >>)

\* the single address of a BIP49 / BIP84 account key
FamAddress(N, fam, K) == IF fam = "bip49" THEN AddrT(N, "p2sh", H160(WitScript(HashC(K))))
                         ELSE AddrT(N, "p2wpkh", HashC(K))
FamAddrDefined(N, fam) == IF fam = "bip49" THEN HasP2sh(N) ELSE HasSegwit(N)

\* which script kinds carry a 20-byte hash that the table shows
ContractRows(N, kind, h) ==
  (IF kind \in {"p2pkh", "p2sh", "p2wpkh"} THEN << Row("hash160", "hash160", HexT(h)) >> ELSE <<>>)
  \o << Row("address", N.name \o " address", TxtT(AddrT(N, kind, h))),
        Legacy(N.symbol \o "_address", TxtT(AddrT(N, kind, h))) >>

KeyRows(N, o) ==
  (IF ObjPrivate(o) THEN SecretRows(N, ObjKey(o)) ELSE <<>>) \o PublicRows(ObjPub(o))

Table(o, N) ==
  HeadRows(N) \o
  CASE o.cls = "hd" /\ o.fam = "bip32" -> HkRows(N, o.fam, o.node) \o KeyRows(N, o) \o AddressRows(N, ObjPub(o))
    [] o.cls = "hd" /\ o.fam # "bip32" -> HkRows(N, o.fam, o.node) \o KeyRows(N, o)
                                          \o << Row("address", "address", TxtT(FamAddress(N, o.fam, ObjPub(o)))) >>
    [] o.cls \in {"key", "electrum"}   -> KeyRows(N, o) \o AddressRows(N, ObjPub(o))
    [] o.cls = "contract"              -> ContractRows(N, o.kind, ObjKey(o))

\* can the table of o be written on N at all (the network has the prefixes the rows need)?
Tabulable(o, N) ==
  /\ ~N.stub /\ N.p2pkh # <<>>
  /\ (ObjPrivate(o) => N.wif # <<>>)
  /\ (o.cls = "hd" => N.sym \in Nets /\ Defines(N.sym, o.fam) /\ (o.fam # "bip32" => FamAddrDefined(N, o.fam)))
  /\ (o.cls = "contract" => PD!Defined(N, o.kind))

RowKeys(rows) == [i \in DOMAIN rows |-> rows[i].k]
HasRow(rows, k) == \E i \in DOMAIN rows : rows[i].k = k
RowOf(rows, k) == rows[CHOOSE i \in DOMAIN rows : rows[i].k = k]

\* ----------------------------------------------------------------- what a text denotes (ku's parser)
(* ku asks, network by network (the fallback network first, then every        *)
(* registered one - or only the one named by -n), the catch-all parsers       *)
(* hierarchical_key, private_key, public_key, address in this order and takes *)
(* the first object.  ParseDispatch!Out says what each may answer.            *)
KuEntries == <<"hierarchical_key", "private_key", "public_key", "address">>
\* "obj" (exactly one object, no freedom), "none", or "open" (the rules leave it open)
Answer(N, e, T) == LET outs == PD!Out(N, e, T) IN
  IF outs = {PD!ONone} THEN [st |-> "none", o |-> PD!ONone]
  ELSE IF Cardinality(outs) = 1 /\ (CHOOSE o \in outs : TRUE).r = "obj" THEN [st |-> "obj", o |-> CHOOSE o \in outs : TRUE]
  ELSE [st |-> "open", o |-> PD!ONone]

RECURSIVE ScanEntries(_, _, _)
ScanEntries(N, T, i) == IF i > Len(KuEntries) THEN [st |-> "none", o |-> PD!ONone]
                        ELSE LET a == Answer(N, KuEntries[i], T) IN
                             IF a.st = "none" THEN ScanEntries(N, T, i + 1) ELSE a
RECURSIVE ScanNets(_, _, _)
ScanNets(syms, T, i) == IF i > Len(syms) THEN [st |-> "none", o |-> PD!ONone, net |-> ""]
                        ELSE LET a == ScanEntries(Net(syms[i]), T, 1) IN
                             IF a.st = "none" THEN ScanNets(syms, T, i + 1)
                             ELSE [st |-> a.st, o |-> a.o, net |-> syms[i]]

\* "hash160 (as 40 hex characters)": read as the P2PKH address of that hash on the first network
IsHash160Text(T) == T.f = "num" /\ T.v = 40 /\ Len(T.d2) = 20
AsP2pkh(N, T) == [PD!TX("b58c") EXCEPT !.d = N.p2pkh \o T.d2, !.w = N.chk]
KuParse(syms, T) == ScanNets(syms, IF IsHash160Text(T) THEN AsP2pkh(Net(syms[1]), T) ELSE T, 1)

\* the networks asked, in order
AllSyms == [i \in DOMAIN RealNets |-> RealNets[i].sym]
DefaultNet == "BTC"
NetOrder(nopt) == IF nopt = "" THEN <<DefaultNet>> \o AllSyms ELSE <<nopt>>

\* lower-case hex characters of a byte string, as character codes (Electrum hashes the TEXT of its seed)
HexCode(n) == IF n < 10 THEN 48 + n ELSE 87 + n
HexAscii(b) == FoldLeft(LAMBDA acc, v : acc \o <<HexCode(v \div 16), HexCode(v % 16)>>, <<>>, b)

\* a ParseDispatch outcome as an object over terms with literal leaves
NodeOfBody(body) ==
  LET kd == SubSeq(body, 42, 74) IN
  [depth |-> body[1], pfp |-> B(SubSeq(body, 2, 5)), cn |-> UnSer32(SubSeq(body, 6, 9)), chain |-> B(SubSeq(body, 10, 41)),
   key |-> IF kd[1] = 0 THEN Sum(<<B(Tail(kd))>>) ELSE Pt(<<B(kd)>>, <<>>)]
ObjOf(o) ==
  CASE o.k = "key" /\ o.p  -> KeyObj(Sum(<<B(o.d)>>))
    [] o.k = "key" /\ ~o.p -> KeyObj(Pt(<<B(<<2 + o.d2[1]>> \o o.d)>>, <<>>))
    [] o.k \in Families    -> HdObj(o.k, NodeOfBody(o.d))
    [] o.k = "seed32"      -> HdObj("bip32", Master(B(o.d)))
    [] o.k = "electrum"    -> ElectrumObj(CASE o.s = "seed" -> MasterFromSeed(B(HexAscii(o.d)))
                                            [] o.s = "prv"  -> Sum(<<B(o.d)>>)
                                            [] o.s = "pub"  -> Pt(<<B(<<2 + (o.d[64] % 2)>> \o SubSeq(o.d, 1, 32))>>, <<>>))
    [] o.k = "contract"    -> Contract(o.s, B(o.d))

\* ----------------------------------------------------------------- sub-keys (-s)
\* the key at the end of a path, the way the kind of parent allows; Refused from a public parent at a hardened step
RECURSIVE WalkPath(_, _)
WalkPath(x, path) == IF path = <<>> \/ x = Refused THEN x
                     ELSE WalkPath(Derive(x, Head(path), "dflt"), Tail(path))
\* Electrum: "n" or "n/c", no hardening
EPathOk(p) == Len(p) \in {1, 2} /\ \A i \in DOMAIN p : ~p[i].h
EWalk(w, p) == EChild(w, p[1].v, IF Len(p) = 2 THEN p[2].v ELSE 0)

(* The sub-keys of o for the option text s: a sequence of objects, Refused    *)
(* marking a path the parent cannot walk.  ".pub" (on a single path) forces   *)
(* the result public.  Keys that are not hierarchical have no sub-keys: the   *)
(* option does not apply and the key itself is shown.                         *)
SubSpecified(o, s) ==
  CASE o.cls = "hd"       -> IF HasDotPub(s) THEN IsPathString(s) ELSE Parse(s).ok
    [] o.cls = "electrum" -> Parse(s).ok /\ \A i \in DOMAIN Paths(s) : (Paths(s)[i] = <<>> \/ EPathOk(Paths(s)[i]))
    [] OTHER              -> TRUE
SubKeys(o, s) ==
  CASE o.cls = "hd" ->
         LET ps == IF HasDotPub(s) THEN <<PathIndices(s)>> ELSE Paths(s) IN
         [i \in DOMAIN ps |-> LET y == WalkPath(o.node, ps[i]) IN
                              IF y = Refused THEN Refused
                              ELSE HdObj(o.fam, IF HasDotPub(s) THEN Neuter(y) ELSE y)]
    [] o.cls = "electrum" ->
         [i \in DOMAIN Paths(s) |-> IF Paths(s)[i] = <<>> THEN o ELSE ElectrumObj(EWalk(ObjKey(o), Paths(s)[i]))]
    [] OTHER -> <<o>>

\* ----------------------------------------------------------------- public copy (-P), other network
Publicize(o) == IF o.cls = "contract" THEN o ELSE [o EXCEPT !.node.key = ObjPub(o)]

\* ----------------------------------------------------------------- options: selection and rendering
(* opts = [pub, json, unc: BOOLEAN, sel: "" | "w" | "W" | "a", brief: sequence of row keys]            *)
(*   -w  just the wallet key     -W  just the WIF     -a  just the address                             *)
(*   -u  with -W / -a: the uncompressed variant        -b  just the named fields                       *)
(*   -j  JSON object of the selected rows (legacy keys included), otherwise:                           *)
(*       no selected row is present  -> nothing is shown ("none")                                      *)
(*       exactly one row selected    -> its bare value ("single")                                      *)
(*       otherwise                   -> the table, one "label : value" line per non-legacy row         *)
NoOpts == [pub |-> FALSE, json |-> FALSE, unc |-> FALSE, sel |-> "", brief |-> <<>>]
Wanted(opts) ==
  {opts.brief[i] : i \in DOMAIN opts.brief}
  \cup (CASE opts.sel = "w" -> {"wallet_key"}
          [] opts.sel = "W" -> {IF opts.unc THEN "wif_uncompressed" ELSE "wif"}
          [] opts.sel = "a" -> {IF opts.unc THEN "address_uncompressed" ELSE "address"}
          [] OTHER -> {})
Selected(opts, rows) == IF Wanted(opts) = {} THEN rows ELSE SelectSeq(rows, LAMBDA r : r.k \in Wanted(opts))
Visible(rows) == SelectSeq(rows, LAMBDA r : ~r.legacy)
Mode(opts, sel) == IF opts.json THEN "json"
                   ELSE IF Visible(sel) = <<>> THEN "none"
                   ELSE IF Len(sel) = 1 THEN "single"
                   ELSE "text"
\* what is shown for one key: the rows, in table order (text: the visible ones; json: all, any order)
Shown(opts, sel) == IF opts.json THEN sel ELSE Visible(sel)

\* ----------------------------------------------------------------- the pipeline, for one item
(* [st, net, objs]:  st "ok" | "cantparse" | "open" (not specified here)                              *)
(* objs: the keys whose tables are printed, in order; Refused where a path cannot be walked          *)
Pipeline(T, nopt, ov, sub, opts) ==
  LET r == KuParse(NetOrder(nopt), T) IN
  IF r.st # "obj" THEN [st |-> IF r.st = "none" THEN "cantparse" ELSE "open", net |-> "", objs |-> <<>>]
  ELSE LET o == ObjOf(r.o)
           net == IF ov = "" THEN r.net ELSE ov IN
       IF ~Tabulable(o, Net(net)) \/ ~SubSpecified(o, sub) THEN [st |-> "open", net |-> net, objs |-> <<>>]
       ELSE LET ks == SubKeys(o, sub) IN
            [st |-> "ok", net |-> net,
             objs |-> [i \in DOMAIN ks |-> IF ks[i] = Refused THEN Refused
                                           ELSE IF opts.pub THEN Publicize(ks[i]) ELSE ks[i]]]

\* ----------------------------------------------------------------- the table over ONE ABSTRACT key ("self")
(* A template: the table of an object whose byte-valued fields are references *)
(* to the key named "self" (BIP32!Ref): k (32 bytes, private keys), K (33      *)
(* bytes, compressed SEC), chain, pfp, h (the hash of an address).  Only what *)
(* shapes the table is literal: class, family, private or not, the network,   *)
(* and - for extended keys - depth and child number.                          *)
SelfKey(prv) == IF prv THEN Sum(<<Ref("self", "k", 32)>>) ELSE Pt(<<Ref("self", "K", 33)>>, <<>>)
TplKeyOf(o, net) == [cls |-> o.cls, fam |-> o.fam, kind |-> o.kind, prv |-> ObjPrivate(o), net |-> net,
                     depth |-> o.node.depth, cn |-> o.node.cn]
TplObj(tk) ==
  CASE tk.cls = "hd"       -> HdObj(tk.fam, [depth |-> tk.depth, pfp |-> Ref("self", "pfp", 4), cn |-> tk.cn,
                                             chain |-> Ref("self", "chain", 32), key |-> SelfKey(tk.prv)])
    [] tk.cls = "key"      -> KeyObj(SelfKey(tk.prv))
    [] tk.cls = "electrum" -> ElectrumObj(SelfKey(tk.prv))
    [] tk.cls = "contract" -> Contract(tk.kind, Ref("self", "h", PD!HashLen(tk.kind)))
Template(tk) == Table(TplObj(tk), Net(tk.net))

\* ----------------------------------------------------------------- lemmas over one table
\* keys are unique; every legacy row repeats the value of a row shown in the text form
KeysUnique(rows) == \A i, j \in DOMAIN rows : rows[i].k = rows[j].k => i = j
LegacyRepeats(rows) == \A i \in DOMAIN rows : rows[i].legacy => \E j \in DOMAIN rows : ~rows[j].legacy /\ rows[j].v = rows[i].v
\* the JSON form and the text form show the same value under every key they share; JSON adds legacy rows only
JsonTextAgree(opts, rows) ==
  LET js == Shown([opts EXCEPT !.json = TRUE], Selected(opts, rows))
      tx == Shown([opts EXCEPT !.json = FALSE], Selected(opts, rows)) IN
  /\ \A i \in DOMAIN tx : HasRow(js, tx[i].k) /\ RowOf(js, tx[i].k).v = tx[i].v
  /\ \A i \in DOMAIN js : HasRow(tx, js[i].k) \/ js[i].legacy
\* the single-field options show exactly the value of that row of the full table
SingleIsRow(opts, rows) ==
  LET sel == Selected(opts, rows) IN
  Mode(opts, sel) = "single" => HasRow(rows, sel[1].k) /\ RowOf(rows, sel[1].k) = sel[1] /\ sel[1].k \in Wanted(opts)
\* -P: the table of the public copy is the table of the key without its private rows, the wallet key replaced
\* by the public version
PrivateKeys == {"secret_exponent", "secret_exponent_hex", "wif", "wif_uncompressed", "public_version"}
PublicView(rows) ==
  LET keep == SelectSeq(rows, LAMBDA r : r.k \notin PrivateKeys) IN
  [i \in DOMAIN keep |->
     IF keep[i].k = "wallet_key" /\ HasRow(rows, "public_version") THEN [keep[i] EXCEPT !.v = RowOf(rows, "public_version").v]
     ELSE IF keep[i].k = "private_key" THEN [keep[i] EXCEPT !.v = Lit("no")]
     ELSE keep[i]]
PublicIsView(o, N) == Table(Publicize(o), N) = PublicView(Table(o, N))
\* the address rows are the network's encodings of the hash rows; the WIF rows wrap the secret exponent row
ArgOf(rows, k) == RowOf(rows, k).v.a
AddressesEncodeHashes(o, N) == LET rows == Table(o, N) IN
  (o.cls \in {"key", "electrum"} \/ (o.cls = "hd" /\ o.fam = "bip32")) =>
    /\ ArgOf(rows, "address") = AddrT(N, "p2pkh", ArgOf(rows, "hash160"))
    /\ ArgOf(rows, "address_uncompressed") = AddrT(N, "p2pkh", ArgOf(rows, "hash160_uncompressed"))
    /\ ArgOf(rows, "hash160") = H160(ArgOf(rows, "key_pair_as_sec"))
    /\ ArgOf(rows, "hash160_uncompressed") = H160(ArgOf(rows, "key_pair_as_sec_uncompressed"))
    /\ (HasRow(rows, "address_segwit") =>
          /\ ArgOf(rows, "address_segwit") = AddrT(N, "p2wpkh", ArgOf(rows, "hash160"))
          /\ ArgOf(rows, "p2sh_segwit_script") = WitScript(ArgOf(rows, "hash160"))
          /\ (HasRow(rows, "p2sh_segwit") => ArgOf(rows, "p2sh_segwit") = AddrT(N, "p2sh", H160(ArgOf(rows, "p2sh_segwit_script")))))
\* the extended-key rows parse back (ExtKeyText!ParseText) to the node, resp. to its public half, of the same family
ExtRowsParseBack(o, N) == LET rows == Table(o, N) IN
  o.cls = "hd" =>
    LET w == ParseText(N.sym, o.fam, ArgOf(rows, "wallet_key")) IN
    /\ w.ok /\ w.kind = o.fam /\ w.private = IsPrivate(o.node) /\ w.node = o.node
    /\ (IsPrivate(o.node) =>
          LET p == ParseText(N.sym, o.fam, ArgOf(rows, "public_version")) IN
          p.ok /\ ~p.private /\ p.node = Neuter(o.node))
\* ExtKeyText's version table and the network table agree (two statements of the same configuration)
VersionsAgree(N) == \A fam \in Families :
  IF N.sym \in Nets /\ Defines(N.sym, fam)
  THEN Version(N.sym, fam, TRUE) = PD!ExtPfx(N, fam, "prv") /\ Version(N.sym, fam, FALSE) = PD!ExtPfx(N, fam, "pub")
  ELSE N.stub \/ N.sym \notin Nets \/ (PD!ExtPfx(N, fam, "prv") = <<>> /\ PD!ExtPfx(N, fam, "pub") = <<>>)
TableLemmas(o, N) ==
  LET rows == Table(o, N) IN
  /\ KeysUnique(rows) /\ LegacyRepeats(rows)
  /\ PublicIsView(o, N) /\ AddressesEncodeHashes(o, N) /\ ExtRowsParseBack(o, N)

=============================================================================
