--------------------------- MODULE MC_ChainReplay ---------------------------
(* Spec -> code binding for C15: enumerate every behaviour of ChainFinder     *)
(* (API granularity) and print it, with the observable state after each call, *)
(* for the harness to replay on pycoin's BlockChain.  Pops are taken in one   *)
(* fixed order here: MC_ChainFinder_* establish (invariant Canonical) that    *)
(* the state after a meld does not depend on the pop order; the harness       *)
(* drives the real pop order through every relabelling of the headers.        *)
EXTENDS ChainFinder, Json

VARIABLES acts, outs
rpvars == <<vars, acts, outs>>

Obs == [chain |-> rchain', ops |-> rops', idx |-> ridx', locked |-> rlocked']
Emit == PrintT(ToJson([k |-> "beh", par |-> par, wt |-> wt, acts |-> acts', outs |-> outs']))

RInit == Init /\ acts = <<>> /\ outs = <<>>
RAddBegin(B) == AddBegin(B) /\ acts' = Append(acts, <<"D", B>>) /\ UNCHANGED outs
RPop == newh # {} /\ Pop(Min(newh)) /\ UNCHANGED <<acts, outs>>
RAddFinish == AddFinish /\ outs' = Append(outs, Obs) /\ UNCHANGED acts /\ Emit
RLockBegin(k) == LockBegin(k) /\ acts' = Append(acts, <<"L", k>>) /\ UNCHANGED outs
RLockFinish == LockFinish /\ outs' = Append(outs, Obs) /\ UNCHANGED acts /\ Emit
RLockNoop(k) == LockNoop(k) /\ acts' = Append(acts, <<"L", k>>) /\ outs' = Append(outs, Obs) /\ Emit
RNext == \/ \E B \in SUBSET Hashes : RAddBegin(B)
         \/ RPop \/ RAddFinish
         \/ \E k \in 1..N : RLockBegin(k)
         \/ \E k \in 1..N : RLockNoop(k)
         \/ RLockFinish
RSpec == RInit /\ [][RNext]_rpvars
=============================================================================
