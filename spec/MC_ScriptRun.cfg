SPECIFICATION RSpec
CHECK_DEADLOCK FALSE
