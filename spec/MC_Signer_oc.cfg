CONSTANTS NK = 3  NM = 2  MaxPasses = 2
          Shapes <- ShapesOC  Coins <- CoinsQ  HashTypes <- HTq  Passes <- DeepPasses  KcAdds <- NoKcAdds
CONSTANT Edits <- NoEdits
SPECIFICATION Spec
INVARIANTS OutcomesCharacterized
CHECK_DEADLOCK FALSE
