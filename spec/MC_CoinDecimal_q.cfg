CONSTANTS MaxN = 2500  Ds = {0, 1, 2, 3}
SPECIFICATION Spec
INVARIANTS ToCoinExact RoundTrip DigitsOK ToSatExact
CHECK_DEADLOCK FALSE
