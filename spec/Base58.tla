------------------------------- MODULE Base58 -------------------------------
(* C11, part 1: Base58 and Base58Check as Bitcoin defines them               *)
(* (base58.cpp EncodeBase58/DecodeBase58/EncodeBase58Check/DecodeBase58Check *)
(* and the "Base58Check encoding" wiki page), stated independently of        *)
(* pycoin's to_long/from_long.                                               *)
(*                                                                           *)
(* Characters are code points (naturals), strings are sequences of code      *)
(* points, byte strings are sequences over 0..255.  The number a string      *)
(* denotes is never materialised (TLC integers are 32 bit): radix conversion *)
(* is schoolbook long division on digit sequences, so every length works.    *)
(*                                                                           *)
(* Rule book                                                                 *)
(*  B1  alphabet: the 58 characters 1-9 A-H J-N P-Z a-k m-z, in this order   *)
(*      (0, O, I, l are excluded); digit value = index in that order.        *)
(*  B2  Encode(b): let z = number of leading 0x00 bytes of b.  The result is *)
(*      z times '1' followed by the base-58 digits, most significant first   *)
(*      and without leading zero digit, of the number the remaining bytes    *)
(*      denote in base 256 (no digits at all when no bytes remain).          *)
(*  B3  Decode(s): defined only when every character is in the alphabet.     *)
(*      Let z = number of leading '1'.  The result is z times 0x00 followed  *)
(*      by the base-256 digits, without leading zero, of the number the      *)
(*      remaining characters denote in base 58.                              *)
(*  B4  Base58Check: EncodeCheck(p) = Encode(p \o First4(SHA256d(p))).       *)
(*      DecodeCheck(s) is defined iff Decode(s) is defined, has at least 4   *)
(*      bytes, and its last 4 bytes equal First4(SHA256d(all the others));   *)
(*      the result is "all the others".                                      *)
(* SHA256d is not computed here: operators take the 4 checksum bytes as an   *)
(* argument and H4Term(p) names the term a stdlib evaluator has to finish.   *)
EXTENDS Naturals, Sequences, SequencesExt, FiniteSets

Rng(a, b) == [i \in 1..(b - a + 1) |-> a + i - 1]

\* B1
Alphabet == Rng(49, 57) \o Rng(65, 72) \o Rng(74, 78) \o Rng(80, 90) \o Rng(97, 107) \o Rng(109, 122)
AlphabetSet == {Alphabet[i] : i \in DOMAIN Alphabet}
ASSUME AlphabetOk == /\ Len(Alphabet) = 58 /\ Cardinality(AlphabetSet) = 58
                     /\ AlphabetSet \cap {48, 79, 73, 108} = {}          \* 0 O I l
                     /\ Alphabet[1] = 49 /\ Alphabet[58] = 122
\* digit value of an alphabet character (-1 outside the alphabet); a table, evaluated once
DigitTable == [c \in 0..127 |-> IF c \in AlphabetSet THEN (CHOOSE i \in 0..57 : Alphabet[i + 1] = c) ELSE 0 - 1]
InAlphabet(c) == c \in 0..127 /\ DigitTable[c] >= 0
DigitOf(c) == DigitTable[c]

Zeros(n) == [i \in 1..n |-> 0]
\* number of leading zero digits
LeadingZeros(ds) == IF \A i \in DOMAIN ds : ds[i] = 0 THEN Len(ds)
                    ELSE (CHOOSE i \in DOMAIN ds : ds[i] # 0 /\ \A j \in 1..(i - 1) : ds[j] = 0) - 1
StripZeros(ds) == SubSeq(ds, LeadingZeros(ds) + 1, Len(ds))

(* One long division: the big-endian digit string ds in radix `from` divided  *)
(* by the small number `to` (both <= 256): quotient digits (radix `from`,     *)
(* same length) and remainder.  Intermediate values stay below 256*256.       *)
DivMod(ds, from, to) ==
  LET step(st, d) == LET cur == st.r * from + d
                     IN [q |-> Append(st.q, cur \div to), r |-> cur % to]
  IN FoldLeft(step, [q |-> <<>>, r |-> 0], ds)

(* Digits in radix `to`, most significant first, no leading zero, of the      *)
(* number ds denotes in radix `from` (<<>> for the number 0):                 *)
(* value = quotient * to + remainder, so digits(value) = digits(quotient),r   *)
RECURSIVE ToRadix(_, _, _)
ToRadix(ds, from, to) ==
  LET s == StripZeros(ds) IN
  IF s = <<>> THEN <<>>
  ELSE LET dm == DivMod(s, from, to) IN Append(ToRadix(dm.q, from, to), dm.r)

\* B2
Enc58Digits(b) == LET z == LeadingZeros(b) IN Zeros(z) \o ToRadix(SubSeq(b, z + 1, Len(b)), 256, 58)
Enc58(b) == LET ds == Enc58Digits(b) IN [i \in DOMAIN ds |-> Alphabet[ds[i] + 1]]

\* B3
Dec58Digits(ds) == LET z == LeadingZeros(ds) IN Zeros(z) \o ToRadix(SubSeq(ds, z + 1, Len(ds)), 58, 256)
Valid58(s) == \A i \in DOMAIN s : InAlphabet(s[i])
Dec58(s) == IF Valid58(s) THEN [ok |-> TRUE, b |-> Dec58Digits([i \in DOMAIN s |-> DigitOf(s[i])])]
            ELSE [ok |-> FALSE, b |-> <<>>]

\* B4.  The uninterpreted term for the checksum of payload p
H4Term(p) == [op |-> "first4", arg |-> [op |-> "sha256d", arg |-> p]]
\* h4 has to be the value of H4Term(p)
Enc58Check(p, h4) == Enc58(p \o h4)
(* Structural half of DecodeCheck: why it fails outright, or the candidate    *)
(* payload and checksum; the string is valid iff cks = value of H4Term(payload) *)
Split58Check(s) ==
  LET d == Dec58(s) IN
  IF ~d.ok THEN [ok |-> FALSE, why |-> "alphabet", payload |-> <<>>, cks |-> <<>>]
  ELSE IF Len(d.b) < 4 THEN [ok |-> FALSE, why |-> "short", payload |-> <<>>, cks |-> <<>>]
  ELSE [ok |-> TRUE, why |-> "", payload |-> SubSeq(d.b, 1, Len(d.b) - 4), cks |-> SubSeq(d.b, Len(d.b) - 3, Len(d.b))]
\* verdict once the evaluator supplied h4 = value of H4Term(Split58Check(s).payload)
Dec58Check(s, h4) ==
  LET sp == Split58Check(s) IN
  IF ~sp.ok THEN [ok |-> FALSE, why |-> sp.why, p |-> <<>>]
  ELSE IF sp.cks # h4 THEN [ok |-> FALSE, why |-> "checksum", p |-> <<>>]
  ELSE [ok |-> TRUE, why |-> "", p |-> sp.payload]

(* ---- meaning of a digit string, for the arithmetic lemma (short strings only) *)
RECURSIVE Value(_, _)
Value(ds, radix) == IF ds = <<>> THEN 0 ELSE Value(Front(ds), radix) * radix + Last(ds)
=============================================================================
