------------------------------ MODULE Address -------------------------------
(* C08 - addresses and output scripts are in one-to-one correspondence on     *)
(* every network.                                                             *)
(*                                                                            *)
(* Rule book: Base58Check addresses (version bytes ++ 20-byte hash, Satoshi   *)
(* client / BIP13), segwit addresses (BIP173: version 0, programs of 20 or 32 *)
(* bytes, Bech32; BIP350/BIP341: version 1, 32 bytes, Bech32m).  A network is *)
(* a record of NetTable; the rules below never mention a particular network.  *)
(*                                                                            *)
(* Abstract STRINGS.  Base58Check is a bijection between byte strings and     *)
(* the texts that carry a valid checksum (property C11), and a segwit address *)
(* is determined by (hrp, version, program, checksum constant).  So an address*)
(* text is represented by its structure                                       *)
(*     [e |-> "b58c", d |-> payload, ...]  or                                 *)
(*     [e |-> "seg", hrp |-> .., ver |-> .., d |-> program, var |-> ..]       *)
(* and two texts are equal iff their structures are.  (MC_Address also prints *)
(* the real characters: Bech32!SegwitRaw inside TLC, Base58Check as a term    *)
(* the harness evaluates with hashlib.)                                       *)
EXTENDS NetTable, Classify

\* chk: the checksum function of the Base58Check text ("sha256d"; Groestlcoin uses "groestl").  Texts under
\* different checksum functions are different texts (a collision has probability 2^-32 per text).
B58(chk, d) == [e |-> "b58c", d |-> d, hrp |-> <<>>, ver |-> 0, var |-> chk]
Seg(hrp, ver, prog, var) == [e |-> "seg", d |-> prog, hrp |-> hrp, ver |-> ver, var |-> var]
\* A Bech32 text of the segwit shape (hrp, version symbol, further data symbols, checksum constant) whose data
\* symbols do NOT regroup from 5 to 8 bits under BIP173 ("any incomplete group at the end MUST be 4 bits or less,
\* MUST be all zeroes, and is discarded"): it has no program, hence it is no address of any kind on any network
\* (no rule below reads it).  d holds the 5-bit symbols after the version.  Which of Seg / SegX a given symbol
\* sequence is, is decided with Bech32!To8 (see MC_Address.SegText, Trace_Address.Norm).
SegX(hrp, ver, syms, var) == [e |-> "segx", d |-> syms, hrp |-> hrp, ver |-> ver, var |-> var]

IsB58Kind(K) == K \in {"p2pkh", "p2sh"}
WitVer(K) == IF K = "p2tr" THEN 1 ELSE 0
Variant(K) == IF K = "p2tr" THEN "bech32m" ELSE "bech32"
\* the configuration item kind K needs on network N (<<>>: N has no such addresses)
Pfx(N, K) == CASE K = "p2pkh" -> N.p2pkh [] K = "p2sh" -> N.p2sh [] OTHER -> N.hrp
Defined(N, K) == Pfx(N, K) # <<>>

\* ---- script -> address ----------------------------------------------------
\* h: the 20/32 bytes the script commits to
AddrOf(N, K, h) == IF IsB58Kind(K) THEN B58(N.chk, Pfx(N, K) \o h)
                   ELSE Seg(N.hrp, WitVer(K), h, Variant(K))

\* ---- address -> script ----------------------------------------------------
\* N reads text S as kind K (committing to hash Hash(N,K,S)) iff ... EXACT payload length
Reads(N, K, S) ==
  /\ Defined(N, K)
  /\ IF IsB58Kind(K)
     THEN S.e = "b58c" /\ S.var = N.chk /\ StartsWith(S.d, Pfx(N, K)) /\ Len(S.d) = Len(Pfx(N, K)) + HashLen(K)
     ELSE S.e = "seg" /\ S.hrp = N.hrp /\ S.ver = WitVer(K) /\ S.var = Variant(K) /\ Len(S.d) = HashLen(K)
HashIn(N, K, S) == IF IsB58Kind(K) THEN Drop(S.d, Len(Pfx(N, K))) ELSE S.d
ReadKinds(N, S) == {K \in AddrKindSet : Reads(N, K, S)}
NoAddr == [ok |-> FALSE, kind |-> "none", h |-> <<>>]
\* a parser tries the kinds in some order; the order is irrelevant on a network whose kinds are
\* apart (KindsApart); where they are not, the first in AddrKinds order wins
Decode(N, S) ==
  IF ReadKinds(N, S) = {} THEN NoAddr
  ELSE LET i == CHOOSE i \in DOMAIN AddrKinds : Reads(N, AddrKinds[i], S)
                       /\ \A j \in 1..(i - 1) : ~Reads(N, AddrKinds[j], S)
       IN [ok |-> TRUE, kind |-> AddrKinds[i], h |-> HashIn(N, AddrKinds[i], S)]

\* implementation-shaped variant: a Base58 parser that only compares the version bytes
\* (no length check) - used ONLY to tell apart the offenders a length check removes
ReadsLoose(N, K, S) == IF IsB58Kind(K) THEN Defined(N, K) /\ S.e = "b58c" /\ S.var = N.chk /\ StartsWith(S.d, Pfx(N, K))
                       ELSE Reads(N, K, S)
LooseKinds(N, S) == {K \in AddrKindSet : ReadsLoose(N, K, S)}

\* ---- what the property says, as predicates over a table -------------------
\* (1) one-to-one on a network: the address of (K,h) reads back as (K,h) and as nothing else
RoundTrip(N, K, h) == Defined(N, K) =>
   LET S == AddrOf(N, K, h) IN ReadKinds(N, S) = {K} /\ HashIn(N, K, S) = h
\* two kinds of one network are apart iff no payload is read by both
KindsClash(N, K1, K2) == /\ K1 # K2 /\ Defined(N, K1) /\ Defined(N, K2)
                         /\ IsB58Kind(K1) /\ IsB58Kind(K2)
                         /\ Len(Pfx(N, K1)) = Len(Pfx(N, K2)) /\ Pfx(N, K1) = Pfx(N, K2)
\* (2) cross acceptance: M accepts the address N produced for (K,h) only if M itself produces
\*     the same text for the same script
CrossOk(N, M, K, h) == Defined(N, K) =>
   LET S == AddrOf(N, K, h) IN
   Decode(M, S).ok => (Defined(M, K) /\ AddrOf(M, K, h) = S /\ Decode(M, S).kind = K /\ Decode(M, S).h = h)
\* the same with a parser that ignores the payload length
CrossOkLoose(N, M, K, h) == Defined(N, K) =>
   LET S == AddrOf(N, K, h) IN
   LooseKinds(M, S) # {} => (Defined(M, K) /\ AddrOf(M, K, h) = S /\ LooseKinds(M, S) = {K})

\* ---- keys (hashes are uninterpreted terms, finished by the harness) -------
\* H160(x) = RIPEMD160(SHA256(x)); the script bytes of OP_0 <20 bytes> are 00 14 ++ h
H160(x) == [op |-> "h160", a |-> x]
Bytes(b) == [op |-> "bytes", a |-> b]
Cat(x, y) == [op |-> "cat", a |-> <<x, y>>]
\* the address text of kind K for an uninterpreted hash: same composition as AddrOf
AddrTerm(N, K, hterm) ==
  IF IsB58Kind(K) THEN [op |-> "b58c", chk |-> N.chk, a |-> Cat(Bytes(Pfx(N, K)), hterm)]
  ELSE [op |-> "segwit", hrp |-> N.hrp, ver |-> WitVer(K), var |-> Variant(K), a |-> hterm]
\* Key.address(): P2PKH of the hash of the key's SEC encoding
KeyAddrTerm(N, sec) == AddrTerm(N, "p2pkh", H160(Bytes(sec)))
\* BIP84: P2WPKH of the compressed key;  BIP49: P2SH of the P2WPKH script of the compressed key
Bip84AddrTerm(N, secc) == AddrTerm(N, "p2wpkh", H160(Bytes(secc)))
Bip49AddrTerm(N, secc) == AddrTerm(N, "p2sh", H160(Cat(Bytes(<<0, 20>>), H160(Bytes(secc)))))
=============================================================================
