CONSTANTS FullLen = 2  AlphaA = {0, 1, 127, 128, 129, 255}  MaxA = 4  AlphaB = {0, 255}  MaxB = 9
          IntMax = 70000  BlockSize = 1000  MaxPow = 71  UniqLen = 3  Export = TRUE
SPECIFICATION Spec
INVARIANTS InvBytes InvUnique InvInt InvPow
CHECK_DEADLOCK FALSE
