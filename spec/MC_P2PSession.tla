---------------------------- MODULE MC_P2PSession ----------------------------
(* Spec -> code binding for C16 over time (module P2PSession).                *)
(*                                                                            *)
(* TLC enumerates EVERY session of SLen steps over an alphabet of steps on    *)
(* one codec and a store of three objects (an address `a`, a block header `z`,*)
(* a transaction `t`), the last step being a pack (a session ends with an     *)
(* observation):                                                              *)
(*   pack     messages that carry the objects (version, addr, headers, tx)    *)
(*            and messages that carry none (ping, getheaders)                 *)
(*   set      a.services / a.port / a.ip (IPv4 -> IPv6), z.nonce, t.lock      *)
(*   illpack  a number one past its range late in a long message (version),   *)
(*            in the second element of an array (addr); an array whose        *)
(*            elements are of another kind (inv); a missing last keyword      *)
(*            (getblocks)                                                     *)
(*   illparse a version payload cut short; a version payload parsed as ping   *)
(* so every pack is observed after every step and every pair of steps: after  *)
(* its own earlier pack and an update of the object it carries, after a call  *)
(* that was refused half way, after both.  The answer demanded of each step   *)
(* is printed with the session; the harness executes the session on ONE       *)
(* codec and ONE object per store entry, in order.                            *)
EXTENDS P2PSession, P2PGrid

CONSTANTS SLen,          \* steps per session
          Wide,          \* the wider alphabet (thorough tier)
          EmitS
VARIABLES sstore, shist, slog

Store0 == [a |-> A0, z |-> H0, t |-> TxA]
ObjLetter == [a |-> "A", z |-> "z", t |-> "T"]
OtherAddr == Typ("A", 7)

\* ---------------------------------------------------------------- the alphabet
VersionF == [BaseF("version") EXCEPT ![4] = Ref("a")]
AddrF(second) == << << <<Typ("L", 5), Ref("a")>>, <<Typ("L", 6), second>> >> >>

PVersion    == PackStep("version", VersionF)
PAddr       == PackStep("addr", AddrF(OtherAddr))
PHeaders    == PackStep("headers", << << <<Ref("z"), <<0, 0, 0, 0>>>> >> >>)
PTx         == PackStep("tx", <<Ref("t")>>)
PPing       == PackStep("ping", BaseF("ping"))
PGetHeaders == PackStep("getheaders", BaseF("getheaders"))
PInv        == PackStep("inv", BaseF("inv"))
PBlockTxn   == PackStep("blocktxn", <<Typ("#", 3), <<Ref("t"), TxW>>>>)
PVersionAA  == PackStep("version", [VersionF EXCEPT ![5] = Ref("a")])       \* the same object in two fields

SServices == SetStep("a", "services", <<1033, 0, 0, 0>>)      \* NODE_NETWORK | NODE_WITNESS | NODE_NETWORK_LIMITED
SPort     == SetStep("a", "port", 18333)
SIp       == SetStep("a", "ip", V6Example)
SNonce    == SetStep("z", "nonce", <<65535, 65535>>)
SLock     == SetStep("t", "lock", <<65535, 65535>>)
SIp4      == SetStep("a", "ip", V4(1, 2, 3, 4))
SMerkle   == SetStep("z", "merkle", Asc(32))
STxVer    == SetStep("t", "version", <<2, 0>>)

NoTy == <<>>
IVersion   == IllPack("version", [VersionF EXCEPT ![8] = <<0, 0, 1>>], 8, "over", NoTy)            \* 2^32 in a uint32
IAddr      == IllPack("addr", AddrF([OtherAddr EXCEPT !.port = 65536]), 1, "over", NoTy)
IInv       == IllPack("inv", << <<Asc(32), Run(255, 32)>> >>, 1, "kind", Arr(<<"#">>))               \* hashes, not inventory vectors
IGetBlocks == IllPack("getblocks", BaseF("getblocks"), 3, "missing", NoTy)
IParse     == IllParse("version", "version", VersionF, 5)                                          \* ends where last_block_index begins
IParseAs   == IllParse("ping", "version", VersionF, 0)                                             \* 8 bytes wanted, a version payload given
IReject    == IllPack("reject", [BaseF("reject") EXCEPT ![2] = 256], 2, "over", NoTy)
IParseHdrs == IllParse("feefilter", "headers", << << <<Ref("z"), <<0, 0, 0, 0>>>> >> >>, 0)

Alphabet == <<PVersion, PAddr, PHeaders, PTx, PPing, PGetHeaders,
              SServices, SPort, SIp, SNonce, SLock,
              IVersion, IAddr, IInv, IGetBlocks, IParse, IParseAs>>
            \o (IF Wide THEN <<PInv, PBlockTxn, PVersionAA, SIp4, SMerkle, STxVer, IReject, IParseHdrs>> ELSE <<>>)
NSteps == Len(Alphabet)

\* ---------------------------------------------------------------- behaviour
Init == sstore = Store0 /\ shist = <<>> /\ slog = <<>>
Do(kk) == LET sx == Alphabet[kk] IN
          /\ shist' = Append(shist, kk)
          /\ slog' = Append(slog, Answer(sx, sstore))
          /\ sstore' = Apply(sx, sstore)
Shown == [k |-> "session", steps |-> shist',
          ans |-> [ii \in 1..Len(shist') |-> ShowAnswer(Alphabet[shist'[ii]], slog'[ii])]]
Next == /\ Len(shist) < SLen
        /\ \E kk \in 1..NSteps :
             /\ (Len(shist) = SLen - 1) => Alphabet[kk].op = "pack"
             /\ Do(kk)
        /\ (EmitS /\ Len(shist') = SLen) => PrintT(ToJson(Shown))
Spec == Init /\ [][Next]_<<sstore, shist, slog>>

\* ---------------------------------------------------------------- lemmas, checked in every state
\* whatever the objects hold by now: pack steps are inside the property's quantifier, the ill ones outside
Typed == /\ \A id \in DOMAIN sstore : IsVal(ObjLetter[id], sstore[id])
         /\ \A kk \in 1..NSteps : LET sx == Alphabet[kk] IN
              PackTyped(sx, sstore) /\ OverIll(sx, sstore) /\ CutIll(sx, sstore)
\* the store is the fold of the set steps made
StoreIsFold == sstore = FoldLeft(LAMBDA acc, kk : Apply(Alphabet[kk], acc), Store0, shist)
\* history is irrelevant: a pack answers what a fresh codec answers for fresh objects holding the same values
Fresh == \A ii \in 1..Len(shist) :
           LET sx == Alphabet[shist[ii]] ax == slog[ii] IN
           sx.op = "pack" => ax = Answer(PackStep(sx.name, ax.fields), Store0)
\* an update of an object a message carries changes that message's payload (the sessions are not vacuous)
Sensitive == \A ii \in 1..Len(shist) : \A jj \in (ii + 1)..Len(shist) :
               (shist[ii] = shist[jj] /\ Alphabet[shist[ii]].op = "pack" /\ slog[ii] # slog[jj]) =>
                  \E mm \in (ii + 1)..(jj - 1) : Alphabet[shist[mm]].op = "set"

ASSUME Header == EmitS => PrintT(ToJson(
   [k |-> "alphabet", slen |-> SLen, steps |-> [kk \in 1..NSteps |-> ShowStep(Alphabet[kk])],
    store |-> [a |-> ShowVal("A", Store0.a), z |-> ShowVal("z", Store0.z), t |-> ShowVal("T", Store0.t)],
    letters |-> ObjLetter,
    nsessions |-> NSteps ^ (SLen - 1) * Cardinality({kk \in 1..NSteps : Alphabet[kk].op = "pack"})]))
\* every set step changes what some pack step of the alphabet answers (each update is observable)
ASSUME Observable == \A kk \in 1..NSteps : Alphabet[kk].op = "set" =>
          \E pp \in 1..NSteps : /\ Alphabet[pp].op = "pack"
                                /\ Answer(Alphabet[pp], Apply(Alphabet[kk], Store0)) # Answer(Alphabet[pp], Store0)
=============================================================================
