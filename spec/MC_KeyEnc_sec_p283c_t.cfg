CONSTANTS P = 283  A = 0  B = 3  Gx = 1  Gy = 2  N = 277
          SecLens <- LensQ
          Stage = "sec"
          SecPfx = {2, 3}  SecXs <- AllX2  SecYs = {}  SecLongYs = {0, 255} DerPos <- PosNone  DerExt <- One0  DerExtLen = 0
SPECIFICATION Spec
INVARIANT NoBad
CHECK_DEADLOCK FALSE
