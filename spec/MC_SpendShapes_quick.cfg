CONSTANT Tier = "quick"
SPECIFICATION SSpec
CHECK_DEADLOCK FALSE
