CONSTANTS P = 23  A = 1  B = 19  Gx = 2  Gy = 11  N = 19
          SignZ = {1, 2, 3, 4, 5, 6, 7, 8, 9, 10, 11, 12, 13, 14, 15, 16, 17, 18, 19, 20, 21, 22, 23, 24, 25, 26, 27, 28, 29, 30, 31, 32, 33, 34, 35, 36, 37, 38}  VerZ = {1, 2, 3, 4, 5, 6, 18, 19, 20, 21, 37, 38}  VerQ = {2, 3, 4, 5, 6, 7, 8, 9, 10, 11, 12, 13, 14, 15, 16, 17, 18, 19}  RecZ = {1, 2, 3, 4, 5, 6, 7, 8, 9, 10, 11, 12, 13, 14, 15, 16, 17, 18, 19, 20}
SPECIFICATION Spec
INVARIANT ReturnedVerifies
CHECK_DEADLOCK FALSE
