--------------------------- MODULE X02_Attribution ---------------------------
(* X02 (a): which keys have signed which input of a transaction.              *)
(*                                                                            *)
(* Composition of two existing rule books, neither of which is changed:       *)
(*   Signer.tla     (C05) - a transaction of standard puzzles is put through  *)
(*                  signing passes; signed[i] is the set of <<key, signature  *)
(*                  byte>> of the listed keys whose signature the unlocking   *)
(*                  data of input i carries;                                  *)
(*   TxValidate.tla (C06) - the VIEW of a transaction an ECDSA signature      *)
(*                  binds, per hash type and signature version, and the       *)
(*                  mutations / structural edits of a transaction object.     *)
(* A behaviour here is a signing history (phase 1: SignPass steps of Signer)  *)
(* followed by an editing history (phase 2: Mutate steps of TxValidate, plus  *)
(* Retag: the hash-type byte a signature carries is overwritten).             *)
(*                                                                            *)
(* Attribution(pos) is what an honest report "these keys have signed the      *)
(* input at position pos" must say in EVERY state: the listed keys of the     *)
(* puzzle now faced whose signature is in the unlocking data now sitting at   *)
(* pos and verifies for the digest this input has NOW under the hash type     *)
(* the signature carries NOW.  Signatures are unforgeable and digests         *)
(* collision-free: a signature verifies iff the digest view it was made for   *)
(* equals the current one (TxValidate's premise).                             *)
EXTENDS Signer

CONSTANTS MaxSteps, MaxInserts      \* bounds of the editing history (TxValidate's constants)

VARIABLES hts, svs, nops, sview, orig, ver, lock, ins, outs, lastval, steps, inserts,   \* TxValidate's state
          retag       \* set of <<input id, key, byte>>: the signature of key on the unlocking data made for
                      \* input id now carries this hash-type byte instead of the one it was made with

txvars == <<hts, svs, nops, sview, orig, ver, lock, ins, outs, lastval, steps, inserts>>
xvars == <<vars, txvars, retag>>

\* TxValidate over the variables of the same names declared above (Signer.tla has an instance of its own, TV, with
\* the variables replaced by constants: only its constant operators)
XTV == INSTANCE TxValidate

----------------------------------------------------------------------------
(* the bridge between the two vocabularies *)
\* signature version of the signatures of input i (TxValidate!SigVersions)
SVOf(i) == IF coin \in ForkIdCoins THEN "forkid"
           ELSE IF shape[i].kind \in WitnessKinds THEN "witness" ELSE "base"
\* the hash type (TxValidate!HashTypes) a signature byte stands for on this coin
HT(b) == IF coin \in ForkIdCoins THEN b - 64 ELSE b
SigBytes == {SigByte(coin, h) : h \in StdHashTypes}
\* puzzles that are executed directly (TxValidate: "script + OP_NOP is still the same puzzle")
Nopable(kind) == kind \in {"p2pk", "p2pkh", "ms_bare"}

\* Two inputs may spend the SAME puzzle (same descriptor: same script bytes).  TxValidate names the
\* spent script of input k by the token k (10 + k: another puzzle of the same form with other keys,
\* 30 + k: the script followed by OP_NOP); equal scripts must be equal tokens before views are compared.
ClassOf(i) == CHOOSE j \in Ins : shape[j] = shape[i] /\ \A l \in Ins : shape[l] = shape[i] => j <= l
NormSpk(t) == IF (t % 10) \in Ins THEN (t \div 10) * 10 + ClassOf(t % 10) ELSE t
Norm(I) == [j \in 1..Len(I) |-> [I[j] EXCEPT !.spk = NormSpk(I[j].spk)]]

\* what a signature with byte b binds: TxValidate's view, plus the byte itself (the hash type is part of
\* every digest preimage) - except under the original algorithm's SIGHASH_SINGLE bug, where the digest
\* is the constant 1 whatever the transaction and whatever the byte
Digest(I, O, V, L, pos, b, sv) ==
    LET v == XTV!View(Norm(I), O, V, L, pos, HT(b), sv)
    IN [view |-> v, byte |-> IF v.bug THEN 0 ELSE b]

\* the digest the signature <<k, b>> of input i was made for.  All signing happens before any edit
\* (phase 1), i.e. on the transaction `orig`
SignedDigest(i, b) == Digest(orig.ins, orig.outs, orig.ver, orig.lock, i, b, SVOf(i))
\* the byte the signature of key k on the unlocking data of input i carries now
Carried(i, k, b) == IF \E t \in retag : t[1] = i /\ t[2] = k
                    THEN (CHOOSE t \in retag : t[1] = i /\ t[2] = k)[3] ELSE b

----------------------------------------------------------------------------
(* THE ATTRIBUTION FUNCTION *)
\* r = ins[pos]: the input now at position pos; r.unl = the original input whose unlocking data it
\* carries (0: none); r.spk = the puzzle it now spends; r.known = its spent output is known
StillVerifies(pos, i, k, b) ==
    Digest(ins, outs, ver, lock, pos, Carried(i, k, b), SVOf(i)) = SignedDigest(i, b)
\* the signatures of the unlocking data at pos that verify there, as <<key, byte carried>>
Verifying(pos) == LET i == ins[pos].unl IN
                  {<<p[1], Carried(i, p[1], p[2])>> : p \in {q \in signed[i] : StillVerifies(pos, i, q[1], q[2])}}
\* the keys the puzzle now at pos lists, as far as they are keys of the model: those of its descriptor while
\* the spent script is the one that was signed for (possibly followed by OP_NOP); the "other puzzle" tokens
\* (10 + k) stand for the same form guarded by OTHER keys
PuzzleKeys(pos) == LET r == ins[pos] IN
                   IF r.id # 0 /\ NormSpk(r.spk) \in {ClassOf(r.id), 30 + ClassOf(r.id)} THEN Listed(r.id) ELSE {}
\* does the unlocking data at pos face the puzzle (class) it was made for
FacesOwnPuzzle(pos) == LET r == ins[pos] IN
                       r.unl # 0 /\ NormSpk(r.spk) \in {ClassOf(r.unl), 30 + ClassOf(r.unl)}

\* what MUST be reported: unlocking data on the puzzle it was made for is evaluated exactly as when it was
\* signed, so every listed key whose signature still verifies is a signer
Attribution(pos) ==
    LET r == ins[pos] IN
    IF r.unl = 0 \/ ~r.known \/ ~FacesOwnPuzzle(pos) THEN {} ELSE Verifying(pos)
\* what MAY be reported.  Unlocking data moved onto a DIFFERENT puzzle normally verifies nowhere (every digest
\* commits to the outpoint of its own input).  In the SIGHASH_SINGLE-without-output corner the digest is a
\* constant: a signature made there verifies on every other such input, and whether the foreign puzzle's
\* script happens to pair it with the key it lists is a matter of stack layout this model does not decide -
\* a report may then name such a key or not
AttributionMay(pos) ==
    LET r == ins[pos] IN
    IF r.unl = 0 \/ ~r.known THEN {}
    ELSE IF FacesOwnPuzzle(pos) THEN Verifying(pos)
    ELSE {p \in Verifying(pos) : p[1] \in PuzzleKeys(pos)}
ReportAllowed(pos, R) == Attribution(pos) \subseteq R /\ R \subseteq AttributionMay(pos)
Positions == 1..Len(ins)
AttributionAll == [pos \in Positions |-> Attribution(pos)]
AttributionMayAll == [pos \in Positions |-> AttributionMay(pos)]
\* the keys the puzzle at pos lists (for the kinds whose spent script or supplied script names them)
ListedAt(pos) == LET i == ins[pos].unl IN IF i = 0 THEN {} ELSE Listed(i)

----------------------------------------------------------------------------
(* behaviours: sign, then edit *)
\* (Signer's own count of outputs - a variable only its Edit action reads - keeps InitWith's default; the outputs
\* of this module are TxValidate's `outs`)
XInitWith(c, sh, nout) ==
    /\ InitWith(c, sh)
    /\ retag = {}
    /\ XTV!InitWith(Len(sh), nout, [k \in 1..Len(sh) |-> 1],
                   [k \in 1..Len(sh) |-> IF c \in ForkIdCoins THEN "forkid"
                                        ELSE IF sh[k].kind \in WitnessKinds THEN "witness" ELSE "base"],
                   [k \in 1..Len(sh) |-> Nopable(sh[k].kind)])

Editing == steps > 0
XSign(p) == /\ ~Editing /\ SignPass(p) /\ UNCHANGED <<txvars, retag>>
XSignWith(p, ch) == /\ ~Editing /\ SignPassWith(p, ch) /\ UNCHANGED <<txvars, retag>>
XMutate(x) == /\ XTV!Mutate(x) /\ UNCHANGED <<vars, retag>>
\* overwrite the hash-type byte of one signature present (at most one per behaviour)
XRetag(i, k, b) ==
    /\ steps < MaxSteps /\ retag = {}
    /\ i \in Ins /\ b \in SigBytes /\ \E q \in signed[i] : q[1] = k /\ q[2] # b
    /\ retag' = {<<i, k, b>>}
    /\ steps' = steps + 1
    /\ UNCHANGED <<vars, hts, svs, nops, sview, orig, ver, lock, ins, outs, lastval, inserts>>

----------------------------------------------------------------------------
(* Lemmas (TLC: X02_MC_Attribution*.cfg) *)
AsSigned == XTV!cur = orig /\ retag = {}

\* L1  on every reachable state of the signer the attribution IS the signer's state
AttributionIsSigned == AsSigned => \A i \in Ins : Attribution(i) = signed[i]

\* L2  the commitment table: after field changes that keep the structure, a signature drops out of
\*     the attribution exactly when one of the changed fields is committed by ITS hash type
\*     (so an input may keep some of its signers and lose others); nothing else ever changes it
CommitmentInvariance ==
    (XTV!SameStructure /\ retag = {}) =>
        \A cf \in {XTV!ChangedFields} :           \* (evaluated once per state)
            \A i \in Ins :
                Attribution(i) = {p \in signed[i] : ~\E x \in cf : XTV!CommitsTo(i, HT(p[2]), SVOf(i), x, Len(orig.outs))}

\* L3  never a key that has not signed, never a key the puzzle does not list, never two reports for a key
NoInvention == \A pos \in Positions :
                  LET i == ins[pos].unl IN
                  /\ Attribution(pos) \subseteq AttributionMay(pos)
                  /\ {p[1] : p \in AttributionMay(pos)} \subseteq (IF i = 0 THEN {} ELSE Present(i) \cap Listed(i))
                  /\ \A p, q \in AttributionMay(pos) : p[1] = q[1] => p = q
                  /\ Cardinality(AttributionMay(pos)) <= (IF i = 0 THEN 0 ELSE Need(i))

\* L4  a signature whose hash-type byte was overwritten only survives where the digest does not depend
\*     on the byte: the SIGHASH_SINGLE-without-output corner of the original algorithm
RetagKills == \A pos \in Positions : \A p \in AttributionMay(pos) :
                  LET i == ins[pos].unl IN
                  (\E t \in retag : t[1] = i /\ t[2] = p[1]) =>
                      XTV!View(Norm(ins), outs, ver, lock, pos, HT(p[2]), SVOf(i)).bug

\* L5  unlocking data sitting on another input (another outpoint) only survives in that same corner
TransplantKills == \A pos \in Positions :
                      LET r == ins[pos] IN
                      (r.unl # 0 /\ r.id # r.unl) =>
                          \A p \in AttributionMay(pos) : XTV!View(Norm(ins), outs, ver, lock, pos, HT(p[2]), SVOf(r.unl)).bug

\* L5b the report is left open only in that corner: unlocking data on a foreign puzzle, digest a constant
OpenOnlyInCorner == \A pos \in Positions :
                       Attribution(pos) # AttributionMay(pos) =>
                           LET r == ins[pos] IN
                           /\ r.unl # 0 /\ r.id # r.unl /\ ~FacesOwnPuzzle(pos)
                           /\ \A p \in AttributionMay(pos) : XTV!View(Norm(ins), outs, ver, lock, pos, HT(p[2]), SVOf(r.unl)).bug

\* L6  link to validation: as signed, an input is valid iff m of its listed keys are attributed
ValidIffAttributed == AsSigned => \A i \in Ins : valid[i] <=> Cardinality(Attribution(i)) >= Need(i)

\* L7  (action) editing never adds a signer to any unlocking data; signing never removes one
EditOnlyRemoves ==
    [][Editing' => \A pos \in 1..Len(ins') :
                      LET i == ins'[pos].unl IN
                      {p[1] : p \in AttributionMay(pos)'} \subseteq (IF i = 0 THEN {} ELSE Present(i))]_xvars
SigningOnlyAdds == [][(~Editing') => \A i \in Ins : Attribution(i) \subseteq Attribution(i)']_xvars
=============================================================================
