CONSTANTS MaxSteps = 1  MaxInserts = 1  Mode = "replay"  Cases <- CasesU
SPECIFICATION RSpec
CHECK_DEADLOCK FALSE
