\* lemma: for EVERY message length 0..200 the padded message is a whole number of 64-byte
\* blocks, minimal, and ends with the bit length (both byte orders)
CONSTANTS Lens <- LensPad  Fills = {"mix"}  Pipes = {"ripemd160", "sha256"}  WithVectors = FALSE
INIT Init
NEXT Next
CONSTRAINT AtStart
INVARIANTS PadOK PadPrefix HTypeOK
CHECK_DEADLOCK FALSE
