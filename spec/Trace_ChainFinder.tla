-------------------------- MODULE Trace_ChainFinder --------------------------
(* Code -> spec binding for C15: recorded runs of pycoin's BlockChain are     *)
(* checked to be behaviours of ChainFinder.tla.  One logged event = one API   *)
(* call with the state it left behind (reported chain, returned operations,   *)
(* index lookups, and the finder's two dictionaries).  The order in which     *)
(* meld_new_hashes popped the batch is NOT logged: the Pop steps are silent   *)
(* and TLC searches for an order that explains the logged state.              *)
EXTENDS ChainFinder, Json, IOUtils, TLCExt

Traces == JsonDeserialize(IOEnv.TRACE_FILE)
VARIABLES tid, l
tvars == <<vars, tid, l>>
Ev == Traces[tid].ev

TInit == /\ TLCSet(1, {})
         /\ tid \in 1..Len(Traces) /\ l = 1
         /\ par = Traces[tid].par /\ wt = Traces[tid].wt
         /\ known = {} /\ tfb = <<>> /\ dbt = <<>> /\ newh = {}
         /\ locked = <<>> /\ anchor = 0 /\ cache = <<>>
         /\ h2i = [h \in Hashes |-> -1]
         /\ delivered = {} /\ oldc = <<>> /\ phase = "idle" /\ err = ""
         /\ nadd = 0 /\ nlock = 0
         /\ rdelivered = {} /\ rlocked = 0 /\ rchain = <<>> /\ rops = <<>>
         /\ ridx = [h \in Hashes |-> -1]

Cur == Ev[l]
\* the finder's dictionaries after the call equal the logged ones.  They are internal state:
\* the harness sets hasf = 0 to validate the observable fields only (see props/c15.py)
FinderMatches(e) ==
  e.hasf = 1 =>
    /\ Cardinality(DOMAIN tfb') = Len(e.tfb)
    /\ \A i \in 1..Len(e.tfb) : e.tfb[i][1] \in DOMAIN tfb' /\ tfb'[e.tfb[i][1]] = e.tfb[i][2]
    /\ Cardinality({t \in DOMAIN dbt' : dbt'[t] # {}}) = Len(e.dbt)
    /\ \A i \in 1..Len(e.dbt) : e.dbt[i][1] \in DOMAIN dbt' /\ dbt'[e.dbt[i][1]] = ToSet(e.dbt[i][2])

TAddBegin == /\ l <= Len(Ev) /\ Cur.a = "D" /\ Cur.exc = 0
             /\ AddBegin(ToSet(Cur.arg))
             /\ UNCHANGED <<tid, l>>
TPop == /\ \E h \in newh : Pop(h)
        /\ UNCHANGED <<tid, l>>
TAddFinish == /\ l <= Len(Ev) /\ Cur.a = "D"
              /\ AddFinish
              /\ err' = ""
              /\ rchain' = Cur.chain /\ rops' = Cur.ops /\ ridx' = Cur.idx /\ rlocked' = Cur.locked
              /\ FinderMatches(Cur)
              /\ l' = l + 1 /\ UNCHANGED tid
TLockBegin == /\ l <= Len(Ev) /\ Cur.a = "L" /\ Cur.exc = 0
              /\ LockBegin(Cur.arg[1])
              /\ UNCHANGED <<tid, l>>
TLockFinish == /\ l <= Len(Ev) /\ Cur.a = "L"
               /\ LockFinish
               /\ rchain' = Cur.chain /\ ridx' = Cur.idx /\ rlocked' = Cur.locked
               /\ FinderMatches(Cur)
               /\ l' = l + 1 /\ UNCHANGED tid
TLockNoop == /\ l <= Len(Ev) /\ Cur.a = "L" /\ Cur.exc = 0
             /\ LockNoop(Cur.arg[1])
             /\ rchain = Cur.chain /\ ridx = Cur.idx /\ rlocked = Cur.locked
             /\ l' = l + 1 /\ UNCHANGED tid
TNext == TAddBegin \/ TPop \/ TAddFinish \/ TLockBegin \/ TLockFinish \/ TLockNoop
TSpec == TInit /\ [][TNext]_tvars

Reached == IF l = Len(Ev) + 1 THEN TLCSet(1, TLCGet(1) \cup {tid}) ELSE TRUE
\* (a TLA+ tuple would be pretty-printed over several lines when the set is long: print JSON)
Post == PrintT(ToJson([k |-> "rejected", n |-> Len(Traces), ids |-> (1..Len(Traces)) \ TLCGet(1)]))
=============================================================================
