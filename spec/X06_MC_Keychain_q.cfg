CONSTANTS U = "q"  MaxOps = 3  MaxGet = 1  Ops <- OpsAll
          Roots <- URoots  Info <- UInfo  Ranges <- URanges  Singles <- USingles  Scripts <- UScripts  QKeys <- UQKeys
          RootSets <- MCRootSetsQ  SecSets <- MCSecSetsQ  AskSet <- MCAskQ  NoDerivCheck <- No  Logging <- No
          PathRoots <- URoots  PathForms <- Forms  RangeIdx <- RIq  BackedSet <- OnFile
INIT MKInit
NEXT MKNext
VIEW KViewM
INVARIANTS KTypeOK AnswerReached PubOnlyPublic Upgrade RegConsistent ScriptsOnly RangeExact
PROPERTIES PKPersist PKMonotone PKIdempotent
CHECK_DEADLOCK FALSE
