CONSTANTS Variant = "std"  MaxSum = 8  MaxIns = 3  MaxPays = 4  MaxFee = 3
          ScaleKs = {12}  ScaleRs = {0}
          SrcPatterns = {"own", "shared"}  ToPatterns = {"same"}
          EmitScaled = FALSE
SPECIFICATION RSpec
INVARIANTS DoneIsBuild OutcomeOK
CHECK_DEADLOCK FALSE
