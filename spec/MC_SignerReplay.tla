--------------------------- MODULE MC_SignerReplay ---------------------------
(* Spec -> code binding for C05.  TLC enumerates behaviours of Signer.tla -   *)
(* a transaction shape on a coin and a sequence of signing passes - and       *)
(* prints, after every pass, the pass, the state the specification reached    *)
(* and EVERY state it allows for that pass (the choice of signers is free     *)
(* when more keys are supplied than needed).  The harness performs the same   *)
(* passes on a real pycoin transaction and requires the projected state to be *)
(* one of the allowed ones, the frame to be untouched, the flags to be those  *)
(* printed here.                                                              *)
EXTENDS Signer, Json

CONSTANTS Cases,      \* set of [coin, shape, ht, mech]: what a behaviour starts from
          Mode,       \* "ord" | "prod" | "lim" | "front" | "kc" | "edit" | "edit_all" | "edit_long": which steps are explored (below)
          PruneNoop,  \* stop a behaviour after a pass that changes nothing
          WithPairs   \* "ord": also passes supplying the first and last listed keys together

VARIABLES case, acts, outs, alive
rvars == <<vars, case, acts, outs, alive>>

D(kind, m, keys, form) == [kind |-> kind, m |-> m, keys |-> keys, form |-> form]
AllListed == UNION {Listed(i) : i \in Ins}
FirstKeys == {shape[i].keys[1] : i \in Ins}
LastKeys == {shape[i].keys[Len(shape[i].keys)] : i \in Ins}

\* the container the scripts travel in and the way key paths get registered rotate with the other
\* parameters of a pass (all five containers / all three ways occur for every puzzle kind in "prod")
ScSeq == <<"list", "gen", "tuple", "iter", "set">>
ViaSeq == <<"paths", "keys12", "keys21">>
P(mech, K, I, ht, scr, reg, sec, fresh, ic) ==
    [mech |-> mech, K |-> K, I |-> I, ht |-> ht, scr |-> scr, reg |-> reg, sec |-> sec, fresh |-> fresh, ic |-> ic,
     sc |-> ScSeq[((ht + Cardinality(K) + Cardinality(reg)) % 5) + 1],
     via |-> IF "via" \in DOMAIN case THEN case.via ELSE ViaSeq[((ht + Cardinality(reg)) % 3) + 1]]
\* a pass supplying exactly the keys K through the behaviour's mechanism
Plain(mech, K, I, ht, scr, ic) == IF mech = "keychain" THEN P(mech, {}, I, ht, scr, K, Masters, TRUE, ic)
                                  ELSE P(mech, K, I, ht, scr, {}, {}, TRUE, ic)

\* "ord": orderings.  One hash type and mechanism per behaviour; every single key (listed
\* or wrong), some key pairs, all keys at once; every subset of the inputs asked for.
OrdKeySets == {{k} : k \in Keys} \cup {AllListed} \cup (IF WithPairs THEN {FirstKeys \cup LastKeys} ELSE {})
\* The index collection: omitted / a set / a list / a tuple; and the explicitly EMPTY collection in
\* each container type (with every key on offer: nothing may be signed).
OrdIC(K, I) == IF I = Ins /\ Cardinality(K) % 2 = 1 THEN "none" ELSE IF Cardinality(I) = 1 THEN "list" ELSE "set"
OrdPasses == {Plain(case.mech, K, I, case.ht, TRUE, OrdIC(K, I)) : K \in OrdKeySets, I \in (SUBSET Ins) \ {{}}}
             \cup {Plain(case.mech, AllListed, {}, case.ht, TRUE, c) : c \in {"set", "list", "tuple"}}

\* "prod": the product puzzle kind x key form x hash type x mechanism x coin, short behaviours:
\* a first pass (all keys / one key per input; scripts supplied or not; keychain holding all
\* or only master 1's private node), then a completing pass with everything.
ProdFirst == {P(mech, IF mech = "keychain" THEN {} ELSE K, Ins, ht, scr,
                IF mech = "keychain" THEN K \cup {NK} ELSE {}, sec, TRUE, "none") :
                mech \in Mechs, K \in {AllListed, FirstKeys}, ht \in HashTypes, scr \in BOOLEAN,
                sec \in {Masters, {1}}}
ProdPasses == IF npass = 0 THEN {p \in ProdFirst : p.mech # "keychain" => p.sec = Masters}
              ELSE LET q == acts[1] IN
                   {IF q.mech = "keychain" THEN P(q.mech, {}, Ins, q.ht, TRUE, AllListed, Masters, FALSE, "tuple")
                    ELSE P(q.mech, AllListed, Ins, q.ht, TRUE, {}, {}, TRUE, "tuple")}

\* "lim": large multisigs at the size limits.  Exhausting the orders of 20 keys is out of reach:
\* each case is walked Walks times; walk 1 supplies everything at once, walk 2 the keys one at a
\* time in list order, walk 3 in reverse order, the others follow a fixed pseudo-random schedule
\* of single keys, blocks of keys and everything.  (Which signers a pass leaves when it is
\* over-supplied stays nondeterministic.)
LimKeySets == {{k} : k \in AllListed} \cup {AllListed} \cup {{k \in AllListed : k % 3 = r} : r \in 0..2}
\* (a pass that supplies many more keys than still needed has C(u, r) allowed outcomes: keep those
\* with at most u of them)
FewOutcomes(K) == LET u == Cardinality((K \cap Listed(1)) \ Present(1))
                      r == Need(1) - Cardinality(Present(1))
                  IN u <= r \/ r <= 1 \/ u = r + 1
Fresh(K) == (K \cap Listed(1)) \ Present(1) # {}
Nth(S, h) == SetToSeq(S)[(h % Cardinality(S)) + 1]
LimChoice == LET ok == {X \in LimKeySets : FewOutcomes(X)}
                 useful == {X \in ok : Fresh(X)}
                 todo == Listed(1) \ Present(1)
                 h == case.walk * 7919 + npass * 104729 + Need(1) * 31 + Cardinality(Present(1)) * 17
                 firstNeeded == {k \in todo : Cardinality({j \in todo : j < k}) < Need(1) - Cardinality(Present(1))}
             IN CASE case.walk = 1 -> IF FewOutcomes(AllListed) THEN AllListed ELSE firstNeeded
                  [] case.walk = 2 /\ todo # {} -> {Min(todo)}
                  [] case.walk = 3 /\ todo # {} -> {Max(todo)}
                  [] OTHER -> IF useful # {} /\ h % 6 # 0 THEN Nth(useful, h \div 6) ELSE Nth(ok, h \div 6)
LimPasses == {Plain(case.mech, LimChoice, Ins, case.ht, TRUE, IF npass % 2 = 0 THEN "none" ELSE "list")}

\* "kc": histories of ONE long-lived keychain: paths registered, private nodes of masters added
\* (one at a time or all), scripts added, and signing passes that add nothing themselves - in every
\* order.  A pass signs exactly what the keychain can resolve at that moment; a pass that finds
\* nothing must not spoil a later one.
LastIsSign == acts # <<>> /\ acts[Len(acts)].mech = "keychain"
KcPasses == IF LastIsSign THEN {} ELSE {P("keychain", {}, Ins, case.ht, FALSE, {}, {}, FALSE, "none")}
KcAddAlphabet == {[R |-> AllListed, M |-> {}, S |-> FALSE], [R |-> FirstKeys, M |-> {}, S |-> FALSE],
                  [R |-> {}, M |-> {1}, S |-> FALSE], [R |-> {}, M |-> {2}, S |-> FALSE],
                  [R |-> {}, M |-> {}, S |-> TRUE], [R |-> AllListed, M |-> Masters, S |-> TRUE],
                  [R |-> AllListed, M |-> {1}, S |-> TRUE], [R |-> AllListed, M |-> {}, S |-> TRUE]}
RKcAdds == IF Mode # "kc" THEN {}
           ELSE {a \in KcAddAlphabet : ~(a.R \subseteq kcReg /\ a.M \subseteq kcSec /\ (a.S => kcScr))}

\* "front": what the signing front-ends REPORT.  One pass over all inputs with every subset of the
\* listed keys (so the key of each input position is missing in turn), through create_signed_tx,
\* sign_tx and Tx.sign, on transactions with more, as many and fewer inputs than outputs.
FrontPasses == IF npass > 0 THEN {}
               ELSE {P(mech, K, Ins, case.ht, TRUE, {}, {}, TRUE, "none") :
                       mech \in {"create_signed", "wifs", "lookup"}, K \in SUBSET AllListed}

\* "edit" / "edit_all": sign - the caller edits a field - sign again (- edit - sign again).  The first
\* pass signs completely or partially (first keys only); then one field of the transaction is changed
\* (a few boundary fields / every field of Signer!EditFields at every position); the next pass offers
\* all keys or the first keys again.  Signatures whose hash type commits to the field are stale by
\* then and have to be replaced; those that do not commit survive and their inputs stay untouched.
InEdit == Mode \in {"edit", "edit_all", "edit_long"}
\* exactly the keys each puzzle needs (its first m): nothing left to the signer's choice
FirstM == UNION {{shape[i].keys[j] : j \in 1..shape[i].m} : i \in Ins}
EditPasses == IF Len(acts) % 2 = 1 THEN {}
              ELSE {Plain(case.mech, K, Ins, IF Len(acts) = 0 THEN case.ht ELSE case.ht2, TRUE, "none") :
                      K \in {FirstM, FirstKeys} \cup (IF Mode = "edit" THEN {AllListed} ELSE {})}
EditAlphabet == IF Mode \in {"edit", "edit_long"}
                THEN {x \in [m : {"lock", "seq", "out_amt", "spent_amt"}, a : 0..2, b : {0}] :
                        EditOK(x) /\ (x.m = "spent_amt" => x.a = case.pos)}
                ELSE {x \in [m : EditFields, a : 0..2, b : {0}] : EditOK(x)}
REdits == IF InEdit /\ Len(acts) % 2 = 1 THEN EditAlphabet ELSE {}

RPasses == CASE InEdit -> EditPasses [] Mode = "front" -> FrontPasses [] Mode = "ord" -> OrdPasses [] Mode = "prod" -> ProdPasses [] Mode = "lim" -> LimPasses
             [] Mode = "kc" -> KcPasses

\* what the harness compares: per input the signers with their signature bytes, and validity
Allowed(p) == {[s |-> [i \in Ins |-> SignedWith(p, i, ch[i])],
                v |-> [i \in Ins |-> Cardinality(ch[i]) >= Need(i)],
                bad |-> Reports(p, ch).bad, raises |-> Reports(p, ch).raises] : ch \in PassChoices(p, NIn)}
RecOf(p) == [mech |-> p.mech, K |-> p.K, I |-> p.I, ht |-> p.ht, scr |-> p.scr, reg |-> p.reg,
             sec |-> p.sec, fresh |-> p.fresh, ic |-> p.ic, sc |-> p.sc, via |-> p.via, sup |-> Supplied(p), touch |-> Touchable(p),
             allowed |-> Allowed(p)]
\* a keychain edit, printed in the shape of a pass: the only state it allows is the current one
RecOfAdd(a) == [mech |-> "kc_add", K |-> {}, I |-> {}, ht |-> 1, scr |-> a.S, reg |-> a.R, sec |-> a.M,
                fresh |-> FALSE, ic |-> "set", sc |-> ScSeq[(npass % 5) + 1],
                via |-> IF "via" \in DOMAIN case THEN case.via ELSE "paths", sup |-> {}, touch |-> {},
                allowed |-> {[s |-> signed, v |-> valid, bad |-> BadNow, raises |-> FALSE]}]

\* number of outputs of the transaction (concretization; only the "front" cases vary it)
NOut == IF "nout" \in DOMAIN case THEN case.nout ELSE 2
\* an edit by the caller, printed in the shape of a pass: exactly one state is allowed after it
RecOfEdit(x) == [mech |-> "edit", K |-> {}, I |-> {}, ht |-> 1, scr |-> FALSE, reg |-> {}, sec |-> {},
                 fresh |-> FALSE, ic |-> "set", sc |-> "list", via |-> "paths", sup |-> {}, touch |-> {}, field |-> x.m, pos |-> x.a,
                 allowed |-> {[s |-> signed', v |-> valid', bad |-> Cardinality({i \in Ins : ~valid'[i]}), raises |-> FALSE]}]
RInit == /\ case \in Cases /\ ShapeOK(case.coin, case.shape) /\ InitWithN(case.coin, case.shape, NOut)
         /\ acts = <<>> /\ outs = <<>> /\ alive = TRUE
RPass(p) == /\ alive /\ SignPass(p)
            /\ acts' = Append(acts, RecOf(p))
            /\ outs' = Append(outs, [signed |-> signed', valid |-> valid'])
            /\ alive' = (~PruneNoop \/ signed' # signed)
            /\ UNCHANGED case
            /\ PrintT(ToJson([k |-> "beh", coin |-> coin, shape |-> shape, acts |-> acts', outs |-> outs',
                              nout |-> NOut, cap |-> [i \in Ins |-> Need(i)], mode |-> Mode, flags |-> PolicyFlags(coin), sigbyte |-> SigByte(coin, p.ht)]))
RKcAdd(a) == /\ alive /\ KcAdd(a.R, a.M, a.S)
             /\ acts' = Append(acts, RecOfAdd(a))
             /\ outs' = Append(outs, [signed |-> signed, valid |-> valid])
             /\ UNCHANGED <<case, alive>>
             /\ PrintT(ToJson([k |-> "beh", coin |-> coin, shape |-> shape, acts |-> acts', outs |-> outs',
                               nout |-> NOut, cap |-> [i \in Ins |-> Need(i)], mode |-> Mode, flags |-> PolicyFlags(coin), sigbyte |-> SigByte(coin, case.ht)]))
REdit(x) == /\ alive /\ Edit(x)
            /\ acts' = Append(acts, RecOfEdit(x))
            /\ outs' = Append(outs, [signed |-> signed', valid |-> valid'])
            /\ UNCHANGED <<case, alive>>
            /\ PrintT(ToJson([k |-> "beh", coin |-> coin, shape |-> shape, acts |-> acts', outs |-> outs',
                              nout |-> NOut, cap |-> [i \in Ins |-> Need(i)], mode |-> Mode, flags |-> PolicyFlags(coin), sigbyte |-> SigByte(coin, case.ht)]))
RNext == (\E p \in RPasses : RPass(p)) \/ (\E a \in RKcAdds : RKcAdd(a)) \/ (\E x \in REdits : REdit(x))
RSpec == RInit /\ [][RNext]_rvars

----------------------------------------------------------------------------
(* case tables *)
MSKinds == <<"ms_bare", "ms_p2sh", "ms_p2wsh", "ms_p2sh_p2wsh">>
HTSeq == <<1, 2, 3, 129, 130, 131>>
MechSeq == <<"lookup", "wifs", "keychain">>
MNq == <<<<1, 2>>, <<2, 3>>, <<3, 3>>>>
MNt == MNq \o <<<<2, 2>>, <<1, 1>>, <<1, 3>>>>
KeysOf(n, a) == IF a % 2 = 0 THEN [j \in 1..n |-> j] ELSE [j \in 1..n |-> n + 1 - j]
Second == << D("p2pkh", 1, <<1>>, "c"), D("p2wpkh", 1, <<4>>, "c"), D("p2pk", 1, <<4>>, "u"),
             D("p2sh_p2wpkh", 1, <<1>>, "c"), D("p2pkh", 1, <<4>>, "u"), D("p2pk", 1, <<1>>, "c") >>
OrdCases(coins, MN, hts, mechs) ==
    {[coin |-> c,
      shape |-> IF (a + b) % 2 = 0
                THEN <<D(MSKinds[a], MN[b][1], KeysOf(MN[b][2], a + b), f), Second[((a + 2 * b) % 6) + 1]>>
                ELSE <<Second[((a + 2 * b) % 6) + 1], D(MSKinds[a], MN[b][1], KeysOf(MN[b][2], a + b), f)>>,
      ht |-> HTSeq[((a + b + h) % 6) + 1], mech |-> MechSeq[((a + 2 * b + g) % 3) + 1]] :
      c \in coins, a \in 1..4, b \in 1..Len(MN), f \in Forms, h \in hts, g \in mechs}
NoShapes == {}
OrdCasesQ == OrdCases({"BTC"}, MNq, {0}, {0})
OrdCasesT == OrdCases({"BTC", "BCH", "BTG", "LTC"}, MNt, {0}, {0}) \cup OrdCases({"XTN", "DOGE"}, MNq, {3}, {1})

ProdShapes == {<<D(kd, 1, <<2>>, f)>> : kd \in SingleKinds, f \in Forms}
              \cup {<<D(kd, 2, <<3, 1, 2>>, f)>> : kd \in MultiKinds, f \in Forms}
ProdCases(coins) == {[coin |-> c, shape |-> sh, ht |-> 1, mech |-> "lookup"] : c \in coins, sh \in ProdShapes}
ProdCasesAll == ProdCases(AllCoins)

\* the size limits: the largest feasible multisig of each kind and form, their neighbours,
\* and the smallest shapes whose unlocking data has more than ten items
LimMN == { <<15, 15>>, <<14, 14>>, <<1, 15>>, <<8, 15>>, <<9, 15>>, <<20, 20>>, <<16, 16>>, <<2, 16>>,
           <<17, 20>>, <<9, 12>>, <<10, 12>>, <<7, 7>>, <<3, 7>>, <<11, 11>> }
LimCases(coins, mn, walks) ==
    {[coin |-> c, walk |-> w, shape |-> <<D(kd, x[1], [j \in 1..x[2] |-> j], f)>>,
      ht |-> HTSeq[((x[1] + x[2]) % 6) + 1], mech |-> MechSeq[(x[1] % 3) + 1]] :
      c \in coins, kd \in MultiKinds, x \in mn, f \in Forms, w \in 1..walks}
\* keychain histories: a 2-of-3 (or 3-of-3) multisig whose keys hang below both masters (keys 1, 3
\* below master 1, key 2 below master 2) and a single-key input below master 2
KcCases(coins) ==
    {[coin |-> c, walk |-> 1,
      shape |-> <<D(MSKinds[a], 2 + (a % 2), <<1, 2, 3>>, IF a = 2 THEN "u" ELSE "c"), Second[((2 * a) % 6) + 1]>>,
      ht |-> HTSeq[a + 1], mech |-> "keychain", via |-> <<"keys12", "keys21", "paths", "keys12">>[a]] : c \in coins, a \in 1..4}
KcCasesQ == KcCases({"BTC"}) \cup {x \in KcCases({"BCH"}) : x.shape[1].kind = "ms_p2sh"}
KcCasesT == KcCases({"BTC", "BTG", "LTC"}) \cup KcCases({"BCH"})
\* front-end cases: three single-key inputs (and a two-input shape with a multisig) x 1..4 outputs
FrontShapes(a) == IF a = 1 THEN <<D("p2pkh", 1, <<1>>, "c"), D("p2wpkh", 1, <<2>>, "c"), D("p2pk", 1, <<3>>, "u")>>
                  ELSE IF a = 2 THEN <<D("p2pkh", 1, <<3>>, "u"), D("p2pk", 1, <<1>>, "c"), D("p2pkh", 1, <<2>>, "c")>>
                  ELSE <<D("ms_bare", 2, <<1, 2>>, "c"), D("p2pkh", 1, <<3>>, "c")>>
\* the same puzzle (same keys, byte-identical script: address reuse) at two positions of one transaction
DupShapes == << <<D("p2pkh", 1, <<1>>, "c"), D("p2pkh", 1, <<1>>, "c")>>,
                <<D("p2wpkh", 1, <<2>>, "c"), D("p2wpkh", 1, <<2>>, "c")>>,
                <<D("ms_p2sh", 2, <<1, 2>>, "c"), D("ms_p2sh", 2, <<1, 2>>, "c")>>,
                <<D("ms_p2wsh", 1, <<2, 1>>, "c"), D("p2pk", 1, <<3>>, "c"), D("ms_p2wsh", 1, <<2, 1>>, "c")>>,
                <<D("p2sh_p2wpkh", 1, <<1>>, "c"), D("p2sh_p2wpkh", 1, <<1>>, "c")>>,
                <<D("p2pkh", 1, <<3>>, "u"), D("ms_bare", 1, <<1, 2>>, "c"), D("p2pkh", 1, <<3>>, "u")>> >>
DupCases == {[coin |-> c, walk |-> 1, shape |-> DupShapes[a], nout |-> 2, ht |-> HTSeq[a], mech |-> "wifs"] :
               c \in {"BTC", "BCH"}, a \in 1..6}
FrontCases == DupCases \cup {[coin |-> c, walk |-> 1, shape |-> FrontShapes(a), nout |-> n, ht |-> HTSeq[((a + n) % 6) + 1], mech |-> "wifs"] :
                 c \in {"BTC", "BCH", "LTC"}, a \in 1..3, n \in 1..4}
\* edit cases: the puzzle kind under test (single key, or 2-of-3) at position pos of two inputs, next to a
\* single-key input of another kind; two outputs
EditShape(kd, f, pos, a) ==
    LET X == IF kd \in SingleKinds THEN D(kd, 1, <<1>>, f) ELSE D(kd, 2, <<1, 2, 3>>, f)
        Y == IF a % 2 = 0 THEN D("p2pkh", 1, <<4>>, "c") ELSE D("p2pk", 1, <<4>>, "u")
    IN IF pos = 1 THEN <<X, Y>> ELSE <<Y, X>>
KindSeq == <<"p2pkh", "p2wpkh", "p2sh_p2wpkh", "p2pk", "ms_bare", "ms_p2sh", "ms_p2wsh", "ms_p2sh_p2wsh">>
EditCases(coins, hoffs, moffs, h2offs) ==
    {[coin |-> c, walk |-> 1, pos |-> 1 + ((a + h) % 2), shape |-> EditShape(KindSeq[a], f, 1 + ((a + h) % 2), a),
      ht |-> HTSeq[((a + h) % 6) + 1], ht2 |-> HTSeq[((a + h + h2) % 6) + 1], mech |-> MechSeq[((a + g) % 3) + 1]] :
      c \in coins, a \in 1..8, f \in Forms, h \in hoffs, g \in moffs, h2 \in h2offs}
\* quick: per kind and form two hash types (so that ALL, NONE, SINGLE and their ANYONECANPAY forms all occur), one mechanism each
EditCasesQ == EditCases({"BTC"}, {0, 2}, {0}, {0}) \cup EditCases({"BCH"}, {2}, {1}, {0})
EditCasesT == EditCases({"BTC", "BCH", "BTG", "LTC"}, 0..5, {0, 1, 2}, {0}) \cup EditCases({"BTC"}, {0, 3}, {0}, {1, 4})
EditCasesLong == EditCases({"BTC"}, {1, 4}, {2}, {0}) \cup EditCases({"BCH"}, {1}, {0}, {0})
\* one trivial behaviour per coin (the harness reads PolicyFlags(coin) from it)
FlagCases == {[coin |-> c, walk |-> 1, shape |-> <<D("p2pkh", 1, <<1>>, "c")>>, ht |-> 1, mech |-> "lookup"] : c \in AllCoins}
LimCasesQ == LimCases({"BTC"}, {<<15, 15>>, <<20, 20>>, <<9, 12>>, <<7, 7>>, <<8, 15>>, <<2, 16>>}, 2)
             \cup LimCases({"BCH", "BTG"}, {<<15, 15>>, <<9, 12>>}, 2)
LimCasesT == LimCases({"BTC"}, LimMN, 4) \cup LimCases({"BCH", "BTG", "LTC"}, {<<15, 15>>, <<9, 12>>, <<20, 20>>}, 2)
=============================================================================
