---------------------------- MODULE MC_Bech32Syn ----------------------------
(* The error-detection guarantee of the Bech32 checksum, decided by TLC.       *)
(*                                                                             *)
(* By lemma Affine (MC_Bech32) Polymod(x xor e) = Polymod(x) xor PolyLin(e),   *)
(* and PolyLin is additive, so PolyLin(e) is the xor of the syndromes           *)
(*      Syn[i][a] = PolyLin(<<a, 0, ..(i zeros).., 0>>)                          *)
(* of the single-symbol errors e is made of (value a at i positions from the    *)
(* end).  An error e goes UNDETECTED iff PolyLin(e) = 0.                        *)
(* Let T = {0} + {syndromes of 1 error} + {syndromes of 2 errors at different   *)
(* positions}, inside a window of W trailing positions.  If the elements of T   *)
(* are pairwise different (as many different values as there are patterns)      *)
(* then no error of 1..4 symbols inside the window has syndrome 0:              *)
(*   1: Syn # 0      2: Syn # Syn'    3: Syn xor Syn' # Syn''                    *)
(*   4: Syn1 xor Syn2 # Syn3 xor Syn4  (two errors at one position are one)     *)
(* TLC decides "pairwise different" with its state set: every pattern is a      *)
(* state, VIEW keeps only the syndrome, so "distinct states" = |T|; Expected    *)
(* is the number of patterns.  The harness requires distinct = Expected (W=89,  *)
(* the BIP173 claim; the data part of a 90 character string has <= 88 symbols)  *)
(* and that W = 90 does NOT have the property (the lemma has teeth).            *)
(* A changed constant (Bech32 <-> Bech32m) is outside this guarantee: see       *)
(* CrossWitness.                                                                *)
EXTENDS Bech32, TLC
CONSTANTS W
VARIABLES w, i, a, syn
vars == <<w, i, a, syn>>

Syn == [p \in 0..(W - 1) |-> [v \in 1..31 |-> PolyLin(<<v>> \o [k \in 1..p |-> 0])]]
Expected == 1 + 31 * W + 961 * ((W * (W - 1)) \div 2)
ASSUME PrintT(<<"EXPECTED", Expected>>)

Init == \/ w = 0 /\ i = 0 /\ a = 0 /\ syn = 0
        \/ w = 1 /\ i \in 0..(W - 1) /\ a \in 1..31 /\ syn = Syn[i][a]
Next == /\ w = 1 /\ w' = 2
        /\ \E j \in (i + 1)..(W - 1), b \in 1..31 : i' = j /\ a' = b /\ syn' = syn ^^ Syn[j][b]
Spec == Init /\ [][Next]_vars
View == syn
\* weight 1 and 2 errors directly
NonZero == w > 0 => syn # 0

(* What the guarantee does NOT cover: BIP350's second constant.  A valid v0    *)
(* address and a valid v11 address four characters apart (version character,    *)
(* one program character, two checksum characters).                             *)
ASSUME CrossWitness == /\ SegwitDecode(<<98, 99>>, CrossA).ok /\ SegwitDecode(<<98, 99>>, CrossB).ok
                       /\ Len(CrossA) = Len(CrossB)
                       /\ Cardinality({k \in DOMAIN CrossA : CrossA[k] # CrossB[k]}) = 4
=============================================================================
