CONSTANTS P = 67  A = 0  B = 2  Gx = 2  Gy = 12  N = 73  MaxM = 74
SPECIFICATION Spec
CHECK_DEADLOCK FALSE
