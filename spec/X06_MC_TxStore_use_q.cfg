CONSTANTS MaxOps = 3  MaxEdit = 1  MaxSetLook = 0  Univ = 2  Ops <- OpsUse
          EditKinds <- KindsAll  LookKinds <- LKindsAll  FillSet <- SAll  ValSet <- SAll
          Ids <- MCIds  SegIds <- MCSegIds  NOut <- MCNOut  Confs <- MCConfsU  Spenders <- MCSp
          BadFileRaises <- No  OobIndexError <- No
INIT MInit
NEXT MNext
VIEW MViewM
INVARIANTS TypeOK AnswerIsAsked WrittenThrough PutThenGet FilledRight ValidatedRight AskAgainSame
PROPERTIES PMissWritesNothing PReadOnlyKept PGetWritesOnlyAsked
CHECK_DEADLOCK FALSE
