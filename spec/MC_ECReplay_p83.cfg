CONSTANTS P = 83  A = 1  B = 7  Gx = 0  Gy = 16  N = 79  MaxM = 84
SPECIFICATION Spec
CHECK_DEADLOCK FALSE
