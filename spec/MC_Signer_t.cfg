CONSTANTS NK = 4  NM = 2  MaxPasses = 3
          Shapes <- ShapesT  Coins <- CoinsT  HashTypes <- HTt  Passes <- DeepPasses  KcAdds <- NoKcAdds
SPECIFICATION Spec
INVARIANTS TypeOK ValidIff SignedSane NeverValidWithFewKeys Confluence ValidDependsOnUnionOnly
PROPERTIES Monotone ValidUntouched FrameKept UnaskedUntouched
CHECK_DEADLOCK FALSE
