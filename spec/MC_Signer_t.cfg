CONSTANTS NK = 5  NM = 2  MaxPasses = 4
          Shapes <- ShapesT  Coins <- AllCoins  HashTypes <- StdHashTypes
SPECIFICATION Spec
INVARIANTS TypeOK ValidIff SignedSane NeverValidWithFewKeys Confluence ValidDependsOnUnionOnly
PROPERTIES Monotone ValidUntouched FrameKept UnaskedUntouched
CHECK_DEADLOCK FALSE
