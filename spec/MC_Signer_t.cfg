CONSTANTS NK = 4  NM = 2  MaxPasses = 3
          Shapes <- ShapesT  Coins <- CoinsT  HashTypes <- HTt  Passes <- DeepPasses  KcAdds <- NoKcAdds
CONSTANT Edits <- FewEdits
SPECIFICATION Spec
INVARIANTS TypeOK ValidIff SignedSane NeverValidWithFewKeys Confluence ValidDependsOnUnionOnly
PROPERTIES Monotone ValidUntouched FrameKept UnaskedUntouched EditOnlyLoses
CHECK_DEADLOCK FALSE
