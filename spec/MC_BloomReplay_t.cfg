CONSTANTS Configs <- ConfigsSmall  Pool <- PoolSmall  MaxAdds = 3
          RConfigs <- ConfigsReplay  Pool2 <- OpPool  FreeLen = 3  WithScripts = TRUE
SPECIFICATION RSpec
INVARIANTS BTypeOK AtMost
CHECK_DEADLOCK FALSE
