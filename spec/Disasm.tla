------------------------------- MODULE Disasm -------------------------------
(* The text form of a script and the round trip compile(disassemble(s)) = s  *)
(* (property C12, third sentence).                                           *)
(*                                                                           *)
(* A disassembly is a sequence of TOKENS separated by blanks:                *)
(*   a data push with a length field or a direct push (opcodes 1..78) is     *)
(*     written  [hex digits of the data]                                     *)
(*   every other instruction is written as the NAME of its opcode            *)
(*     (Bitcoin Core, script.h, enum opcodetype: OP_0, OP_1NEGATE, OP_1 ..   *)
(*     OP_16, OP_NOP .. OP_NOP10, OP_INVALIDOPCODE; two opcodes carry two    *)
(*     names: OP_NOP2 = OP_CHECKLOCKTIMEVERIFY, OP_NOP3 =                    *)
(*     OP_CHECKSEQUENCEVERIFY - a disassembler may print either).            *)
(* Compiling a token sequence writes, for a name, the opcode byte that owns  *)
(* the name, and for a data token the SHORTEST push of the data              *)
(* (ScriptPush!EncodePush).                                                  *)
(*                                                                           *)
(* The claim is made for scripts "made of known opcodes and minimal pushes": *)
(* every instruction complete, every opcode outside 1..78 named, every data  *)
(* push accepted by CheckMinimalPush.  LemmaTextRoundTrip proves it for the      *)
(* token language above, whatever alias the disassembler picks;              *)
(* LemmaNeedsMinimal shows the hypothesis cannot be dropped: a script with a *)
(* non-minimal push always recompiles to a strictly shorter script.          *)
EXTENDS ScriptPush

\* names of opcodes 79..185, in order
Names79 == <<
  "OP_1NEGATE", "OP_RESERVED",
  "OP_1", "OP_2", "OP_3", "OP_4", "OP_5", "OP_6", "OP_7", "OP_8",
  "OP_9", "OP_10", "OP_11", "OP_12", "OP_13", "OP_14", "OP_15", "OP_16",
  "OP_NOP", "OP_VER", "OP_IF", "OP_NOTIF", "OP_VERIF", "OP_VERNOTIF", "OP_ELSE", "OP_ENDIF",
  "OP_VERIFY", "OP_RETURN",
  "OP_TOALTSTACK", "OP_FROMALTSTACK", "OP_2DROP", "OP_2DUP", "OP_3DUP", "OP_2OVER", "OP_2ROT",
  "OP_2SWAP", "OP_IFDUP", "OP_DEPTH", "OP_DROP", "OP_DUP", "OP_NIP", "OP_OVER", "OP_PICK",
  "OP_ROLL", "OP_ROT", "OP_SWAP", "OP_TUCK",
  "OP_CAT", "OP_SUBSTR", "OP_LEFT", "OP_RIGHT", "OP_SIZE",
  "OP_INVERT", "OP_AND", "OP_OR", "OP_XOR", "OP_EQUAL", "OP_EQUALVERIFY", "OP_RESERVED1", "OP_RESERVED2",
  "OP_1ADD", "OP_1SUB", "OP_2MUL", "OP_2DIV", "OP_NEGATE", "OP_ABS", "OP_NOT", "OP_0NOTEQUAL",
  "OP_ADD", "OP_SUB", "OP_MUL", "OP_DIV", "OP_MOD", "OP_LSHIFT", "OP_RSHIFT",
  "OP_BOOLAND", "OP_BOOLOR", "OP_NUMEQUAL", "OP_NUMEQUALVERIFY", "OP_NUMNOTEQUAL",
  "OP_LESSTHAN", "OP_GREATERTHAN", "OP_LESSTHANOREQUAL", "OP_GREATERTHANOREQUAL", "OP_MIN", "OP_MAX",
  "OP_WITHIN",
  "OP_RIPEMD160", "OP_SHA1", "OP_SHA256", "OP_HASH160", "OP_HASH256", "OP_CODESEPARATOR",
  "OP_CHECKSIG", "OP_CHECKSIGVERIFY", "OP_CHECKMULTISIG", "OP_CHECKMULTISIGVERIFY",
  "OP_NOP1", "OP_NOP2", "OP_NOP3", "OP_NOP4", "OP_NOP5", "OP_NOP6", "OP_NOP7", "OP_NOP8", "OP_NOP9", "OP_NOP10" >>

ASSUME Len(Names79) = 185 - 79 + 1

Alias(op) == CASE op = 177 -> {"OP_CHECKLOCKTIMEVERIFY"} [] op = 178 -> {"OP_CHECKSEQUENCEVERIFY"} [] OTHER -> {}
Names(op) == IF op = 0 THEN {"OP_0"}
             ELSE IF op = 76 THEN {"OP_PUSHDATA1"}
             ELSE IF op = 77 THEN {"OP_PUSHDATA2"}
             ELSE IF op = 78 THEN {"OP_PUSHDATA4"}
             ELSE IF op \in 79..185 THEN {Names79[op - 78]} \cup Alias(op)
             ELSE IF op = 255 THEN {"OP_INVALIDOPCODE"}
             ELSE {}
NamedOps == {0} \cup 76..185 \cup {255}
AllNames == UNION {Names(op) : op \in NamedOps}
\* the opcodes written by name in a disassembly (76..78 own a name but a push is written as data)
WordOps == {0} \cup 79..185 \cup {255}

\* the name a disassembler prints: with alt it prefers the alias where there is one
NameFor(op, alt) == IF alt /\ Alias(op) # {} THEN CHOOSE nm \in Alias(op) : TRUE
                    ELSE IF op \in 79..185 THEN Names79[op - 78]
                    ELSE CHOOSE nm \in Names(op) : TRUE
\* (a constant function: TLC evaluates the table once)
NameToOp == [nm \in AllNames |-> CHOOSE op \in NamedOps : nm \in Names(op)]
OpOfName(nm) == NameToOp[nm]

-----------------------------------------------------------------------------
\* the scripts the property speaks about
ClaimedInstr(r) == /\ r.ph = "done"
                   /\ IF r.op \in 1..78 THEN CheckMinimalPush(r.data, r.op) ELSE r.op \in WordOps
ClaimedP(p) == \A i \in 1..Len(p) : ClaimedInstr(p[i])
Claimed(s) == ClaimedP(Parse(s, 0))
\* well-formed, all opcodes known, but pushes possibly non-minimal
ReadableP(p) == \A i \in 1..Len(p) : p[i].ph = "done" /\ (p[i].op \in 1..78 \/ p[i].op \in WordOps)
Readable(s) == ReadableP(Parse(s, 0))

DataTok(x) == [t |-> "data", d |-> x, name |-> ""]
NameTok(nm) == [t |-> "op", d |-> <<>>, name |-> nm]
TokenOf(r, alt) == IF r.op \in 1..78 THEN DataTok(r.data) ELSE NameTok(NameFor(r.op, alt))
DisassembleP(p, alt) == [i \in 1..Len(p) |-> TokenOf(p[i], alt)]
Disassemble(s, alt) == DisassembleP(Parse(s, 0), alt)

CompileToken(tok) == IF tok.t = "data" THEN EncodePush(tok.d) ELSE ROne(OpOfName(tok.name))
RECURSIVE Compile(_)
Compile(toks) == IF toks = <<>> THEN <<>> ELSE RCat(CompileToken(toks[1]), Compile(Tail(toks)))

-----------------------------------------------------------------------------
\* the characters (for short data; long data tokens are rendered by the harness from the runs)
HexDigit == <<"0", "1", "2", "3", "4", "5", "6", "7", "8", "9", "a", "b", "c", "d", "e", "f">>
HexByte(x) == HexDigit[(x \div 16) + 1] \o HexDigit[(x % 16) + 1]
RECURSIVE HexOf(_)
HexOf(q) == IF q = <<>> THEN "" ELSE HexByte(q[1]) \o HexOf(Tail(q))
TokenText(tok) == IF tok.t = "data" THEN "[" \o HexOf(RToSeq(tok.d)) \o "]" ELSE tok.name
RECURSIVE Text(_)
Text(toks) == IF toks = <<>> THEN ""
              ELSE IF Len(toks) = 1 THEN TokenText(toks[1])
              ELSE TokenText(toks[1]) \o " " \o Text(Tail(toks))

-----------------------------------------------------------------------------
\* a name belongs to one opcode only, so compiling a name is a function
LemmaNames == /\ \A o1, o2 \in NamedOps : o1 # o2 => Names(o1) \cap Names(o2) = {}
              /\ \A op \in NamedOps : \A nm \in Names(op) : OpOfName(nm) = op
LemmaTextRoundTrip(s) == Claimed(s) => \A alt \in BOOLEAN : Compile(Disassemble(s, alt)) = s
LemmaNeedsMinimal(s) == (Readable(s) /\ ~Claimed(s)) =>
                           \A alt \in BOOLEAN : RLen(Compile(Disassemble(s, alt))) < RLen(s)
\* the disassembly of a claimed script has one token per instruction and each token compiles to its instruction
LemmaTokens(s) == Claimed(s) => LET t == Disassemble(s, FALSE)
                                    p == Parse(s, 0)
                                IN /\ Len(t) = Len(p)
                                   /\ \A i \in 1..Len(t) : CompileToken(t[i]) = RSlice(s, p[i].at, p[i].pc - p[i].at)
\* the three lemmas with the script parsed once (what the model checker evaluates)
LemmasText(s) ==
  LET p == Parse(s, 0) IN
  /\ ClaimedP(p) => /\ \A alt \in BOOLEAN : Compile(DisassembleP(p, alt)) = s
                    /\ LET t == DisassembleP(p, FALSE) IN
                       /\ Len(t) = Len(p)
                       /\ \A i \in 1..Len(t) : CompileToken(t[i]) = RSlice(s, p[i].at, p[i].pc - p[i].at)
  /\ (ReadableP(p) /\ ~ClaimedP(p)) => \A alt \in BOOLEAN : RLen(Compile(DisassembleP(p, alt))) < RLen(s)
=============================================================================
