--------------------------- MODULE MC_TxBuildReplay ---------------------------
(* Spec -> code binding for the construction clauses of C13.  TLC runs the   *)
(* Deal machine of TxBuild.tla on every request within the bounds and prints *)
(* each request with the outcome the rule book demands: error, or the output *)
(* amounts, the outpoints and unspents of the inputs in order, total_in,     *)
(* total_out and the reported fee.  The harness concretises ids into         *)
(* transaction hashes, scripts and addresses, executes the request on        *)
(* pycoin's create_tx and compares.                                          *)
(*                                                                           *)
(* Requests differ from the model's in the identities they carry:            *)
(*   SrcPatterns  "own"    input i spends output 0 of source i               *)
(*                "rev"    sources in descending order, output i-1           *)
(*                "shared" all inputs from one source, descending outputs    *)
(*   ToPatterns   "distinct" output i pays address i;  "same" all pay one    *)
(* With EmitScaled the record also carries, for every r in ScaleRSeq, the    *)
(* linear forms of the scaling lemma (TxBuild!Scale) from which the harness  *)
(* derives the expected outcome of the request multiplied by K with r added. *)
EXTENDS TxBuild, Json

CONSTANTS SrcPatterns, ToPatterns, EmitScaled
\* residues added to the first input of a scaled request (all classes mod 1..4, below and above n)
ScaleRSeq == << 0, 1, 2, 3, 4, 5, 7, 11 >>

Ident(a, pat) ==
  LET n == Len(a) IN
  [i \in 1..n |->
     CASE pat = "own"    -> [src |-> i,         idx |-> 0,     amt |-> a[i], scr |-> 1 + (i % 2)]
       [] pat = "rev"    -> [src |-> n + 1 - i, idx |-> i - 1, amt |-> a[i], scr |-> 1 + (i % 2)]
       [] pat = "shared" -> [src |-> 1,         idx |-> n - i, amt |-> a[i], scr |-> 1 + (i % 2)]]
Pays(p, pat) == [i \in 1..Len(p) |-> [to |-> IF pat = "same" THEN 1 ELSE i, amt |-> p[i]]]

RInit == /\ req \in {[sps |-> Ident(a, sp), pays |-> << >>, fee |-> 0] : a \in InSeqs, sp \in SrcPatterns}
         /\ outs = << >> /\ left = 0 /\ nxt = 0 /\ phase = "pick"

RPick == /\ phase = "pick"
         /\ \E p \in PaySeqs, f \in 0..MaxFee, tp \in ToPatterns :
              /\ req' = [req EXCEPT !.pays = Pays(p, tp), !.fee = f]
              /\ outs' = p
         /\ phase' = "start"
         /\ UNCHANGED <<left, nxt>>

SpTuple(s) == << s.src, s.idx, s.amt, s.scr >>
Emit ==
  LET q   == req'
      res == Result'
      tx  == res.tx IN
  PrintT(ToJson(
    [k    |-> "build",
     sps  |-> [i \in 1..Len(q.sps) |-> SpTuple(q.sps[i])],
     pays |-> [i \in 1..Len(q.pays) |-> << q.pays[i].to, q.pays[i].amt >>],
     fee  |-> q.fee,
     err  |-> res.err,
     \* the property is silent when all outputs are fixed and exceed the inputs: raising is allowed too
     mayerr |-> R!Overspent(q.sps, q.pays, q.fee),
     ins  |-> [i \in 1..Len(tx.ins) |-> << tx.ins[i].src, tx.ins[i].idx >>],
     unsp |-> [i \in 1..Len(tx.unspents) |-> << tx.unspents[i].amt, tx.unspents[i].scr >>],
     outs |-> [i \in 1..Len(tx.outs) |-> << tx.outs[i].to, tx.outs[i].amt >>],
     tin  |-> TotalIn(tx), tout |-> TotalOut(tx), rfee |-> Fee(tx),
     nu   |-> NU(q.pays),
     sc   |-> IF EmitScaled
              THEN [j \in 1..Len(ScaleRSeq) |-> [r |-> ScaleRSeq[j]] @@ ScaledExpect(q, ScaleRSeq[j])]
              ELSE << >>]))

RStart  == Start /\ (phase' \in {"done", "error"} => Emit)
RFinish == Finish /\ Emit
RNext == RPick \/ RStart \/ DealOne \/ RFinish
RSpec == RInit /\ [][RNext]_vars
=============================================================================
