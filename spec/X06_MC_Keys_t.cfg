CONSTANT U = "t"
SPECIFICATION Spec
CHECK_DEADLOCK FALSE
