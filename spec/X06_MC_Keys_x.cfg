CONSTANT U = "x"
SPECIFICATION Spec
CHECK_DEADLOCK FALSE
