#!/venv/bin/python
"""benrun.py <worktree> <benign id>...: run ./check against behaviour-preserving changes kept under /verif/benign/<id>/
(written by independent sub-agents: refactorings, renamed private attributes, equivalent algorithms, correct caches).
The check must exit 0: exit 1 is a false alarm, exit 2 a harness that depends on pycoin's private structure.
Applies the patch to a scratch worktree of /repo at /repo's HEAD, runs the quick check with VERIF_OUT outside /verif,
records the outcome in meta.json ("runs") and restores the worktree."""
import json, os, subprocess, sys, tempfile, shutil

wt = sys.argv[1]
head = subprocess.check_output(["git", "-C", "/repo", "rev-parse", "HEAD"], text=True).strip()
subprocess.run(["git", "-C", wt, "checkout", "-q", "--", "."], check=False)
subprocess.run(["git", "-C", wt, "checkout", "-q", "--detach", head], check=False)
for bid in sys.argv[2:]:
    d = "/verif/benign/" + bid
    pid = bid.split("-")[0]
    meta = json.load(open(d + "/meta.json"))
    subprocess.run(["git", "-C", wt, "checkout", "-q", "--", "."], check=True)
    ap = subprocess.run(["git", "-C", wt, "apply", d + "/patch.diff"], capture_output=True, text=True)
    if ap.returncode:      # context lines moved by a later repair: try a three-way merge before giving up
        subprocess.run(["git", "-C", wt, "checkout", "-q", "--", "."], check=True)
        ap = subprocess.run(["git", "-C", wt, "apply", "--3way", d + "/patch.diff"], capture_output=True, text=True)
        if ap.returncode or "conflict" in (ap.stderr + ap.stdout).lower():
            subprocess.run(["git", "-C", wt, "reset", "-q", "--hard", head], check=False)
            ap.returncode = 1
        else:
            subprocess.run(["git", "-C", wt, "reset", "-q"], check=False)      # keep the merged change in the working tree only
    if ap.returncode:
        meta.setdefault("runs", []).append({"head": head[:7], "outcome": "patch no longer applies (the code it refactors was repaired since)"})
        json.dump(meta, open(d + "/meta.json", "w"), indent=1)
        print(bid, "does not apply", flush=True)
        continue
    out = tempfile.mkdtemp(prefix="benrun-")
    env = dict(os.environ, VERIF_OUT=out, VERIF_REPO=wt)
    r = subprocess.run(["timeout", "2400", "/verif/check", pid, "--tier", "quick"], env=env, capture_output=True, text=True, cwd="/verif")
    keys = [l.strip()[4:] for l in r.stdout.splitlines() if l.strip().startswith("key=")]
    subprocess.run(["git", "-C", wt, "checkout", "-q", "--", "."], check=True)
    shutil.rmtree(out, ignore_errors=True)
    meta.setdefault("runs", []).append({"head": head[:7], "check_exit": r.returncode, "violation_keys": keys[:6],
                                        "tail": "" if r.returncode == 0 else r.stdout[-300:]})
    meta["check_exit_on_latest_run"] = r.returncode
    json.dump(meta, open(d + "/meta.json", "w"), indent=1)
    print(bid, "check_rc=%d" % r.returncode, keys[:2], flush=True)
