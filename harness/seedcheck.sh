#!/bin/sh
# seedcheck.sh <Cnn> <worktree> <outdir/k> : confirm a seeded change (tests pass, demo fails with / passes without),
# then run ./check <Cnn> against the worktree with the change applied. Prints a summary line.
P="$1"; WT="$2"; D="$3"
cd "$WT" && git checkout -q -- . 
PYTHONPATH="$WT" /venv/bin/python "$D/demo.py" >/dev/null 2>&1; base=$?
git apply "$D/patch.diff" || { echo "$D: patch does not apply"; exit 2; }
PYTHONPATH="$WT" /venv/bin/python "$D/demo.py" >/dev/null 2>&1; withp=$?
tests=$(/venv/bin/python -m pytest -q -p no:cacheprovider tests 2>&1 | tail -1)
mkdir -p "$D/vout"; cd /verif && VERIF_OUT="$D/vout" VERIF_REPO="$WT" timeout 2400 ./check "$P" --tier quick > "$D/check.log" 2>&1; rc=$?
nviol=$(grep -c "^VIOLATION" "$D/check.log")
cd "$WT" && git checkout -q -- .
echo "$D: demo_base=$base demo_patched=$withp tests=[$tests] check_rc=$rc violations=$nviol"
