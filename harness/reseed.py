#!/venv/bin/python
"""reseed.py <worktree> <seeded id>...: re-run ./check against seeded changes already imported under /verif/seeded/<id>/
(after a check was strengthened).  Applies the patch to a scratch worktree of /repo (checked out at /repo's HEAD), confirms
the demo still fails with it, runs the quick check with VERIF_OUT outside /verif, records the outcome in meta.json
("reruns": [...], "detected_by_quick_check") and restores the worktree."""
import json, os, subprocess, sys, tempfile, shutil

wt = sys.argv[1]
head = subprocess.check_output(["git", "-C", "/repo", "rev-parse", "HEAD"], text=True).strip()
subprocess.run(["git", "-C", wt, "checkout", "-q", "--detach", head], check=False)
for sid in sys.argv[2:]:
    d = "/verif/seeded/" + sid
    pid = sid.split("-")[0]
    meta = json.load(open(d + "/meta.json"))
    subprocess.run(["git", "-C", wt, "checkout", "-q", "--", "."], check=True)
    ap = subprocess.run(["git", "-C", wt, "apply", d + "/patch.diff"], capture_output=True, text=True)
    if ap.returncode:
        print(sid, "patch no longer applies to HEAD %s: %s" % (head[:7], ap.stderr.strip()[:120]))
        meta.setdefault("reruns", []).append({"head": head[:7], "outcome": "patch no longer applies (the code it changed was repaired since)"})
        json.dump(meta, open(d + "/meta.json", "w"), indent=1)
        continue
    env = dict(os.environ, PYTHONPATH=wt)
    demo = subprocess.run(["/venv/bin/python", d + "/demo.py"], env=env, capture_output=True, cwd=wt).returncode
    out = tempfile.mkdtemp(prefix="reseed-")
    env = dict(os.environ, VERIF_OUT=out, VERIF_REPO=wt)
    r = subprocess.run(["timeout", "2400", "/verif/check", pid, "--tier", "quick"], env=env, capture_output=True, text=True, cwd="/verif")
    keys = [l.strip()[4:] for l in r.stdout.splitlines() if l.strip().startswith("key=")]
    nviol = sum(1 for l in r.stdout.splitlines() if l.startswith("VIOLATION"))
    subprocess.run(["git", "-C", wt, "checkout", "-q", "--", "."], check=True)
    shutil.rmtree(out, ignore_errors=True)
    meta.setdefault("reruns", []).append({"head": head[:7], "demo_with_patch_exit": demo, "check_exit": r.returncode,
                                          "violation_lines": nviol, "violation_keys": keys[:8]})
    if demo != 0:
        meta["detected_by_quick_check"] = r.returncode == 1
        if r.returncode == 1:
            meta["violation_keys"] = keys[:12]
    json.dump(meta, open(d + "/meta.json", "w"), indent=1)
    print(sid, "demo=%d check_rc=%d violations=%d" % (demo, r.returncode, nviol), flush=True)
    if r.returncode not in (0, 1):
        print("   tail:", r.stdout[-400:].replace("\n", " | "), r.stderr[-300:])
