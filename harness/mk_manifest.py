#!/venv/bin/python
"""Regenerate /verif/MANIFEST.json from the table below (single source of truth)."""
import json, os
ROOT = os.path.dirname(os.path.dirname(os.path.abspath(__file__)))

# pid -> (technique, level text, level_note, design_ref)
CHECKS = {
 "C15": ("TLA+ model of BlockChain/ChainFinder (one step per set.pop) refined to the ChainTrack property spec, exhaustive TLC; every TLC behaviour replayed on BlockChain under all relabellings; recorded runs validated by TLC trace spec",
         "TLC explores every acyclic parent function on N<=4 (thorough 5) headers, every batching, every pop order, duplicates, weights and locks, checking canonical-form invariants and refinement to the property spec; every API-level behaviour of that model is executed on the real BlockChain under every relabelling (which steers set.pop order) and must produce an allowed observable state after each call; seeded random runs of the real code (N<=8) are validated as traces by TLC with the pop order inferred.",
         "Trusted: TLC/SANY, CPython; weights positive; bounds N<=4/5 exhaustive, N<=8 traced. The model's Pop order independence (invariant Canonical) justifies replaying with one pop order per relabelling.",
         "DESIGN.md section 4 C15"),
 "C03": ("executable TLA+ transcription of Core's EvalScript/VerifyScript (byte-level, all opcodes, flags, limits, CHECKSIG/CHECKMULTISIG rules) run by TLC; validated against Core's script_tests.json; bounded exhaustive interpreter exploration, signature-table and spend-shape enumerations by TLC replayed on pycoin; pycoin traceback logs validated by a TLC trace spec",
         "The consensus rule book is an executable TLA+ specification; TLC (a) runs it on all 1,205 Core vectors (must agree with Core, else the check is broken), (b) explores every machine state x instruction x flag configuration within bounds, every CHECKSIG/CHECKMULTISIG stack over a table of real signature/key classes x flag subsets, every spend shape x permitted flag set, conditional sequences to depth 6, and limit scenarios, and each case is executed on pycoin (verdict and final stack); (c) validates step by step the instruction traces pycoin's VM logs for seeded random scripts.",
         "Trusted: TLC/SANY, CPython hashlib; Core's vectors as ground truth for the spec; ECDSA and signature-hash primitives inside the signature oracle are pycoin's (C01/C04). Bounds: scripts of <=3 (thorough 4) instructions over a 90-instruction alphabet plus operand-class products, multisig up to 2 (3) keys; longer scripts only via Core vectors, scenarios and traces.",
         "DESIGN.md section 4 C03, Appendix A"),
 "C11": ("TLA+ specs of Base58 (schoolbook radix conversion), Base58Check (checksum as uninterpreted term) and Bech32/Bech32m (polymod, regrouping, BIP173/350 rules); TLC lemmas incl. exhaustive syndrome count for <=4-error detection; TLC-enumerated cases replayed on pycoin; recorded sessions validated by TLC trace spec",
         "TLC proves round-trip/bijection lemmas on bounded alphabets, that Polymod is affine and that all 3,766,036 error patterns of weight <=2 in an 89-symbol window have pairwise distinct syndromes (hence every 1..4-symbol error within one checksum constant is detected); TLC enumerates byte strings, (hrp, version, program) triples and 15 corruption classes with the expected verdicts, each executed on pycoin's b58/bech32m/network parsers; seeded random sessions are validated as traces.",
         "Trusted: TLC/SANY (64-bit fingerprints for the distinctness count), hashlib SHA-256. The <=4-character guarantee is asserted per checksum constant only: BIP350 itself lists two valid addresses 4 characters apart across the Bech32/Bech32m constants (ASSUME CrossWitness in the spec). Groestl-hashed Base58 is out of reach (library absent).",
         "DESIGN.md section 4 C11, notes/C11.md"),
 "C12": ("TLA+ specs ScriptNum (sign-magnitude integers on byte sequences), ScriptPush (push choice, CheckMinimalPush, decoder cursor machine), Disasm (token language); TLC lemmas; TLC-enumerated grids replayed on IntStreamer/ScriptStreamer/ScriptTools/BitcoinVM; recorded sessions validated by TLC trace spec; Core vectors as ground truth",
         "TLC checks encode/decode/minimality/uniqueness lemmas, shortest-and-only-minimal push, read-back and every-proper-prefix-malformed lemmas, and compile(disassemble(s)) = s with the necessity of the minimal-push hypothesis; it enumerates all byte strings of length <= 2, top-byte classes to length 9, integers to +-70,000 and +-(2^k-1, 2^k, 2^k+1) for k <= 71, all boundary push lengths and raw scripts, and scripts of <= 3 items over the opcode table; every case is executed on pycoin; 90 Core vectors validate the spec first.",
         "Trusted: TLC/SANY, CPython. Integers beyond the class grids only via seeded traces (96-bit). PUSHDATA4 lengths >= 2^31 not run.",
         "DESIGN.md section 4 C12, notes/C12.md"),
 "C19": ("RIPEMD-160, SHA-256, MurmurHash3 and the BIP37 filter computed inside TLC on 16-bit limbs (one TLC step per round); TLC digests/bit positions compared with pycoin in every RIPEMD configuration; Bloom-filter histories enumerated by TLC and replayed; recorded hash/filter sessions validated by TLC trace specs",
         "TLC itself computes the standard digests (tables derived in TLA+ from the standards, validated against hashlib, the published RIPEMD-160/FIPS/murmur3 vectors and Core's filter vectors) for messages on every padding boundary (thorough: every length 0..260 and 8191..8248), every murmur3 tail length x seed class incl. wider than 32 bits, and Bloom filter histories over sizes 1..36000 / 0..50 hash functions; pycoin must produce identical bytes in the native, PYCOIN_USE_PYTHON_RIPEMD160 and hashlib-without-ripemd configurations; add_item/add_hash160/add_address/add_spendable compared bit for bit after every call.",
         "Trusted: TLC/SANY; SHA-256 and native RIPEMD-160 inside pycoin are hashlib (the spec has its own SHA-256 and was compared with hashlib). Crypto.Hash path absent. Messages >= 2^21 bytes out of reach.",
         "DESIGN.md section 4 C19, notes/C19.md"),
 "C14": ("TLA+ specs Merkle (root as uninterpreted double-SHA256 term tree), PartialMerkle (BIP37 Build and Verify as a traversal state machine with rejection reasons), BlockWire (80-byte header, block layout); TLC lemmas for every subset; TLC-enumerated proofs and listed corruptions replayed on pycoin's merkle/Block/merkleblock parser; recorded proofs validated by TLC trace spec",
         "TLC proves for n <= 6 (thorough 9) and all subsets that honest BIP37 proofs verify and yield the matched ids in order and that every listed corruption (hash altered/added/removed at every position, padding bit set, root differing from the header) is rejected, plus merkle-root lemmas (duplication of the last element, commitment to every leaf position, CVE-2012-2459 characterisation) for up to 33 (130) leaves; every enumerated proof, corruption, header boundary value and block (incl. witness patterns and the 252/253 count boundary) is executed on pycoin on BTC and LTC; 1,500 (12,000) seeded proofs with up to 300 leaves are validated as traces.",
         "Trusted: TLC/SANY, hashlib SHA-256 (C19). Verifier rules Core has but the property does not list (duplicate pair, total_transactions = 0, flag flips that still verify) are tallied, not demanded. Ground truth: vectors in pycoin/merkle.py, the real block in the repository's tests, the developer-reference merkleblock example.",
         "DESIGN.md section 4 C14, notes/C14.md"),
 "C13": ("TLA+ specs TxRules/TxBuild (split relation, closed form and round-robin Deal machine shown equivalent; uniqueness; scaling lemma), Unspents (validate_unspents over every tx/database), CoinDecimal (digit-sequence conversions), Limbs; TLC exhaustive on small amounts, scaled replay and limb-arithmetic trace validation for amounts to 21e14; optional Apalache for unbounded integers",
         "TLC proves conservation, positivity, differ-by-at-most-one with earlier outputs larger, uniqueness of the split and error-iff-insufficient for all requests with sum <= 7 (thorough 14), the scaling lemma that carries them to large amounts (Apalache: for every factor), validate_unspents never returning normally under any single or paired discrepancy within bounds, and exact decimal conversion on digit sequences; TLC-enumerated requests (plain, scaled to 21e14, through create_signed_tx), (transaction, database) pairs and amounts are executed on pycoin; 1,200 (12,000) seeded random sessions with realistic amounts are validated by a TLC trace spec using base-10^4 limb arithmetic.",
         "Trusted: TLC/SANY, CPython fractions (cross-check of exported decimals). Requests whose outputs are all fixed and exceed the inputs are outside the property's error clause (pycoin builds them): only fee = in - out is demanded there. More than 4 payables / 3 inputs only via traces.",
         "DESIGN.md section 4 C13, notes/C13.md"),
 "C16": ("TLA+ specs P2PMsg (28 message layouts and type-letter codecs pinned from the protocol documents), P2PParse (cursor state machine, embedded transactions via TxParse), P2PGrid (case space); TLC round-trip and width lemmas; TLC-enumerated messages replayed on network.message.pack/parse and the streamer; recorded random messages validated by TLC trace spec",
         "TLC checks Read(Pack(v) ++ tail) = <<v, tail>> per type letter, Parse(Pack(m)) = m, full consumption and re-pack equality per message over boundary values (ints 0/1/2^31+-/max, compact-size thresholds, arrays of 0/1/2/253 up to 1000, IPv4-mapped/IPv6, optional absent/true/false, strings to 65,536 bytes, real embedded transactions/headers/blocks) and prints each case with the bytes the protocol demands; every case is packed and parsed by pycoin and compared byte for byte and field by field; 540 (3,375) seeded random messages incl. arrays of ~2,200 elements are validated as traces.",
         "Trusted: TLC/SANY; layouts are the builder's transcription of the protocol documentation / BIPs 31, 35, 37, 61, 130, 133, 144, 152, 155 (validated on the wiki version/addr examples and on 92 real transactions and 4 blocks re-packed byte for byte). Only BTC; merkleblock beyond one leaf belongs to C14; the message envelope is not covered.",
         "DESIGN.md section 4 C16, notes/C16.md"),
 "C04": ("TLA+ spec Sighash (legacy digest stated twice - serializer form and copy-and-modify form - and proved equal; FindAndDelete as Core's pointer walk; BIP143 with nested hash terms; BCH/BTG/GRS/LTC variants) over uninterpreted hash terms; commitment lemmas by TLC; TLC-enumerated requests evaluated by a stdlib term evaluator and compared with pycoin's digest functions and VM closures; recorded requests validated by TLC trace spec; signatures of Core vectors as ground truth",
         "TLC checks, for every hash type (all 256 in the thorough tier) and about 20 single-field changes, that the digest changes iff the field is committed, that the two statements of the legacy algorithm agree, and the per-coin lemmas; it enumerates 165,888 (926,208) requests - coins BTC/BCH/BTG/GRS/LTC x scenarios with OP_CODESEPARATORs and embedded signature pushes x input/output counts x all 256 hash types - whose preimage terms are hashed by a small evaluator and compared with _signature_hash / _signature_for_hash_type_segwit and with the closures the VM calls, with every field and as_bin() projected before and after; 124 real signatures from tx_valid.json, the BIP143 examples and a BCH transaction verify on the spec's digest before pycoin is judged.",
         "Trusted: TLC/SANY, hashlib, the term evaluator, ECDSA verification of the ground-truth signatures. No offline ground truth for legacy SIGHASH_NONE, BTG fork id 79 or GRS: those rest on the transcription. Which OP_CODESEPARATOR was last executed is an input here (C03).",
         "DESIGN.md section 4 C04, notes/C04.md"),
 "C07": ("TLA+ specs Bytes (compact-size parser state machine, run-length blobs), TxWire (serialiser, BIP144 form, ids as hash terms), TxParse (cursor state machine incl. unspents extension), Spendable (text/dict/binary forms); TLC lemmas in every state; TLC-enumerated transactions and spendables replayed on pycoin (BTC, LTC); recorded random transactions validated by TLC trace specs; Core's tx_valid.json as ground truth",
         "TLC enumerates 4,936 (34,557) abstract transactions over the boundary grid (1..3 and 253 inputs, 0..3 outputs, script and witness-item lengths across 0xfc/0xfd/0xffff/0x10000, amounts to 2^64-1, sequences/versions/lock times at the extremes, empty and mixed witness stacks) and 2,016 (22,680) spendables, checks Parse(Serialize(tx)) = tx, BIP144-iff-witness and txid-independent-of-witness in every state, and prints the wire bytes and id terms; pycoin's as_bin/as_hex/from_bin/from_hex/id/w_id/hash, the unspents extension and the three spendable forms are compared byte by byte and field by field; 500 (3,125) seeded random transactions (up to 260 inputs, ~100 KB blobs) and spendables are validated as traces.",
         "Trusted: TLC/SANY, hashlib. All 120 tx_valid.json transactions re-serialise byte for byte through the spec first. List counts >= 0x10000 and GRS ids not reached.",
         "DESIGN.md section 4 C07, notes/C07.md"),
 "C20": ("TLA+ spec TxCheck (the eight listed defects, the positive accept condition, per-coin MAX_MONEY) over TxWire; TLC-enumerated transactions replayed on tx.check()/is_coinbase()/bad_solution_count() for BTC and GRS; recorded checks validated by TLC trace spec",
         "TLC enumerates 8,686 (32,740) transactions over the product of input/output counts, value classes incl. totals crossing MAX_MONEY only cumulatively, duplicate outpoints at every position pair, coinbase script lengths 0/1/2/100/101, null and hash-null-only outpoints and size classes (total = 1,000,000, stripped > 1,000,000) for BTC and GRS, with the verdict Reject / Accept / unconstrained; pycoin must reject every Reject, accept every Accept, leave the transaction's bytes unchanged and never count a coinbase as unsigned; 600 (6,000) seeded checks are validated as traces.",
         "Trusted: TLC/SANY. Any exception out of check() counts as rejection. is_coinbase() on non-coinbase transactions is an observation only.",
         "DESIGN.md section 4 C20, notes/C20.md"),
 "C10": ("TLA+ specs KeyEnc (SEC validity = length/prefix table x coordinates < p x on-curve x parity over toy curves, strict and hybrid modes; WIF payload structure; key construction ranges) and DerSig (DER parser state machine collecting deviations, minimal encoder); TLC lemmas (unique encoding, round trips, trailing bytes); every short byte string enumerated by TLC and replayed on sec_to_public_pair / sigdecode_der; secp256k1 classes and WIF on 48 networks; recorded sessions validated by TLC trace specs",
         "On toy curves whose SEC blobs are 2-5 bytes TLC enumerates EVERY byte string of length 0..2 (thorough 0..3: 17M blobs) with its verdict and decoded point, and all DER strings over a structural alphabet up to length 8; pycoin's sec_to_public_pair (strict and non-strict), Key/from_sec, sigdecode_der/sigencode_der must agree; on secp256k1 the same (length, prefix, x<p, on-curve, parity) classes are concretised, exponents {0,1,n-1,n,2^256-1} and off-curve points must raise the documented errors, and WIF round trips (compression flag, hash160, address) are checked on 48 networks; TLC lemmas give unique encoding and Decode(Encode(x)) = x; 435 (3,902) seeded sessions validated as traces.",
         "Trusted: TLC/SANY. Off-curve uncompressed blobs are demanded to be refused by Key.from_sec/Key() and verify(), not by sec_to_public_pair itself (the property's anchors place on-curve validation in Key); lenient strict-DER decoding beyond trailing bytes is counted, not demanded. GRS-family networks cannot be imported here.",
         "DESIGN.md section 4 C10, notes/C10.md"),
 "C08": ("TLA+ specs Address (AddrOf/Reads rules over the real 51-network prefix table handed to TLC as data), Classify (Kind(script) = K iff Build(K, params) = script over token scripts); TLC finds every offending (network pair, kind) on the real table; TLC-enumerated addresses, scripts and cross pairs replayed on pycoin; recorded sessions validated by TLC trace spec",
         "TLC evaluates on the real table of 51 networks: no two kinds of a network share (prefix, payload length), Reads(AddrOf(script)) = script, and for all ordered pairs (N, M) that M accepts N's address only where M would produce the same string - listing every offending pair; it enumerates token scripts to 3 (thorough 4) tokens plus the edit neighbourhood of the templates for faithful classification; every case is executed on for_script / parse.address / key, BIP49, BIP84 address() / info_for_script on all networks; 400 (4,000) seeded sessions validated as traces. 24 table collisions between real coin parameters (e.g. BTG P2SH = ARG P2PKH = 0x17) are genuine and unfixable: known findings.",
         "Trusted: TLC/SANY, hashlib. The prefix table is configuration read from pycoin.symbols (a consistent change of one unused prefix is not a violation); Groestlcoin-family Base58 needs an absent library. Scripts of 6 tokens not exhaustive.",
         "DESIGN.md section 4 C08, notes/C08.md"),
 "C18": ("TLA+ spec ParseDispatch (text classes x entry points -> None or Obj(kind, value), kind separation and faithfulness rules) over the real prefix table; TLC model on the real table; TLC-enumerated texts x 35 entry points replayed under try/except; hypothesis-generated unicode for totality; recorded sessions validated by TLC trace spec",
         "TLC enumerates 6,998 (11,768) text structures - checksummed Base58 by prefix x payload length x content class, Bech32 by hrp/version/length, colon forms, numeric forms, x/y and x,even pairs, hex SEC, token scripts - for every network and states for each of the 35 entry points whether None or which object must result, that no (prefix, length) class is read as two checksummed kinds, and that what is returned re-serialises to text parsing to an equal object; every (text, entry point) pair is executed on pycoin (any exception violates totality), plus 168k (1.34M) seeded hypothesis strings for totality; 300 (2,500) sessions validated as traces.",
         "Trusted: TLC/SANY, hashlib, hypothesis (derandomized). Groestlcoin-family outcomes are unconstrained (library absent); catch-all dispatch order, hybrid SEC and version/key-type mismatches are left open (pycoin's own tests rely on them).",
         "DESIGN.md section 4 C18, notes/C18.md"),
 "C09": ("TLA+ specs BIP32 (CKDpriv/CKDpub over uninterpreted HMAC-SHA512 terms with symbolic key sums, 78-byte serialisation), BIP32Session (sub-key cache with hit/miss actions), Subpaths (path-range grammar machine), ExtKeyText (version table, text form), ElectrumKD; TLC lemmas (commutation, cache transparency); TLC-enumerated paths, sessions, ranges and texts evaluated by a stdlib evaluator (hmac, affine secp256k1 reference) and replayed on pycoin; recorded sessions validated by TLC trace spec; official BIP32 vectors as ground truth",
         "TLC proves Pub . CKDpriv = CKDpub . Pub along all paths of depth <= 3 over {0, 1, 2^24, 2^31-1} x {normal, hardened}, metadata invariants, refusal of hardened-from-public, and that results are independent of the cache history for every order of up to 3-4 calls (two deliberately broken cache models violate it); each path, session, path-range spelling, extended-key text (bip32/49/84 on 48 networks) and Electrum derivation TLC prints is evaluated (HMAC by hmac, k*G by an affine reference cross-checked with pycoin both ways) and compared with hwif, secret_exponent, public_pair, chain_code, depth, fingerprint, child index on long-lived and fresh nodes; all 24 official xprv/xpub strings are reproduced first; 150 (1,500) seeded sessions (depth to ~40, random 31-bit indices) validated as traces with pycoin's real HMAC calls intercepted.",
         "Trusted: TLC/SANY, hmac/hashlib, the affine reference curve. The IL >= n branch (probability < 2^-127) is never entered. ExtKeyText.Versions snapshots pycoin.symbols (BTC/XTN/LTC match BIP32/SLIP-132). GRS-family text needs an absent library.",
         "DESIGN.md section 4 C09, notes/C09.md"),
 "C17": ("TLA+ specs MsgText (UTF-8, compact size, digest term, base64 machine, compact-signature layout, armour Format/ParseSigned line machine), MsgEC/MsgSign (SEC 1 sign/verify/recover with recovery classes on toy curves, VerifyText total over signature-text classes); TLC lemmas; TLC-enumerated signing/verification cases replayed on MessageSigner with toy generators and on secp256k1 across 48 networks; recorded sessions validated by TLC trace spec",
         "On toy curves with n < p (recovery ids 2 and 3 occur) TLC enumerates every key x nonce x digest class and proves that the compact signature recovers exactly the signer and verifies for no other recovery id, digest, key, address or key form, that the digest preimage is injective in (magic, message) and that ParseSigned(Format(..)) is the identity; every case and every malformed class (not base64, wrong length, header outside 27..34, r or s 0 or >= n, x = r + n >= p, no curve point, key at infinity) is replayed on pycoin's MessageSigner with an injected nonce (must return False, never raise) and on secp256k1 for keys x compressed/uncompressed x 14 message classes x 48 networks with cross-network/key/message probes; 2,000 seeded sessions validated as traces.",
         "Trusted: TLC/SANY, hashlib, an independent affine secp256k1 evaluator; two real-world signed messages from the repository's tests as ground truth. secp256k1 arithmetic itself is not inside TLC (L1). GRS-family networks need an absent library. Messages with a bare CR or marker lines are outside the stated domain.",
         "DESIGN.md section 4 C17, notes/C17.md"),
}

NOT_APPLICABLE = {
}

PENDING = "check not built yet in this round (planned, see DESIGN.md section 4); not claimed until it exists and passes"

def main():
    pids = [json.loads(l)["id"] for l in open(os.path.join(ROOT, "properties.jsonl"))]
    checks = []
    na = []
    for p in pids:
        if p in CHECKS:
            tech, text, note, ref = CHECKS[p]
            checks.append({
                "property_id": p,
                "quick_cmd": "./check %s --tier quick" % p,
                "thorough_cmd": "./check %s --tier thorough" % p,
                "evidence_file": "/verif/evidence/%s.json" % p,
                "replay_cmd_template": "./check %s --replay {path}" % p,
                "engine": "tlc+replay",
                "level_claimed": {"category": "model_checking", "text": text, "design_ref": ref},
                "level_note": note,
                "technique": tech,
            })
        else:
            na.append({"property_id": p, "reason": NOT_APPLICABLE.get(p, PENDING)})
    m = {
        "version": 1,
        "setup_cmd": "cd /verif && ./setup.sh",
        "hooks": {
            "guard": "PYCOIN_VERIF",
            "enable": "environment variable PYCOIN_VERIF=1 (set by ./check); pycoin is pure Python and is imported from /repo's working tree by every check (PYTHONPATH=/repo), nothing to build",
            "baseline_off_cmd": "cd /repo && env -u PYCOIN_VERIF /venv/bin/python -m pytest -ra -q -p no:cacheprovider --timeout=900 --continue-on-collection-errors",
            "source_commits": [],
            "add_only": True,
        },
        "engines": [{
            "name": "tlc+replay",
            "path": "/verif/check",
            "serves_properties": sorted(CHECKS),
            "kind_free_text": "TLA+ specifications in /verif/spec checked by TLC 1.8; spec->code replay of TLC-enumerated transitions and code->spec validation of recorded traces by TLC, driven by /verif/harness/vf",
        }],
        "checks": checks,
        "notes": "All checks: ./check <Cnn> --tier quick|thorough. Exit 0 held / 1 VIOLATION / 2 machinery failure. Known findings: /verif/known_findings.json.",
        "not_applicable": na,
    }
    json.dump(m, open(os.path.join(ROOT, "MANIFEST.json"), "w"), indent=1)
    print("MANIFEST: %d checks, %d not_applicable" % (len(checks), len(na)))

if __name__ == "__main__":
    main()
