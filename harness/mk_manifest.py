#!/venv/bin/python
"""Regenerate /verif/MANIFEST.json from the table below (single source of truth)."""
import json, os
ROOT = os.path.dirname(os.path.dirname(os.path.abspath(__file__)))

# pid -> (technique, level text, level_note, design_ref)
CHECKS = {
 "C15": ("TLA+ model of BlockChain/ChainFinder (one step per set.pop) refined to the ChainTrack property spec, exhaustive TLC; every TLC behaviour replayed on BlockChain under all relabellings; recorded runs validated by TLC trace spec",
         "TLC explores every acyclic parent function on N<=4 (thorough 5) headers, every batching, every pop order, duplicates, weights and locks, checking canonical-form invariants and refinement to the property spec; every API-level behaviour of that model is executed on the real BlockChain under every relabelling (which steers set.pop order) and must produce an allowed observable state after each call; seeded random runs of the real code (N<=8) are validated as traces by TLC with the pop order inferred.",
         "Trusted: TLC/SANY, CPython; weights positive; bounds N<=4/5 exhaustive, N<=8 traced. The model's Pop order independence (invariant Canonical) justifies replaying with one pop order per relabelling.",
         "DESIGN.md section 4 C15"),
 "C03": ("executable TLA+ transcription of Core's EvalScript/VerifyScript (byte-level, all opcodes, flags, limits, CHECKSIG/CHECKMULTISIG rules) run by TLC; validated against Core's script_tests.json; bounded exhaustive interpreter exploration, signature-table and spend-shape enumerations by TLC replayed on pycoin; pycoin traceback logs validated by a TLC trace spec",
         "The consensus rule book is an executable TLA+ specification; TLC (a) runs it on all 1,205 Core vectors (must agree with Core, else the check is broken), (b) explores every machine state x instruction x flag configuration within bounds, every CHECKSIG/CHECKMULTISIG stack over a table of real signature/key classes x flag subsets, every spend shape x permitted flag set, conditional sequences to depth 6, and limit scenarios, and each case is executed on pycoin (verdict and final stack); (c) validates step by step the instruction traces pycoin's VM logs for seeded random scripts.",
         "Trusted: TLC/SANY, CPython hashlib; Core's vectors as ground truth for the spec; ECDSA and signature-hash primitives inside the signature oracle are pycoin's (C01/C04). Bounds: scripts of <=3 (thorough 4) instructions over a 90-instruction alphabet plus operand-class products, multisig up to 2 (3) keys; longer scripts only via Core vectors, scenarios and traces.",
         "DESIGN.md section 4 C03, Appendix A"),
}

NOT_APPLICABLE = {
}

PENDING = "check not built yet in this round (planned, see DESIGN.md section 4); not claimed until it exists and passes"

def main():
    pids = [json.loads(l)["id"] for l in open(os.path.join(ROOT, "properties.jsonl"))]
    checks = []
    na = []
    for p in pids:
        if p in CHECKS:
            tech, text, note, ref = CHECKS[p]
            checks.append({
                "property_id": p,
                "quick_cmd": "./check %s --tier quick" % p,
                "thorough_cmd": "./check %s --tier thorough" % p,
                "evidence_file": "/verif/evidence/%s.json" % p,
                "replay_cmd_template": "./check %s --replay {path}" % p,
                "engine": "tlc+replay",
                "level_claimed": {"category": "model_checking", "text": text, "design_ref": ref},
                "level_note": note,
                "technique": tech,
            })
        else:
            na.append({"property_id": p, "reason": NOT_APPLICABLE.get(p, PENDING)})
    m = {
        "version": 1,
        "setup_cmd": "cd /verif && ./setup.sh",
        "hooks": {
            "guard": "PYCOIN_VERIF",
            "enable": "environment variable PYCOIN_VERIF=1 (set by ./check); pycoin is pure Python and is imported from /repo's working tree by every check (PYTHONPATH=/repo), nothing to build",
            "baseline_off_cmd": "cd /repo && env -u PYCOIN_VERIF /venv/bin/python -m pytest -ra -q -p no:cacheprovider --timeout=900 --continue-on-collection-errors",
            "source_commits": [],
            "add_only": True,
        },
        "engines": [{
            "name": "tlc+replay",
            "path": "/verif/check",
            "serves_properties": sorted(CHECKS),
            "kind_free_text": "TLA+ specifications in /verif/spec checked by TLC 1.8; spec->code replay of TLC-enumerated transitions and code->spec validation of recorded traces by TLC, driven by /verif/harness/vf",
        }],
        "checks": checks,
        "notes": "All checks: ./check <Cnn> --tier quick|thorough. Exit 0 held / 1 VIOLATION / 2 machinery failure. Known findings: /verif/known_findings.json.",
        "not_applicable": na,
    }
    json.dump(m, open(os.path.join(ROOT, "MANIFEST.json"), "w"), indent=1)
    print("MANIFEST: %d checks, %d not_applicable" % (len(checks), len(na)))

if __name__ == "__main__":
    main()
