#!/bin/sh
# bencheck.sh <Cnn> <worktree> <outdir/k>: run ./check <Cnn> against the worktree with a behaviour-preserving patch applied;
# a non-zero exit is a false alarm (1) or a brittle harness (2).
P="$1"; WT="$2"; D="$3"
cd "$WT" && git checkout -q -- .
git apply "$D/patch.diff" || { echo "$D: patch does not apply"; exit 2; }
mkdir -p "$D/vout"; cd /verif && VERIF_OUT="$D/vout" VERIF_REPO="$WT" timeout 2400 ./check "$P" --tier quick > "$D/check_$P.log" 2>&1; rc=$?
nviol=$(grep -c "^VIOLATION" "$D/check_$P.log")
cd "$WT" && git checkout -q -- .
echo "$D [$P]: check_rc=$rc violations=$nviol $(grep -m1 MACHINERY "$D/check_$P.log" | cut -c1-160)"
