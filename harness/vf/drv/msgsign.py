"""Driver + projection for pycoin's signed-message code (C17).

What happens here (DEVGUIDE: what Python may do):
  (a) evaluate the uninterpreted terms the specs print (`ev`: literal bytes, repeated bytes,
      double SHA-256; `ec_*`: the EC obligations the trace spec prints, on secp256k1),
  (b) concretize abstract values (toy curve parameters -> Generator, key index -> secret
      exponent, code points -> str),
  (c) drive pycoin's MessageSigner / network.msg and project what it returns.
Nothing in this file knows the layout of a compact signature, of the digest preimage or
of the armoured text: those come from MsgText.tla / MsgSign.tla through TLC.
"""
from __future__ import annotations

import hashlib
import importlib

# ---------------------------------------------------------------- (a) terms


def ev(t):
    """bytes denoted by a term: {op:'b',v:[..]} | {op:'rep',v:[..],n} | {op:'cat',arg:[..]} | {op:'h256d',arg:[..]}"""
    op = t["op"]
    if op == "b":
        return bytes(t["v"])
    if op == "rep":
        return bytes(t["v"]) * t["n"]
    if op == "cat":
        return b"".join(ev(x) for x in t["arg"])
    if op == "h256d":
        return hashlib.sha256(hashlib.sha256(b"".join(ev(x) for x in t["arg"])).digest()).digest()
    raise ValueError("unknown term %r" % (op,))


# secp256k1, independent of pycoin (SEC 2): used only to evaluate the EC obligations
# [op:'recover'|'pub', ...] that Trace_MsgSign prints for 256-bit values TLC cannot compute.
_P = 2 ** 256 - 2 ** 32 - 977
_N = 0xFFFFFFFFFFFFFFFFFFFFFFFFFFFFFFFEBAAEDCE6AF48A03BBFD25E8CD0364141
_G = (0x79BE667EF9DCBBAC55A06295CE870B07029BFCDB2DCE28D959F2815B16F81798,
      0x483ADA7726A3C4655DA4FBFC0E1108A8FD17B448A68554199C47D08FFB10D4B8)


def _add(p, q):
    if p is None:
        return q
    if q is None:
        return p
    if p[0] == q[0] and (p[1] + q[1]) % _P == 0:
        return None
    if p == q:
        l = 3 * p[0] * p[0] * pow(2 * p[1], -1, _P) % _P
    else:
        l = (q[1] - p[1]) * pow(q[0] - p[0], -1, _P) % _P
    x = (l * l - p[0] - q[0]) % _P
    return (x, (l * (p[0] - x) - p[1]) % _P)


def _mul(k, p):
    k %= _N
    r = None
    while k:
        if k & 1:
            r = _add(r, p)
        p = _add(p, p)
        k >>= 1
    return r


def ec_pub(d):
    return _mul(d, _G)


def ec_lift(x, odd):
    """the curve point with abscissa x and the given y parity, or None"""
    if x >= _P:
        return None
    a = (pow(x, 3, _P) + 7) % _P
    y = pow(a, (_P + 1) // 4, _P)
    if y * y % _P != a:
        return None
    return (x, y if (y & 1) == odd else _P - y)


def ec_recover(e, r, s, recid):
    """value of the term Recover(e, r, s, recid) of MsgSign.tla on secp256k1; None = no key"""
    if not (0 < r < _N and 0 < s < _N):
        return None
    R = ec_lift(r + (recid >> 1) * _N, recid & 1)
    if R is None:
        return None
    sR = _mul(s, R)
    eG = _mul(e % _N, _G)
    q = _mul(pow(r, -1, _N), _add(sR, None if eG is None else (eG[0], (_P - eG[1]) % _P)))
    return q


def ec_class(e, r, s, recid):
    """value of the term RecoverFull(e, r, s, recid).cls of MsgSign.tla on secp256k1 (same case order)"""
    if r < 1:
        return "r_zero"
    if r >= _N:
        return "r_ge_n"
    if s < 1:
        return "s_zero"
    if s >= _N:
        return "s_ge_n"
    x = r + (recid >> 1) * _N
    if x >= _P:
        return "x_ge_p"
    if ec_lift(x, recid & 1) is None:
        return "no_point"
    return "ok" if ec_recover(e, r, s, recid) is not None else "q_inf"


# ---------------------------------------------------------------- (b) concretization

def member(cls, h, e):
    """one compact signature (h, r, s) of the spec's class `cls` on secp256k1 for digest e and header byte h, with the
    public pair it must verify for (class ok) or a pair it must not verify for; None when this class has no member
    with that header that can be built without a discrete logarithm.  The caller re-checks membership with ec_class."""
    recid = (h - 27) & 3 if 27 <= h <= 34 else 0
    par, hi = recid & 1, recid >> 1

    def abscissa(start, want=True):
        x = start
        while (ec_lift(x, par) is not None) != want:
            x += 1
        return x
    big = abscissa(int.from_bytes(hashlib.sha256(b"verif C17 r %d" % h).digest(), "big") % _N)      # x of a point, r + N >= P
    low = abscissa(_N + 1) - _N if hi else big                                                              # r with r + hi*N the x of a point
    G1 = ec_pub(1)
    if cls in ("ok", "hdr_range"):
        r, s = low, 7
        q = ec_recover(e, r, s, recid)
        return (h, r, s, q if cls == "ok" else G1)
    if cls == "r_zero":
        return (h, 0, 7, G1)
    if cls == "r_ge_n":
        return (h, _N, 7, G1)
    if cls == "s_zero":
        return (h, low, 0, G1)
    if cls == "s_ge_n":
        # (low, 7) is a good signature of the key q: adding the order to s must not be another spelling of it
        return (h, low, 7 + _N, ec_recover(e, low, 7, recid))
    if cls == "x_ge_p":
        return (h, big, 7, G1) if hi else None
    if cls == "no_point":
        return (h, (abscissa(_N + 1, want=False) - _N) if hi else abscissa(big, want=False), 7, G1)
    if cls == "q_inf":
        if hi:
            return None
        # R = +-G (nonce 1): s*R = e*G for s = +-e
        gy_par = G1[1] & 1
        return (h, G1[0], e % _N if gy_par == par else (-e) % _N, G1)
    raise ValueError(cls)


def compact_text(h, r, s):
    """(b) bytes of a concretized member as text; the layout itself is checked through TLC in the toy replay"""
    import base64
    return base64.b64encode(bytes([h]) + r.to_bytes(32, "big") + s.to_bytes(32, "big")).decode()


_NET = {}


def network(sym):
    if sym not in _NET:
        _NET[sym] = importlib.import_module("pycoin.symbols." + sym.lower()).network
    return _NET[sym]


def all_networks():
    """[(symbol, network_name)] of every registered network, sorted"""
    from pycoin.networks.registry import network_codes, network_for_netcode
    out = []
    for c in sorted(network_codes()):
        try:
            n = network_for_netcode(c)
        except Exception:
            continue
        if hasattr(n, "msg") and getattr(n, "network_name", None):
            out.append((c, n.network_name))
    return out


def usable(sym):
    """False when the network needs a package absent from the sandbox (L3: groestlcoin_hash)"""
    try:
        network(sym).keys.private(1).address()
        return True
    except ImportError:
        return False


def text_of(cps):
    return "".join(chr(c) for c in cps)


def cps_of(s):
    return [ord(c) for c in s]


def expand_runs(rt):
    return "".join(chr(c) * n for c, n in rt)


_TOY = {}


def toy(params):
    """a network over pycoin's generic Generator(p, a, b, (gx, gy), n) with an injectable nonce"""
    params = tuple(params)
    if params in _TOY:
        return _TOY[params]
    from pycoin.ecdsa.Generator import Generator

    class NonceGenerator(Generator):
        # harness-side subclass (DESIGN section 7): fixed blinding entropy, injectable nonce
        def __new__(cls, p, a, b, basis, order, entropy_f=None):
            return Generator.__new__(cls, p, a, b, basis, order)

        def __init__(self, p, a, b, basis, order, entropy_f=None):
            Generator.__init__(self, p, a, b, basis, order, entropy_f=lambda n: b"\x2a" * n)
            self.next_k = None

        def sign_with_recid(self, secret_exponent, val, gen_k=None):
            k = self.next_k
            if k is None:
                return Generator.sign_with_recid(self, secret_exponent, val, gen_k)
            return Generator.sign_with_recid(self, secret_exponent, val, gen_k=lambda n, se, v: k)

    p, a, b, gx, gy, n = params
    gen = NonceGenerator(p, a, b, (gx, gy), n)
    # The network is built the way a user builds one for another curve: through create_bitcoinish_network(...,
    # generator=<curve>) with Bitcoin's name and prefixes, and everything is reached through the network object
    # (network.msg.*, network.keys.*), so the wiring of the generator into MessageSigner / Key is part of what runs.
    from pycoin.networks.bitcoinish import create_bitcoinish_network
    net = create_bitcoinish_network(
        symbol="BTC", network_name="Bitcoin", subnet_name="mainnet", generator=gen,
        wif_prefix_hex="80", sec_prefix="BTCSEC:", address_prefix_hex="00", pay_to_script_prefix_hex="05",
        bip32_prv_prefix_hex="0488ade4", bip32_pub_prefix_hex="0488B21E", bech32_hrp="bc",
        bip49_prv_prefix_hex="049d7878", bip49_pub_prefix_hex="049D7CB2",
        bip84_prv_prefix_hex="04b2430c", bip84_pub_prefix_hex="04B24746", magic_header_hex="F9BEB4D9")

    class T:
        pass
    t = T()
    t.gen = gen
    t.net = net
    t.msg = net.msg
    t.params = params
    _TOY[params] = t
    return t


# ---------------------------------------------------------------- (c) drive and project

def call(f, *a, **kw):
    """('ok', value) or ('exc', ExceptionTypeName)"""
    try:
        return ("ok", f(*a, **kw))
    except Exception as ex:      # the property is about which exceptions escape
        return ("exc", type(ex).__name__)


def proj_bool(res):
    """projection of a verify result: True / False / 'exc:<Type>' / 'nonbool:<type>'"""
    if res[0] == "exc":
        return "exc:" + res[1]
    v = res[1]
    if v is True or v is False:
        return v
    return "nonbool:" + type(v).__name__


def toy_sign(t, d, e, k, comp):
    t.gen.next_k = k
    try:
        return call(t.msg.signature_for_message_hash, d, e, comp)
    finally:
        t.gen.next_k = None


def toy_message(t, e):
    """(b) a text message whose digest on the toy network lies in the class of e modulo the group order"""
    n = t.params[5]
    if not hasattr(t, "by_class"):
        t.by_class = {}
        i = 0
        while len(t.by_class) < n:
            m = "message %d" % i
            t.by_class.setdefault(t.msg.hash_for_signing(m) % n, m)
            i += 1
    return t.by_class[e % n]


def toy_sign_message(t, d, k, comp, message, verbose=False):
    t.gen.next_k = k
    try:
        return call(t.msg.sign, t.net.keys.private(d, is_compressed=comp), message, verbose=verbose)
    finally:
        t.gen.next_k = None


def toy_verify_message(t, who, text, message):
    return proj_bool(call(t.msg.verify, who, text, message))


def toy_who(t, kind, d=None, pair=None, comp=True):
    """a key object or an address string of the toy network"""
    if pair is not None:
        key = t.net.keys.public(tuple(pair), is_compressed=comp)
    else:
        key = t.net.keys.private(d, is_compressed=comp)
    return key if kind == "key" else key.address()


def toy_verify(t, who, text, e):
    return proj_bool(call(t.msg.verify, who, text, msg_hash=e))


def toy_recover(t, text, e):
    """('ok', ((x, y), comp)) or ('exc', name)"""
    r = call(t.msg.pair_for_message_hash, text, e)
    if r[0] == "ok":
        pair, comp = r[1]
        return ("ok", (tuple(pair), bool(comp)))
    return r
