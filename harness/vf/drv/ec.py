"""Driver + projection for pycoin's elliptic-curve code (C02; reused by C01).

* toy curves: pycoin's generic Generator/Curve/Point (pure Python whatever PYCOIN_NATIVE says)
* production curves: run as `python -m vf.drv.ec` in a fresh subprocess per backend
  (PYCOIN_NATIVE is read when pycoin.ecdsa.native.* is imported)
A projected point is [] for infinity, [x % p, y % p] otherwise, or a string "exc:<Type>" / "bad:<repr>".
"""
from __future__ import annotations

import json
import os
import subprocess
import sys

from pycoin.ecdsa.Curve import Curve
from pycoin.ecdsa.encrypt import generate_shared_public_key
from pycoin.ecdsa.Generator import Generator
from pycoin.ecdsa.Point import NoSuchPointError, Point

LIFTS9 = [(i, j) for i in (0, 1, -1) for j in (0, 1, -1)]
LIFTS3 = [(0, 0), (1, 1), (-1, 1)]


def blinded_class(base):
    """Generator.__new__ rejects the entropy_f keyword that Generator.__init__ accepts:
    a subclass whose __new__ takes it is the only way to choose the blinding factor."""
    class _Blinded(base):
        def __new__(cls, p, a, b, basis, order, entropy_f=None):
            return tuple.__new__(cls, basis)
    _Blinded.__name__ = "Blinded" + base.__name__
    return _Blinded


BlindGen = blinded_class(Generator)
_BCLS = {}     # base class -> blinded subclass
_BGEN = {}     # (base class, curve parameters, blinding factor, entropy lift) -> generator (construction costs a table of doublings)


def entropy_for(b, n, lift=0):
    """bytes whose big-endian value is congruent to b mod n (lift 0: b mod n itself; 1: + n; 2: the largest below 2^256).
    At least 32 bytes; more when the value needs them (orders wider than 256 bits): Generator takes int.from_bytes of
    whatever entropy_f returns."""
    v = b % n
    if lift == 1 and v + n < (1 << 256):
        v += n
    elif lift == 2 and v < (1 << 256) and n < (1 << 256):
        v += ((1 << 256) - 1 - v) // n * n
    raw = v.to_bytes(max(32, (v.bit_length() + 7) // 8), "big")
    return lambda size: raw


def toy_generator(cur, blind=None, lift=0):
    p, a, b, G, n = cur
    if blind is None:
        return Generator(p, a, b, G, n)
    return BlindGen(p, a, b, G, n, entropy_f=entropy_for(blind, n, lift))


def proj(pt, p):
    if not isinstance(pt, tuple) or len(pt) != 2:
        return "bad:" + repr(pt)[:60]
    x, y = pt
    if x is None and y is None:
        return []
    if not isinstance(x, int) or not isinstance(y, int):
        return "bad:" + repr(pt)[:60]
    return [x % p, y % p]


def operand_class(pt):
    """inf / generator_object (the Generator instance itself, a Point subclass) / point"""
    if pt[0] is None:
        return "inf"
    return "generator_object" if isinstance(pt, Generator) else "point"


def call(f, p):
    try:
        r = f()
    except Exception as e:   # noqa: the exception type is part of the projection
        return "exc:" + type(e).__name__
    return proj(r, p)


def lift_point(gen, ab, lift):
    """the pycoin Point presenting abstract point ab ([] or [x, y]) with coordinates x + i*p, y + j*p"""
    if not ab:
        return gen.infinity()
    p = gen.p()
    return gen.Point(ab[0] + lift[0] * p, ab[1] + lift[1] * p)


# ----------------------------------------------------------------------------- register machine

def poly_eval(f, B1, B2):
    """the integer value (unreduced) of the polynomial <<c, c1, c2, c11, c12, c22>>"""
    return f[0] + f[1] * B1 + f[2] * B2 + f[3] * B1 * B1 + f[4] * B1 * B2 + f[5] * B2 * B2


class RegMachine:
    """executes ECRegs actions on a pycoin Generator"""

    def __init__(self, gen, nregs, B1, B2):
        self.gen = gen
        self.bgen = gen            # generator carrying the current blinding factor
        if type(gen) not in _BCLS:
            _BCLS[type(gen)] = blinded_class(type(gen))
        self.cls = _BCLS[type(gen)]
        self.params = (gen.p(), gen._a, gen._b, (gen[0], gen[1]), gen.order())
        self.n = gen.order()
        self.p = gen.p()
        self.Gpt = gen.Point(gen[0], gen[1])        # the generator as a plain Point
        self.regs = [gen.infinity() for _ in range(nregs + 1)]
        self.B1, self.B2 = B1, B2
        self.flip = 0

    def kval(self, a):
        return a["m"] * self.n + poly_eval(a["f"], self.B1, self.B2)

    def step(self, a):
        """returns the projected destination register (or the blinding factor for setblind)"""
        op, i, j, dst = a["op"], a["i"], a["j"], a["dst"]
        g, R = self.gen, self.regs
        self.flip ^= 1
        if op == "setblind":
            try:
                b = poly_eval(a["f"], self.B1, self.B2)
                p, aa, bb, G, n = self.params
                key = (self.cls, self.params, b % n, 1 if self.flip else 0)
                if key not in _BGEN:
                    if len(_BGEN) > 64:
                        _BGEN.clear()
                    _BGEN[key] = self.cls(p, aa, bb, G, n, entropy_f=entropy_for(b, n, key[3]))
                self.bgen = _BGEN[key]
                return ["blind", self.bgen._blinding_factor == b % n]
            except Exception as e:
                return "exc:" + type(e).__name__
        try:
            if op == "load":
                k = self.kval(a)
                r = g.multiply(self.Gpt, k) if self.flip else k * self.Gpt
            elif op == "genraw":
                r = g.raw_mul(self.kval(a))
            elif op == "genblind":
                k = self.kval(a)
                r = self.bgen * k if self.flip else k * self.bgen
            elif op == "add":
                r = R[i] + R[j] if self.flip else g.add(R[i], R[j])
            elif op == "sub":
                r = R[i] - R[j]
            elif op == "neg":
                r = -R[i]
            elif op == "mul":
                k = self.kval(a)
                r = R[i] * k if self.flip else k * R[i]
            elif op == "shared":
                # the key-agreement entry point takes the scalar and a coordinate PAIR (never infinity, see ECRegs.tla)
                r = generate_shared_public_key(self.kval(a), (R[i][0], R[i][1]), self.bgen if self.flip else g)
            elif op == "clear":
                r = g.infinity()
            else:
                raise AssertionError(op)
        except AssertionError:
            raise
        except Exception as e:
            opnd = R[i] if op == "neg" else R[j] if op == "sub" else None
            return "exc:" + type(e).__name__ + ("" if opnd is None else "@" + operand_class(opnd))
        pr = proj(r, self.p)
        if isinstance(pr, list):
            if not g.contains_point(*r):
                return "bad:off-curve " + repr(pr)
            R[dst] = r
        return pr

    def force(self, dst, ab):
        """continue a behaviour after a (reported) wrong step with the value the spec demands"""
        self.regs[dst] = self.gen.Point(ab[0], ab[1]) if ab else self.gen.infinity()


def run_behaviours(gen, behs, nregs, B1, B2, expected=None):
    """executes each behaviour (list of {"a": action, "sc": poly, "pt": point}) from cleared registers;
    returns per behaviour the list of projections.  expected(beh_index, step_index) -> abstract point or None,
    used only to keep going after a wrong step."""
    out = []
    for bi, acts in enumerate(behs):
        m = RegMachine(gen, nregs, B1, B2)
        res = []
        for si, st in enumerate(acts):
            pr = m.step(st["a"])
            res.append(pr)
            if expected is not None and st["a"]["op"] != "setblind":
                want = expected(bi, si)
                if want is not None and pr != want:
                    m.force(st["a"]["dst"], want)
        out.append(res)
    return out


# ----------------------------------------------------------------------------- production curves (subprocess)

def _h(s):
    return int(s.replace(" ", ""), 16)


# SEC 2 parameters of curves pycoin does not ship: "user-constructed" curves whose order is wider than 256 bits
# (both primes are 3 mod 4).  props/c02.py checks them (G on the curve, n*G = infinity, n prime) before use.
_P384 = 2 ** 384 - 2 ** 128 - 2 ** 96 + 2 ** 32 - 1
_P521 = 2 ** 521 - 1
WIDE_CURVES = {
    "secp384r1": (
        _P384, _P384 - 3,
        _h("B3312FA7 E23EE7E4 988E056B E3F82D19 181D9C6E FE814112 0314088F 5013875A C656398D 8A2ED19D 2A85C8ED D3EC2AEF"),
        (_h("AA87CA22 BE8B0537 8EB1C71E F320AD74 6E1D3B62 8BA79B98 59F741E0 82542A38 5502F25D BF55296C 3A545E38 72760AB7"),
         _h("3617DE4A 96262C6F 5D9E98BF 9292DC29 F8F41DBD 289A147C E9DA3113 B5F0B8C0 0A60B1CE 1D7E819D 7A431D7C 90EA0E5F")),
        _h("FFFFFFFF FFFFFFFF FFFFFFFF FFFFFFFF FFFFFFFF FFFFFFFF C7634D81 F4372DDF 581A0DB2 48B0A77A ECEC196A CCC52973")),
    "secp521r1": (
        _P521, _P521 - 3,
        _h("0051 953EB961 8E1C9A1F 929A21A0 B68540EE A2DA725B 99B315F3 B8B48991 8EF109E1 56193951 EC7E937B 1652C0BD"
           "3BB1BF07 3573DF88 3D2C34F1 EF451FD4 6B503F00"),
        (_h("00C6 858E06B7 0404E9CD 9E3ECB66 2395B442 9C648139 053FB521 F828AF60 6B4D3DBA A14B5E77 EFE75928 FE1DC127"
            "A2FFA8DE 3348B3C1 856A429B F97E7E31 C2E5BD66"),
         _h("0118 39296A78 9A3BC004 5C8A5FB4 2C7D1BD9 98F54449 579B4468 17AFBD17 273E662C 97EE7299 5EF42640 C550B901"
            "3FAD0761 353C7086 A272C240 88BE9476 9FD16650")),
        _h("01FF FFFFFFFF FFFFFFFF FFFFFFFF FFFFFFFF FFFFFFFF FFFFFFFF FFFFFFFF FFFFFFFA 51868783 BF2F966B 7FCC0148"
           "F709A5D0 3BB5C9B8 899C47AE BB6FB71E 91386409")),
}


def production_generator(name):
    if name == "secp256k1":
        from pycoin.ecdsa.secp256k1 import secp256k1_generator as g
    elif name == "secp256r1":
        from pycoin.ecdsa.secp256r1 import secp256r1_generator as g
    elif name == "bls12_381_g1":
        from pycoin.ecdsa.bls12_381_g1 import bls12_381_g1 as g
    elif name in WIDE_CURVES:
        p, a, b, G, n = WIDE_CURVES[name]
        g = Generator(p, a, b, G, n)          # pycoin's generic pure-Python Generator, as a user would build it
    else:
        raise ValueError(name)
    return g


def backend_of(g):
    for c in type(g).__mro__:
        if c.__module__.endswith("native.secp256k1") and c.__name__ == "Optimizations":
            return "libsecp256k1"
    for c in type(g).__mro__:
        if c.__module__.endswith("native.openssl") and c.__name__ == "Optimizations":
            return "openssl"
    return "python"


def spawn(job, native, repo, timeout=3000, module="vf.drv.ec"):
    """run `job` (a JSON-able dict, see main) in a fresh interpreter with PYCOIN_NATIVE=native ('' = unset)"""
    env = {k: v for k, v in os.environ.items() if k != "PYCOIN_NATIVE"}
    if native:
        env["PYCOIN_NATIVE"] = native
    here = os.path.dirname(os.path.dirname(os.path.dirname(os.path.abspath(__file__))))
    env["PYTHONPATH"] = repo + ":" + here
    env["PYTHONHASHSEED"] = "0"
    return subprocess.Popen([sys.executable, "-m", module], env=env, stdin=subprocess.PIPE,
                            stdout=subprocess.PIPE, stderr=subprocess.PIPE, text=True)


def finish(proc, job, timeout=3000):
    out, err = proc.communicate(json.dumps(job), timeout=timeout)
    if proc.returncode != 0:
        raise RuntimeError("ec worker failed rc=%s: %s" % (proc.returncode, err[-2000:]))
    return json.loads(out)


# ----------------------------------------------------------------------------- sessions: several curves in one process

def session_generators(names, curves):
    """name -> generator object; toy curves alternate between the plain Generator and the blinded subclass
    (state shared through the class hierarchy must not leak either)"""
    gens = {}
    for i, nm in enumerate(names):
        if nm in curves:
            gens[nm] = toy_generator(curves[nm], None if i % 2 == 0 else 3)
        else:
            gens[nm] = production_generator(nm)
    return gens


def session_call(g, op, v):
    """the projected answer of one session call on generator g"""
    p = g.p()
    if op == "pfx":
        try:
            r = g.points_for_x(v)
        except ValueError:
            return []
        except Exception as e:
            return "exc:" + type(e).__name__
        if not (isinstance(r, tuple) and len(r) == 2):
            return "bad:" + repr(r)[:60]
        out = []
        for q in r:
            if not (isinstance(q, tuple) and q[0] == v and isinstance(q[1], int)):
                return "bad:wrong x " + repr(tuple(q))[:60]
            if not g.contains_point(*q) or q.curve() is not g:
                return "bad:point of another curve " + repr(tuple(q))[:60]
            out.append([q[0] % p, q[1] % p])
        return out
    if op == "mul":
        return call(lambda: v * g, p)
    if op == "add":
        return call(lambda: v * g + g.Point(g[0], g[1]), p)
    raise AssertionError(op)


def run_sessions(gens, sessions):
    """sessions: lists of [curve name, op, v]; all executed in THIS process, in the given order"""
    return [[session_call(gens[c], op, v) for c, op, v in sess] for sess in sessions]


def main():
    job = json.load(sys.stdin)
    if job["what"] == "session":
        gens = session_generators(job["names"], {k: tuple(v[:3]) + (tuple(v[3]), v[4]) for k, v in job["toy"].items()})
        out = run_sessions(gens, job["sessions"])
        enc = lambda a: a if isinstance(a, str) else [enc(x) for x in a] if a and isinstance(a[0], list) else [hex(x) for x in a]
        json.dump({"backends": {nm: backend_of(g) for nm, g in gens.items()}, "out": [[enc(a) for a in sess] for sess in out]}, sys.stdout)
        return
    g = production_generator(job["curve"])
    res = {"backend": backend_of(g), "native_env": os.environ.get("PYCOIN_NATIVE", "")}
    if job["what"] == "regs":
        B1, B2 = int(job["B1"], 16), int(job["B2"], 16)
        exp = job.get("expected")
        p = g.p()

        def expected(bi, si):
            e = exp[bi][si]
            return None if e is None else [int(v, 16) for v in e]
        out = run_behaviours(g, job["behs"], job["nregs"], B1, B2, expected if exp else None)
        res["out"] = [[[hex(v) for v in pr] if isinstance(pr, list) and (not pr or pr[0] != "blind") else pr
                       for pr in beh] for beh in out]
    else:
        raise ValueError(job["what"])
    json.dump(res, sys.stdout)


if __name__ == "__main__":
    main()
