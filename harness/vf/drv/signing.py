"""Driver + projection for pycoin's transaction signing (C05) and validation (C06).

What happens here (DEVGUIDE: what Python may do):
  (b) concretize: abstract key ids -> real hierarchical keys; puzzle descriptors of
      spec/Signer.tla -> real scripts, a real unsigned transaction with its unspents;
      abstract mutations of spec/TxValidate.tla -> assignments to fields of the real objects;
  (c) drive pycoin (Tx.sign / tx_utils.sign_tx / Solver.sign with a Keychain; is_solution_ok /
      bad_solution_count / check_solution) and project the state it leaves behind.
Nothing in this file decides what the result of a signing pass or of a validation should be.
"""
from __future__ import annotations

import copy
import hashlib
import importlib

COINS = ("BTC", "XTN", "LTC", "BCH", "BTG", "DOGE")
_NET = {}
NM = 2   # hierarchical masters (Signer.tla: MasterOf(k) = ((k-1) % NM) + 1)

SECP_N = 0xFFFFFFFFFFFFFFFFFFFFFFFFFFFFFFFEBAAEDCE6AF48A03BBFD25E8CD0364141


def network(coin):
    if coin not in _NET:
        _NET[coin] = importlib.import_module("pycoin.symbols." + coin.lower()).network
    return _NET[coin]


def flag_bits(names):
    from pycoin.satoshi import flags as F
    v = 0
    for n in names:
        v |= getattr(F, "VERIFY_" + n)
    return v


# ---------------------------------------------------------------- keys (fixed, seed-free table)

def master_of(k):
    return ((k - 1) % NM) + 1


def path_of(k):
    """derivation path of key k below its master: a mix of plain and hardened steps"""
    return ("0/%d" % k) if k % 3 else ("1H/%d" % k)


class KeyRing(object):
    """key id -> (secret exponent, sec c/u) on a network; everything derived with pycoin's BIP32
    (C09's subject) from two fixed seeds - the ids mean the same on every coin"""
    _cache = {}

    def __init__(self, coin):
        self.coin = coin
        self.net = network(coin)
        self.masters = {f: self.net.keys.bip32_seed(b"verif C05 master %d" % f) for f in range(1, NM + 1)}
        self._k = {}

    @classmethod
    def get(cls, coin):
        if coin not in cls._cache:
            cls._cache[coin] = KeyRing(coin)
        return cls._cache[coin]

    def key(self, k):
        if k not in self._k:
            self._k[k] = self.masters[master_of(k)].subkey_for_path(path_of(k))
        return self._k[k]

    def se(self, k):
        return self.key(k).secret_exponent()

    def sec(self, k, form):
        return self.key(k).sec(is_compressed=(form == "c"))

    def wif(self, k, form="c"):
        return self.key(k).wif(is_compressed=(form == "c"))


# ---------------------------------------------------------------- puzzles

WITNESS_KINDS = ("p2wpkh", "p2sh_p2wpkh", "ms_p2wsh", "ms_p2sh_p2wsh")
MULTI_KINDS = ("ms_bare", "ms_p2sh", "ms_p2wsh", "ms_p2sh_p2wsh")


class Puzzle(object):
    """the real scripts of one puzzle descriptor"""

    def __init__(self, coin, d):
        from pycoin.encoding.hash import hash160
        N = network(coin)
        ring = KeyRing.get(coin)
        self.d = d
        self.kind = kind = d["kind"]
        self.m = d["m"]
        self.keys = list(d["keys"])
        self.secs = [ring.sec(k, d["form"]) for k in self.keys]
        self.scripts = []          # what the caller has to supply (redeem / witness scripts)
        C = N.contract
        if kind == "p2pk":
            self.spk = C.for_p2pk(self.secs[0])
            self.script_code = self.spk
        elif kind == "p2pkh":
            self.spk = C.for_p2pkh(hash160(self.secs[0]))
            self.script_code = self.spk
        elif kind == "p2wpkh":
            self.spk = C.for_p2pkh_wit(hash160(self.secs[0]))
            self.script_code = C.for_p2pkh(hash160(self.secs[0]))
        elif kind == "p2sh_p2wpkh":
            w = C.for_p2pkh_wit(hash160(self.secs[0]))
            self.spk = C.for_p2s(w)
            self.scripts = [w]
            self.script_code = C.for_p2pkh(hash160(self.secs[0]))
        else:
            ms = C.for_multisig(self.m, self.secs)
            self.script_code = ms
            if kind == "ms_bare":
                self.spk = ms
            elif kind == "ms_p2sh":
                self.spk = C.for_p2s(ms)
                self.scripts = [ms]
            elif kind == "ms_p2wsh":
                self.spk = C.for_p2s_wit(ms)
                self.scripts = [ms]
            elif kind == "ms_p2sh_p2wsh":
                w = C.for_p2s_wit(ms)
                self.spk = C.for_p2s(w)
                self.scripts = [ms, w]
            else:
                raise ValueError(kind)
        self.witness = kind in WITNESS_KINDS


def prev_hash(i):
    return hashlib.sha256(b"verif C05 previous tx %d" % i).digest()


def build_tx(coin, shape, n_out=2, version=1, lock_time=0, seq=None):
    """an unsigned transaction spending one puzzle per descriptor; unspents set"""
    N = network(coin)
    Tx = N.tx
    puzzles = [Puzzle(coin, d) for d in shape]
    txs_in = [Tx.TxIn(prev_hash(i), i % 3, b"", (0xFFFFFFFF - i) if seq is None else seq[i]) for i in range(len(shape))]
    txs_out = [Tx.TxOut(1000 + 7 * j, bytes([0x51 + j])) for j in range(n_out)]
    tx = Tx(version, txs_in, txs_out, lock_time)
    tx.set_unspents([Tx.TxOut(50000 + 11 * i, p.spk) for i, p in enumerate(puzzles)])
    return tx, puzzles


# ---------------------------------------------------------------- the signing mechanisms

_RECKC = {}


def _recording_keychain_class(N):
    """Keychain subclass that logs every get(): reads are the only thing besides the add_* calls
    that can change a keychain's state (its cache), so (adds + gets) replayed in order on a new
    object reproduce a long-lived keychain exactly - which is how a session is cloned (the sqlite
    connection inside cannot be deep-copied)."""
    base = N.keychain
    if base not in _RECKC:
        class RecordingKeychain(base):
            def get(self, h160, default=None):
                self._verif_log.append(("get", h160))
                return base.get(self, h160, default)
        _RECKC[base] = RecordingKeychain
    return _RECKC[base]


def _script_container(sc, scripts):
    """the scripts as the kind of iterable the pass names (generators and iterators can be read once)"""
    scripts = list(scripts)
    if sc == "list":
        return scripts
    if sc == "tuple":
        return tuple(scripts)
    if sc == "set":
        return set(scripts)
    if sc == "gen":
        return (x for x in scripts)
    if sc == "iter":
        return iter(scripts)
    raise ValueError(sc)


def _index_collection(ic, idx):
    if ic == "none":
        return None
    return {"set": set, "list": list, "tuple": tuple}[ic](idx)


class Session(object):
    """one behaviour: the transaction plus ONE long-lived keychain object (keychain passes with
    fresh = FALSE and the kc_add steps all talk to the same object)"""

    def __init__(self, coin, shape, n_out=2, tx=None, puzzles=None):
        self.coin = coin
        self.net = network(coin)
        self.ring = KeyRing.get(coin)
        if tx is None:
            tx, puzzles = build_tx(coin, shape, n_out=n_out)
        self.tx, self.puzzles = tx, puzzles
        self.kc = None
        self.kc_log = []                 # ("add", reg, sec, scr) / ("get", h160), in order
        self.kc_content = (frozenset(), frozenset(), False)
        self.same_as_fresh = True
        self.hint_problems = []          # see _hint_twin
        self.hint_placed = 0
        self.raised = None               # create_signed_tx: did it raise SecretExponentMissing

    def create_signed(self, p):
        """tx_utils.create_signed_tx from the spendables / payables of the unsigned transaction"""
        from pycoin.coins.tx_utils import SecretExponentMissing
        N = self.net
        Tx = N.tx
        tx0 = self.tx
        spendables = [Tx.Spendable(u.coin_value, u.script, t.previous_hash, t.previous_index)
                      for t, u in zip(tx0.txs_in, tx0.unspents)]
        payables = [(self.ring.key(20 + j).address(), 1000 + 7 * j) for j in range(len(tx0.txs_out))]
        wifs = [self.ring.wif(k, "c" if k % 2 else "u") for k in sorted(p["K"])]
        p2sh = N.tx.solve.build_p2sh_lookup(_script_container(p.get("sc", "list"), self._scripts())) if p["scr"] else None
        try:
            tx = N.tx_utils.create_signed_tx(spendables, payables, wifs=wifs, fee=0, hash_type=p["ht"], p2sh_lookup=p2sh)
            self.raised = False
            self.tx = tx
        except SecretExponentMissing:
            self.raised = True

    def edit(self, field, pos):
        """the caller changes one field of the transaction between passes (always away from its
        current value: the same edit may be made twice)"""
        tx = self.tx
        j = pos - 1
        if field == "ver":
            tx.version += 1
        elif field == "lock":
            tx.lock_time += 1
        elif field == "oph":
            tx.txs_in[j].previous_hash = hashlib.sha256(tx.txs_in[j].previous_hash).digest()
        elif field == "opi":
            tx.txs_in[j].previous_index += 1
        elif field == "seq":
            tx.txs_in[j].sequence -= 1
        elif field == "out_amt":
            tx.txs_out[j].coin_value -= 1
        elif field == "out_spk":
            tx.txs_out[j].script = bytes(tx.txs_out[j].script) + b"\x61"
        elif field == "spent_amt":
            tx.unspents[j].coin_value += 1
        else:
            raise ValueError(field)

    def clone(self):
        s = copy.copy(self)
        s.tx = copy.deepcopy(self.tx)
        s.kc = None                      # rebuilt on demand by replaying kc_log
        s.kc_log = list(self.kc_log)
        return s

    def _scripts(self):
        out = []
        for pz in self.puzzles:
            out += pz.scripts
        return out

    def _new_kc(self):
        kc = _recording_keychain_class(self.net)()
        kc._verif_log = []
        return kc

    def _kc_add_to(self, kc, reg, sec, scr, via="paths", sc="list"):
        if via == "paths":
            for f, master in self.ring.masters.items():
                for k in sorted(reg):
                    if master_of(k) != f:
                        continue
                    path = path_of(k)
                    # registering a path needs no secret: through the public node where derivation allows it
                    node = master if ("H" in path or k % 2) else master.public_copy()
                    kc.add_key_paths(node, [path])
        else:
            # ONE add_keys_path call per path over both masters (the key's own master first or second)
            order = [1, 2] if via == "keys12" else [2, 1]
            for k in sorted(reg):
                kc.add_keys_path([self.ring.masters[f] for f in order], path_of(k))
        if sec:
            kc.add_secrets([self.ring.masters[f] for f in sorted(sec)])
        if scr:
            kc.add_p2s_scripts(_script_container(sc, self._scripts()))

    def _live_kc(self):
        if self.kc is None:
            kc = self._new_kc()
            for op in self.kc_log:
                if op[0] == "add":
                    self._kc_add_to(kc, op[1], op[2], op[3], op[4], op[5])
                else:
                    kc.get(op[1])
            kc._verif_log = []
            self.kc = kc
        return self.kc

    def _flush_gets(self):
        if self.kc is not None:
            self.kc_log += self.kc._verif_log
            self.kc._verif_log = []

    def kc_add(self, reg, sec, scr, fresh=False, via="paths", sc="list"):
        if fresh:
            self.kc, self.kc_log, self.kc_content = None, [], (frozenset(), frozenset(), False)
        kc = self._live_kc()
        self._kc_add_to(kc, reg, sec, scr, via, sc)
        self.kc_log.append(("add", tuple(sorted(reg)), tuple(sorted(sec)), bool(scr), via, sc))
        c = self.kc_content
        self.kc_content = (c[0] | frozenset(reg), c[1] | frozenset(sec), c[2] or bool(scr))

    def _hint_twin(self, twin, idx, ht, p2sh):
        """the same pass on a copy of the transaction as it stood before, with NO keys: every signature the
        real pass left in the transaction is handed over as an outside signature (signature_hints) in its
        other, high-S form (r, n - s).  Whatever the signer writes from them must again be strict DER, low S
        (Signer.tla: a signature present is canonical whoever made it); what it can place without the keys
        (nothing for P2PKH: the public key is not known) is not demanded."""
        from pycoin.satoshi import der
        from pycoin.ecdsa.secp256k1 import secp256k1_generator
        N, order = self.net, secp256k1_generator.order()
        self.hint_problems = []
        hints = []
        for i, pz in enumerate(self.puzzles):
            for b in unlocking_items(N, self.tx, i, pz):
                if b and len(b) >= 9 and b[0] == 0x30 and strict_der_problem(b) is None:
                    r, s = _rs(b)
                    if 0 < s < order:
                        hints.append(der.sigencode_der(r, order - s) + b[-1:])
        if not hints:
            return
        before = [unlocking_of(twin, i) for i in range(len(twin.txs_in))]
        try:
            twin.sign({}, tx_in_idx_set=idx, hash_type=ht, p2sh_lookup=p2sh, signature_hints=hints)
        except Exception:  # noqa  (signing with outside signatures only is outside C05's claims: no verdict)
            return
        self.hint_placed += sum(1 for i in range(len(twin.txs_in)) if unlocking_of(twin, i) != before[i])
        for i, pz in enumerate(self.puzzles):
            for b in unlocking_items(N, twin, i, pz):
                if b and len(b) >= 9 and b[0] == 0x30:
                    pr = strict_der_problem(b)
                    if pr is None and 2 * _rs(b)[1] > order:
                        pr = "high-s"
                    if pr:
                        self.hint_problems.append("input %d: %s" % (i, pr))

    def sign(self, p):
        N = self.net
        self.hint_problems = []
        if p["mech"] == "kc_add":
            self.kc_add(p["reg"], p["sec"], p["scr"], via=p.get("via", "paths"), sc=p.get("sc", "list"))
            return
        if p["mech"] == "create_signed":
            self.create_signed(p)
            return
        if p["mech"] == "edit":
            self.edit(p["field"], p["pos"])
            return
        ic = p.get("ic", "none" if len(p["I"]) == len(self.tx.txs_in) else "list")
        idx = _index_collection(ic, sorted(i - 1 for i in p["I"]))
        ht = p["ht"]
        mech = p["mech"]
        sc = p.get("sc", "list")
        p2sh = N.tx.solve.build_p2sh_lookup(_script_container(sc, self._scripts())) if p["scr"] else None
        if mech == "lookup":
            hl = N.tx.solve.build_hash160_lookup([self.ring.se(k) for k in sorted(p["K"])])
            twin = copy.deepcopy(self.tx)
            self.tx.sign(hl, tx_in_idx_set=idx, hash_type=ht, p2sh_lookup=p2sh)
            self._hint_twin(twin, _index_collection(ic, sorted(i - 1 for i in p["I"])), ht, p2sh)
        elif mech == "wifs":
            wifs = [self.ring.wif(k, "c" if k % 2 else "u") for k in sorted(p["K"])]
            N.tx_utils.sign_tx(self.tx, wifs=wifs, tx_in_idx_set=idx, hash_type=ht, p2sh_lookup=p2sh)
        elif mech == "keychain":
            self.kc_add(p["reg"], p["sec"], p["scr"], fresh=p["fresh"], via=p.get("via", "paths"), sc=sc)
            kc = self._live_kc()
            # the same pass on a copy of the transaction with a FRESH keychain given the same contents
            twin = copy.deepcopy(self.tx)
            fresh_kc = self._new_kc()
            self._kc_add_to(fresh_kc, *self.kc_content)
            try:
                # the keychain serves both as the key table and as the script table (as the tx tool does)
                self.tx.Solver(self.tx).sign(kc, tx_in_idx_set=idx, hash_type=ht, p2sh_lookup=kc)
            finally:
                self._flush_gets()
            twin.Solver(twin).sign(fresh_kc, tx_in_idx_set=_index_collection(ic, sorted(i - 1 for i in p["I"])),
                                   hash_type=ht, p2sh_lookup=fresh_kc)
            self.same_as_fresh = all(unlocking_of(self.tx, i) == unlocking_of(twin, i) for i in range(len(twin.txs_in)))
        else:
            raise ValueError(mech)


# ---------------------------------------------------------------- projection

def strict_der_problem(sig):
    """BIP66 IsValidSignatureEncoding on sig (including the hash-type byte); None if fine"""
    n = len(sig)
    if n < 9 or n > 73:
        return "size"
    if sig[0] != 0x30:
        return "not-compound"
    if sig[1] != n - 3:
        return "length"
    lr = sig[3]
    if 5 + lr >= n:
        return "r-length"
    ls = sig[5 + lr]
    if lr + ls + 7 != n:
        return "s-length"
    if sig[2] != 0x02:
        return "r-tag"
    if lr == 0:
        return "r-empty"
    if sig[4] & 0x80:
        return "r-negative"
    if lr > 1 and sig[4] == 0 and not (sig[5] & 0x80):
        return "r-padded"
    if sig[lr + 4] != 0x02:
        return "s-tag"
    if ls == 0:
        return "s-empty"
    if sig[lr + 6] & 0x80:
        return "s-negative"
    if ls > 1 and sig[lr + 6] == 0 and not (sig[lr + 7] & 0x80):
        return "s-padded"
    return None


def _rs(sig):
    lr = sig[3]
    r = int.from_bytes(sig[4:4 + lr], "big")
    ls = sig[5 + lr]
    s = int.from_bytes(sig[6 + lr:6 + lr + ls], "big")
    return r, s


def unlocking_items(N, tx, i, pz):
    """the data items of input i's unlocking data that may be signatures"""
    tin = tx.txs_in[i]
    pushes = [data for (op, data, pc, npc) in N.script.get_opcodes(tin.script) if data is not None]
    wit = list(tin.witness)
    kind = pz.kind
    if kind in ("p2pk", "p2pkh", "ms_bare"):
        return pushes
    if kind == "ms_p2sh":
        return pushes[:-1] if pushes and pushes[-1] == pz.script_code else pushes
    if kind in ("ms_p2wsh", "ms_p2sh_p2wsh"):
        return wit[:-1] if wit and wit[-1] == pz.script_code else wit
    return wit


def n_unlocking_items(N, tx, i):
    tin = tx.txs_in[i]
    return len([1 for (op, data, pc, npc) in N.script.get_opcodes(tin.script)]), len(tin.witness)


def digest_for(tx, i, pz, sigbyte):
    """the integer a signature with this hash-type byte on input i signs (pycoin's own sighash
    code, the subject of C04), or None when the coin refuses the byte"""
    sc = tx.SolutionChecker(tx)
    try:
        if pz.witness:
            return sc._signature_for_hash_type_segwit(pz.script_code, i, sigbyte)
        return sc._signature_hash(pz.script_code, i, sigbyte)
    except Exception:
        return None


def project_input(coin, tx, i, pz, policy_bits):
    """{"signed": sorted [key id, sig byte], "valid": bool (policy flags), "valid_default": bool,
        "enc": problems of the signatures found, "err": text of the policy failure}"""
    N = network(coin)
    from pycoin.coins.SolutionChecker import ScriptError
    from pycoin.encoding.sec import sec_to_public_pair
    g = N.generator
    out = {"signed": [], "enc": [], "junk": 0, "nsig": 0}
    digests = {}
    nk = len(pz.keys)
    start = 0     # signatures normally come in key order: try the keys after the last match first
    for blob in unlocking_items(N, tx, i, pz):
        if len(blob) < 9 or blob[0] != 0x30:
            continue
        out["nsig"] += 1          # signature-shaped: a real, a stale or a placeholder signature
        sb = blob[-1]
        prob = strict_der_problem(blob)
        if prob is not None:
            # not strictly encoded: still try to attribute it, through pycoin's lax parser
            try:
                from pycoin.satoshi import der
                rs = der.sigdecode_der(blob[:-1], use_broken_open_ssl_mechanism=True)
            except Exception:
                out["junk"] += 1
                continue
        else:
            rs = _rs(blob)
        if sb not in digests:
            digests[sb] = digest_for(tx, i, pz, sb)
        z = digests[sb]
        who = None
        if z is not None:
            for off in range(nk):
                idx = (start + off) % nk
                try:
                    if g.verify(sec_to_public_pair(pz.secs[idx], g), z, rs):
                        who = pz.keys[idx]
                        start = idx + 1
                        break
                except Exception:
                    pass
        if who is None:
            out["junk"] += 1
            continue
        out["signed"].append([who, sb])
        if prob is not None:
            out["enc"].append("der:" + prob)
        if 2 * rs[1] > SECP_N:
            out["enc"].append("high-s")
    out["signed"].sort()
    if pz.kind in ("p2pkh", "p2wpkh", "p2sh_p2wpkh") and out["signed"]:
        items = unlocking_items(N, tx, i, pz)
        if not items or items[-1] != pz.secs[0]:
            out["enc"].append("pubkey-item")
    try:
        tx.check_solution(i, flags=policy_bits)
        out["valid"] = True
    except ScriptError as e:
        out["valid"] = False
        out["err"] = str(e.args[0]) if e.args else "ScriptError"
    except Exception as e:  # noqa
        out["valid"] = False
        out["crash"] = "%s: %s" % (type(e).__name__, e)
    # what the API reports with its default flags (P2SH | WITNESS)
    try:
        out["ok_api"] = bool(tx.is_solution_ok(i))
    except Exception as e:  # noqa
        out["ok_api"] = False
        out["crash"] = "%s: %s" % (type(e).__name__, e)
    return out


def frame_of(tx):
    return {"version": tx.version, "lock_time": tx.lock_time,
            "outpoints": [(t.previous_hash, t.previous_index) for t in tx.txs_in],
            "sequences": [t.sequence for t in tx.txs_in],
            "outputs": [(o.coin_value, bytes(o.script)) for o in tx.txs_out],
            "unspents": [(o.coin_value, bytes(o.script)) for o in tx.unspents]}


def unlocking_of_txin(t):
    return (bytes(t.script), tuple(bytes(w) for w in t.witness))


def unlocking_of(tx, i):
    t = tx.txs_in[i]
    return (bytes(t.script), tuple(bytes(w) for w in t.witness))


def frame_diff(a, b):
    return sorted(k for k in a if a[k] != b[k])


# ---------------------------------------------------------------- puzzles read back from scripts
# (for recorded executions whose transactions were not built from descriptors: the repository's tests)

def _parse_multisig(N, script):
    ops = list(N.script.get_opcodes(script))
    if len(ops) < 4 or ops[-1][0] != 0xAE:
        return None

    def num(op, data):
        if 0x51 <= op <= 0x60:
            return op - 0x50
        if data is not None and len(data) == 1:
            return data[0]
        return None
    m, n = num(ops[0][0], ops[0][1]), num(ops[-2][0], ops[-2][1])
    secs = [d for (o, d, a, b) in ops[1:-2]]
    if m is None or n is None or n != len(secs) or not (1 <= m <= n) or any(d is None or len(d) not in (33, 65) for d in secs):
        return None
    return m, secs


class ScriptPuzzle(object):
    """a Puzzle recovered from the spent script (+ the scripts the caller supplied / the unlocking data).
    keyid: function hash160(sec) -> abstract key id.  kind None = not a standard puzzle."""

    def __init__(self, N, spk, scripts_get, tin, keyid):
        from pycoin.encoding.hash import hash160
        self.kind = None
        self.scripts = []
        self.witness = False
        self.m = 1
        pushes = [d for (o, d, a, b) in N.script.get_opcodes(tin.script) if d is not None]
        wit = list(tin.witness)

        def p2pkh_code(h):
            return b"\x76\xa9\x14" + h + b"\x88\xac"

        def single(kind, h=None, sec=None):
            self.kind = kind
            self.h160s = [h if h is not None else hash160(sec)]
            self.secs = [sec]
            self.form = "c" if (sec is None or len(sec) == 33) else "u"

        def multi(kind, ms):
            r = _parse_multisig(N, ms)
            if r is None:
                return False
            self.kind = kind
            self.m, self.secs = r
            self.h160s = [hash160(s) for s in self.secs]
            self.script_code = ms
            self.form = "c" if len(self.secs[0]) == 33 else "u"
            return True

        def witness_program(prog, wrapped):
            self.witness = True
            if len(prog) == 20:
                single("p2sh_p2wpkh" if wrapped else "p2wpkh", h=prog)
                self.script_code = p2pkh_code(prog)
            elif len(prog) == 32:
                ws = scripts_get(prog) or (wit[-1] if wit and hashlib.sha256(wit[-1]).digest() == prog else None)
                if ws is not None and multi("ms_p2sh_p2wsh" if wrapped else "ms_p2wsh", ws):
                    self.scripts.append(ws)

        if len(spk) == 25 and spk[:3] == b"\x76\xa9\x14" and spk[23:] == b"\x88\xac":
            single("p2pkh", h=spk[3:23])
            self.script_code = spk
        elif len(spk) in (35, 67) and spk[0] == len(spk) - 2 and spk[-1] == 0xAC:
            single("p2pk", sec=spk[1:-1])
            self.script_code = spk
        elif len(spk) == 22 and spk[:2] == b"\x00\x14":
            witness_program(spk[2:], False)
        elif len(spk) == 34 and spk[:2] == b"\x00\x20":
            witness_program(spk[2:], False)
        elif len(spk) == 23 and spk[:2] == b"\xa9\x14" and spk[22] == 0x87:
            h = spk[2:22]
            rs = scripts_get(h) or (pushes[-1] if pushes and hash160(pushes[-1]) == h else None)
            if rs is not None:
                if len(rs) in (22, 34) and rs[0] == 0 and rs[1] == len(rs) - 2:
                    witness_program(rs[2:], True)
                    if self.kind:
                        self.scripts.append(rs)
                elif multi("ms_p2sh", rs):
                    self.scripts.append(rs)
        else:
            multi("ms_bare", spk)
        if self.kind:
            self.keys = [keyid(h) for h in self.h160s]
            self.d = {"kind": self.kind, "m": self.m, "keys": self.keys, "form": self.form}

    def resolve_secs(self, N, tx, i):
        """single-key hash puzzles: the key itself is only known from the unlocking data"""
        from pycoin.encoding.hash import hash160
        if self.secs[0] is None:
            items = unlocking_items(N, tx, i, self)
            if items and len(items[-1]) in (33, 65) and hash160(items[-1]) == self.h160s[0]:
                self.secs = [items[-1]]


class Recorder(object):
    """wraps the signing entry point of pycoin (Solver.sign, which Tx.sign and tx_utils.sign_tx end in)
    and logs, per transaction object, the passes with the projection after each"""

    def __init__(self, policy_names_for):
        self.sessions = {}     # id(tx) -> session dict
        self.order = []
        self.policy_names_for = policy_names_for
        self.dropped = 0
        self.keep_signed = False

    def _coin_of(self, tx):
        name = type(tx).__module__
        if "bcash" in name:
            return "BCH"
        if "bgold" in name:
            return "BTG"
        if "litecoin" in name:
            return "LTC"
        return "BTC"

    def _frame_digest(self, tx):
        return hashlib.sha256(repr(sorted(frame_of(tx).items())).encode()).hexdigest()[:16]

    def _session(self, tx, scripts_get):
        s = self.sessions.get(id(tx))
        if s is not None and s["tx"] is tx:
            return s
        coin = self._coin_of(tx)
        N = network(coin)
        ids = {}

        def keyid(h):
            if h not in ids:
                ids[h] = len(ids) + 1
            return ids[h]
        pzs = []
        for i, tin in enumerate(tx.txs_in):
            u = tx.unspents[i] if i < len(tx.unspents) else None
            pz = ScriptPuzzle(N, u.script, scripts_get, tin, keyid) if u is not None else None
            if pz is None or pz.kind is None:
                self.dropped += 1
                return None
            pzs.append(pz)
        bits = flag_bits(self.policy_names_for(coin))
        s = {"tx": tx, "coin": coin, "N": N, "pzs": pzs, "ids": ids, "bits": bits, "ev": [], "ok": True}
        s["pre"] = self._proj(s)
        s["frame"] = self._frame_digest(tx)
        self.sessions[id(tx)] = s
        self.order.append(s)
        return s

    def _proj(self, s):
        out = []
        for i, pz in enumerate(s["pzs"]):
            pz.resolve_secs(s["N"], s["tx"], i)
            if pz.secs[0] is None:
                # nothing pushed that hashes to the listed key: no signature of it can be present
                r = {"signed": [], "enc": [], "junk": 0}
                from pycoin.coins.SolutionChecker import ScriptError
                try:
                    s["tx"].check_solution(i, flags=s["bits"])
                    r["valid"] = True
                except ScriptError:
                    r["valid"] = False
                r["ok_api"] = bool(s["tx"].is_solution_ok(i))
                out.append(r)
            else:
                out.append(project_input(s["coin"], s["tx"], i, pz, s["bits"]))
        return out

    def before(self, tx, lookup, idx_set, hash_type, p2sh_lookup):
        def scripts_get(h):
            for tab in (p2sh_lookup, lookup):
                if tab is not None:
                    try:
                        v = tab.get(h)
                    except Exception:
                        v = None
                    if isinstance(v, bytes):
                        return v
            return None
        s = self._session(tx, scripts_get)
        if s is None or not s["ok"]:
            return None
        n = len(s["pzs"])
        I = sorted(range(n) if idx_set is None else idx_set)
        K = set()
        for h, k in s["ids"].items():
            try:
                v = lookup.get(h) if lookup is not None else None
            except Exception:
                v = None
            if v is not None and not isinstance(v, bytes):
                K.add(k)
        need = [i for i in I if s["pzs"][i].scripts]
        have = [all(scripts_get(hashlib.sha256(x).digest()) == x or
                    scripts_get(__import__("pycoin.encoding.hash", fromlist=["hash160"]).hash160(x)) == x
                    for x in s["pzs"][i].scripts) for i in need]
        if have and any(have) and not all(have):
            s["ok"] = False        # scripts supplied for some inputs only: outside the pass alphabet of the spec
            return None
        mech = "lookup" if isinstance(lookup, dict) else "wifs"
        return {"s": s, "unl": [unlocking_of(tx, i) for i in range(n)],
                "e": {"mech": mech, "K": sorted(K), "I": [i + 1 for i in I], "ht": 1 if hash_type is None else hash_type,
                      "scr": (all(have) if have else True), "reg": [], "sec": [], "fresh": True, "same_as_fresh": True,
                      "sc": "list", "via": "paths",
                      "ic": "none" if idx_set is None else {set: "set", frozenset: "set", tuple: "tuple"}.get(type(idx_set), "list")}}

    def after(self, tok):
        if tok is None:
            return
        s, e = tok["s"], tok["e"]
        tx = s["tx"]
        pr = self._proj(s)
        e["signed"] = [p["signed"] for p in pr]
        e["valid"] = [p["valid"] for p in pr]
        e["reported"] = [p["ok_api"] for p in pr]
        e["canonical"] = not any(p["enc"] for p in pr)
        e["changed"] = [i + 1 for i in range(len(pr)) if unlocking_of(tx, i) != tok["unl"][i]]
        e["frame"] = self._frame_digest(tx)
        e["bad"] = tx.bad_solution_count()
        e["raised"] = False
        e["nsig"] = [p.get("nsig", 0) for p in pr]
        s["ev"].append(e)
        if self.keep_signed and all(e["valid"]):
            s["final"] = copy.deepcopy(tx)        # (tests go on to modify their transactions)

    def traces(self):
        out = []
        for s in self.order:
            if not s["ok"] or not s["ev"]:
                continue
            out.append({"coin": s["coin"], "shape": [pz.d for pz in s["pzs"]],
                        "pre": [p["signed"] for p in s["pre"]], "frame": s["frame"], "nout": len(s["tx"].txs_out),
                        "ev": s["ev"]})
        return out


def record_repo_tests(repo, modules, policy_names_for, want_sessions=False):
    """run test modules of the repository with Solver.sign (and solver_test's manual solve helper)
    wrapped by a Recorder; returns (traces, tests run, failures, dropped sessions)"""
    import io
    import sys
    import unittest
    from pycoin.coins.bitcoin.Solver import Solver
    rec = Recorder(policy_names_for)
    rec.keep_signed = want_sessions
    orig_sign = Solver.sign

    def sign(self, hash160_lookup, tx_in_idx_set=None, hash_type=None, **kwargs):
        ht = hash_type
        if ht is not None and type(self).__name__ in ("BcashSolver", "BgoldSolver"):
            ht = ht & ~0x40
        tok = rec.before(self.tx, hash160_lookup, tx_in_idx_set, ht, kwargs.get("p2sh_lookup"))
        try:
            return orig_sign(self, hash160_lookup, tx_in_idx_set=tx_in_idx_set, hash_type=hash_type, **kwargs)
        finally:
            rec.after(tok)
    Solver.sign = sign
    patched = []
    try:
        if repo not in sys.path:
            sys.path.insert(0, repo)
        suite = unittest.TestSuite()
        for m in modules:
            mod = importlib.import_module(m)
            if m.endswith("solver_test"):
                cls = mod.SolverTest
                orig = cls.do_test_solve

                def do_test_solve(self, tx, tx_in_idx, _orig=orig, **kwargs):
                    tok = rec.before(tx, kwargs.get("hash160_lookup"), [tx_in_idx], kwargs.get("signature_type"),
                                     kwargs.get("p2sh_lookup"))
                    try:
                        return _orig(self, tx, tx_in_idx, **kwargs)
                    finally:
                        rec.after(tok)
                cls.do_test_solve = do_test_solve
                patched.append((cls, orig))
            suite.addTests(unittest.defaultTestLoader.loadTestsFromModule(mod))
        import contextlib
        with contextlib.redirect_stdout(io.StringIO()), contextlib.redirect_stderr(io.StringIO()):
            res = unittest.TextTestRunner(stream=io.StringIO(), verbosity=0).run(suite)
    finally:
        Solver.sign = orig_sign
        for cls, orig in patched:
            cls.do_test_solve = orig
    if want_sessions:
        return rec
    return rec.traces(), res.testsRun, len(res.failures) + len(res.errors), rec.dropped


def repo_signed_txs(repo, modules, policy_names_for):
    """the completely signed transactions the repository's signing tests end with:
    [(coin, tx, kinds, hash types)] (one hash type per input)"""
    rec = record_repo_tests(repo, modules, policy_names_for, want_sessions=True)
    out = []
    for s in rec.order:
        if not s["ok"] or not s["ev"]:
            continue
        last = s["ev"][-1]
        if not last["valid"] or not all(last["valid"]) or "final" not in s:
            continue
        hts = []
        for sg in last["signed"]:
            bs = set(b for k, b in sg)
            hts.append(bs.pop() & ~0x40 if len(bs) == 1 else None)
        if any(h not in (1, 2, 3, 129, 130, 131) for h in hts):
            continue
        kinds = [pz.kind + (":u" if pz.form == "u" and pz.kind == "p2pkh" else "") for pz in s["pzs"]]
        out.append((s["coin"], s["final"], kinds, hts))
    return out


# ================================================================ C06: mutate / re-validate
# Concretization of the abstract transaction of spec/TxValidate.tla.  Token conventions of the
# spec: per input record (travelling with the record) oph/opi/seq/amt 0 = as signed, 1 = changed;
# spk = id as signed, 10 + id changed; output contents are tokens 1..3 (token j = content of the
# j-th output as signed, or a fixed fresh content when the signed transaction has fewer outputs).

NOPABLE = ("p2pkh", "p2pk", "ms_bare", "p2pkh:u")
SV_KINDS = {"base": ("p2pkh", "p2pk", "ms_p2sh", "ms_bare", "p2pkh:u"),
            "witness": ("p2wpkh", "ms_p2wsh", "p2sh_p2wpkh", "ms_p2sh_p2wsh"),
            "forkid": ("p2pkh", "ms_p2sh", "p2pk", "ms_bare")}


def desc_for(kind, k):
    """puzzle descriptor for input k (1-based) of a C06 case: distinct keys per input"""
    form = "c"
    if ":" in kind:
        kind, form = kind.split(":")
    base = 3 * k
    if kind.startswith("ms_"):
        m, keys = ((2, [base + 1, base + 2]) if kind in ("ms_p2sh", "ms_p2wsh") else (1, [base + 1, base + 2]))
    else:
        m, keys = 1, [base + 1]
    return {"kind": kind, "m": m, "keys": keys, "form": form}


class NotInjective(Exception):
    """the concrete transaction cannot carry the token model of TxValidate.tla faithfully (two tokens
    the specification treats as different would denote the same bytes): such a transaction is not
    used - a mutation must never be a silent no-op"""


ZERO32 = b"\0" * 32


class TxUnderTest(object):
    """a signed transaction (inputs signed one by one with their own hash types through Tx.sign)
    plus, per input record, the as-signed values needed to apply / undo abstract mutations"""

    def __init__(self, coin, kinds, hts, nout, tx=None):
        self.coin = coin
        self.N = network(coin)
        if tx is None:
            shape = [desc_for(kd, k + 1) for k, kd in enumerate(kinds)]
            ses = Session(coin, shape, n_out=nout)
            for k, ht in enumerate(hts):
                ses.sign({"mech": "lookup", "K": shape[k]["keys"], "I": [k + 1], "ht": ht, "scr": True,
                          "reg": [], "sec": [], "fresh": True, "ic": "list"})
            tx = ses.tx
        else:
            # a transaction signed elsewhere (the repository's tests): plain lists of plain TxOut records
            tx.txs_in = list(tx.txs_in)
            tx.txs_out = list(tx.txs_out)
            tx.unspents = [type(tx).TxOut(u.coin_value, bytes(u.script)) for u in tx.unspents]
        self.tx = tx
        self.meta = [{"id": k + 1, "oph": t.previous_hash, "opi": t.previous_index, "seq": t.sequence,
                      "amt": tx.unspents[k].coin_value, "spk": bytes(tx.unspents[k].script)}
                     for k, t in enumerate(tx.txs_in)]
        self.out_amt = {j + 1: o.coin_value for j, o in enumerate(tx.txs_out)}
        self.out_spk = {j + 1: bytes(o.script) for j, o in enumerate(tx.txs_out)}
        fresh_amt = 4242
        for v in (1, 2, 3):
            while v not in self.out_amt:
                fresh_amt += 1
                if fresh_amt not in self.out_amt.values():
                    self.out_amt[v] = fresh_amt
            if v not in self.out_spk:
                self.out_spk[v] = bytes([0x51 + 7 + v, 0x51 + v])
        # token -> bytes must be injective, separately for amounts and for scripts; inputs must spend
        # distinct outpoints and distinct puzzles and carry distinct unlocking data
        if (len(set(self.out_amt.values())) != 3 or len(set(self.out_spk.values())) != 3
                or len(set((m["oph"], m["opi"]) for m in self.meta)) != len(self.meta)
                or len(set(m["spk"] for m in self.meta)) != len(self.meta)
                or len(set(unlocking_of(tx, i) for i in range(len(self.meta)))) != len(self.meta)
                or any(m["oph"] == ZERO32 or m["opi"] >= 0xFFFFFFFE for m in self.meta)):
            raise NotInjective("outputs / inputs of the signed transaction are not pairwise distinct")
        self.orig = copy.deepcopy((tx.version, tx.lock_time, tx.txs_in, tx.txs_out, tx.unspents, self.meta))
        self.n_inserted = 0

    def clone(self):
        c = copy.copy(self)
        c.tx = copy.deepcopy(self.tx)
        c.meta = copy.deepcopy(self.meta)
        return c

    def _other_puzzle(self, spk):
        """a puzzle of the same shape guarded by other keys / another script hash"""
        out = bytearray()
        for (op, data, pc, npc) in self.N.script.get_opcodes(spk):
            chunk = bytearray(spk[pc:npc])
            if data is not None and len(data) in (20, 32, 33, 65):
                chunk[-1] ^= 1
            out += chunk
        return bytes(out)

    def apply(self, x):
        tx = self.tx
        Tx = self.N.tx
        m, a, b = x["m"], x["a"], x["b"]
        p = a - 1
        before = self._field(m, p)
        self._apply(x)
        if m in self.FIELD_MUTS and self._field(m, p) == before:
            raise NotInjective("mutation %s/%s/%s did not change the field" % (m, a, b))

    FIELD_MUTS = ("ver", "lock", "oph", "opi", "seq", "spent_amt", "spent_spk", "out_amt", "out_spk")

    def _field(self, m, p):
        tx = self.tx
        try:
            return {"ver": lambda: tx.version, "lock": lambda: tx.lock_time,
                    "oph": lambda: tx.txs_in[p].previous_hash, "opi": lambda: tx.txs_in[p].previous_index,
                    "seq": lambda: tx.txs_in[p].sequence, "spent_amt": lambda: tx.unspents[p].coin_value,
                    "spent_spk": lambda: bytes(tx.unspents[p].script), "out_amt": lambda: tx.txs_out[p].coin_value,
                    "out_spk": lambda: bytes(tx.txs_out[p].script)}.get(m, lambda: None)()
        except (IndexError, AttributeError):
            return None

    def _apply(self, x):
        tx = self.tx
        Tx = self.N.tx
        m, a, b = x["m"], x["a"], x["b"]
        p = a - 1
        if m == "ver":
            tx.version = self.orig[0] if b == 0 else self.orig[0] + 1
        elif m == "lock":
            tx.lock_time = self.orig[1] if b == 0 else self.orig[1] + 17
        elif m == "oph":
            o = self.meta[p]["oph"]
            # 1: another transaction id; 2: the null id (what a coinbase input refers to)
            tx.txs_in[p].previous_hash = o if b == 0 else hashlib.sha256(o).digest() if b == 1 else ZERO32
        elif m == "opi":
            tx.txs_in[p].previous_index = (self.meta[p]["opi"] ^ b) if b < 2 else 0xFFFFFFFF
        elif m == "seq":
            tx.txs_in[p].sequence = self.meta[p]["seq"] ^ (0x10 * b)
        elif m == "spent_amt":
            tx.unspents[p].coin_value = self.meta[p]["amt"] + b
        elif m == "spent_spk":
            o = self.meta[p]["spk"]
            k = self.meta[p]["id"]
            tx.unspents[p].script = o if b == k else (o + b"\x61") if b == 30 + k else self._other_puzzle(o)
        elif m == "out_amt":
            tx.txs_out[p].coin_value = self.out_amt[b]
        elif m == "out_spk":
            tx.txs_out[p].script = self.out_spk[b]
        elif m == "ins_insert":
            self.n_inserted += 1
            h = hashlib.sha256(b"verif C06 inserted input %d" % self.n_inserted).digest()
            spk = self.N.contract.for_p2pkh(hashlib.sha256(h).digest()[:20])
            tx.txs_in.insert(p, Tx.TxIn(h, 0))
            tx.unspents.insert(p, Tx.TxOut(777, spk))
            self.meta.insert(p, {"id": 0, "oph": h, "opi": 0, "seq": 0xFFFFFFFF, "amt": 777, "spk": spk})
        elif m == "ins_remove":
            del tx.txs_in[p]
            del tx.unspents[p]
            del self.meta[p]
        elif m == "ins_swap":
            q = b - 1
            for lst in (tx.txs_in, tx.unspents, self.meta):
                lst[p], lst[q] = lst[q], lst[p]
        elif m == "outs_insert":
            tx.txs_out.insert(p, Tx.TxOut(self.out_amt[b], self.out_spk[b]))
        elif m == "outs_remove":
            del tx.txs_out[p]
        elif m == "outs_swap":
            q = b - 1
            tx.txs_out[p], tx.txs_out[q] = tx.txs_out[q], tx.txs_out[p]
        elif m == "unl_swap":
            q = b - 1
            tp, tq = tx.txs_in[p], tx.txs_in[q]
            tp.script, tq.script = tq.script, tp.script
            tp.witness, tq.witness = tq.witness, tp.witness
        elif m == "forget":
            if b == 0:
                tx.unspents[p] = None
            else:
                del tx.unspents[p:]          # the list of spent outputs is now shorter than the inputs
        elif m in ("ss_pushdata", "wit_attach", "wit_append", "ss_prepend"):
            self._unlocking_mutation(tx.txs_in[p], m, b)
        elif m == "revert":
            ver, lock, tin, tout, uns, meta = copy.deepcopy(self.orig)
            tx.version, tx.lock_time = ver, lock
            tx.txs_in[:] = tin
            tx.txs_out[:] = tout
            tx.unspents[:] = uns
            self.meta = meta
        else:
            raise ValueError(m)

    def _unlocking_mutation(self, tin, m, b):
        """re-encode / extend the unlocking data of one input without touching anything a signature commits to"""
        before = unlocking_of_txin(tin)
        if m == "ss_pushdata":
            ops = [(op, data, pc, npc) for (op, data, pc, npc) in self.N.script.get_opcodes(tin.script) if data]
            if not ops:
                raise NotInjective("no push to re-encode")
            op, data, pc, npc = ops[-1] if b < 10 else ops[0]
            how = b % 10
            hdr = {1: b"\x4c" + len(data).to_bytes(1, "little"), 2: b"\x4d" + len(data).to_bytes(2, "little"),
                   4: b"\x4e" + len(data).to_bytes(4, "little")}[how]
            tin.script = bytes(tin.script[:pc]) + hdr + data + bytes(tin.script[npc:])
        elif m == "wit_attach":
            tin.witness = [b"\x01"] if b == 1 else [b"\x30" + bytes(70), b"\x02" + bytes(32)]
        elif m == "wit_append":
            tin.witness = list(tin.witness) + [b""]
        elif m == "ss_prepend":
            tin.script = (b"\x61" if b == 1 else b"\x51") + bytes(tin.script)
        if unlocking_of_txin(tin) == before:
            raise NotInjective("unlocking-data mutation %s/%s changed nothing" % (m, b))

    def spend_case(self, i):
        """the spend of input i as a case for the consensus specification (MC_ScriptRun / VerifyScript.tla),
        under the flags is_solution_ok validates with"""
        from . import script as SC
        tx = self.tx
        t = tx.txs_in[i]
        u = tx.unspents[i]
        prevouts = [["", 0] if x is None else [bytes(x.script).hex(), x.coin_value] for x in tx.unspents]
        prevouts += [["", 0]] * (len(tx.txs_in) - len(prevouts))
        return SC.mk_case("spend", bytes(t.script), bytes(u.script), [bytes(w) for w in t.witness], flags=["P2SH", "WITNESS"],
                          version=tx.version & 0x7FFFFFFF, locktime=tx.lock_time, sequence=t.sequence, amount=u.coin_value,
                          tx={"hex": tx.as_hex(), "idx": i, "prevouts": prevouts})

    def verdicts(self):
        """what the API reports on the long-lived object and on a fresh object parsed from its bytes,
        given the same spent outputs: {"long": [..], "long_bad": n, "fresh": [..], "fresh_bad": n, "exc": ..}"""
        tx = self.tx
        out = {}
        try:
            n = len(tx.txs_in)
            out["long"] = [bool(tx.is_solution_ok(i)) for i in range(n)]
            out["long_bad"] = tx.bad_solution_count()
            f = type(tx).from_bin(tx.as_bin())
            f.unspents = [None if u is None else type(u)(u.coin_value, bytes(u.script)) for u in tx.unspents]
            out["fresh"] = [bool(f.is_solution_ok(i)) for i in range(n)]
            out["fresh_bad"] = f.bad_solution_count()
            out["again"] = [bool(tx.is_solution_ok(i)) for i in reversed(range(n))][::-1]
            # the checker's own entry point: ONE checker, the contexts of all inputs prepared first, checked afterwards
            # (only for inputs whose spent output is known: the checker API has no notion of an unknown one)
            from pycoin.coins.SolutionChecker import ScriptError
            sc = tx.SolutionChecker(tx)
            known = [i < len(tx.unspents) and tx.unspents[i] is not None for i in range(n)]
            ctxs = [sc.tx_context_for_idx(i) if known[i] else None for i in range(n)]
            via = []
            for i in range(n):
                if not known[i]:
                    via.append(None)
                    continue
                try:
                    sc.check_solution(ctxs[i])
                    via.append(True)
                except ScriptError:
                    via.append(False)
            out["checker"] = via
        except Exception as e:  # noqa
            import traceback
            out["exc"] = "%s: %s" % (type(e).__name__, e)
            out["tb"] = traceback.format_exc()[-900:]
        return out
