"""Worker for C16: several networks imported in ONE fresh process, in a given order.

    python -m vf.drv.p2p_multi JOB.json        (JOB: {"order": [symbols], "drive": [symbols], "native": [symbols],
                                                      "cases": [records of MC_P2PReplay], "tripped": [[name, call], ..],
                                                      "sessions": {"alphabet": .., "sessions": [records of MC_P2PSession]}})

The networks of "order" are imported first, all of them, in that order (whatever the library shares between
networks - caches, registries - is then in the state this order produces).  Then every case (messages that carry
headers / blocks / transactions) is executed on each network of "drive" with drv.p2p.check_msg_record: the spec's
bytes, the parsed values, re-packing, and the parsed objects being instances of THAT network's block / tx classes.
Networks in "native" have a header format of their own: only the format-independent check.
The sessions (drv.p2p.run_session: one codec, long-lived objects) are executed on every network of "drive" except BTC,
which the parent process covers.
Prints one JSON object: {"fails": [[key, what, detail], ...], "executed": n, "tripped": [...], "skipped": n}.
"""
from __future__ import annotations

import importlib
import json
import sys


def main(path):
    job = json.load(open(path))
    for sym in job["order"]:
        importlib.import_module("pycoin.symbols." + sym.lower())
    from . import p2p as D
    for pair in job.get("tripped", []):
        D.TRIPPED.add(tuple(pair))
    fails, seen, n = [], set(), 0
    for sym in job["order"]:
        if sym in job["drive"]:
            for rec in job["cases"]:
                n += 1
                for key, what, detail in D.check_msg_record(rec, sym):
                    if key not in seen:          # one example per class is enough for the parent
                        seen.add(key)
                        detail["import_order"] = job["order"]
                        fails.append([key, what, detail])
            sj = job.get("sessions")
            if sj and sym != "BTC":
                for se in sj["sessions"]:
                    n += 1
                    for key, what, detail in D.run_session(sj["alphabet"], se, sym):
                        if key not in seen:
                            seen.add(key)
                            detail["import_order"] = job["order"]
                            fails.append([key, what, detail])
        if sym in job.get("native", []):
            n += 1
            for key, what, detail in D.check_native_headers(sym):
                if key not in seen:
                    seen.add(key)
                    detail["import_order"] = job["order"]
                    fails.append([key, what, detail])
    from ..ctx import _jsonable
    json.dump({"fails": _jsonable(fails), "executed": n, "tripped": sorted(D.TRIPPED), "skipped": D.SKIPPED[0]}, sys.stdout)


if __name__ == "__main__":
    main(sys.argv[1])
