"""Driver + projection for pycoin's ECDSA (C01): Generator.sign / sign_with_recid / verify /
possible_public_pairs_for_signature, rfc6979.deterministic_generate_k, Key.sign / Key.verify.

Production curves run as `python -m vf.drv.ecdsa` in a fresh subprocess per backend (PYCOIN_NATIVE is
read at import).  Results are projected to plain JSON: ints as hex strings where they may exceed 2^31,
exceptions as "exc:<Type>".
"""
from __future__ import annotations

import ast
import hashlib
import json
import sys

from . import ec as ecdrv


# ----------------------------------------------------------------------------- ground truth for RFC 6979

def rfc6979_vectors(repo):
    """the vectors of REPO/tests/ecdsa/rfc6979_test.py as [{q, x, msg, hash, k}], read from the source (not executed)"""
    src = open(repo + "/tests/ecdsa/rfc6979_test.py").read()
    tree = ast.parse(src)
    out = []

    def const_int(node):
        return node.value if isinstance(node, ast.Constant) and isinstance(node.value, int) else None

    for fn in ast.walk(tree):
        if not isinstance(fn, ast.FunctionDef) or not fn.name.startswith("test_"):
            continue
        env, tables = {}, []
        for st in fn.body:
            if isinstance(st, ast.Assign) and len(st.targets) == 1 and isinstance(st.targets[0], ast.Name):
                nm = st.targets[0].id
                v = const_int(st.value)
                if v is not None:
                    env[nm] = v
                elif nm == "hashes_values" and isinstance(st.value, ast.Tuple):
                    tables.append([(e.elts[0].attr, e.elts[1].value) for e in st.value.elts])
            elif isinstance(st, ast.For) and tables:
                msgs = [n.value for n in ast.walk(st) if isinstance(n, ast.Constant) and isinstance(n.value, bytes)]
                for hname, k in tables[-1]:
                    out.append({"q": env["q"], "x": env["x"], "msg": msgs[0], "hash": hname, "k": k})
        if not tables:
            q = env.get("q", env.get("generator_order"))
            x = env.get("x", env.get("secret_exponent"))
            msgs = [n.value for n in ast.walk(fn) if isinstance(n, ast.Constant) and isinstance(n.value, bytes)]
            ks = [const_int(c.args[1]) for c in ast.walk(fn)
                  if isinstance(c, ast.Call) and getattr(c.func, "attr", "") == "assertEqual"
                  and isinstance(c.args[0], ast.Name) and c.args[0].id == "k"]
            out.append({"q": q, "x": x, "msg": msgs[0], "hash": "sha256", "k": ks[0]})
    return out


def vector_case(v):
    h = getattr(hashlib, v["hash"])(v["msg"]).digest()
    ro = (v["q"].bit_length() + 7) // 8
    return {"q": list(v["q"].to_bytes(ro, "big")), "x": list(v["x"].to_bytes(ro, "big")), "h1": list(h), "hlen": len(h)}


# ----------------------------------------------------------------------------- reference ECDSA (ECDSA.tla's formulas on big numbers)

def ref_sig(ref, d, z, k):
    """SigOf of ECDSA.tla; replayed against TLC's sign table on the toy curves before it is used on 256-bit curves"""
    R = ref.mul(k, ref.G)
    r = R[0] % ref.n
    s = pow(k, -1, ref.n) * ((z % ref.n) + r * d) % ref.n
    return {"r": r, "s": s, "x": R[0], "recid": (R[1] & 1) + (2 if R[0] >= ref.n else 0)}


def ref_verify(ref, Q, z, r, s):
    if not (1 <= r < ref.n and 1 <= s < ref.n):
        return False
    w = pow(s, -1, ref.n)
    X = ref.add(ref.mul(z % ref.n * w % ref.n, ref.G), ref.mul(r * w % ref.n, tuple(Q)))
    return X != () and X[0] % ref.n == r


def ref_sum_is_infinity(ref, Q, z, r, s):
    if not (1 <= r < ref.n and 1 <= s < ref.n):
        return False
    w = pow(s, -1, ref.n)
    return ref.add(ref.mul(z % ref.n * w % ref.n, ref.G), ref.mul(r * w % ref.n, tuple(Q))) == ()


# ----------------------------------------------------------------------------- recording pycoin's HMAC calls

class HmacRecorder:
    """stands in for the `hmac` module inside pycoin.ecdsa.rfc6979 and logs every invocation"""

    def __init__(self):
        import hmac as real
        self.real = real
        self.calls = []

    def new(self, key, msg=None, digestmod=None):
        h = self.real.new(key, msg, digestmod)
        rec = {"key": list(key), "msg": list(msg or b""), "out": list(h.digest())}
        self.calls.append(rec)
        return h

    def __enter__(self):
        import pycoin.ecdsa.rfc6979 as m
        self.mod = m
        self.saved = m.hmac
        m.hmac = self
        return self

    def __exit__(self, *a):
        self.mod.hmac = self.saved


def call(f):
    try:
        return f()
    except Exception as e:      # noqa: the type is the projection
        return "exc:" + type(e).__name__


def pts(lst, p):
    if isinstance(lst, str):
        return lst
    return [ecdrv.proj(q, p) for q in lst]


# ----------------------------------------------------------------------------- production curves (subprocess)

def tamper_classes(n, d, z, r, s, Qown, Qother):
    """(name, Q, z, r, s, expected) - expected per ECDSA.tla: range lemmas (RangeRejected), Malleable (SignSound),
    InfinityRejected; 'other key/hash' are expected to fail (a collision has probability ~2^-256)"""
    z2 = z + 1 if z + 1 < (1 << 256) else z - 1
    out = [
        ("own", Qown, z, r, s, True),
        ("malleated_n-s", Qown, z, r, n - s, True),
        ("other_key", Qother, z, r, s, False),
        ("other_hash", Qown, z2, r, s, False),
        ("r+n", Qown, z, r + n, s, False),
        ("s+n", Qown, z, r, s + n, False),
        ("r=0", Qown, z, 0, s, False),
        ("s=0", Qown, z, r, 0, False),
        ("r=n", Qown, z, n, s, False),
        ("s=n", Qown, z, r, n, False),
        ("r<0", Qown, z, -r, s, False),
        ("s<0", Qown, z, r, -s, False),
        ("r-n", Qown, z, r - n, s, False),
    ]
    if r != s:
        out.append(("swapped", Qown, z, s, r, False))
    # u1*G + u2*Q = infinity  <=>  z = -r*d (mod n): a well-formed signature whose verification point is the identity
    zi = (-r * d) % n
    if zi != 0:
        out.append(("sum_is_infinity", Qown, zi, r, s, False))
    return out


def der_job(job, g):
    """Key.verify(hash, blob) for DER blobs prepared by spec/MC_ECDSADer.tla; the Key class is bound to generator g
    the way pycoin's networks do it (Key.make_subclass)"""
    from pycoin.key.Key import Key
    K = Key.make_subclass("VF", None, g)
    out = []
    for cse in job["cases"]:
        key = K(public_pair=(int(cse["Q"][0], 16), int(cse["Q"][1], 16)))
        h = int(cse["z"], 16).to_bytes(32, "big")
        out.append([call(lambda: key.verify(h, bytes.fromhex(b))) for b in cse["blobs"]])
    return out


def main():
    job = json.load(sys.stdin)
    g = ecdrv.production_generator(job["curve"])
    if job.get("what") == "der":
        json.dump({"backend": ecdrv.backend_of(g), "out": der_job(job, g)}, sys.stdout)
        return
    from pycoin.ecdsa.rfc6979 import deterministic_generate_k
    n = g.order()
    res = {"backend": ecdrv.backend_of(g), "out": []}
    key_api = None
    if job["curve"] == "secp256k1" and job.get("key_api"):
        from pycoin.symbols.btc import network
        key_api = network
    for cse in job["cases"]:
        d, z = int(cse["d"], 16), int(cse["z"], 16)
        o = {}
        with HmacRecorder() as rec:
            kk = call(lambda: deterministic_generate_k(n, d, z))
        o["k"] = hex(kk) if isinstance(kk, int) else kk
        o["oracle"] = rec.calls
        used = []

        def gen_k(order, se, val):
            k = deterministic_generate_k(order, se, val)
            used.append(k)
            return k
        sg = call(lambda: g.sign_with_recid(d, z))
        o["sig_recid"] = [hex(v) for v in sg] if isinstance(sg, tuple) else sg
        sg2 = call(lambda: g.sign(d, z))
        o["sig"] = [hex(v) for v in sg2] if isinstance(sg2, tuple) else sg2
        sg3 = call(lambda: g.sign(d, z, gen_k))
        o["sig_genk"] = [hex(v) for v in sg3] if isinstance(sg3, tuple) else sg3
        o["k_used"] = [hex(v) for v in used]
        Q = g * d
        o["Q"] = [hex(Q[0]), hex(Q[1])]
        if isinstance(sg2, tuple) and cse.get("full", True):
            r, s = sg2
            Qo = g * ((d % (n - 1)) + 1)
            o["tamper"] = [[nm, call(lambda: g.verify(Qq, zz, (rr, ss)))]
                           for nm, Qq, zz, rr, ss, _ in tamper_classes(n, d, z, r, s, Q, Qo)]
            rc = call(lambda: g.possible_public_pairs_for_signature(z, (r, s)))
            o["recover"] = rc if isinstance(rc, str) else [[hex(q[0]), hex(q[1])] for q in rc]
            if isinstance(sg, tuple):
                rc1 = call(lambda: g.possible_public_pairs_for_signature(z, (r, s), sg[2] & 1))
                o["recover_parity"] = rc1 if isinstance(rc1, str) else [[hex(q[0]), hex(q[1])] for q in rc1]
            if key_api is not None:
                k_priv = key_api.keys.private(d)
                k_pub = key_api.keys.public((Q[0], Q[1]))
                h = z.to_bytes(32, "big")
                der = call(lambda: k_priv.sign(h))
                o["der"] = der.hex() if isinstance(der, bytes) else der
                if isinstance(der, bytes):
                    from pycoin.satoshi.der import sigdecode_der, sigencode_der
                    o["der_rs"] = [hex(v) for v in sigdecode_der(der)]
                    o["key_verify"] = call(lambda: k_pub.verify(h, der))
                    h2 = ((z + 1) % (1 << 256)).to_bytes(32, "big")
                    o["key_verify_other_hash"] = call(lambda: k_pub.verify(h2, der))
                    o["key_verify_s+n"] = call(lambda: k_pub.verify(h, sigencode_der(r, s + n)))
                    o["key_verify_r=0"] = call(lambda: k_pub.verify(h, sigencode_der(0, s)))
                    zi = (-r * d) % n
                    if zi:
                        o["key_verify_sum_is_infinity"] = call(lambda: k_pub.verify(zi.to_bytes(32, "big"), der))
        res["out"].append(o)
    json.dump(res, sys.stdout)


if __name__ == "__main__":
    main()
