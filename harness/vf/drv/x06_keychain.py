"""X06 (2): driver and projection for pycoin.key.Keychain.Keychain (the SQLite-backed store of key paths,
pay-to-script scripts and, in memory, secrets).

The world (roots, ranges, keys) and, for every key, the TERMS of its two hash160s, its fingerprint, its private
key and its public point are printed by spec/X06_MC_Keys.tla with BIP32.tla's operators; the evaluator of
vf.drv.bip32 (hmac, hashlib, its own affine curve) finishes them - pycoin is not consulted for any expected value.
The histories and what the rule allows after every call come from spec/X06_MC_Keychain.tla.
"""
from __future__ import annotations

import hashlib
import os
import sqlite3

from . import bip32 as b32

BASE = "/tmp/x06"
MARKS = "'pH"


def h160(b):
    return hashlib.new("ripemd160", hashlib.sha256(b).digest()).digest()


def path_text(p):
    """path printed by ToJson (list of {h, v}) -> 'a/bH/c'"""
    if isinstance(p, dict):
        p = []
    return "/".join("%d%s" % (ix["v"], "H" if ix["h"] else "") for ix in p)


def key_name(k):
    """key printed by ToJson ([master, path]) -> 'A:0/1H'"""
    return "%s:%s" % (k[0], path_text(k[1]))


def norm_path(s):
    out = []
    for part in (s.split("/") if s else []):
        hard = part[-1] in MARKS
        out.append("%d%s" % (int(part[:-1] if hard else part), "H" if hard else ""))
    return "/".join(out)


class World(object):
    def __init__(self, records, seed):
        self.world = [r for r in records if r.get("k") == "world"][0]
        keys = [r for r in records if r.get("k") == "key"]
        syms = {}
        for r, info in self.world["roots"].items():
            m = info["master"]
            syms["seed" + m] = hashlib.sha256(("X06 seed %s %d" % (m, seed)).encode()).digest()[:16]
            v = int.from_bytes(hashlib.sha256(("X06 key %s %d" % (m, seed)).encode()).digest(), "big") % (b32.N - 1) + 1
            syms["key" + m] = v.to_bytes(32, "big")
        self.syms = syms
        ev = b32.Evaluator(syms)
        self.key = {}
        self.by_hash = {}
        self.by_xy = {}
        for r in keys:
            xy = ev.B(r["xy"])
            e = {"se": int.from_bytes(ev.B(r["se"]), "big"), "pp": (int.from_bytes(xy[:32], "big"), int.from_bytes(xy[32:], "big")),
                 "hc": ev.B(r["hc"]), "hu": ev.B(r["hu"]), "fp": ev.B(r["fp"]), "master": r["master"], "path": r["path"]}
            self.key[r["name"]] = e
            self.by_hash[e["hc"]] = (r["name"], "c")
            self.by_hash[e["hu"]] = (r["name"], "u")
            self.by_xy[e["pp"]] = r["name"]
        self.roots = self.world["roots"]
        self.ranges = self.world["ranges"]
        self.singles = self.world["singles"]
        self.qkeys = sorted(self.world["qkeys"])
        self.scripts = {}
        for j, s in enumerate(sorted(self.world["scripts"])):
            body = bytes([0x52, 0x21]) + bytes([2 + j]) * 33 + bytes([0x21]) + bytes([3]) * 33 + bytes([0x52, 0xae])
            self.scripts[s] = body if j != 1 else bytes([0x51 + j, 0x87])
        self.by_script = {v: k for k, v in self.scripts.items()}
        self.script_hash = {}
        for s, b in self.scripts.items():
            self.script_hash[h160(b)] = (s, "s160")
            self.script_hash[hashlib.sha256(b).digest()] = (s, "s256")
        self._objs = {}

    # ---- pycoin objects for the roots (built once per process; pycoin's own sub-key caches stay warm)
    def network(self):
        from pycoin.symbols.btc import network
        return network

    def root(self, r, form):
        k = (r, form)
        if k not in self._objs:
            info = self.roots[r]
            net = self.network()
            if info["kind"] == "plain":
                o = net.keys.private(int.from_bytes(self.syms["key" + info["master"]], "big"))
            else:
                o = net.keys.bip32_seed(self.syms["seed" + info["master"]])
                if info["at"]:
                    o = o.subkey_for_path(info["at"])
            self._objs[(r, "prv")] = o
            self._objs[(r, "pub")] = o.public_copy()
        return self._objs[k]

    def check_roots(self):
        """the pycoin root objects are the keys the evaluated terms speak of"""
        bad = []
        for r, info in self.roots.items():
            e = self.key[info["key"]]
            for form in ("prv", "pub"):
                o = self.root(r, form)
                if o.hash160(is_compressed=True) != e["hc"] or o.hash160(is_compressed=False) != e["hu"]:
                    bad.append("%s/%s hash160" % (r, form))
                if tuple(o.public_pair()) != e["pp"]:
                    bad.append("%s/%s public pair" % (r, form))
                if o.fingerprint() != e["fp"]:
                    bad.append("%s/%s fingerprint" % (r, form))
            if self.root(r, "prv").secret_exponent() != e["se"] or self.root(r, "pub").secret_exponent() is not None:
                bad.append("%s secret exponent" % r)
        return bad

    def query_hash(self, q):
        """query printed by ToJson -> (bytes, canonical text)"""
        if q[0] == "k":
            name = key_name(q[1])
            return self.key[name]["hc" if q[2] == "c" else "hu"], "k|%s|%s" % (name, q[2])
        if q[0] == "s160":
            return h160(self.scripts[q[1]]), "s160|" + q[1]
        if q[0] == "s256":
            return hashlib.sha256(self.scripts[q[1]]).digest(), "s256|" + q[1]
        return hashlib.sha256(b"X06 nobody's hash").digest()[:20], "unknown"


def answer_text(a):
    """allowed answer printed by ToJson -> canonical text"""
    if a[0] == "key":
        return "key|%s|%s|%s" % (key_name(a[1]), a[2], a[3])
    if a[0] == "script":
        return "script|" + a[1]
    return "miss"


SENTINEL = ("no", "such", "key")


class Session(object):
    """one Keychain, file-backed (closed and reopened on demand) or in memory"""

    def __init__(self, world, backed, tag, salt=0):
        self.world = world
        self.net = world.network()
        self.backed = backed
        self.path = os.path.join(BASE, tag + ".db") if backed else ":memory:"
        if backed:
            for suffix in ("", "-journal", "-wal", "-shm"):
                if os.path.exists(self.path + suffix):
                    os.remove(self.path + suffix)
        self.salt = salt
        self.ngets = 0
        self.open()

    def open(self):
        self.conn = sqlite3.connect(self.path)
        if self.backed:
            # (the harness' own connection settings: no fsync per commit, roll-back journal kept in memory -
            #  commit / close-without-commit / reopen behave the same, only crash durability is given up)
            self.conn.execute("PRAGMA synchronous=OFF")
            self.conn.execute("PRAGMA journal_mode=MEMORY").fetchall()
        self.kc = self.net.keychain(self.conn)

    def reopen(self):
        self.conn.close()
        self.open()

    def close(self):
        try:
            self.conn.close()
        finally:
            if self.backed:
                for suffix in ("", "-journal", "-wal", "-shm"):
                    if os.path.exists(self.path + suffix):
                        os.remove(self.path + suffix)

    # ---- calls
    def addpaths(self, r, form, g):
        from pycoin.key.subpaths import subpaths_for_path_range
        key = self.world.root(r, form)
        try:
            n = self.kc.add_key_paths(key, subpaths_for_path_range(self.world.ranges[g - 1]["text"]))
        except Exception as e:                          # noqa
            return {"ok": False, "exc": type(e).__name__}
        return {"ok": True, "count": n}

    def addkeyspath(self, rs, form, s):
        keys = [self.world.root(r, form) for r in sorted(rs)]
        try:
            n = self.kc.add_keys_path(keys, self.world.singles[s - 1])
        except Exception as e:                          # noqa
            return {"ok": False, "exc": type(e).__name__}
        return {"ok": True, "count": n}

    def call(self, f, *a):
        try:
            f(*a)
        except Exception as e:                          # noqa
            return type(e).__name__
        return None

    def get(self, h):
        self.ngets += 1
        try:
            if (self.salt + self.ngets) % 3 == 0:
                r = self.kc.get(h)
                miss = r is None
            else:
                r = self.kc.get(h, SENTINEL)
                miss = r is SENTINEL
        except Exception as e:                          # noqa
            return "raise:" + type(e).__name__
        if miss:
            return "miss"
        w = self.world
        if isinstance(r, (bytes, bytearray)):
            s = w.by_script.get(bytes(r))
            return "script|" + s if s else "script|?"
        try:
            se, pp, comp, gen = r
            pp = tuple(pp)
        except Exception:                               # noqa
            return "garbage:" + type(r).__name__
        name = w.by_xy.get(pp)
        if name is None:
            return "key|?"
        if gen is not self.net.generator and gen != self.net.generator:
            return "key|%s|wrong-generator" % name
        if se is None:
            kind = "pub"
        elif se == w.key[name]["se"]:
            kind = "prv"
        else:
            return "key|%s|wrong-secret" % name
        return "key|%s|%s|%s" % (name, kind, "c" if comp is True else "u" if comp is False else "?")

    def observers(self):
        w = self.world
        out = {}
        try:
            hs = list(self.kc.interested_hashes())
            names = set()
            for h in hs:
                h = bytes(h)
                names.add(("k",) + w.by_hash[h] if h in w.by_hash else ("s",) + w.script_hash[h] if h in w.script_hash else ("?", h.hex()))
            out["interest"] = names
        except Exception as e:                          # noqa
            out["interest"] = "raise:" + type(e).__name__
        try:
            out["hs"] = bool(self.kc.has_secrets())
        except Exception as e:                          # noqa
            out["hs"] = "raise:" + type(e).__name__
        return out

    def path_for(self, name, f):
        try:
            r = self.kc.path_for_hash160(self.world.key[name]["hc" if f == "c" else "hu"])
        except Exception as e:                          # noqa
            return "raise:" + type(e).__name__
        if r is None:
            return None
        fp, path = r
        return (bytes(fp), norm_path(path))


def _kinds(allowed):
    ks = set()
    for a in allowed:
        ks.add(a.split("|")[2] if a.startswith("key|") else a.split("|")[0])
    return "/".join(sorted(ks))


def _got_class(want_texts, got, qtext):
    """class of a wrong answer"""
    if got.startswith("raise:") or got.startswith("garbage:"):
        return got
    if got.startswith("key|"):
        parts = got.split("|")
        wkeys = {a.split("|")[1] for a in want_texts if a.startswith("key|")}
        qkey = qtext.split("|")[1] if qtext.startswith("k|") else None
        if parts[1] != qkey:
            return "another-key"
        if len(parts) < 4:
            return parts[-1]
        if parts[2] in ("wrong-secret", "wrong-generator"):
            return parts[2]
        if qtext.endswith("|c") != (parts[3] == "c"):
            return parts[2] + "+wrong-compressed-flag"
        return parts[2]
    if got.startswith("script|"):
        return "script" if got in want_texts else "another-script"
    return got


def _cause(want, gotc, tags):
    """the circumstance (computed by TLC from the state at the time of the question) under which a known deviation shows"""
    tags = set(tags)
    if gotc.startswith("raise:PublicPrivateMismatch") and "hardpub" in tags:
        return "public-root-among-the-secrets+hardened-path-registered"
    if want == "prv" and gotc == "pub" and "pubsec" in tags and "tworoots" in tags:
        return "key-registered-under-two-roots+root-also-handed-over-as-public"
    if want == "prv" and gotc == "pub" and "pubsec" in tags:
        return "root-also-handed-over-as-public"
    if want == "prv" and gotc == "miss" and "tworoots" in tags:
        return "key-registered-under-two-roots"
    return ",".join(sorted(tags)) or "-"


def _get_key(want, got, qtext, tags):
    w, g = _kinds(want), _got_class(want, got, qtext)
    return "X06|keychain|get|want=%s|got=%s|%s" % (w, g, _cause(w, g, tags))


def run_behaviour(world, rec, tag, salt=0):
    """execute one printed behaviour; returns the list of (key, what, detail) disagreements"""
    bads = []
    ses = Session(world, bool(rec["backed"]), tag, salt)
    hist = []

    def bad(key, what, extra=None):
        d = {"backed": rec["backed"], "history": list(hist)}
        d.update(extra or {})
        bads.append((key, what, d))
    try:
        for l in rec["acts"]:
            op = l["op"]
            hist.append(l)
            if op == "addpaths":
                o = ses.addpaths(l["r"], l["form"], l["g"])
                if o["ok"] != l["ok"] or (o["ok"] and o["count"] != l["count"]):
                    bad("X06|keychain|add_key_paths|form=%s|want=%s|got=%s" % (
                        l["form"], "ok" if l["ok"] else "raise", ("count=%s" % o.get("count")) if o["ok"] else "raise:" + o["exc"]),
                        "registering a path range", {"got": o})
                    return bads
            elif op == "addkeyspath":
                o = ses.addkeyspath(l["rs"], l["form"], l["s"])
                if o["ok"] != l["ok"] or (o["ok"] and o["count"] != l["count"]):
                    bad("X06|keychain|add_keys_path|form=%s|want=%s|got=%s" % (
                        l["form"], "ok" if l["ok"] else "raise", ("count=%s" % o.get("count")) if o["ok"] else "raise:" + o["exc"]),
                        "registering one path for several keys", {"got": o})
                    return bads
            elif op == "addsecrets":
                e = ses.call(ses.kc.add_secrets, [world.root(c[0], c[1]) for c in sorted(l["cs"])])
                if e:
                    bad("X06|keychain|add_secrets|raises=" + e, "handing over secrets", None)
                    return bads
            elif op == "clearsecrets":
                e = ses.call(ses.kc.clear_secrets)
            elif op == "addscript":
                e = ses.call(ses.kc.add_p2s_script, world.scripts[l["s"]])
            elif op == "addscripts":
                e = ses.call(ses.kc.add_p2s_scripts, [world.scripts[s] for s in sorted(l["ss"])])
            elif op == "commit":
                e = ses.call(ses.kc.commit)
            elif op == "reopen":
                e = ses.call(ses.reopen)
            elif op == "get":
                h, qtext = world.query_hash(l["q"])
                want = sorted(answer_text(a) for a in l["allowed"])
                got = ses.get(h)
                if got not in want:
                    bad(_get_key(want, got, qtext, l["tags"]),
                        "Keychain.get answers outside what the rule allows", {"query": qtext, "want": want, "got": got})
                continue
            else:
                raise AssertionError(op)
            if op in ("clearsecrets", "addscript", "addscripts", "commit", "reopen") and e:
                bad("X06|keychain|%s|raises=%s" % (op, e), "call failed", None)
                return bads
        # the observers after the last call
        obs = rec["obs"]
        o = ses.observers()
        want_int = set()
        for x in obs["interest"]:
            if x[0] == "k":
                want_int.add(("k", key_name(x[1]), "c"))
                want_int.add(("k", key_name(x[1]), "u"))
            else:
                want_int.add(("s", x[1], "s160"))
                want_int.add(("s", x[1], "s256"))
        if o["interest"] != want_int:
            got = o["interest"]
            cls = got if isinstance(got, str) else ",".join(sorted(
                {"missing-" + ("key-%s" % x[2] if x[0] == "k" else "script-" + x[2]) for x in want_int - got} |
                {"extra-" + ("key" if x[0] == "k" else "script" if x[0] == "s" else "unknown") for x in got - want_int}))
            bad("X06|keychain|interested_hashes|%s" % cls, "the hashes the keychain is interested in differ from the registrations",
                {"want": sorted(want_int), "got": sorted(got) if not isinstance(got, str) else got})
        if o["hs"] not in obs["hs"]:
            bad("X06|keychain|has_secrets|want=%s|got=%s" % ("/".join(str(x) for x in sorted(obs["hs"])), o["hs"]), "has_secrets()", None)
        for k, pairs in obs["pf"]:
            name = key_name(k)
            allowed = {(world.key[world.roots[e[0]]["key"]]["fp"], path_text(e[1])) for e in pairs}
            for f in ("c", "u"):
                got = ses.path_for(name, f)
                if got not in allowed:
                    bad("X06|keychain|path_for_hash160|%s" % ("none" if got is None else got if isinstance(got, str) else "not-a-registration"),
                        "path_for_hash160 names something that was not registered for this key",
                        {"key": name, "form": f, "got": got if not isinstance(got, tuple) else [got[0].hex(), got[1]],
                         "allowed": sorted((a.hex(), b) for a, b in allowed)})
        # every query at the end
        fin = rec["fin"]
        fin_keys = {key_name(x[0]): (sorted(x[1]), sorted(x[2])) for x in fin["keys"]}
        qs = []
        for name in world.qkeys:
            kinds, tags = fin_keys.get(name, (["miss"], []))
            for f in ("c", "u"):
                want = sorted("miss" if kd == "miss" else "key|%s|%s|%s" % (name, kd, f) for kd in kinds)
                qs.append((world.key[name]["hc" if f == "c" else "hu"], "k|%s|%s" % (name, f), want, tags))
        for s in sorted(world.scripts):
            for kind, hh in (("s160", h160(world.scripts[s])), ("s256", hashlib.sha256(world.scripts[s]).digest())):
                qs.append((hh, "%s|%s" % (kind, s), ["script|" + s] if s in fin["scripts"] else ["miss"], []))
        qs.append((world.query_hash(["unknown"])[0], "unknown", ["miss"], []))
        if salt % 2:
            qs.reverse()
        k = salt % max(1, len(qs))
        qs = qs[k:] + qs[:k]
        for h, qtext, want, tags in qs:
            got = ses.get(h)
            if got not in want:
                bad(_get_key(want, got, qtext, tags),
                    "asked at the end of the history, Keychain.get answers outside what the rule allows",
                    {"query": qtext, "want": want, "got": got})
        return bads
    finally:
        ses.close()
