"""Concretisation, driver and projection for pycoin transactions and spendables (C07, C20).

TLC prints abstract values (spec/Bytes.tla):
  byte string = list of tokens, "0a0b" hex text or "*abx65536" (a run of 65,536 bytes 0xab)
  number      = list of 16-bit limbs, least significant first
This module turns them into real bytes / ints / pycoin objects, drives pycoin and projects
its objects back to plain tuples.  Nothing here knows the wire format: expected bytes,
parsed fields and hash pre-images all come from the TLA+ side; hashes are finished with hashlib.
"""
from __future__ import annotations

import hashlib
import io

_NET = {}


def network(sym):
    if sym not in _NET:
        import importlib
        _NET[sym] = importlib.import_module("pycoin.symbols." + sym.lower()).network
    return _NET[sym]


# ---------------------------------------------------------------- abstract values -> concrete

def expand(tokens):
    if isinstance(tokens, dict):      # ToJson prints an empty sequence nested in a record as {}
        tokens = []
    out = []
    for t in tokens:
        if t[0] == "*":
            fill, n = t[1:].split("x")
            out.append(bytes([int(fill, 16)]) * int(n))
        else:
            out.append(bytes.fromhex(t))
    return b"".join(out)


def num(limbs):
    if isinstance(limbs, dict):
        limbs = []
    return sum(l << (16 * i) for i, l in enumerate(limbs))


def seq(x):
    return [] if isinstance(x, dict) else x


def limbs(n, k):
    assert 0 <= n < (1 << (16 * k))
    return [(n >> (16 * i)) & 0xFFFF for i in range(k)]


def rle(b):
    """bytes -> runs [[fill, len], ...] in the normal form of Bytes.tla"""
    import itertools
    return [[k, sum(1 for _ in g)] for k, g in itertools.groupby(b)]


def unrle(runs):
    return b"".join(bytes([r[0]]) * r[1] for r in seq(runs))


def eval_term(t):
    """finish an uninterpreted hash term printed by the spec"""
    arg = expand(t["arg"])
    if t["op"] == "h256d":
        return hashlib.sha256(hashlib.sha256(arg).digest()).digest()
    if t["op"] == "h256":
        return hashlib.sha256(arg).digest()
    raise ValueError(t["op"])


def abs_tx(rt):
    """record printed by ShowTx -> plain projection (same shape as project_tx)"""
    return (num(rt["version"]),
            tuple((expand(i["hash"]), num(i["index"]), expand(i["script"]), num(i["seq"]),
                   tuple(expand(w) for w in seq(i["wit"]))) for i in seq(rt["ins"])),
            tuple((num(o["amount"]), expand(o["script"])) for o in seq(rt["outs"])),
            num(rt["lock"]))


def strip_wit(p):
    return (p[0], tuple(i[:4] + ((),) for i in p[1]), p[2], p[3])


def build_tx(Tx, p, witness_via="set_witness"):
    """plain projection -> pycoin Tx"""
    ins = []
    for (h, idx, script, sq, wit) in p[1]:
        ins.append(Tx.TxIn(h, idx, script, sq))
    outs = [Tx.TxOut(a, s) for (a, s) in p[2]]
    tx = Tx(p[0], ins, outs, p[3])
    for k, i in enumerate(p[1]):
        if i[4]:
            if witness_via == "set_witness":
                tx.set_witness(k, list(i[4]))
            else:
                tx.txs_in[k].witness = list(i[4])
    return tx


def project_tx(tx):
    return (tx.version,
            tuple((bytes(i.previous_hash), i.previous_index, bytes(i.script), i.sequence,
                   tuple(bytes(w) for w in i.witness)) for i in tx.txs_in),
            tuple((o.coin_value, bytes(o.script)) for o in tx.txs_out),
            tx.lock_time)


def project_unspents(tx):
    return tuple(None if u is None else (u.coin_value, bytes(u.script)) for u in tx.unspents)


def diff_field(a, b):
    """name of the first field in which two projections differ"""
    if a[0] != b[0]:
        return "version"
    if a[3] != b[3]:
        return "lock_time"
    if len(a[1]) != len(b[1]):
        return "input-count"
    if len(a[2]) != len(b[2]):
        return "output-count"
    names = ("hash", "index", "script", "sequence", "witness")
    for x, y in zip(a[1], b[1]):
        for n, u, v in zip(names, x, y):
            if u != v:
                return "in." + n
    for x, y in zip(a[2], b[2]):
        if x[0] != y[0]:
            return "out.amount"
        if x[1] != y[1]:
            return "out.script"
    return "none"


def lenclass(n):
    for b, name in ((0, "0"), (1, "1"), (252, "<=fc"), (65535, "<=ffff"), (0xFFFFFFFF, "<=ffffffff")):
        if n <= b:
            return name
    return "huge"


def tx_class(p, mode, bip144):
    nin = len(p[1])
    return "%s|%s|nin=%s|nout=%s" % (mode, "bip144" if bip144 else "legacy",
                                      "1" if nin == 1 else "2-3" if nin <= 3 else ">=fd" if nin >= 253 else "<fd",
                                      lenclass(len(p[2])))


# ---------------------------------------------------------------- replay of one transaction case

def check_tx_record(rec, sym):
    """Execute one case printed by MC_TxWireReplay on pycoin; returns [(key, what, detail)]."""
    fails = []
    mode = rec["mode"]
    if mode == "ltcmweb" and sym != "LTC":
        return fails          # Litecoin's MWEB-flagged form is outside the Bitcoin dialect
    Tx = network(sym).tx
    p = abs_tx(rec["tx"])
    cls = tx_class(p, mode, rec["bip144"])
    want_bytes = expand(rec["bytes"])
    # what re-serialising the parsed object must give (the input itself, except where the implementation
    # cannot represent something the input carries: the MWEB marker)
    want_reser = want_bytes if seq(rec.get("reser", ["=bytes"])) == ["=bytes"] else expand(rec["reser"])
    want_stripped = expand(rec["stripped"])
    same = rec["parsed"]["same"]
    want_parsed = p if same == "tx" else strip_wit(p) if same == "stripped" else abs_tx(rec["parsed"]["tx"])
    want_us = tuple((num(o["amount"]), expand(o["script"])) for o in seq(rec["punspents"]))
    bound = seq(rec["usbound"])
    txid = eval_term(rec["txid"])
    wtxid = eval_term(rec["wtxid"])

    def fail(call, what, detail=None):
        fails.append(("C07|tx|%s|%s|%s|%s" % (sym, call, cls, what),
                      "%s %s on case %s: %s" % (sym, call, cls, what),
                      {"sym": sym, "call": call, "what": what, "detail": detail, "case": rec}))

    def guarded(call, f):
        try:
            return True, f()
        except Exception as e:      # any exception out of a codec on a well-formed transaction is a failure
            fail(call, "exc=" + type(e).__name__, repr(e)[:300])
            return False, None

    if rec["end"] != "done" or not rec["standard"]:
        from ..ctx import MachineryError
        raise MachineryError("replay case is not a standard-form transaction: %r" % (rec["end"],))

    # ---- serialise
    if mode == "wire":
        for via in ("set_witness", "attr"):
            ok, tx = guarded("build", lambda: build_tx(Tx, p, via))
            if not ok:
                return fails
            ok, got = guarded("as_bin", tx.as_bin)
            if ok and got != want_bytes:
                fail("as_bin", "bytes-differ", {"got_len": len(got), "want_len": len(want_bytes), "got_head": got[:80].hex()})
            if via == "attr":
                break
            ok, got = guarded("as_hex", tx.as_hex)
            if ok and got != want_bytes.hex():
                fail("as_hex", "hex-differ")
            ok, got = guarded("as_bin(include_witness_data=False)", lambda: tx.as_bin(include_witness_data=False))
            if ok and got != want_stripped:
                fail("as_bin(include_witness_data=False)", "bytes-differ", {"got_len": len(got), "want_len": len(want_stripped)})
            ok, got = guarded("has_witness_data", tx.has_witness_data)
            if ok and bool(got) != rec["bip144"]:
                fail("has_witness_data", "expected=%s|got=%s" % (rec["bip144"], got))
            # ---- ids
            ok, got = guarded("hash", tx.hash)
            if ok and got != txid:
                fail("hash", "not-h256d-of-stripped")
            ok, got = guarded("id", tx.id)
            if ok and got != txid[::-1].hex():
                fail("id", "not-reversed-hex-of-hash")
            ok, got = guarded("w_hash", tx.w_hash)
            if ok and got != wtxid:
                fail("w_hash", "not-h256d-of-wire")
            ok, got = guarded("w_id", tx.w_id)
            if ok and got != wtxid[::-1].hex():
                fail("w_id", "not-reversed-hex-of-w_hash")
            # the id does not depend on witness data (lemma IdLemma: TxId(tx) = TxId(StripWitness(tx)))
            if rec["bip144"]:
                ok, tx2 = guarded("build", lambda: build_tx(Tx, strip_wit(p)))
                if ok:
                    ok, got = guarded("hash", tx2.hash)
                    if ok and got != txid:
                        fail("hash", "depends-on-witness")
    # ---- parse
    if mode == "wire":
        parsers = [("from_bin", lambda: Tx.from_bin(want_bytes)),
                   ("from_hex", lambda: Tx.from_hex(want_bytes.hex())),
                   ("parse", lambda: _parse_all(Tx, want_bytes, None))]
        if sym == "BTC":
            parsers.append(("parse(allow_segwit=True)", lambda: _parse_all(Tx, want_bytes, True)))
    elif mode == "ltcmweb":
        parsers = [("from_bin", lambda: Tx.from_bin(want_bytes)),
                   ("from_hex", lambda: Tx.from_hex(want_bytes.hex())),
                   ("parse", lambda: _parse_all(Tx, want_bytes, None))]
    elif mode == "noseg":
        parsers = [("from_bin", lambda: Tx.from_bin(want_bytes))]
        if sym == "BTC":
            parsers.append(("parse(allow_segwit=False)", lambda: _parse_all(Tx, want_bytes, False)))
    else:
        parsers = [("from_bin", lambda: Tx.from_bin(want_bytes)),
                   ("from_hex", lambda: Tx.from_hex(want_bytes.hex()))]
    for call, f in parsers:
        ok, t2 = guarded(call, f)
        if not ok:
            continue
        if t2 == "trailing":
            fail(call, "input-not-consumed")
            continue
        got = project_tx(t2)
        if got != want_parsed:
            fail(call, "field=" + diff_field(got, want_parsed), {"got": _short(got), "want": _short(want_parsed)})
            continue
        if mode == "ext":
            gu = project_unspents(t2)
            if len(gu) != len(want_us):
                fail(call, "unspents-count|expected=%d|got=%d" % (len(want_us), len(gu)))
            else:
                for k, (g, w) in enumerate(zip(gu, want_us)):
                    if bound[k] and g != w:
                        fail(call, "unspent-differs|amount=%s|scriptlen=%s" % (_amtclass(w[0]), lenclass(len(w[1]))),
                             {"got": _short(g), "want": _short(w)})
            if all(bound):
                ok, b2 = guarded("as_bin(include_unspents=True)", lambda: t2.as_bin(include_unspents=True))
                if ok and b2 != want_bytes:
                    fail("as_bin(include_unspents=True)", "reserialised-bytes-differ")
        else:
            if project_unspents(t2) != ():
                fail(call, "unspents-invented")
            ok, b2 = guarded("as_bin", t2.as_bin)
            if ok and b2 != want_reser:
                fail(call + "+as_bin", "reserialised-bytes-differ")
            ok, got = guarded("hash", t2.hash)
            if ok and got != txid:
                fail(call + "+hash", "not-h256d-of-stripped")
    # ---- the unspents extension, writing side
    if mode == "ext":
        ok, tx = guarded("build", lambda: build_tx(Tx, p))
        if ok:
            ok, _ = guarded("set_unspents", lambda: tx.set_unspents([Tx.TxOut(num(o["amount"]), expand(o["script"])) for o in seq(rec["us"])]))
        if ok:
            ok, got = guarded("as_bin(include_unspents=True)", lambda: tx.as_bin(include_unspents=True))
            if ok and got != want_bytes:
                fail("as_bin(include_unspents=True)", "bytes-differ", {"got_len": len(got), "want_len": len(want_bytes)})
            ok, got = guarded("as_bin", tx.as_bin)
            if ok and not want_bytes.startswith(got):
                fail("as_bin", "extension-not-a-suffix")
            ok, got = guarded("hash", tx.hash)
            if ok and got != txid:
                fail("hash", "depends-on-unspents")
    return fails


def _parse_all(Tx, b, allow):
    f = io.BytesIO(b)
    t = Tx.parse(f) if allow is None else Tx.parse(f, allow_segwit=allow)
    if f.tell() != len(b):
        return "trailing"
    return t


def _amtclass(a):
    for v, n in ((0, "0"), (1, "1"), (2 ** 32 - 1, "<2^32"), (2 ** 63 - 1, "<2^63"), (2 ** 64 - 1, "<2^64")):
        if a <= v:
            return n
    return ">=2^64"


def _short(x):
    if isinstance(x, bytes):
        return x.hex() if len(x) <= 40 else "%s..(%d bytes)" % (x[:16].hex(), len(x))
    if isinstance(x, (tuple, list)):
        return [_short(y) for y in x][:12]
    return x


# ---------------------------------------------------------------- spendables

def abs_sp(rs):
    return (num(rs["amount"]), expand(rs["script"]), expand(rs["hash"]), num(rs["index"]),
            num(rs["bia"]), bool(rs["spent"]), num(rs["bis"]))


def project_sp(s):
    return (s.coin_value, bytes(s.script), bytes(s.tx_hash), s.tx_out_index,
            s.block_index_available, bool(s.does_seem_spent), s.block_index_spent)


def build_sp(Tx, p):
    return Tx.Spendable(p[0], p[1], p[2], p[3], p[4], p[5], p[6])


def _field_text(f):
    if f["t"] == "hex":
        return expand(f["v"]).hex()
    if f["t"] == "dec":
        return "".join(str(d) for d in seq(f["v"]))
    raise ValueError(f["t"])


def _field_value(f):
    if f["t"] == "hex":
        return expand(f["v"]).hex()
    if f["t"] == "int":
        return num(f["v"])
    raise ValueError(f["t"])


SP_FIELDS = ("coin_value", "script", "tx_hash", "tx_out_index", "block_index_available", "does_seem_spent", "block_index_spent")


def check_sp_record(rec, sym):
    fails = []
    Tx = network(sym).tx
    p = abs_sp(rec["s"])
    cls = "amount=%s|scriptlen=%s|bia=%s|bis=%s|spent=%d" % (_amtclass(p[0]), lenclass(len(p[1])), lenclass(p[4]), lenclass(p[6]), p[5])
    text = rec["sep"].join(_field_text(f) for f in rec["text"])
    d = {k: _field_value(f) for k, f in rec["dict"].items()}
    outbin = expand(rec["outbin"])
    binform = expand(rec["bin"])

    def fail(call, what, detail=None, coarse=False):
        fails.append(("C07|spendable|%s|%s|%s" % (call, "any" if coarse else cls, what),
                      "%s Spendable.%s on %s: %s" % (sym, call, cls, what),
                      {"sym": sym, "call": call, "what": what, "detail": detail, "case": rec}))

    def guarded(call, f, coarse=False):
        try:
            return True, f()
        except Exception as e:
            fail(call, "exc=" + type(e).__name__, repr(e)[:300], coarse)
            return False, None

    def same(call, s2):
        got = project_sp(s2)
        if got != p:
            k = [n for n, a, b in zip(SP_FIELDS, got, p) if a != b][0]
            fail(call, "field=" + k, {"got": _short(got), "want": _short(p)})

    ok, s = guarded("build", lambda: build_sp(Tx, p))
    if not ok:
        return fails
    # text
    ok, got = guarded("as_text", s.as_text)
    if ok:
        if got != text:
            fail("as_text", "text-differs", {"got": got[:200], "want": text[:200]})
        ok, s2 = guarded("from_text(as_text)", lambda: Tx.Spendable.from_text(got))
        if ok:
            same("from_text(as_text)", s2)
    ok, s2 = guarded("from_text", lambda: Tx.Spendable.from_text(text))
    if ok:
        same("from_text", s2)
    # dict
    ok, got = guarded("as_dict", s.as_dict)
    if ok:
        if got != d:
            fail("as_dict", "dict-differs", {"got": _short(list(got.items())), "want": _short(list(d.items()))})
        ok, s2 = guarded("from_dict(as_dict)", lambda: Tx.Spendable.from_dict(got))
        if ok:
            same("from_dict(as_dict)", s2)
    ok, s2 = guarded("from_dict", lambda: Tx.Spendable.from_dict(dict(d)))
    if ok:
        same("from_dict", s2)
    # binary: the output part is the transaction wire format
    ok, got = guarded("as_bin", s.as_bin)
    if ok and got != outbin:
        fail("as_bin", "bytes-differ", {"got": _short(got), "want": _short(outbin)})
    ok, got = guarded("as_bin(as_spendable=True)", lambda: s.as_bin(as_spendable=True), coarse=True)
    if ok:
        if got != binform:
            fail("as_bin(as_spendable=True)", "bytes-differ", {"got": _short(got), "want": _short(binform)})
        ok, s2 = guarded("from_bin(as_bin)", lambda: Tx.Spendable.from_bin(got))
        if ok:
            same("from_bin(as_bin)", s2)
    ok, s2 = guarded("from_bin", lambda: Tx.Spendable.from_bin(binform))
    if ok:
        same("from_bin", s2)
    return fails


# ---------------------------------------------------------------- streaming TLC records into worker processes

def _run_chunk(args):
    fname, recs, syms = args
    f = globals()[fname]
    out = []
    for r in recs:
        for sym in syms:
            out.extend(f(r, sym))
    return len(recs) * len(syms), _slim(out)


def _slim(fails, keep=3):
    """keep the full detail of only a few failures per key (records can be large)"""
    seen = {}
    out = []
    for k, what, detail in fails:
        seen[k] = seen.get(k, 0) + 1
        out.append((k, what, detail if seen[k] <= keep else None))
    return out


class StreamReplayer(object):
    """feeds records to a fork pool in chunks while TLC is still printing them"""

    def __init__(self, fname, syms, nproc, chunk=64):
        import multiprocessing as mp
        self.fname, self.syms, self.chunk = fname, tuple(syms), chunk
        self.pool = mp.get_context("fork").Pool(nproc)
        self.nproc = nproc
        self.buf = []
        self.pending = []
        self.executed = 0
        self.records = 0
        self.fails = []

    def feed(self, rec):
        self.buf.append(rec)
        self.records += 1
        if len(self.buf) >= self.chunk:
            self._flush()

    def _flush(self):
        if self.buf:
            self.pending.append(self.pool.apply_async(_run_chunk, ((self.fname, self.buf, self.syms),)))
            self.buf = []
        while len(self.pending) > 6 * self.nproc:
            self._collect(self.pending.pop(0))

    def _collect(self, ar):
        n, fails = ar.get()
        self.executed += n
        self.fails.extend(fails)

    def finish(self):
        self._flush()
        for ar in self.pending:
            self._collect(ar)
        self.pending = []
        self.pool.close()
        self.pool.join()
        return self.fails


# ---------------------------------------------------------------- context-free check (C20)

def sval(v):
    n = num(v["mag"])
    return -n if v["neg"] else n


def abs_chk(rec):
    return (num(rec["version"]),
            tuple((expand(i["hash"]), num(i["index"]), expand(i["script"]), num(i["seq"]),
                   tuple(expand(w) for w in seq(i["wit"]))) for i in seq(rec["ins"])),
            tuple((sval(o["value"]), expand(o["script"])) for o in seq(rec["outs"])),
            num(rec["lock"]))


def chk_class(rec, p):
    """class-level signature of a C20 case: the features that put it on (or next to) a rule"""
    M = num(rec["maxmoney"])
    vals = set()
    for v, _ in p[2]:
        if v < 0:
            vals.add("neg")
        elif v == M:
            vals.add("max")
        elif v > M:
            vals.add(">max")
    tot = sum(v for v, _ in p[2])
    feats = []
    kinds = set()
    for i in p[1]:
        hz, ix = i[0] == b"\0" * 32, i[1] == 0xFFFFFFFF
        kinds.add("null" if hz and ix else "hashnull" if hz else "idxnull" if ix else "n")
    special = sorted(kinds - {"n"})
    feats.append("ins=" + ("none" if not p[1] else "1" if len(p[1]) == 1 else "many"))
    if special:
        feats.append("outpoints=" + "+".join(special))
    if len({(i[0], i[1]) for i in p[1]}) != len(p[1]):
        feats.append("dup")
    if len(p[1]) == 1 and p[1][0][0] == b"\0" * 32:
        sl = len(p[1][0][2])
        feats.append("script0=%s" % ("<2" if sl < 2 else "2..100" if sl <= 100 else ">100"))
    if not p[2]:
        feats.append("outs=none")
    if vals:
        feats.append("values=" + "+".join(sorted(vals)))
    if tot == M and "max" not in vals:
        feats.append("total=max")
    elif tot > M and not vals & {">max"}:
        feats.append("total>max")
    if rec["total"] >= 900000:
        feats.append("stripped%smax,total%smax" % tuple("<=" if x <= 1000000 else ">" for x in (rec["stripped"], rec["total"])))
    return "|".join(feats)


def observe_check(tx):
    """call check(); classify what happened"""
    from pycoin.coins.exceptions import ValidationFailureError
    try:
        r = tx.check()
    except ValidationFailureError as e:
        return "reject", "ValidationFailureError:" + str(e)
    except Exception as e:       # any other exception also refuses the transaction; reported separately
        return "reject", type(e).__name__ + ":" + str(e)[:80]
    return ("accept", None) if r is None else ("accept", "returned " + repr(r)[:40])


def snapshot(tx):
    return (project_tx(tx), project_unspents(tx))


def check_chk_record(rec, sym=None):
    fails = []
    sym = rec["coin"]
    Tx = network(sym).tx
    p = abs_chk(rec)
    cls = chk_class(rec, p)
    want = rec["verdict"]
    defects = ",".join(sorted(seq(rec["defects"])))

    def fail(call, what, detail=None):
        fails.append(("C20|%s|%s|%s" % (call, cls, what),
                      "%s tx.%s on %s (defects: %s): %s" % (sym, call, cls, defects or "none", what),
                      {"sym": sym, "call": call, "what": what, "detail": detail, "case": rec}))

    try:
        tx = build_tx(Tx, p)
        if Tx.MAX_MONEY != num(rec["maxmoney"]):
            fail("MAX_MONEY", "expected=%d|got=%d" % (num(rec["maxmoney"]), Tx.MAX_MONEY))
        if p[1] and (len(p[1]) + len(p[2])) % 2 == 0:
            # attach the outputs being spent (object state that a check must leave alone as well)
            tx.set_unspents([Tx.TxOut(1000 + k, b"\x51") for k in range(len(p[1]))])
        before = snapshot(tx)
        serialisable = all(0 <= v < 2 ** 64 for v, _ in p[2])
        bin_before = tx.as_bin() if serialisable else None
    except Exception as e:
        fail("build", "exc=" + type(e).__name__, repr(e)[:300])
        return fails
    # the calls, in an order that also catches state left behind by an earlier call
    for call in ("check", "is_coinbase", "bad_solution_count", "check"):
        try:
            if call == "check":
                got, info = observe_check(tx)
                if info is not None and not info.startswith("ValidationFailureError"):
                    # refused or answered, but not in the documented way
                    if want != "any" and got != want or info.startswith("returned"):
                        fail(call, "expected=%s|got=%s(%s)" % (want, got, info.split(":")[0]), info)
                elif want != "any" and got != want:
                    fail(call, "expected=%s|got=%s" % (want, got), info)
            elif call == "is_coinbase":
                got = bool(tx.is_coinbase())
                if rec["coinbase"] and not got:
                    fail(call, "coinbase-not-recognised")
                elif got != rec["coinbase"]:
                    # what is_coinbase answers on a non-coinbase is not demanded by the property: an observation
                    fails.append(("OBS", "is_coinbase|expected=%s|got=%s|%s" % (rec["coinbase"], got, cls), None))
            else:
                got = tx.bad_solution_count()
                if rec["coinbase"] and got != 0:
                    fail(call, "coinbase-counted-unsigned|got=%r" % (got,))
        except Exception as e:
            if call == "bad_solution_count" and not rec["coinbase"]:
                pass        # how many inputs of a non-coinbase are unsigned, or whether that can be told, is not this property
            else:
                fail(call, "exc=" + type(e).__name__, repr(e)[:300])
        try:
            if snapshot(tx) != before or (serialisable and tx.as_bin() != bin_before):
                fail(call, "transaction-modified")
                break
        except Exception as e:
            fail(call, "exc-after=" + type(e).__name__, repr(e)[:300])
    return fails


# ---------------------------------------------------------------- C20: one long-lived object with a history

def abs_obj(o):
    """ShowObj record of MC_TxCheckHistory -> plain projection with signed values"""
    return abs_chk(o)


def _apply_edit(Tx, tx, act):
    """apply one edit of the spec's history to the live pycoin object, through its public fields"""
    name = act[0]
    if name == "set_in_script":
        tx.txs_in[act[1] - 1].script = expand(act[2])
    elif name == "set_out_script":
        tx.txs_out[act[1] - 1].script = expand(act[2])
    elif name == "set_witness":
        tx.set_witness(act[1] - 1, [expand(w) for w in seq(act[2])])
    elif name == "set_value":
        tx.txs_out[act[1] - 1].coin_value = sval(act[2])
    elif name == "set_outpoint":
        tx.txs_in[act[1] - 1].previous_hash = expand(act[2])
        tx.txs_in[act[1] - 1].previous_index = num(act[3])
    elif name == "append_in":
        i = act[1]
        tx.txs_in.append(Tx.TxIn(expand(i["hash"]), num(i["index"]), expand(i["script"]), num(i["seq"])))
    elif name == "remove_in":
        tx.txs_in.pop()
    elif name == "append_out":
        o = act[1]
        tx.txs_out.append(Tx.TxOut(sval(o["value"]), expand(o["script"])))
    elif name == "remove_out":
        tx.txs_out.pop()
    else:
        raise ValueError(name)


def _pubstate(tx):
    p = project_tx(tx)
    ok = all(0 <= v < 2 ** 64 for v, _ in p[2])
    return p, project_unspents(tx), (tx.as_bin() if ok else None)


def check_hist_record(rec, sym=None):
    """Run one history of MC_TxCheckHistory on ONE pycoin object; at every check() also on a fresh object
    built from the current fields.  The verdict must be the one the spec derives from the current fields."""
    fails = []
    sym = rec["coin"]
    Tx = network(sym).tx
    acts = rec["acts"]
    kinds = ",".join(a[0] for a in acts)

    def fail(step, call, what, detail=None):
        fails.append(("C20|history|%s|step=%d|%s|%s" % (kinds, step + 1, call, what),
                      "%s history [%s], step %d %s: %s" % (sym, kinds, step + 1, call, what),
                      {"sym": sym, "step": step, "what": what, "detail": detail, "case": rec}))

    try:
        tx = build_tx(Tx, abs_obj(rec["start"]))
    except Exception as e:
        fail(-1, "build", "exc=" + type(e).__name__, repr(e)[:200])
        return fails
    for k, (act, out) in enumerate(zip(acts, rec["outs"])):
        want_fields = abs_obj(out["obj"])
        facts = out["facts"]
        name = act[0]
        try:
            if name == "check":
                before = _pubstate(tx)
                got, info = observe_check(tx)
                want = facts["verdict"]
                if want != "any" and got != want:
                    fail(k, "check", "long-lived|expected=%s|got=%s" % (want, got), info)
                if _pubstate(tx) != before:
                    fail(k, "check", "transaction-modified")
                fresh = build_tx(Tx, want_fields)
                gotf, infof = observe_check(fresh)
                if want != "any" and gotf != want:
                    fail(k, "check", "fresh|expected=%s|got=%s" % (want, gotf), infof)
                if want != "any" and got != gotf:
                    fail(k, "check", "long-lived-differs-from-fresh|long-lived=%s|fresh=%s" % (got, gotf))
            elif name == "is_coinbase":
                before = _pubstate(tx)
                got = bool(tx.is_coinbase())
                if facts["coinbase"] and not got:
                    fail(k, name, "coinbase-not-recognised")
                if _pubstate(tx) != before:
                    fail(k, name, "transaction-modified")
            elif name == "bad_solution_count":
                before = _pubstate(tx)
                try:
                    got = tx.bad_solution_count()
                except Exception:
                    if facts["coinbase"]:
                        raise
                    got = None
                if facts["coinbase"] and got != 0:
                    fail(k, name, "coinbase-counted-unsigned|got=%r" % (got,))
                if _pubstate(tx) != before:
                    fail(k, name, "transaction-modified")
            else:
                _apply_edit(Tx, tx, act)
        except Exception as e:
            fail(k, name, "exc=" + type(e).__name__, repr(e)[:200])
            return fails
        # the live object holds exactly the fields the spec's object holds
        if project_tx(tx) != want_fields:
            fail(k, name, "fields-differ-from-spec|" + diff_field(project_tx(tx), want_fields))
            return fails
    return fails


# ---------------------------------------------------------------- C07: one long-lived object asked for ids / bytes between edits

def _apply_wire_edit(Tx, tx, act, after):
    """apply one edit of MC_TxWireHistory to the live pycoin object; `after` is the projection of the fields
    the spec's object has after the edit (the new value is read from there)"""
    op, k = act["op"], act["at"] - 1
    if op == "set_version":
        tx.version = after[0]
    elif op == "set_lock":
        tx.lock_time = after[3]
    elif op == "set_seq":
        tx.txs_in[k].sequence = after[1][k][3]
    elif op == "set_in_script":
        tx.txs_in[k].script = after[1][k][2]
    elif op == "set_outpoint":
        tx.txs_in[k].previous_hash = after[1][k][0]
        tx.txs_in[k].previous_index = after[1][k][1]
    elif op == "set_amount":
        tx.txs_out[k].coin_value = after[2][k][0]
    elif op == "set_out_script":
        tx.txs_out[k].script = after[2][k][1]
    elif op == "set_witness":
        tx.set_witness(k, list(after[1][k][4]))
    elif op == "attr_witness":
        tx.txs_in[k].witness = list(after[1][k][4])          # what Tx.parse does
    elif op == "append_in":
        h, idx, script, sq, wit = after[1][k]
        t = Tx.TxIn(h, idx, script, sq)
        if wit:
            t.witness = list(wit)
        tx.txs_in.append(t)
    elif op == "remove_in":
        tx.txs_in.pop()
    elif op == "append_out":
        tx.txs_out.append(Tx.TxOut(*after[2][k]))
    elif op == "remove_out":
        tx.txs_out.pop()
    else:
        raise ValueError(op)


def _wire_calls(tx, op):
    """the observations of one call step: [(name, value)]"""
    if op == "id":
        return [("hash", tx.hash()), ("id", tx.id())]
    if op == "w_id":
        return [("w_hash", tx.w_hash()), ("w_id", tx.w_id())]
    return [("as_bin", tx.as_bin()), ("as_hex", tx.as_hex()), ("as_bin(include_witness_data=False)", tx.as_bin(include_witness_data=False)),
            ("has_witness_data", bool(tx.has_witness_data()))]


def check_whist_record(rec, sym):
    """Run one history of MC_TxWireHistory on ONE pycoin object; every call is also made on a fresh object
    built from the current fields.  What a call returns must be what the spec derives from the current fields."""
    fails = []
    Tx = network(sym).tx
    acts = rec["acts"]
    kinds = ",".join(a["op"] for a in acts)

    def fail(step, call, what, detail=None):
        fails.append(("C07|history|%s|%s|%s" % (sym, call, what),
                      "%s history [%s], step %d %s: %s" % (sym, kinds, step + 1, call, what),
                      {"sym": sym, "step": step, "what": what, "detail": detail, "case": rec}))

    try:
        tx = build_tx(Tx, abs_tx(rec["start"]))
    except Exception as e:
        fail(-1, "build", "exc=" + type(e).__name__, repr(e)[:200])
        return fails
    last_edit = "none"
    for k, (act, out) in enumerate(zip(acts, rec["outs"])):
        fields = abs_tx(out["obj"])
        op = act["op"]
        try:
            if op in ("id", "w_id", "bytes"):
                fx = out["facts"]
                txid, wtxid = eval_term(fx["txid"]), eval_term(fx["wtxid"])
                wire, stripped = expand(fx["wire"]), expand(fx["stripped"])
                want = {"hash": txid, "id": txid[::-1].hex(), "w_hash": wtxid, "w_id": wtxid[::-1].hex(),
                        "as_bin": wire, "as_hex": wire.hex(), "as_bin(include_witness_data=False)": stripped,
                        "has_witness_data": fx["bip144"]}
                got = _wire_calls(tx, op)
                gotf = _wire_calls(build_tx(Tx, fields), op)
                for (name, g), (_, gf) in zip(got, gotf):
                    if gf != want[name]:
                        fail(k, name, "fresh-object|not-of-current-fields")
                    elif g != want[name]:
                        # right on a fresh object with these fields, wrong on the object that has a past
                        fail(k, name, "long-lived-object|not-of-current-fields",
                             {"last_edit": last_edit, "got": _short(g), "want": _short(want[name])})
            else:
                _apply_wire_edit(Tx, tx, act, fields)
                last_edit = op
        except Exception as e:
            fail(k, op, "exc=" + type(e).__name__, repr(e)[:200])
            return fails
        # the live object holds exactly the fields the spec's object holds (a call changes none)
        if project_tx(tx) != fields:
            fail(k, op, "fields-differ-from-spec|" + diff_field(project_tx(tx), fields))
            return fails
    return fails
