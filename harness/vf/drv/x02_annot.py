"""Driver + projection for X02 (b): pycoin's annotate_scripts on a spend.

Python here (DEVGUIDE): (b) concretizes a case (scriptSig, scriptPubKey, witness, context) into a real spending
transaction with vf.drv.script.build_txs (C03's driver, unchanged), (c) calls annotate_scripts and projects every
listed row onto (offset, opcode, the data its text shows, its text, labelled as key / as signature).  What the
listing should be is printed by TLC (spec/X02_Annotate.tla); `judge` applies the acceptance rule stated there
(Accepts / TextOK / the role sets) to the sets TLC printed - it computes no expectation of its own.
"""
from __future__ import annotations

import re

from . import script as SC

OPN = {v: k for k, v in SC.OPNAMES.items() if k not in ("OP_TRUE", "OP_FALSE", "OP_NOP2", "OP_NOP3")}
_PUSH = re.compile(r"^\[PUSH_(\d+)\] ([0-9a-f]*)$")
_DATA = re.compile(r"^\[([0-9a-f]*)\]$")


def frozen(tx):
    return (tx.version, tx.lock_time,
            tuple((t.previous_hash, t.previous_index, bytes(t.script), t.sequence, tuple(bytes(w) for w in t.witness))
                  for t in tx.txs_in),
            tuple((o.coin_value, bytes(o.script)) for o in tx.txs_out),
            tuple(None if u is None else (u.coin_value, bytes(u.script)) for u in tx.unspents))


def verdict(tx, idx):
    from pycoin.coins.SolutionChecker import ScriptError
    try:
        with SC.time_limit():
            tx.check_solution(idx)
        return "ok"
    except ScriptError:
        return "fail"
    except Exception as e:  # noqa
        return "exc:%s" % type(e).__name__


def shown_data(text):
    """the bytes an instruction text displays: [[..]] for '[PUSH_n] hex' / '[hex]', [] when it displays a word"""
    m = _PUSH.match(text) or _DATA.match(text)
    if m:
        return [list(bytes.fromhex(m.group(m.lastindex)))]
    return []


def observe(tx, idx=0, network=None):
    """-> {"rows": [{"pc", "op", "shown", "text", "sec", "sig", "pre"}], "exc": text or None,
           "v0": verdict before, "v1": verdict after, "changed": bool}"""
    if network is None:
        from pycoin.symbols.btc import network
    out = {"rows": [], "exc": None}
    before = frozen(tx)
    out["v0"] = verdict(tx, idx)
    try:
        with SC.time_limit():
            rows = network.annotate.annotate_scripts(tx, idx)
        for (pre, pc, opcode, text, post) in rows:
            out["rows"].append({"pc": pc, "op": opcode, "shown": shown_data(text), "text": text,
                                "sec": any(ln.startswith("SEC for") for ln in post),
                                "sig": any(ln.startswith("r: ") for ln in post),
                                "pre": list(pre)})
    except Exception as e:  # noqa
        out["exc"] = "%s: %s" % (type(e).__name__, str(e)[:100])
    out["v1"] = verdict(tx, idx)
    out["changed"] = frozen(tx) != before
    return out


def tx_of_case(case):
    """the spending transaction of a case (+ input index)"""
    return SC.spend_tx_of(case)


def opname(op):
    return OPN.get(op, "PUSH%d" % op if 1 <= op <= 75 else "0x%02x" % op)


def text_ok(row, want):
    """X02_Annotate!TextOK on one reported row against the row TLC printed"""
    if want["ispush"]:
        return row["shown"] == want["data"] or (row["shown"] == [] and (row["text"] in want["alias"] or want["data"] == [[]]))
    return row["shown"] == [] and (not want["names"] or row["text"] in want["names"])


def judge(lst, obs, spec_status=None):
    """lst: listing record printed by TLC; obs: observe(..).  -> list of (key suffix, what)"""
    fails = []
    if obs["exc"]:
        return [("exception=%s" % obs["exc"].split(":")[0], "annotate_scripts raised %s" % obs["exc"])]
    if obs["changed"]:
        fails.append(("readonly|transaction-changed", "annotate_scripts changed the transaction"))
    if obs["v0"] != obs["v1"]:
        fails.append(("verdict-changed|before=%s|after=%s" % (obs["v0"], obs["v1"]), "check_solution answered %s before and %s after annotate_scripts" % (obs["v0"], obs["v1"])))
    if lst["status"] in ("ok", "fail") and obs["v0"] != lst["status"]:
        fails.append(("interpreter-verdict|spec=%s|pycoin=%s" % (lst["status"], obs["v0"]),
                      "check_solution says %s, the consensus specification %s (%s)" % (obs["v0"], lst["status"], lst["err"])))
        return fails
    full = lst["exec"] + lst["fail"] + lst["rest"]
    rows = obs["rows"]
    nexec = len(lst["exec"])
    bad = None
    for i, r in enumerate(rows):
        if i >= len(full) or (r["pc"], r["op"]) != (full[i]["pc"], full[i]["op"]):
            bad = i
            break
    if bad is None and len(rows) < nexec:
        bad = len(rows)
    ctxs = "verdict=%s|endphase=%s" % (lst["status"], lst["endphase"])
    if bad is not None:
        if bad < nexec:
            what = "executed-rows"
        elif any(not x["ok"] for x in full[:bad]):
            what = "tail-after-malformed-push"
        else:
            what = "tail"
        got = [(r["pc"], opname(r["op"])) for r in rows]
        want = [(x["pc"], opname(x["op"])) for x in full]
        fails.append(("rows|%s|%s" % (what, ctxs),
                      "row %d of the listing is not the instruction the evaluation has there: listed %s; carried out %s, then (never reached) %s" % (
                          bad, got, want[:nexec], want[nexec:])))
    n = len(rows) if bad is None else bad
    for i in range(n):
        r, w = rows[i], full[i]
        if not text_ok(r, w):
            if w["ispush"]:
                d = w["data"][0] if w["data"] else None
                cat = "malformed-push" if d is None else "push-1-byte=%s" % ("0" if d == [0] else "129" if d == [129] else ">16" if d[0] > 16 else "1..16") if len(d) == 1 else "push"
            else:
                cat = "word=%s" % opname(w["op"])
            fails.append(("text|%s" % cat, "instruction at offset %d (opcode 0x%02x, pushes %s) is written %r; acceptable: %s" % (
                w["pc"], w["op"], w["data"], r["text"], (w["names"] or ["(any)"]) if not w["ispush"] else ["the bytes"] + w["alias"])))
            break
    # roles: which pushed blobs are labelled as public key / as signature
    keys = set(tuple(x) for x in lst["keys"])
    sigs = set(tuple(x) for x in lst["sigs"])
    loose = set(tuple(x) for x in lst["loose"])
    for i in range(min(n, nexec + len(lst["fail"]))):
        r, w = rows[i], full[i]
        if not w["data"]:
            continue
        blob = tuple(w["data"][0])
        if blob in loose:
            continue
        if r["sec"] != (blob in keys):
            fails.append(("roles|key|%s" % ("missing" if blob in keys else "invented"),
                          "the item pushed at offset %d (%d bytes) is %s as a public key by an executed signature check, the listing %s it so" % (
                              w["pc"], len(blob), "used" if blob in keys else "NOT used", "labels" if r["sec"] else "does not label")))
            break
        if r["sig"] and blob not in sigs:
            fails.append(("roles|signature|invented", "the item pushed at offset %d (%d bytes) is not used as a signature by an executed signature check, the listing labels it so" % (w["pc"], len(blob))))
            break
    return fails
