"""X06 (1): driver and projection for pycoin.services.tx_db.TxDb and the consumers that fill in spent
outputs from it (Tx.unspents_from_db, Tx.validate_unspents).

Everything a behaviour needs comes from TLC: the transactions and the bytes of every blob class are printed by
spec/X06_MC_Blobs.tla (built with TxWire, judged by TxParse), ids are hash terms finished with hashlib, the
operations and the outcome / directory contents demanded after each come from spec/X06_MC_TxStore.tla.
This module only (a) turns class letters into bytes / objects, (b) drives a real TxDb over real directories
under /tmp/x06/ with fake lookup callables, (c) projects what happened back into the spec's vocabulary.
"""
from __future__ import annotations

import os
import shutil

from . import txwire

ZERO32 = b"\0" * 32
LETTER = {"none": "-", "full": "f", "strip": "s", "trail": "x", "trunc": "t", "empty": "e", "junk": "j"}
CLASS = {v: k for k, v in LETTER.items()}
BASE = "/tmp/x06"


class Universe(object):
    """the concrete transactions and blob bytes printed by X06_MC_Blobs"""

    def __init__(self, records):
        self.txp = {}        # t -> projection (version, ins, outs, lock)
        self.txid = {}       # t -> 32-byte hash (as Tx.hash() gives it)
        self.blob = {}       # (class, t) -> [bytes, ...] variants
        self.verdict = {}    # (class, t, v) -> "tx" | "notx"
        for r in records:
            if r.get("k") == "txs":
                for i, e in enumerate(r["txs"]):
                    self.txp[i + 1] = txwire.abs_tx(e["tx"])
                    self.txid[i + 1] = txwire.eval_term(e["id"])
            elif r.get("k") == "blob":
                self.blob.setdefault((r["c"], r["t"]), {})[r["v"]] = txwire.expand(r["bytes"])
                self.verdict[(r["c"], r["t"], r["v"])] = r["verdict"]
        self.blob = {k: [v[i] for i in sorted(v)] for k, v in self.blob.items()}
        self.by_hash = {h: t for t, h in self.txid.items()}
        self.by_bytes = {}
        for (c, t), vs in self.blob.items():
            for b in vs:
                self.by_bytes.setdefault(b, (c, t))
        self.strip = {t: txwire.strip_wit(p) for t, p in self.txp.items()}
        self.out_of = {}     # (amount, script) -> (t, x)
        for t, p in self.txp.items():
            for x, o in enumerate(p[2]):
                self.out_of[o] = (t, x)

    def name(self, t):
        return self.txid[t][::-1].hex() + "_tx.bin"

    def amt(self, t, x):
        return 1000 * t + 100 * x + 50                      # Amt of the spec (checked against the printed outputs)

    def script(self, t, x):
        return bytes([118, 169, 2, t, x, 136, 172])

    def check(self):
        """the printed outputs carry the amounts / scripts the spec's Amt speaks of; ids differ"""
        for t, p in self.txp.items():
            for x, (a, s) in enumerate(p[2]):
                if a != self.amt(t, x) or s != self.script(t, x):
                    return "output (%d,%d) printed as %r" % (t, x, (a, s))
        if len(set(self.txid.values())) != len(self.txid):
            return "ids collide"
        seen = {}
        for (c, t), vs in self.blob.items():
            for b in vs:
                if seen.setdefault(b, (c, t)) != (c, t):
                    return "the same bytes stand for %r and %r" % (seen[b], (c, t))
        return None


def letter_of(univ, name_t, data):
    """bytes found in the file named after transaction name_t -> the spec's class letter + id"""
    if data is None:
        return "-"
    if data == b"":
        return "e"
    ct = univ.by_bytes.get(data)
    if ct is None:
        return "?"
    c, t = ct
    return LETTER[c] + (str(t) if t else "")


class Store(object):
    """one TxDb over real directories, with fake lookup methods"""

    NOBJ = 0

    def __init__(self, univ, Tx, conf, look0, tag, salt=0):
        from pycoin.services.tx_db import TxDb
        self.TxDb = TxDb
        self.univ, self.Tx, self.conf = univ, Tx, conf
        # directories are reused by the behaviours of one worker process (removing a directory is slow here);
        # now and then the writable one does not exist beforehand (TxDb creates it)
        self.root = os.path.join(BASE, tag)
        self.ro = [os.path.join(self.root, "ro%d" % (k + 1)) for k in range(conf["nro"])]
        self.w = os.path.join(self.root, "w") if conf["w"] else None
        if salt % 16 == 5 and self.w:
            self.w = os.path.join(self.root, "w-fresh", "txs")
            shutil.rmtree(os.path.join(self.root, "w-fresh"), ignore_errors=True)
        self.dirs = self.ro + ([self.w] if self.w else [])
        for d in self.ro + ([self.w] if self.w and "w-fresh" not in self.w else []):
            if not os.path.isdir(d):
                os.makedirs(d)
        self._sweep()
        self.look = [list(row) for row in txwire.seq(look0)]
        self.calls = []
        self.salt = salt
        self.count = 0
        self.db = self.new_db()

    def _sweep(self):
        for d in self.dirs:
            if os.path.isdir(d):
                for x in os.listdir(d):
                    os.remove(os.path.join(d, x))

    def close(self):
        self._sweep()

    def new_db(self):
        return self.TxDb(lookup_methods=[self._method(m) for m in range(self.conf["nl"])],
                         read_only_paths=list(self.ro), writable_cache_path=self.w)

    # ---- concretisation
    def tx_obj(self, t, form="full"):
        p = self.univ.txp[t] if form == "full" else self.univ.strip[t]
        return txwire.build_tx(self.Tx, p)

    def _method(self, m):
        def lookup(h):
            self.calls.append(m + 1)
            t = self.univ.by_hash.get(h)
            if t is None or t > len(self.look[m]):
                return None
            a = self.look[m][t - 1]
            k = a[0]
            if k == "-":
                return None
            if k == "f":
                return self.tx_obj(int(a[1:]), "full")
            if k == "s":
                return self.tx_obj(int(a[1:]), "strip")
            if k == "o":
                Store.NOBJ += 1
                return ("not a transaction", b"\x01\x00\x00\x00", 17, object())[Store.NOBJ % 4]
            if k == "z":
                Store.NOBJ += 1
                return (0, "", [], b"")[Store.NOBJ % 4]
            if k == "r":
                Store.NOBJ += 1
                raise (IOError("service down"), ValueError("bad json"), KeyError(h), RuntimeError("boom"))[Store.NOBJ % 4]
            raise AssertionError(a)
        return lookup

    def blob_bytes(self, letter):
        c = CLASS[letter[0]]
        if c == "none":
            return None
        if c == "empty":
            return b""
        t = int(letter[1:]) if len(letter) > 1 else 0
        vs = self.univ.blob[(c, t)]
        self.count += 1
        return vs[(self.salt + self.count) % len(vs)]

    def plant(self, d, i, letter):
        path = os.path.join(self.dirs[d - 1], self.univ.name(i))
        data = self.blob_bytes(letter)
        if data is None:
            if os.path.exists(path):
                os.remove(path)
        else:
            with open(path, "wb") as f:
                f.write(data)

    # ---- projection
    def project_dirs(self, nids):
        out, stray = [], []
        known = {self.univ.name(t): t for t in self.univ.txid}
        for d in self.dirs:
            row = []
            names = sorted(os.listdir(d)) if os.path.isdir(d) else []
            for t in range(1, nids + 1):
                p = os.path.join(d, self.univ.name(t))
                row.append(letter_of(self.univ, t, open(p, "rb").read() if os.path.exists(p) else None))
            stray += [os.path.join(os.path.basename(d), x) for x in names if x not in known]
            out.append(row)
        return out, stray

    def snapshot(self):
        snap = {}
        for d in self.dirs:
            for x in os.listdir(d):
                snap[os.path.join(d, x)] = open(os.path.join(d, x), "rb").read()
        return snap

    def restore(self, snap):
        for d in self.dirs:
            for x in os.listdir(d):
                if os.path.join(d, x) not in snap:
                    os.remove(os.path.join(d, x))
        for p, b in snap.items():
            if not os.path.exists(p) or open(p, "rb").read() != b:
                with open(p, "wb") as f:
                    f.write(b)

    def classify_tx(self, r, asked=None):
        if r is None:
            return ("miss", 0, "-")
        try:
            p = txwire.project_tx(r)
            h = r.hash()
        except Exception as e:                          # noqa
            return ("hit", -1, "not-a-tx:%s" % type(r).__name__)
        for t, q in self.univ.txp.items():
            if p == q:
                return ("hit", t, "full") if h == self.univ.txid[t] else ("hit", t, "full-but-hash-differs")
            if p == self.univ.strip[t]:
                return ("hit", t, "strip") if h == self.univ.txid[t] else ("hit", t, "strip-but-hash-differs")
        return ("hit", -1, "unknown-tx")

    # ---- operations (each returns the observation in the spec's vocabulary)
    def get(self, i, db=None):
        self.calls = []
        try:
            r = (db or self.db).get(self.univ.txid[i])
        except Exception as e:                          # noqa
            return {"res": "raise", "t": 0, "form": "-", "calls": list(self.calls), "exc": type(e).__name__}
        res, t, form = self.classify_tx(r)
        return {"res": res, "t": t, "form": form, "calls": list(self.calls), "exc": None}

    def put(self, t):
        try:
            self.db.put(self.tx_obj(t))
        except Exception as e:                          # noqa
            return {"exc": type(e).__name__}
        return {"exc": None}

    def setitem(self, k, t):
        try:
            self.db[self.univ.txid[k]] = self.tx_obj(t)
        except ValueError:
            return {"ok": False, "exc": None}
        except Exception as e:                          # noqa
            return {"ok": False, "exc": type(e).__name__}
        return {"ok": True, "exc": None}

    def spender(self, sp):
        Tx = self.Tx
        ins = []
        for k, inp in enumerate(sp["ins"]):
            if inp["t"] == 0:
                ins.append(Tx.TxIn(ZERO32, 0xFFFFFFFF, b"\x03\x01\x02\x03", 0xFFFFFFFF))
            else:
                ins.append(Tx.TxIn(self.univ.txid[inp["t"]], inp["x"], b"", 0xFFFFFFFE - k))
        return Tx(1, ins, [Tx.TxOut(sp["out"], b"\x51")])

    def fill(self, sp, ign):
        tx = self.spender(sp)
        self.calls = []
        percall = []
        real_get = self.db.get

        def counted(h):                                  # which lookup methods each fetch consulted
            n0 = len(self.calls)
            try:
                return real_get(h)
            finally:
                percall.append(list(self.calls[n0:]))
        self.db.get = counted
        try:
            try:
                tx.unspents_from_db(self.db, ignore_missing=ign)
            finally:
                del self.db.get
        except KeyError:
            return {"st": "keyerror", "us": None, "calls": percall, "exc": "KeyError"}
        except Exception as e:                          # noqa
            return {"st": "raise", "us": None, "calls": percall, "exc": type(e).__name__}
        us = []
        for u in tx.unspents:
            if u is None:
                us.append([0, 0])
            else:
                tu = self.univ.out_of.get((u.coin_value, bytes(u.script)))
                us.append(list(tu) if tu else ["?", "?"])
        try:
            missing = bool(tx.missing_unspents())
            try:
                tx.check_unspents()
                refused = False
            except ValueError:
                refused = True
            if refused != missing:
                missing = "check_unspents-disagrees-with-missing_unspents"
        except Exception as e:                          # noqa
            missing = "raise:" + type(e).__name__
        return {"st": "ok", "us": us, "calls": percall, "exc": None, "missing": missing}

    def validate(self, sp):
        from pycoin.coins.exceptions import BadSpendableError, ValidationFailureError
        tx = self.spender(sp)
        us = []
        for inp in sp["ins"]:
            if inp["t"] == 0:
                us.append(self.Tx.TxOut(0, b""))
                continue
            a, s = self.univ.amt(inp["t"], inp["x"]), self.univ.script(inp["t"], inp["x"])
            if inp["cl"] == "amt":
                a += 1
            elif inp["cl"] == "scr":
                s = s + b"\x00"
            elif inp["cl"] == "other":
                a, s = a + 7, b"\x6a\x01\x99"
            us.append(self.Tx.TxOut(a, s))
        tx.set_unspents(us)
        self.calls = []
        try:
            fee = tx.validate_unspents(self.db)
        except KeyError:
            return {"res": "keyerror", "exc": "KeyError"}
        except (BadSpendableError, ValidationFailureError) as e:
            return {"res": "badspendable", "exc": type(e).__name__}
        except IndexError:
            return {"res": "indexerror", "exc": "IndexError"}
        except Exception as e:                          # noqa
            return {"res": "raise", "exc": type(e).__name__}
        return {"res": "fee", "fee": fee, "exc": None}


def _calls(x):
    return [list(txwire.seq(c)) for c in txwire.seq(x)]


def run_behaviour(univ, Tx, rec, spenders, tag, salt=0, fresh_check=True):
    """execute one printed behaviour; returns None or (key, what, detail) for the first disagreement"""
    conf = rec["conf"]
    st = Store(univ, Tx, conf, rec["look0"], tag, salt)
    nids = len(rec["acts"][0]["dirs"][0]) if rec["acts"] and rec["acts"][0]["dirs"] else len(univ.txid)
    try:
        for step, act in enumerate(txwire.seq(rec["acts"])):
            l = act["last"]
            op = l["op"]
            where = {"step": step + 1, "op": l, "conf": conf, "look0": rec["look0"],
                     "history": [a["last"] for a in rec["acts"][:step + 1]]}
            if op == "edit":
                st.plant(l["d"], l["i"], l["b"])
            elif op == "setlook":
                st.look[l["m"] - 1][l["i"] - 1] = l["a"]
            elif op == "put":
                o = st.put(l["t"])
                if o["exc"]:
                    return ("X06|store|put|raises=%s" % o["exc"], "TxDb.put raised", where)
            elif op == "setitem":
                o = st.setitem(l["k"], l["t"])
                if o["exc"] or o["ok"] != l["ok"]:
                    return ("X06|store|setitem|same-id=%s|want-accepted=%s|got=%s" % (l["k"] == l["t"], l["ok"], o["exc"] or o["ok"]),
                            "db[id_k] = tx_t", dict(where, got=o))
            elif op == "get":
                o = st.get(l["i"])
                bad = _cmp_get(l, o)
                if bad:
                    return (bad, "TxDb.get answered differently from the rule", dict(where, got=o))
            elif op == "fill":
                o = st.fill(spenders[l["s"] - 1], l["ign"])
                bad = _cmp_fill(l, o)
                if bad == "stop":
                    return None
                if bad:
                    return (bad, "Tx.unspents_from_db differs from the rule", dict(where, got=o, spender=spenders[l["s"] - 1]))
            elif op == "validate":
                o = st.validate(spenders[l["s"] - 1])
                want = sorted(l["res"])
                if o["res"] not in want or (o["res"] == "fee" and o["fee"] != l["fee"]):
                    return ("X06|store|validate|want=%s|got=%s" % ("/".join(want), o["res"] if o["res"] != "fee" else "fee-differs"),
                            "Tx.validate_unspents differs from the rule", dict(where, got=o, spender=spenders[l["s"] - 1]))
                if l["orders"] > 1:
                    return None          # several fetch orders allowed: the directories may differ; the behaviour ends here
            else:
                raise AssertionError(op)
            got, stray = st.project_dirs(nids)
            want = [list(r) for r in act["dirs"]]
            if stray:
                return ("X06|store|%s|stray-file" % op, "a file with an unexpected name appeared: %s" % stray, where)
            if got != want:
                cls = sorted({"%s->%s" % (w[0], g[0]) for wr, gr in zip(want, got) for w, g in zip(wr, gr) if w != g})
                return ("X06|store|%s|dirs|%s" % (op, ",".join(cls)), "directory contents differ after the call",
                        dict(where, want=want, got=got))
        # history-free: every id asked now, of the long-lived object and of a fresh one, answers as the rule says
        if "fin" in rec:
            snap = st.snapshot()
            for i, f in enumerate(txwire.seq(rec["fin"])):
                want = {"i": i + 1, "res": f[0], "t": (i + 1) if f[0] == "hit" else 0, "form": f[1], "calls": f[2]}
                for which, db in (("long-lived", st.db),) + ((("fresh", st.new_db()),) if fresh_check else ()):
                    o = st.get(i + 1, db)
                    st.restore(snap)
                    bad = _cmp_get(want, o)
                    if bad:
                        return (bad.replace("X06|store|get|", "X06|store|get-at-end(%s)|" % which),
                                "asked at the end of the history, the %s TxDb answers differently from the rule" % which,
                                {"conf": conf, "look0": rec["look0"], "history": [a["last"] for a in rec["acts"]], "want": want, "got": o})
        return None
    finally:
        st.close()


def _cmp_get(l, o):
    want = (l["res"], l["t"], l["form"], list(txwire.seq(l["calls"])))
    got = (o["res"], o["t"], o["form"], o["calls"])
    if want == got:
        return None
    if want[:3] != got[:3]:
        return "X06|store|get|want=%s:%s|got=%s:%s%s" % (
            l["res"], l["form"], o["res"], o["form"] if o["t"] in (0, l.get("i", o["t"])) else "other-transaction",
            ("(%s)" % o["exc"]) if o["exc"] else "")
    return "X06|store|get|lookup-calls|want=%d|got=%d" % (len(want[3]), len(got[3]))


def _cmp_fill(l, o):
    st = l["st"]
    if st == "oob":
        # the transaction is there, the output is not: any exception; or (missing ones ignored) nothing at that place
        if o["st"] in ("raise", "keyerror"):
            return "stop"
        if o["st"] == "ok" and l["ign"]:
            return "stop"
        return "X06|store|fill|output-index-out-of-range|got=an-output"
    if st == "raise":
        return None if o["st"] == "raise" else "X06|store|fill|want=raise|got=%s" % o["st"]
    if o["st"] != st:
        return "X06|store|fill|want=%s|got=%s%s" % (st, o["st"], ("(%s)" % o["exc"]) if o["exc"] else "")
    if st == "ok":
        want = [list(u) for u in txwire.seq(l["us"])]
        if o["us"] != want:
            kinds = sorted({"none-for-found" if g == [0, 0] else "found-for-none" if w == [0, 0] else
                            "other-index" if g[0] == w[0] else "other-transaction"
                            for w, g in zip(want, o["us"]) if w != g} or {"length"})
            return "X06|store|fill|unspents|%s" % ",".join(kinds)
        if o["missing"] != l["missing"]:
            return "X06|store|fill|missing_unspents|want=%s|got=%s" % (l["missing"], o["missing"])
    if _calls(l["calls"]) != o["calls"][:len(_calls(l["calls"]))] or len(o["calls"]) != len(_calls(l["calls"])):
        return "X06|store|fill|lookup-calls-differ"
    return None
