"""C13 driver: concretise the abstract requests of TxBuild/Unspents/CoinDecimal into pycoin
objects, execute pycoin, project the result back onto the spec's vocabulary.

Nothing here decides what is right: labels become hashes/scripts/addresses, small amounts
become satoshi counts (optionally through the linear forms of the scaling lemma, evaluated
for a concrete K), results become label/amount tuples.
"""
from __future__ import annotations

import decimal
import hashlib

from pycoin.symbols.btc import network
from pycoin.coins import tx_utils as core_tx_utils
from pycoin import convention

Tx = network.tx
TxOut = Tx.TxOut
TxIn = Tx.TxIn
Spendable = Tx.Spendable

MAX_MONEY = 21 * 10 ** 14
NLABEL = 12


def _h160(i):
    return hashlib.sha256(b"c13-h160-%d" % i).digest()[:20]


def _mk_addresses():
    a = {}
    for t in range(1, NLABEL + 1):
        kind = t % 4
        if kind == 1:
            a[t] = network.address.for_p2pkh(_h160(t))
        elif kind == 2:
            a[t] = network.address.for_p2pkh_wit(_h160(t))
        elif kind == 3:
            a[t] = network.address.for_p2sh(_h160(t))
        else:
            a[t] = network.keys.private(t).address()
    return a


ADDR = _mk_addresses()                                            # "to" label -> address text
ADDR_SCRIPT = {t: network.contract.for_address(a) for t, a in ADDR.items()}
TO_OF_SCRIPT = {s: t for t, s in ADDR_SCRIPT.items()}
# script labels of spendables (what the spent outputs are locked by)
SCR = {s: network.contract.for_p2pkh(_h160(100 + s)) if s % 2 else network.contract.for_p2pkh_wit(_h160(100 + s))
       for s in range(1, NLABEL + 1)}
SCR_OF = {v: k for k, v in SCR.items()}
FILLER = TxOut(1, network.contract.for_p2pkh(_h160(999)))


def source_tx(label, outs, salt=0):
    """a real transaction whose outputs are `outs` = [(amount, script label)]; `salt` varies
    the content (hence the id) without touching the outputs"""
    tin = TxIn.coinbase_tx_in(b"c13 source %d/%d" % (label, salt))
    return Tx(1, [tin], [TxOut(a, SCR[s]) for a, s in outs])


class World:
    """source transactions consistent with a list of spendable tuples (src, idx, amt, scr)"""

    def __init__(self, sps):
        by_src = {}
        for src, idx, amt, scr in sps:
            by_src.setdefault(src, {})[idx] = (amt, scr)
        self.sources = {}
        for src, d in by_src.items():
            n = max(d) + 1
            outs = [d.get(i, (1, 1)) for i in range(n)]
            self.sources[src] = source_tx(src, outs)
        self.hash_of = {src: t.hash() for src, t in self.sources.items()}
        self.label_of = {h: src for src, h in self.hash_of.items()}

    def spendable(self, sp, form="obj"):
        src, idx, amt, scr = sp
        s = Spendable(amt, SCR[scr], self.hash_of[src], idx)
        if form == "text":
            return s.as_text()
        if form == "dict":
            return s.as_dict()
        return s


def project_tx(tx, label_of):
    """built transaction -> the observations the spec talks about"""
    ins = [[label_of.get(i.previous_hash, 0), i.previous_index] for i in tx.txs_in]
    unsp = []
    for u in tx.unspents:
        if u is None:
            unsp.append(None)
        else:
            unsp.append([u.coin_value, SCR_OF.get(u.script, 0),
                         label_of.get(getattr(u, "tx_hash", None), 0), getattr(u, "tx_out_index", None)])
    outs = [[TO_OF_SCRIPT.get(o.script, 0), o.coin_value] for o in tx.txs_out]
    return {"ins": ins, "unsp": unsp, "outs": outs,
            "tin": tx.total_in(), "tout": tx.total_out(), "fee": tx.fee()}


def payables(pays, unspec_form):
    out = []
    for to, amt in pays:
        if amt == 0:
            out.append(ADDR[to] if unspec_form == "bare" else (ADDR[to], 0))
        else:
            out.append((ADDR[to], amt))
    return out


def build(sps, pays, fee, sp_form="obj", unspec_form="bare", entry="network", world=None):
    """execute one request; returns ({"exc": name} | projection, tx or None, world)"""
    w = world or World(sps)
    spendables = [w.spendable(sp, sp_form) for sp in sps]
    try:
        if entry == "network":
            tx = network.tx_utils.create_tx(spendables, payables(pays, unspec_form), fee=fee)
        elif entry == "core":
            tx = core_tx_utils.create_tx(network, spendables, payables(pays, unspec_form), fee=fee)
        elif entry == "pool":
            # the documented lower-level route: a transaction with zero-valued outputs, then distribute
            objs = [w.spendable(sp, "obj") for sp in sps]
            tx = Tx(1, [s.tx_in() for s in objs], [TxOut(amt, ADDR_SCRIPT[to]) for to, amt in pays])
            tx.set_unspents(objs)
            network.tx_utils.distribute_from_split_pool(tx, fee)
        else:
            raise AssertionError(entry)
    except AssertionError:
        raise
    except Exception as e:       # the property only says "raises"
        return {"exc": type(e).__name__, "msg": str(e)[:120]}, None, w
    return project_tx(tx, w.label_of), tx, w


# ---------------------------------------------------------------- validate_unspents

class Db(dict):
    """tx_db: .get(hash) -> Tx or None"""


def validate_case(rec, mult=1):
    """rec: a "validate" record of MC_UnspentsReplay (amounts are multiplied by `mult`).
    Returns {"ret": fee} or {"exc": name}."""
    # the world the outpoints refer to: source s is the transaction the spec's Truth describes
    truth = {s: [(a * mult, sc) for a, sc in outs] for s, outs in enumerate(rec["truth"], 1)}
    src_tx = {s: source_tx(s, truth[s]) for s in truth}
    hash_of = {s: t.hash() for s, t in src_tx.items()}
    spendables = []
    for (src, idx), (amt, scr) in zip(rec["ins"], rec["unsp"]):
        spendables.append(Spendable(amt * mult, SCR[scr], hash_of[src], idx))
    pays = [(ADDR[to], amt * mult) for to, amt in rec["outs"]]
    tx = network.tx_utils.create_tx(spendables, pays, fee=0)
    db = Db()
    for s, e in enumerate(rec["db"], 1):
        if e["st"] != "tx":
            continue
        content = [(a * mult, sc) for a, sc in e["outs"]]
        if e["id"] == s:
            if content != truth[s]:
                raise AssertionError("spec altered a transaction without altering its id")
            db[hash_of[s]] = src_tx[s]
        else:
            # a different transaction (other id) filed under the asked hash
            db[hash_of[s]] = source_tx(s, content, salt=e["id"])
    try:
        r = tx.validate_unspents(db)
    except Exception as e:
        return {"exc": type(e).__name__}
    return {"ret": r}


# ---------------------------------------------------------------- conversions

def decimal_to_text(d):
    """exact fixed-point text of a conversion result (Decimal, int, or - if someone breaks it -
    float, whose exact binary value is spelled out)"""
    if isinstance(d, float):
        d = decimal.Decimal(d)
    if isinstance(d, int):
        return str(d)
    if not isinstance(d, decimal.Decimal):
        return "?" + type(d).__name__
    if not d.is_finite() or d < 0:
        return "?" + str(d)
    sign, digits, exp = d.as_tuple()
    ds = "".join(str(x) for x in digits)
    if exp >= 0:
        return ds + "0" * exp
    if len(ds) <= -exp:
        ds = "0" * (-exp - len(ds) + 1) + ds
    return ds[:exp] + "." + ds[exp:]


SAT_TO = {8: convention.satoshi_to_btc, 5: convention.satoshi_to_mbtc}
TO_SAT = {8: convention.btc_to_satoshi, 5: convention.mbtc_to_satoshi}


def sat_to_coin(D, n):
    try:
        return decimal_to_text(SAT_TO[D](n))
    except Exception as e:
        return "!" + type(e).__name__


def coin_to_sat(D, text, as_type="str"):
    arg = text if as_type == "str" else decimal.Decimal(text)
    try:
        r = TO_SAT[D](arg)
    except Exception as e:
        return "!" + type(e).__name__
    if isinstance(r, bool) or not isinstance(r, int):
        return "?%s:%r" % (type(r).__name__, r)
    return str(r)


def same_amount_text(a, b):
    """value equality of two fixed-point texts (padding zeros is not a difference)"""
    def norm(t):
        if not t or t[0] in "?!":
            return None
        i, _, f = t.partition(".")
        return (i.lstrip("0") or "0", f.rstrip("0"))
    na, nb = norm(a), norm(b)
    return na is not None and na == nb


# ---------------------------------------------------------------- limbs (for the trace log)

def limbs(n, base=10000):
    assert n >= 0
    out = []
    while n:
        n, r = divmod(n, base)
        out.append(r)
    return out


# ---------------------------------------------------------------- sessions on one long-lived object

class Session:
    """one pycoin Tx object that lives through a sequence of queries and edits (TxSession.tla).
    ins: [(src, idx)], truth: {src: [(amt, scr)]}, un0: [(amt, scr)], outs0: [(to, amt)]"""

    def __init__(self, ins, truth, un0, outs0, style=0):
        self.ins = [tuple(i) for i in ins]
        self.truth = {s: [tuple(o) for o in outs] for s, outs in truth.items()}
        self.src_tx = {s: source_tx(s, outs) for s, outs in self.truth.items()}
        self.hash_of = {s: t.hash() for s, t in self.src_tx.items()}
        self.style = style
        if len(un0) == len(self.ins) and style % 8 < 6:
            spendables = [Spendable(a, SCR[sc], self.hash_of[s], k) for (s, k), (a, sc) in zip(self.ins, un0)]
            self.tx = network.tx_utils.create_tx(spendables, [(ADDR[t], a) for t, a in outs0], fee=0)
        else:
            # the constructor takes the unspents as they come (any length)
            self.tx = Tx(1, [TxIn(self.hash_of[s], k) for s, k in self.ins], [TxOut(a, ADDR_SCRIPT[t]) for t, a in outs0],
                         unspents=self.unspent_objs(un0, style % 2 == 0))

    # -- concretisation of arguments
    def unspent_objs(self, lst, spendable):
        out = []
        for n, (a, sc) in enumerate(lst):
            if spendable and n < len(self.ins):
                s, k = self.ins[n]
                out.append(Spendable(a, SCR[sc], self.hash_of[s], k))
            else:
                out.append(TxOut(a, SCR[sc]))
        return out

    def db(self, entries):
        """entries: per source 1..n {"st", "id", "outs": [(amt, scr)]}"""
        d = {}
        for s, e in enumerate(entries, 1):
            if e["st"] != "tx":
                continue
            content = [tuple(o) for o in e["outs"]]
            if e["id"] == s:
                if content != self.truth[s]:
                    raise AssertionError("a database entry changes a transaction without changing its id")
                d[self.hash_of[s]] = self.src_tx[s]
            else:
                d[self.hash_of[s]] = source_tx(s, content, salt=e["id"])
        return d

    # -- the actions; each returns ["val", n] | ["ok"] | ["raise", type]
    def _call(self, f, *a):
        try:
            r = f(*a)
        except Exception as e:
            return ["raise", type(e).__name__]
        return ["ok"] if r is None else ["val", r]

    def total_in(self):
        return self._call(self.tx.total_in)

    def total_out(self):
        return self._call(self.tx.total_out)

    def fee(self):
        return self._call(self.tx.fee)

    def validate(self, entries):
        return self._call(self.tx.validate_unspents, self.db(entries))

    def set_unspents(self, lst):
        return self._call(self.tx.set_unspents, self.unspent_objs(lst, self.style % 2 == 0))

    def assign(self, lst):
        self.tx.unspents = self.unspent_objs(lst, self.style % 2 == 1)
        return ["ok"]

    def from_db(self, entries):
        return self._call(self.tx.unspents_from_db, self.db(entries))

    def append_out(self, to, amt):
        self.tx.txs_out.append(TxOut(amt, ADDR_SCRIPT[to]))
        return ["ok"]

    def replace_out(self, i, to, amt):
        if self.style % 4 < 2:
            self.tx.txs_out[i - 1] = TxOut(amt, ADDR_SCRIPT[to])
        else:       # in place, as distribute_from_split_pool edits outputs
            self.tx.txs_out[i - 1].coin_value = amt
            self.tx.txs_out[i - 1].script = ADDR_SCRIPT[to]
        return ["ok"]

    def remove_in(self):
        self.tx.txs_in.pop()
        self.ins.pop()
        return ["ok"]

    def append_in(self, src, idx):
        self.tx.txs_in.append(TxIn(self.hash_of[src], idx))
        self.ins.append((src, idx))
        return ["ok"]

    # -- projection of the current fields (attribute reads only: asks the object nothing)
    def fields(self):
        un = [None if u is None else [u.coin_value, SCR_OF.get(u.script, 0)] for u in self.tx.unspents]
        outs = [[TO_OF_SCRIPT.get(o.script, 0), o.coin_value] for o in self.tx.txs_out]
        return un, outs

    def in_fields(self):
        src_of = {h: s for s, h in self.hash_of.items()}
        return [[src_of.get(t.previous_hash, 0), t.previous_index] for t in self.tx.txs_in]

    def fresh(self, un, outs, ins=None):
        """a new object with the given current fields and no history"""
        f = Session.__new__(Session)
        f.ins = [tuple(i) for i in ins] if ins is not None else list(self.ins)
        f.truth, f.src_tx, f.hash_of, f.style = self.truth, self.src_tx, self.hash_of, 0
        txs_in = [TxIn(self.hash_of[s], k) for s, k in f.ins]
        txs_out = [TxOut(a, ADDR_SCRIPT[t]) for t, a in outs]
        if len(un) == len(f.ins):
            f.tx = Tx(1, txs_in, txs_out)
            f.tx.set_unspents([TxOut(a, SCR[sc]) for a, sc in un])
        else:       # only the constructor takes a list of another length
            f.tx = Tx(1, txs_in, txs_out, unspents=[TxOut(a, SCR[sc]) for a, sc in un])
        return f
