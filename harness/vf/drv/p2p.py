"""Concretisation, driver and projection for pycoin's peer-to-peer message codec (C16).

TLC prints abstract values (spec/P2PMsg.tla ShowVal): numbers as 16-bit limbs, byte strings as
token lists, objects as records.  This module turns them into the objects the library's API takes
(PeerAddress, InvItem, Block, Tx, bytes, int, bool, None), drives

    network.message.pack(name, **fields)      network.message.parse(name, data)
    streamer.pack_struct(letter, value)       streamer.parse_struct(letter, stream)

and projects what comes back to plain tuples.  Nothing here knows a layout or an encoding: the field
names and types, the expected bytes and the expected parsed values all come from the TLA+ side.

plain forms:   L Q 6 I 1 h -> int     b -> bool     O -> None | bool     S # @ -> bytes
               A -> (services, ip16, port)   v -> (type, hash)   z -> (version, prev, merkle, time, bits, nonce)
               T -> txwire.project_tx tuple  B -> (z-tuple, (T-tuple, ...))
"""
from __future__ import annotations

import gc
import io
import os
import signal

from .txwire import abs_tx, build_tx, expand, limbs, network, num, project_tx, rle, seq

SYM = "BTC"            # the network the calls below go to (set by check_msg_record / record_traces; single-threaded)
NLIMBS = {"L": 2, "Q": 4, "6": 3, "I": 4}
# messages that carry headers / blocks / transactions: their objects are per-network classes
CARRIERS = ("headers", "block", "merkleblock", "cmpctblock", "tx", "blocktxn")


def N():
    return network(SYM)


def use(sym):
    global SYM
    SYM = sym


_STREAMER = {}


def streamer():
    """the field codecs, built the way pycoin.networks.bitcoinish builds them"""
    if SYM not in _STREAMER:
        from pycoin.message.make_parser_and_packer import standard_parsing_functions, standard_streamer
        _STREAMER[SYM] = standard_streamer(standard_parsing_functions(N().block, N().tx))
    return _STREAMER[SYM]


# ---------------------------------------------------------------- guarded calls into pycoin

CALL_LIMIT_S = float(os.environ.get("VERIF_C16_CALL_S", "20"))


class Hang(BaseException):
    """raised by the alarm inside a library call that does not return (BaseException: library code that
    catches Exception must not swallow it)"""


def _on_alarm(signum, frame):
    raise Hang()


# (message or letter, call) pairs that hung or exhausted memory once: not executed again in this process
# (every further case of the same pair would cost the full time limit); the first occurrence is the violation
TRIPPED = set()
SKIPPED = [0]


def guarded(pair, fn, *a, **k):
    """Run one call into the library.  -> ("ok", value) | ("exc", name, text) | ("skipped",)
    name is the exception type, or "hang" after CALL_LIMIT_S seconds.  MemoryError (the harness caps the
    address space) and a hang trip the breaker for `pair`."""
    if pair in TRIPPED:
        SKIPPED[0] += 1
        return ("skipped",)
    old = signal.signal(signal.SIGALRM, _on_alarm)
    signal.setitimer(signal.ITIMER_REAL, CALL_LIMIT_S)
    try:
        try:
            v = fn(*a, **k)
        finally:
            signal.setitimer(signal.ITIMER_REAL, 0)
        return ("ok", v)
    except Hang:
        TRIPPED.add(pair)
        gc.collect()
        return ("exc", "hang", "no result after %g s" % CALL_LIMIT_S)
    except MemoryError as e:
        TRIPPED.add(pair)
        gc.collect()
        return ("exc", "MemoryError", repr(e)[:200])
    except Exception as e:
        return ("exc", type(e).__name__, repr(e)[:300])
    finally:
        signal.signal(signal.SIGALRM, old)


def exc_what(r):
    return "hang" if r[1] == "hang" else "exc=" + r[1]


def letters(t):
    return (True, t[1:-1]) if t[0] == "[" else (False, t)


# ---------------------------------------------------------------- shown (TLC) -> plain

def _hdr_plain(v):
    return (num(v["version"]), expand(v["prev"]), expand(v["merkle"]), num(v["time"]), num(v["bits"]), num(v["nonce"]))


def plain(l, v):
    if l in NLIMBS:
        return num(v)
    if l in "1h":
        return int(v)
    if l == "b":
        return bool(v)
    if l == "O":
        s = seq(v)
        return None if not s else bool(s[0])
    if l in "S#@":
        return expand(v)
    if l == "A":
        return (num(v["services"]), expand(v["ip"]), int(v["port"]))
    if l == "v":
        return (num(v["type"]), expand(v["hash"]))
    if l == "z":
        return _hdr_plain(v)
    if l == "T":
        if "raw" in v:
            return ("raw", expand(v["raw"]))
        return abs_tx(v)
    if l == "B":
        if "raw" in v:
            return ("raw", expand(v["raw"]))
        return (_hdr_plain(v["header"]), tuple(abs_tx(t) for t in seq(v["txs"])))
    raise ValueError(l)


def plain_field(t, v):
    arr, ls = letters(t)
    if not arr:
        return plain(ls, v)
    if len(ls) == 1:
        return tuple(plain(ls, e) for e in seq(v))
    return tuple(tuple(plain(l, c) for l, c in zip(ls, seq(e))) for e in seq(v))


# ---------------------------------------------------------------- plain -> API object

def api(l, p, hint=None):
    if l in NLIMBS or l in "1hbS#@":
        return p
    if l == "O":
        return p
    if l == "A":
        from pycoin.message.PeerAddress import PeerAddress
        # hint: the four octets when the spec says the address is IPv4 (the 4-byte form of the constructor)
        return PeerAddress(p[0], bytes(hint) if hint else p[1], p[2])
    if l == "v":
        from pycoin.message.InvItem import InvItem
        return InvItem(p[0], p[1], dont_check=True)
    if l == "z":
        return N().block(*p)
    if l == "T":
        return build_tx(N().tx, p)
    if l == "B":
        b = N().block(*p[0])
        b.set_txs([build_tx(N().tx, t) for t in p[1]], check_merkle_hash=False)
        return b
    raise ValueError(l)


def _hint(l, v):
    """from the shown value: octets of an IPv4 address"""
    if l == "A" and isinstance(v, dict) and v.get("v4"):
        return seq(v["octets"])
    return None


def api_field(t, v):
    """shown field value -> what pack() takes for it"""
    arr, ls = letters(t)
    if not arr:
        return api(ls, plain(ls, v), _hint(ls, v))
    if len(ls) == 1:
        return [api(ls, plain(ls, e), _hint(ls, e)) for e in seq(v)]
    return [tuple(api(l, plain(l, c), _hint(l, c)) for l, c in zip(ls, seq(e))) for e in seq(v)]


def _fat_header(p):
    """the header value p handed over as the block it belongs to: a block object that also carries transactions.
    pycoin has one class for both (Block; `as_blockheader()` is optional), so whoever relays the headers of blocks it
    holds passes such objects; the header field of a message is the 80 header bytes whatever else the object carries."""
    Tx = N().tx
    b = N().block(*p)
    b.set_txs([Tx(1, [Tx.TxIn(b"\x01" * 32, 0, b"\x51")], [Tx.TxOut(1, b"\x51")]),
               Tx(2, [Tx.TxIn(b"\x02" * 32, 1, b"")], [Tx.TxOut(2, b"")])], check_merkle_hash=False)
    return b


def api_field_fat(t, v):
    """api_field with every header ('z') given as a block object carrying transactions; None if t has no header"""
    arr, ls = letters(t)
    if "z" not in ls:
        return None

    def one(l, x):
        return _fat_header(plain(l, x)) if l == "z" else api(l, plain(l, x), _hint(l, x))
    if not arr:
        return one(ls, v)
    if len(ls) == 1:
        return [one(ls, e) for e in seq(v)]
    return [tuple(one(l, c) for l, c in zip(ls, seq(e))) for e in seq(v)]


class Live:
    """Long-lived API objects for the recorder: an address / header object that an earlier message carried is, some of
    the time, UPDATED IN PLACE to the next value (its public attributes assigned) and handed over again instead of a
    new object being built.  What is logged is the value the object holds when it is packed.  One object is used at
    most once per message (begin() starts a message)."""

    def __init__(self, rnd, keep=6):
        self.rnd, self.keep = rnd, keep
        self.pool = {}
        self.used = set()
        self.updated = 0

    def begin(self):
        self.used = set()

    def get(self, l, x, build):
        if l not in "Az":
            return build()
        pool = self.pool.setdefault((l, SYM), [])
        free = [o for o in pool if id(o) not in self.used]
        if free and self.rnd.random() < 0.5:
            o = self.rnd.choice(free)
            names = ("services", "ip", "port") if l == "A" else ("version", "prev", "merkle", "time", "bits", "nonce")
            for n, val in zip(names, x):
                setattr(o, OBJ_ATTR[(l, n)][0], val)
            self.updated += 1
        else:
            o = build()
            if len(pool) < self.keep:
                pool.append(o)
        self.used.add(id(o))
        return o


def api_field_from_plain(t, p, v4form=False, live=None):
    arr, ls = letters(t)

    def one(l, x):
        if live is not None:
            return live.get(l, x, lambda: one0(l, x))
        return one0(l, x)

    def one0(l, x):
        if l == "A" and v4form and x[1][:12] == _mapped_prefix():
            return api(l, x, x[1][12:])
        return api(l, x)
    if not arr:
        return one(ls, p)
    if len(ls) == 1:
        return [one(ls, e) for e in p]
    return [tuple(one(l, c) for l, c in zip(ls, e)) for e in p]


def _mapped_prefix():
    import ipaddress
    return ipaddress.IPv6Address("::ffff:0.0.0.0").packed[:12]      # stdlib, not a constant of ours


# ---------------------------------------------------------------- API object -> plain

class Unprojectable(Exception):
    pass


def proj(l, o):
    try:
        if l in NLIMBS or l in "1h":
            if not isinstance(o, int):          # (a bool is an int: True == 1)
                raise Unprojectable("%s: %r" % (l, type(o).__name__))
            return o
        if l == "b":
            if not isinstance(o, (bool, int)):
                raise Unprojectable("b: %r" % type(o).__name__)
            return o
        if l == "O":
            if o is None or isinstance(o, bool):
                return o
            raise Unprojectable("O: %r" % type(o).__name__)
        if l in "S#@":
            if not isinstance(o, (bytes, bytearray)):
                raise Unprojectable("%s: %r" % (l, type(o).__name__))
            return bytes(o)
        if l == "A":
            return (o.services, bytes(o.ip_bin), o.port)
        if l == "v":
            return (o.item_type, bytes(o.data))
        if l == "z":
            return (o.version, bytes(o.previous_block_hash), bytes(o.merkle_root), o.timestamp, o.difficulty, o.nonce)
        if l == "T":
            return project_tx(o)
        if l == "B":
            return (proj("z", o), tuple(project_tx(t) for t in o.txs))
    except Unprojectable:
        raise
    except Exception as e:
        raise Unprojectable("%s: %s %s" % (l, type(e).__name__, e))
    raise ValueError(l)


def proj_field(t, o):
    arr, ls = letters(t)
    if not arr:
        return proj(ls, o)
    if not isinstance(o, (tuple, list)):
        raise Unprojectable("array: %r" % type(o).__name__)
    if len(ls) == 1:
        return tuple(proj(ls, e) for e in o)
    out = []
    for e in o:
        if not isinstance(e, (tuple, list)) or len(e) != len(ls):
            raise Unprojectable("tuple element: %r" % (e,))
        out.append(tuple(proj(l, c) for l, c in zip(ls, e)))
    return tuple(out)


# ---------------------------------------------------------------- plain -> abstract JSON (what Trace_P2P reads)

def _tx_abs(p):
    return {"version": limbs(p[0], 2), "lock": limbs(p[3], 2),
            "ins": [{"hash": rle(i[0]), "index": limbs(i[1], 2), "script": rle(i[2]), "seq": limbs(i[3], 2),
                     "wit": [rle(w) for w in i[4]]} for i in p[1]],
            "outs": [{"amount": limbs(o[0], 4), "script": rle(o[1])} for o in p[2]]}


def _hdr_abs(p):
    return {"version": limbs(p[0], 2), "prev": rle(p[1]), "merkle": rle(p[2]), "time": limbs(p[3], 2),
            "bits": limbs(p[4], 2), "nonce": limbs(p[5], 2)}


def to_abs(l, p):
    if l in NLIMBS:
        return limbs(int(p), NLIMBS[l])
    if l in "1h":
        return int(p)
    if l == "b":
        if p not in (0, 1):
            raise Unprojectable("b: %r" % (p,))
        return bool(p)
    if l == "O":
        return [] if p is None else [bool(p)]
    if l in "S#@":
        return rle(p)
    if l == "A":
        return {"services": limbs(p[0], 4), "ip": rle(p[1]), "port": int(p[2])}
    if l == "v":
        return {"type": limbs(p[0], 2), "hash": rle(p[1])}
    if l == "z":
        return _hdr_abs(p)
    if l == "T":
        return _tx_abs(p)
    if l == "B":
        return {"header": _hdr_abs(p[0]), "txs": [_tx_abs(t) for t in p[1]]}
    raise ValueError(l)


def to_abs_field(t, p):
    arr, ls = letters(t)
    try:
        if not arr:
            return to_abs(ls, p)
        if len(ls) == 1:
            return [to_abs(ls, e) for e in p]
        return [[to_abs(l, c) for l, c in zip(ls, e)] for e in p]
    except Unprojectable:
        raise
    except Exception as e:     # a value outside the declared type (cannot be written as limbs, ...)
        raise Unprojectable("%s: %s %s" % (t, type(e).__name__, e))


# ---------------------------------------------------------------- comparison / class names for keys

def cls(p):
    """class-level name of a plain value (for finding keys)"""
    if p is None:
        return "absent"
    if isinstance(p, bool):
        return str(p)
    return type(p).__name__


def same(a, b):
    if a is None or b is None:
        return a is b
    return a == b


def _short(o, n=200):
    s = repr(o)
    return s if len(s) <= n else s[:n] + "...(%d chars)" % len(s)


def first_diff_field(sizes, names, want, got):
    n = min(len(want), len(got))
    k = next((i for i in range(n) if want[i] != got[i]), n)
    off = 0
    for name, sz in zip(names, sizes):
        if k < off + sz:
            return name
        off += sz
    return "<end>"


# ---------------------------------------------------------------- replay of one message case

def _class_errors(l, o, net):
    """objects parsed on a network must be instances of THAT network's classes"""
    if l == "z":
        return [] if type(o) is net.block else [(type(o).__name__, net.block.__name__)]
    if l == "T":
        return [] if type(o) is net.tx else [(type(o).__name__, net.tx.__name__)]
    if l == "B":
        out = [] if type(o) is net.block else [(type(o).__name__, net.block.__name__)]
        for t in getattr(o, "txs", []):
            out += _class_errors("T", t, net)
        return out
    return []


def class_errors(t, o, net):
    arr, ls = letters(t)
    if not any(l in "zTB" for l in ls):
        return []
    try:
        if not arr:
            return _class_errors(ls, o, net)
        out = []
        for e in o:
            for l, c in zip(ls, e if len(ls) > 1 else (e,)):
                out += _class_errors(l, c, net)
        return out
    except Exception:
        return []          # a malformed result is reported by the field comparison


def check_msg_record(rec, sym="BTC"):
    """Execute one case printed by MC_P2PReplay on pycoin's network `sym`; returns [(key, what, detail)]."""
    use(sym)
    fails = []
    name = rec["name"]
    tag = "msg" if sym == "BTC" else "msg@" + sym
    fields = seq(rec["fields"])
    names = [f["n"] for f in fields]
    types = [f["t"] for f in fields]
    want_bytes = expand(rec["bytes"])
    pf = fields if rec["parsed"]["same"] else seq(rec["parsed"]["fields"])
    want = [plain_field(f["t"], f["v"]) for f in pf]
    net = N()
    M = net.message

    def fail(call, what, detail=None):
        fails.append(("C16|%s|%s|%s|%s" % (tag, name, call, what),
                      "%s %s(%r, ...): %s" % (sym, call, name, what),
                      {"call": call, "what": what, "detail": detail, "network": sym,
                       "case": rec if len(repr(rec)) < 300000 else {"name": name, "fields": _short(fields, 3000), "bytes": _short(rec["bytes"], 1500)}}))

    # ---- pack (real transactions / blocks, given to the spec as bytes, are built from the abstract form the
    #      SPEC parsed them into - never through the library's own parser)
    got = None
    try:
        kwargs = {f["n"]: api_field(f["t"], f["v"]) for f in pf}
    except Exception as e:      # a constructor of the library refuses a value of the declared type
        fail("construct", "exc=" + type(e).__name__, repr(e)[:300])
        kwargs = None
    if kwargs is not None:
        r = guarded((name, "pack"), M.pack, name, **kwargs)
        if r[0] == "exc":
            fail("pack", exc_what(r), r[2])
        elif r[0] == "ok":
            got = r[1]
    if got is not None and got != want_bytes:
        fail("pack", "bytes-differ|field=" + first_diff_field(seq(rec["sizes"]), names, want_bytes, got),
             {"want": want_bytes[:400].hex(), "got": bytes(got)[:400].hex(), "want_len": len(want_bytes), "got_len": len(got)})

    # ---- the same message with each header handed over as a block object that carries transactions
    if kwargs is not None and got == want_bytes and any("z" in letters(f["t"])[1] for f in pf):
        try:
            kw2 = {f["n"]: (api_field_fat(f["t"], f["v"]) if "z" in letters(f["t"])[1] else kwargs[f["n"]]) for f in pf}
        except Exception as e:  # noqa: BLE001
            kw2 = None
            fail("construct", "block-with-txs|exc=" + type(e).__name__, repr(e)[:300])
        if kw2 is not None:
            r = guarded((name, "pack"), M.pack, name, **kw2)
            if r[0] == "exc":
                fail("pack", "header-given-as-block-with-txs|" + exc_what(r), r[2])
            elif r[0] == "ok" and r[1] != want_bytes:
                fail("pack", "header-given-as-block-with-txs|bytes-differ",
                     {"want_len": len(want_bytes), "got_len": len(r[1]), "got": bytes(r[1])[:200].hex()})

    # ---- parse (the spec's bytes, so that a failing pack does not hide the parser)
    r = guarded((name, "parse"), M.parse, name, want_bytes)
    if r[0] == "exc":
        fail("parse", exc_what(r), r[2])
    if r[0] != "ok":
        return fails
    d = r[1]
    if not isinstance(d, dict):
        fail("parse", "result=" + type(d).__name__)
        return fails
    ok_fields = True
    for n, t, w in zip(names, types, want):
        if n not in d:
            fail("parse", "field=%s|missing" % n, {"keys": sorted(d)})
            ok_fields = False
            break
        ce = class_errors(t, d[n], net)
        if ce:
            fail("parse", "field=%s|class=%s|expected=%s" % (n, ce[0][0], ce[0][1]), {"all": ce[:5]})
        try:
            g = proj_field(t, d[n])
        except Unprojectable as e:
            fail("parse", "field=%s|type=%s" % (n, str(e).split(":")[0]), str(e)[:300])
            ok_fields = False
            break
        if not same(w, g):
            arr, _ = letters(t)
            if arr:
                what = "len" if len(w) != len(g) else "element"
                fail("parse", "field=%s|array-%s" % (n, what), {"want": _short(w), "got": _short(g)})
            else:
                fail("parse", "field=%s|expected=%s|got=%s" % (n, cls(w), cls(g)), {"want": _short(w), "got": _short(g)})
            ok_fields = False
            break
        if t == "A":       # the helper's text form of an IPv4 address
            v = next(f["v"] for f in pf if f["n"] == n)
            if v.get("v4") and d[n].host() != ".".join(str(x) for x in seq(v["octets"])):
                fail("parse", "field=%s|host-text" % n, {"want": seq(v["octets"]), "got": d[n].host()})
    # ---- what was parsed packs to the same bytes again
    if ok_fields:
        r = guarded((name, "pack"), M.pack, name, **{n: d[n] for n in names})
        if r[0] == "exc":
            fail("repack", exc_what(r), r[2])
        elif r[0] == "ok" and r[1] != want_bytes:
            fail("repack", "bytes-differ|field=" + first_diff_field(seq(rec["sizes"]), names, want_bytes, r[1]),
                 {"want": want_bytes[:400].hex(), "got": bytes(r[1])[:400].hex()})
    # ---- alert: the payload structure the library parses on the way
    inner = seq(rec.get("inner", []))
    if inner:
        ai = d.get("alert_info")
        if not isinstance(ai, dict):
            fail("parse", "alert_info|missing")
        else:
            for f in inner:
                w = plain_field(f["t"], f["v"])
                try:
                    g = proj_field(f["t"], ai[f["n"]])
                except KeyError:
                    fail("parse", "alert_info|field=%s|missing" % f["n"])
                    break
                except Unprojectable as e:
                    fail("parse", "alert_info|field=%s|type" % f["n"], str(e)[:300])
                    break
                if not same(w, g):
                    fail("parse", "alert_info|field=%s|differs" % f["n"], {"want": _short(w), "got": _short(g)})
                    break
    return fails


def check_native_headers(sym):
    """A network whose block class has its own header format (BTG): outside the Bitcoin layouts of the spec, so only
    what does not depend on the format: a headers message built from the network's own header object parses to
    objects of that network's class and packs to the same bytes again."""
    use(sym)
    fails = []
    net = N()
    M = net.message

    def fail(what, detail=None):
        fails.append(("C16|msg@%s|headers|native|%s" % (sym, what), "%s headers message of its own header class: %s" % (sym, what),
                      {"network": sym, "detail": detail}))
    try:
        import inspect
        npar = len(inspect.signature(net.block.__init__).parameters) - 1
        if npar == 6:
            h = net.block(2, b"\x11" * 32, b"\x22" * 32, 3, 4, 5)
        else:       # bgold: (version, prev, merkle, timestamp, difficulty, nonce(32 bytes), height, solution)
            h = net.block(2, b"\x11" * 32, b"\x22" * 32, 3, 4, b"\x33" * 32, 500000, b"\x44" * 100)
        f = io.BytesIO()
        h.stream_header(f)
    except Exception as e:
        fail("construct|exc=" + type(e).__name__, repr(e)[:300])
        return fails
    r = guarded(("headers", "pack"), M.pack, "headers", headers=[(h, 0), (h, 0)])
    if r[0] != "ok":
        if r[0] == "exc":
            fail("pack|" + exc_what(r), r[2])
        return fails
    b = r[1]
    if b != b"\x02" + (f.getvalue() + b"\x00") * 2:
        fail("pack|bytes-differ")
    r = guarded(("headers", "parse"), M.parse, "headers", b)
    if r[0] != "ok":
        if r[0] == "exc":
            fail("parse|" + exc_what(r), r[2])
        return fails
    try:
        hs = r[1]["headers"]
        bad = [type(x[0]).__name__ for x in hs if type(x[0]) is not net.block]
        if bad or len(hs) != 2:
            fail("parse|class=%s|expected=%s" % (bad[0] if bad else "?", net.block.__name__))
        r2 = guarded(("headers", "pack"), M.pack, "headers", headers=hs)
        if r2[0] == "exc":
            fail("repack|" + exc_what(r2), r2[2])
        elif r2[0] == "ok" and r2[1] != b:
            fail("repack|bytes-differ")
    except Exception as e:
        fail("parse|result|exc=" + type(e).__name__, repr(e)[:300])
    return fails


def msg_class(rec):
    """distinct non-trivial class of a message case: name + per field (type, size class of its encoding)"""
    def sz(n):
        return 0 if n == 0 else 1 if n < 253 else 2 if n < 65536 else 3
    return (rec["name"],) + tuple((f["t"], sz(s)) for f, s in zip(seq(rec["fields"]), seq(rec["sizes"])))


# ---------------------------------------------------------------- replay of one session (spec/P2PSession.tla)

# attribute of an abstract object (letter, name in the spec's value record) -> attribute of the API object, kind
OBJ_ATTR = {("A", "services"): ("services", "num"), ("A", "ip"): ("ip_bin", "bytes"), ("A", "port"): ("port", "int"),
            ("z", "version"): ("version", "num"), ("z", "prev"): ("previous_block_hash", "bytes"),
            ("z", "merkle"): ("merkle_root", "bytes"), ("z", "time"): ("timestamp", "num"),
            ("z", "bits"): ("difficulty", "num"), ("z", "nonce"): ("nonce", "num"),
            ("T", "version"): ("version", "num"), ("T", "lock"): ("lock_time", "num")}


def _is_ref(x):
    return isinstance(x, dict) and "ref" in x


def api_field_refs(t, v, objs):
    """api_field for a template: a value shown as {"ref": id} is the long-lived object objs[id] itself"""
    arr, ls = letters(t)

    def one(l, x):
        return objs[x["ref"]] if _is_ref(x) else api(l, plain(l, x), _hint(l, x))
    if not arr:
        return one(ls, v)
    if len(ls) == 1:
        return [one(ls, e) for e in seq(v)]
    return [tuple(one(l, c) for l, c in zip(ls, seq(e))) for e in seq(v)]


def step_kind(st):
    """class-level name of a step of the alphabet"""
    if st["op"] == "set":
        return "set:%s.%s" % (st["obj"], st["attr"])
    if st["op"] == "illpack":
        return "illpack:%s:%s" % (st["name"], st["how"])
    if st["op"] == "illparse":
        return "illparse:%s:%s" % (st["as"], "cut" if st["as"] == st["name"] else "payload-of-" + st["name"])
    return "%s:%s" % (st["op"], st["name"])


def new_objects(alpha):
    return {i: api(alpha["letters"][i], plain(alpha["letters"][i], shown), _hint(alpha["letters"][i], shown))
            for i, shown in alpha["store"].items()}


def step_refs(st):
    """ids of the stored objects a pack step carries, e.g. "a" / "z" / "-" """
    found = set()

    def walk(x):
        if _is_ref(x):
            found.add(x["ref"])
        elif isinstance(x, dict):
            for y in x.values():
                walk(y)
        elif isinstance(x, list):
            for y in x:
                walk(y)
    walk(st.get("fields"))
    return "+".join(sorted(found)) or "-"


def run_session(alpha, sess, sym="BTC", stats=None):
    """Execute one session printed by MC_P2PSession on ONE codec (the network's) and ONE API object per store entry,
    in order.  Steps whose answer is demanded ("bytes") are compared with the spec's; "free" steps (calls outside the
    property's quantifier) are only made.  -> [(key, what, detail)]"""
    use(sym)
    net = N()
    M = net.message
    tag = "session" if sym == "BTC" else "session@" + sym
    fails = []
    objs = new_objects(alpha)
    prev = []
    for pos, (k, ans) in enumerate(zip(seq(sess["steps"]), seq(sess["ans"]))):
        st = alpha["steps"][k - 1]
        kind = step_kind(st)

        def fail(call, what, detail=None):
            # class of the failing observation: which stored objects the message carries, and the kinds of earlier steps
            # of the session that touched one of those objects or were calls outside the quantifier
            mine = set(step_refs(st).split("+"))
            hist = "+".join(sorted({op for op, touched in prev if touched is None or touched & mine})) or "none"
            fails.append(("C16|%s|%s|history=%s|%s|%s" % (tag, "pack(%s)" % step_refs(st) if sym == "BTC" else "pack", hist, call, what),
                          "%s session, step %d (%s) after %s: %s %s" % (sym, pos + 1, kind, ", ".join(
                              step_kind(alpha["steps"][j - 1]) for j in seq(sess["steps"])[:pos]) or "nothing", call, what),
                          {"call": call, "what": what, "detail": detail, "network": sym, "step": pos + 1,
                           "case": {"k": "session", "steps": seq(sess["steps"]), "ans": seq(sess["ans"])}, "alphabet": alpha}))

        if st["op"] == "set":
            attr, how = OBJ_ATTR[(alpha["letters"][st["obj"]], st["attr"])]
            val = expand(st["v"]) if how == "bytes" else num(st["v"]) if how == "num" else int(st["v"])
            setattr(objs[st["obj"]], attr, val)
        elif st["op"] in ("pack", "illpack"):
            fl = seq(st["fields"])
            try:
                kwargs = {f["n"]: api_field_refs(f["t"], f["v"], objs) for f in fl if not f["missing"]}
            except Exception as e:      # a constructor refuses: for a pack step a value of the declared type was refused
                kwargs = None
                if st["op"] == "pack":
                    fail("construct", "exc=" + type(e).__name__, repr(e)[:300])
            if kwargs is not None and st["op"] == "illpack":
                r = guarded((st["name"], "illpack"), M.pack, st["name"], **kwargs)
                if stats is not None:
                    stats["ill_calls"] = stats.get("ill_calls", 0) + 1
                    stats["ill_raised"] = stats.get("ill_raised", 0) + (r[0] == "exc")
            elif kwargs is not None:
                want_bytes = expand(ans["bytes"])
                names = [f["n"] for f in fl]
                r = guarded((st["name"], "pack"), M.pack, st["name"], **kwargs)
                if r[0] == "exc":
                    fail("pack", exc_what(r), r[2])
                elif r[0] == "ok" and r[1] != want_bytes:
                    fail("pack", "bytes-differ", {"field": first_diff_field(seq(ans["sizes"]), names, want_bytes, r[1]),
                         "want": want_bytes[:400].hex(), "got": bytes(r[1])[:400].hex(), "want_len": len(want_bytes), "got_len": len(r[1])})
                r = guarded((st["name"], "parse"), M.parse, st["name"], want_bytes)
                if r[0] == "exc":
                    fail("parse", exc_what(r), r[2])
                elif r[0] == "ok":
                    d = r[1]
                    for f in seq(ans["fields"]):
                        w = plain_field(f["t"], f["v"])
                        try:
                            g = proj_field(f["t"], d[f["n"]])
                        except Exception as e:      # missing key / not of the field's type
                            fail("parse", "field-type", {"field": f["n"], "error": repr(e)[:300]})
                            break
                        if not same(w, g):
                            fail("parse", "field-differs", {"field": f["n"], "want": _short(w), "got": _short(g)})
                            break
        elif st["op"] == "illparse":
            r = guarded((st["as"], "illparse"), M.parse, st["as"], expand(ans["input"]))
            if stats is not None:
                stats["ill_calls"] = stats.get("ill_calls", 0) + 1
                stats["ill_raised"] = stats.get("ill_raised", 0) + (r[0] == "exc")
        # (op, objects touched; None: a call outside the quantifier - it touches the codec)
        prev.append(("set", {st["obj"]}) if st["op"] == "set" else ("pack", set(step_refs(st).split("+"))) if st["op"] == "pack" else (st["op"], None))
    return fails


# ---------------------------------------------------------------- replay of one codec case

def check_codec_record(rec):
    """one value of one type letter through streamer.pack_struct / parse_struct"""
    use("BTC")
    fails = []
    l = rec["l"]
    want_bytes = expand(rec["bytes"])
    p = plain(l, rec["v"])
    S = streamer()

    def fail(call, what, detail=None):
        fails.append(("C16|codec|%s|%s|%s" % (l, call, what), "streamer.%s(%r, ...): %s" % (call, l, what),
                      {"call": call, "what": what, "detail": detail, "case": rec}))

    got = None
    try:
        o = api(l, p, _hint(l, rec["v"]))
    except Exception as e:
        fail("construct", "exc=" + type(e).__name__, repr(e)[:300])
        o = None
    if o is not None or l == "O":
        r = guarded((l, "codec-pack"), S.pack_struct, l, o)
        if r[0] == "exc":
            fail("pack", exc_what(r), r[2])
        elif r[0] == "ok":
            got = r[1]
    if got is not None and got != want_bytes:
        fail("pack", "bytes-differ", {"want": want_bytes[:100].hex(), "got": bytes(got)[:100].hex()})
    for tail in ((b"",) if l == "O" else (b"", b"\xaa\x00")):
        f = io.BytesIO(want_bytes + tail)
        r = guarded((l, "codec-parse"), S.parse_struct, l, f)
        if r[0] == "exc":
            fail("parse", exc_what(r), r[2])
        if r[0] != "ok":
            break
        try:
            (o,) = r[1]
            g = proj(l, o)
        except Unprojectable as e:
            fail("parse", "type=" + str(e).split(":")[0], str(e)[:300])
            break
        except Exception as e:
            fail("parse", "result|exc=" + type(e).__name__, repr(e)[:300])
            break
        if not same(p, g):
            fail("parse", "expected=%s|got=%s" % (cls(p), cls(g)), {"want": _short(p), "got": _short(g)})
            break
        if f.tell() != len(want_bytes):
            fail("parse", "consumed=%d|width=%d" % (f.tell(), len(want_bytes)))
            break
    return fails
