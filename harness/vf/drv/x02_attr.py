"""Driver + projection for X02 (a): who_signed / annotate on partially signed, then edited, transactions.

What Python does here (DEVGUIDE): (b) concretize the abstract histories of spec/X02_Attribution.tla - signing
passes go through vf.drv.signing.Session (C05's driver, unchanged), edits through the mutation table of
vf.drv.signing.TxUnderTest (C06's driver, unchanged; only its constructor is replaced because X02 needs
transactions whose inputs spend the SAME puzzle, which C06 excludes) - and (c) drive pycoin's
who_signed / annotate and project what they report onto abstract key ids.  Nothing here decides what the
report should be.
"""
from __future__ import annotations

import copy

from . import signing as S

NKEYS = 12        # key ids that may appear in a report (1..NKEYS)


class Mutator(S.TxUnderTest):
    """TxUnderTest over an arbitrary (partially) signed transaction; tracks which original input's
    unlocking data sits at each position (TxValidate's `unl`) and the retagged signatures"""

    def __init__(self, coin, tx, puzzles):
        self.coin = coin
        self.N = S.network(coin)
        tx.txs_in = list(tx.txs_in)
        tx.txs_out = list(tx.txs_out)
        tx.unspents = [type(tx).TxOut(u.coin_value, bytes(u.script)) for u in tx.unspents]
        self.tx = tx
        self.puzzles = list(puzzles)
        self.meta = [{"id": k + 1, "oph": t.previous_hash, "opi": t.previous_index, "seq": t.sequence,
                      "amt": tx.unspents[k].coin_value, "spk": bytes(tx.unspents[k].script)}
                     for k, t in enumerate(tx.txs_in)]
        self.unl = [k + 1 for k in range(len(tx.txs_in))]
        self.out_amt = {j + 1: o.coin_value for j, o in enumerate(tx.txs_out)}
        self.out_spk = {j + 1: bytes(o.script) for j, o in enumerate(tx.txs_out)}
        fresh_amt = 4242
        for v in (1, 2, 3):
            while v not in self.out_amt:
                fresh_amt += 1
                if fresh_amt not in self.out_amt.values():
                    self.out_amt[v] = fresh_amt
            if v not in self.out_spk:
                self.out_spk[v] = bytes([0x51 + 7 + v, 0x51 + v])
        if (len(set(self.out_amt.values())) != 3 or len(set(self.out_spk.values())) != 3
                or len(set((m["oph"], m["opi"]) for m in self.meta)) != len(self.meta)):
            raise S.NotInjective("outputs / outpoints of the transaction are not pairwise distinct")
        self.orig = copy.deepcopy((tx.version, tx.lock_time, tx.txs_in, tx.txs_out, tx.unspents, self.meta))
        self.n_inserted = 0
        self.retags = []          # (input id, old blob, new blob)
        self.blobs = None         # (input id, key id) -> signature blob, as signed

    def clone(self):
        c = copy.copy(self)
        c.tx = copy.deepcopy(self.tx)
        c.meta = copy.deepcopy(self.meta)
        c.unl = list(self.unl)
        c.retags = list(self.retags)
        return c

    # ---- edits
    def apply(self, x):
        m, a, b = x["m"], x["a"], x["b"]
        super().apply(x)
        p = a - 1
        if m == "ins_insert":
            self.unl.insert(p, 0)
        elif m == "ins_remove":
            del self.unl[p]
        elif m in ("ins_swap", "unl_swap"):
            q = b - 1
            self.unl[p], self.unl[q] = self.unl[q], self.unl[p]
        elif m == "revert":
            self.unl = [k + 1 for k in range(len(self.tx.txs_in))]
            for (i, old, new) in self.retags:
                self._replace(i, old, new)

    def _replace(self, i, old, new):
        pos = self.unl.index(i)
        tin = self.tx.txs_in[pos]
        n = tin.script.count(old) + sum(1 for w in tin.witness if bytes(w) == old)
        if n != 1:
            raise S.NotInjective("signature blob occurs %d times in the unlocking data" % n)
        tin.script = tin.script.replace(old, new)
        tin.witness = [new if bytes(w) == old else w for w in tin.witness]

    def signature_blobs(self):
        """(input id, key id) -> blob, read off the transaction AS SIGNED (before the first edit): every blob of the
        unlocking data that verifies for a listed key under the digest its own last byte selects"""
        from pycoin.encoding.sec import sec_to_public_pair
        g = self.N.generator
        out = {}
        for i, pz in enumerate(self.puzzles):
            for blob in S.unlocking_items(self.N, self.tx, i, pz):
                if len(blob) < 9 or blob[0] != 0x30 or S.strict_der_problem(blob) is not None:
                    continue
                z = S.digest_for(self.tx, i, pz, blob[-1])
                if z is None:
                    continue
                for kid, sec in zip(pz.keys, pz.secs):
                    if g.verify(sec_to_public_pair(sec, g), z, S._rs(blob)):
                        out[(i + 1, kid)] = bytes(blob)
        return out

    def retag(self, i, key, byte):
        if self.blobs is None:
            self.blobs = self.signature_blobs()
        old = self.blobs[(i, key)]
        new = old[:-1] + bytes([byte])
        if new == old:
            raise S.NotInjective("retag to the byte already carried")
        self._replace(i, old, new)
        self.retags.append((i, old, new))


# ---------------------------------------------------------------- what pycoin reports

def key_tables(coin):
    """public pair -> key id; address -> (key id, form)"""
    ring = S.KeyRing.get(coin)
    N = S.network(coin)
    from pycoin.encoding.hash import hash160
    pp, addr = {}, {}
    for k in range(1, NKEYS + 1):
        key = ring.key(k)
        pp[tuple(key.public_pair())] = k
        for form in ("c", "u"):
            addr[N.address.for_p2pkh(hash160(ring.sec(k, form)))] = (k, form)
    return pp, addr


_TABLES = {}


def tables(coin):
    if coin not in _TABLES:
        _TABLES[coin] = key_tables(coin)
    return _TABLES[coin]


def frozen(tx):
    """everything of the transaction object a read-only query must leave alone"""
    return (tx.version, tx.lock_time,
            tuple((t.previous_hash, t.previous_index, bytes(t.script), t.sequence, tuple(bytes(w) for w in t.witness))
                  for t in tx.txs_in),
            tuple((o.coin_value, bytes(o.script)) for o in tx.txs_out),
            tuple(None if u is None else (u.coin_value, bytes(u.script)) for u in tx.unspents))


def report(coin, tx, pos):
    """what who_signed says about input pos (0-based):
       {"pairs": sorted [key id, sig type] (0 = a key outside the table), "dups": n, "addr": sorted [key id, form, sig type],
        "nsecs": n, "exc": {call: "Type: text"}}"""
    N = S.network(coin)
    pp_ids, addr_ids = tables(coin)
    W = N.who_signed
    out = {"exc": {}}
    try:
        got = W.public_pairs_signed(tx, pos)
        pairs = [[pp_ids.get(tuple(pp), 0), st] for (pp, sig_pair, st) in got]
        out["pairs"] = sorted(map(list, set(map(tuple, pairs))))
        out["dups"] = len(pairs) - len(out["pairs"])
    except Exception as e:  # noqa
        out["exc"]["public_pairs_signed"] = "%s: %s" % (type(e).__name__, str(e)[:120])
    try:
        got = W.who_signed_tx(tx, pos)
        out["addr"] = sorted(set((addr_ids.get(a, (0, "?")) + (st,)) for (a, st) in got))
        out["addr"] = [list(x) for x in out["addr"]]
    except Exception as e:  # noqa
        out["exc"]["who_signed_tx"] = "%s: %s" % (type(e).__name__, str(e)[:120])
    try:
        out["secs"] = sorted(set(bytes(s).hex() for s in W.extract_secs(tx, pos) if s is not None))
    except Exception as e:  # noqa
        out["exc"]["extract_secs"] = "%s: %s" % (type(e).__name__, str(e)[:120])
    return out


def annotated_signers(coin, tx, pos):
    """what the annotation of input pos says about its signature blobs: for every listed instruction that pushes
    a blob annotated as a signature, the key ids among the addresses of its "sig for" line and the signature type
    text.  -> {"pairs": sorted [key id, type text], "nsig": annotated signature pushes, "exc": ...}"""
    N = S.network(coin)
    _, addr_ids = tables(coin)
    out = {"pairs": [], "nsig": 0}
    try:
        rows = N.annotate.annotate_scripts(tx, pos)
    except Exception as e:  # noqa
        out["exc"] = "%s: %s" % (type(e).__name__, str(e)[:120])
        return out
    pairs = set()
    for (pre, pc, opcode, text, post) in rows:
        typ = [ln for ln in post if ln.startswith("signature type ")]
        who = [ln for ln in post if ln.startswith(" sig for")]
        if not typ:
            continue
        out["nsig"] += 1
        for ln in who:
            for a in ln.split()[2:]:
                if a in addr_ids:
                    pairs.add((addr_ids[a][0], typ[0][len("signature type "):]))
    out["pairs"] = sorted(map(list, pairs))
    return out


TYPE_TEXT = {1: "SIGHASH_ALL", 2: "SIGHASH_NONE", 3: "SIGHASH_SINGLE"}


def type_text(byte):
    """the documented rendering of a signature byte (base type, then the flag bits)"""
    t = TYPE_TEXT.get(byte & 0x3F, "SIGHASH_UNKNOWN")
    if byte & 0x80:
        t += " | SIGHASH_ANYONECANPAY"
    if byte & 0x40:
        t += " | SIGHASH_FORKID"
    return t


def listed_now(mut, shape, pos):
    """key ids the puzzle now at pos lists: those of its descriptor while the spent script is the one that was signed
    for (possibly followed by OP_NOP); another script lists keys outside the table"""
    if mut is None:
        return list(shape[pos]["keys"])
    m = mut.meta[pos]
    u = mut.tx.unspents[pos]
    if m["id"] == 0 or u is None:
        return []
    return list(shape[m["id"] - 1]["keys"]) if bytes(u.script) in (m["spk"], m["spk"] + b"\x61") else []


def features(coin, tx, pos):
    """input-class features of the concrete state for failure keys (class signature of the failing input):
    unspent-missing / offcurve-key-listed (a 33- or 65-byte push with prefix 02/03/04 that is no curve point) /
    refused-hashtype-sibling (on fork-id coins: a DER blob whose hash-type byte lacks the fork-id bit, e.g. the
    solver's placeholder signature)"""
    from . import script as SC
    N = S.network(coin)
    if pos >= len(tx.unspents) or tx.unspents[pos] is None:
        return "unspent-missing"
    tin = tx.txs_in[pos]
    scripts = [bytes(tx.unspents[pos].script)]
    try:
        items = [d for (o, d, a, b) in N.script.get_opcodes(tin.script) if d] + [bytes(w) for w in tin.witness]
    except Exception:  # noqa
        items = [bytes(w) for w in tin.witness]
    scripts += [x for x in items if len(x) > 33]
    for sc in scripts:
        try:
            pushes = [d for (o, d, a, b) in N.script.get_opcodes(sc) if d]
        except Exception:  # noqa
            continue
        for d in pushes:
            if len(d) in (33, 65) and d[0] in (2, 3, 4) and SC.parse_pubkey_ref(d) is None:
                return "offcurve-key-listed"
    if coin in ("BCH", "BTG") and any(len(b) >= 9 and b[0] == 0x30 and not (b[-1] & 0x40) for b in items):
        return "refused-hashtype-sibling"
    return None


# ---------------------------------------------------------------- recorder (code -> spec)

class TokenModel(object):
    """which edits of TxValidate.tla are ENABLED on the concrete transaction: mirrors the token state of the
    specification (0 = as signed, 1 = changed; spent script k / 10 + k / 30 + k; output tokens 1..3) so that the
    recorder only performs edits that are steps of the specification.  It decides nothing about attribution."""

    def __init__(self, shape, nout):
        self.ver = 0
        self.lock = 0
        self.ins = [{"id": k + 1, "oph": 0, "opi": 0, "seq": 0, "amt": 0, "spk": k + 1, "known": True, "unl": k + 1}
                    for k in range(len(shape))]
        self.outs = [{"amt": j + 1, "spk": j + 1} for j in range(nout)]
        self.nop = [d["kind"] in ("p2pk", "p2pkh", "ms_bare") for d in shape]
        self.orig = self.snapshot()

    def snapshot(self):
        return (self.ver, self.lock, copy.deepcopy(self.ins), copy.deepcopy(self.outs))

    def candidates(self):
        out = []
        n, no = len(self.ins), len(self.outs)
        out += [("ver", 0, 1 - self.ver), ("lock", 0, 1 - self.lock)]
        for p, r in enumerate(self.ins, 1):
            for f in ("oph", "opi", "seq"):
                out.append((f, p, 1 - r[f]))
            if r["known"]:
                out.append(("spent_amt", p, 1 - r["amt"]))
                out.append(("forget", p, 0))
                if r["id"]:
                    opts = [r["id"], 10 + r["id"]] + ([30 + r["id"]] if self.nop[r["id"] - 1] else [])
                    out += [("spent_spk", p, b) for b in opts if b != r["spk"]]
        for p, o in enumerate(self.outs, 1):
            out += [("out_amt", p, b) for b in (1, 2, 3) if b != o["amt"]]
            out += [("out_spk", p, b) for b in (1, 2, 3) if b != o["spk"]]
            out.append(("outs_remove", p, 0))
        out += [("outs_insert", 1, 3), ("outs_insert", no + 1, 3), ("ins_insert", 1, 0), ("ins_insert", n + 1, 0)]
        if n > 1:
            out += [("ins_remove", p, 0) for p in range(1, n + 1)]
            out += [(m, a, b) for m in ("ins_swap", "unl_swap") for a in range(1, n + 1) for b in range(a + 1, n + 1)]
        out += [("outs_swap", a, b) for a in range(1, no + 1) for b in range(a + 1, no + 1)]
        if self.snapshot() != self.orig:
            out.append(("revert", 0, 0))
        return out

    def apply(self, m, a, b):
        p = a - 1
        if m == "ver":
            self.ver = b
        elif m == "lock":
            self.lock = b
        elif m in ("oph", "opi", "seq"):
            self.ins[p][m] = b
        elif m == "spent_amt":
            self.ins[p]["amt"] = b
        elif m == "spent_spk":
            self.ins[p]["spk"] = b
        elif m == "forget":
            self.ins[p]["known"] = False
        elif m in ("out_amt", "out_spk"):
            self.outs[p][m[4:]] = b
        elif m == "outs_remove":
            del self.outs[p]
        elif m == "outs_insert":
            self.outs.insert(p, {"amt": b, "spk": b})
        elif m == "outs_swap":
            self.outs[p], self.outs[b - 1] = self.outs[b - 1], self.outs[p]
        elif m == "ins_insert":
            self.ins.insert(p, {"id": 0, "oph": 0, "opi": 0, "seq": 0, "amt": 0, "spk": 20, "known": True, "unl": 0})
        elif m == "ins_remove":
            del self.ins[p]
        elif m == "ins_swap":
            self.ins[p], self.ins[b - 1] = self.ins[b - 1], self.ins[p]
        elif m == "unl_swap":
            self.ins[p]["unl"], self.ins[b - 1]["unl"] = self.ins[b - 1]["unl"], self.ins[p]["unl"]
        elif m == "revert":
            self.ver, self.lock, self.ins, self.outs = copy.deepcopy(self.orig)
        else:
            raise ValueError(m)


KINDS = ("p2pk", "p2pkh", "p2wpkh", "p2sh_p2wpkh", "ms_bare", "ms_p2sh", "ms_p2wsh", "ms_p2sh_p2wsh")


def random_shape(rnd, coin):
    n_in = rnd.choice([2, 3, 3, 4, 5])
    shape = []
    for i in range(n_in):
        if shape and rnd.random() < 0.25:
            shape.append(dict(rnd.choice(shape)))          # the same puzzle again
            continue
        kinds = [k for k in KINDS if coin != "BCH" or k not in S.WITNESS_KINDS]
        kind = rnd.choice(kinds)
        form = "c" if kind in S.WITNESS_KINDS or rnd.random() < 0.6 else "u"
        if kind in S.MULTI_KINDS:
            n = rnd.choice([1, 2, 2, 3, 3, 4])
            keys = rnd.sample(range(1, 10), n)
            m = rnd.randint(1, n)
        else:
            keys, m = [rnd.randint(1, 9)], 1
        shape.append({"kind": kind, "m": m, "keys": keys, "form": form})
    return shape


def _observe(coin, ses_or_mut, puzzles, tx, notes):
    """who_signed's report per position; notes[pos] = [feature, exception text or None] for failure keys"""
    att = []
    for pos in range(len(tx.txs_in)):
        rep = report(coin, tx, pos)
        exc = None
        if "pairs" in rep:
            att.append(rep["pairs"])
        else:
            att.append([[-1, -1]])
            exc = rep["exc"].get("public_pairs_signed", "?")
        foreign = False
        if isinstance(ses_or_mut, Mutator) and ses_or_mut.unl[pos]:
            m = ses_or_mut.meta[pos]
            u = tx.unspents[pos]
            foreign = ses_or_mut.unl[pos] != m["id"] or u is None or bytes(u.script) not in (m["spk"], m["spk"] + b"\x61")
        notes.append([features(coin, tx, pos), exc, foreign])
    return att


def record_session(seed):
    """one seeded session -> trace dict for X02_Trace_Attribution (plus "_exc": exceptions seen per event)"""
    import random
    rnd = random.Random(seed)
    coin = rnd.choice(["BTC", "BTC", "BTC", "LTC", "BCH", "BTG", "XTN", "DOGE"])
    shape = random_shape(rnd, coin)
    nout = rnd.choice([1, 1, 2, 2, 3])
    ses = S.Session(coin, shape, n_out=nout)
    bits = S.flag_bits(["P2SH", "WITNESS"])
    ev, excs = [], []
    allkeys = sorted(set(k for d in shape for k in d["keys"]))
    n_in = len(shape)
    for _ in range(rnd.randint(1, 3)):
        K = sorted(set(rnd.sample(allkeys + [10, 11], rnd.randint(1, len(allkeys)))))
        if rnd.random() < 0.3:
            K = allkeys
        I = list(range(1, n_in + 1)) if rnd.random() < 0.5 else sorted(rnd.sample(range(1, n_in + 1), rnd.randint(1, n_in)))
        ic = "none" if len(I) == n_in and rnd.random() < 0.7 else rnd.choice(["set", "list", "tuple"])
        ht = rnd.choice([1, 1, 2, 3, 129, 130, 131])
        ses.sign({"mech": "lookup", "K": K, "I": I, "ht": ht, "scr": True, "reg": [], "sec": [], "fresh": True, "ic": ic})
        e = {"t": "sign", "K": K, "I": I, "ht": ht, "ic": ic}
        e["signed"] = [S.project_input(coin, ses.tx, i, pz, bits)["signed"] for i, pz in enumerate(ses.puzzles)]
        x = []
        e["att"] = _observe(coin, ses, ses.puzzles, ses.tx, x)
        excs.append(x)
        ev.append(e)
    mut = Mutator(coin, copy.deepcopy(ses.tx), ses.puzzles)
    mut.blobs = mut.signature_blobs()
    tok = TokenModel(shape, nout)
    retagged = False
    for _ in range(rnd.randint(0, 4)):
        if not retagged and mut.blobs and rnd.random() < 0.2:
            (i, k) = rnd.choice(sorted(mut.blobs))
            old = mut.blobs[(i, k)][-1]
            fork = 0x40 if coin in ("BCH", "BTG") else 0
            b = rnd.choice([x | fork for x in (1, 2, 3, 129, 130, 131) if (x | fork) != old])
            if i in mut.unl:
                mut.retag(i, k, b)
                retagged = True
                e = {"t": "retag", "a": i, "key": k, "b": b}
            else:
                continue
        else:
            m, a, b = rnd.choice(tok.candidates())
            try:
                mut.apply({"m": m, "a": a, "b": b})
            except S.NotInjective:
                break
            tok.apply(m, a, b)
            e = {"t": "mut", "m": m, "a": a, "b": b}
        x = []
        e["att"] = _observe(coin, mut, mut.puzzles, mut.tx, x)
        excs.append(x)
        ev.append(e)
    return {"coin": coin, "shape": shape, "nout": nout, "ev": ev, "_exc": excs, "_seed": seed,
            "_feat": None}
