"""X07: driver for the small command-line front-ends msg, keychain, coinc, block, b58.

Everything expected comes from spec/X07_Cmds.tla through TLC (X07_MC_Cmds / X07_Trace_Cmds): an outcome is an ending
("ok" / "fail" / "refuse") and output lines made of pieces over terms.  This module
  (a) evaluates the terms (hashlib, the independent Base58 / Bech32 / secp256k1 code of drv.nets and drv.msgsign,
      drv.block's evaluator for BlockWire's terms),
  (b) concretizes abstract tokens into command-line arguments and files,
  (c) runs the commands in-process through their `main()` (argv, stdin, stdout, stderr patched; the exit status is what
      the console-script wrapper `sys.exit(main())` would give) and reads what they print,
  (d) compares observation and expected outcome piece by piece.
It never asks pycoin for an expected value (extended key TEXTS of the keychain world's roots are produced by the roots
the X06 world builds, and cross-checked there against the evaluated BIP32 terms).
"""
from __future__ import annotations

import base64
import gc
import hashlib
import importlib
import io
import os
import shutil
import sqlite3
import sys

from . import block as blk
from . import msgsign as ms
from . import nets

BASE = "/tmp/x07"
N = nets.N


# ---------------------------------------------------------------- (c) running a command

class Obs(object):
    __slots__ = ("end", "code", "out", "err", "exc")

    def __init__(self, end, code, out, err, exc):
        self.end, self.code, self.out, self.err, self.exc = end, code, out, err, exc

    def lines(self):
        ls = self.out.split("\n")
        if ls and ls[-1] == "":
            ls.pop()
        return ls

    def asdict(self):
        return {"end": self.end, "code": self.code, "out": self.out[:4000], "err": self.err[-600:], "exc": self.exc}


def invoke(cmd, argv, stdin_text=None, cwd=None):
    """run `cmd argv...` as its console script would: sys.exit(main())"""
    mod = importlib.import_module("pycoin.cmds." + cmd)
    old = (sys.argv, sys.stdout, sys.stderr, sys.stdin)
    oldcwd = os.getcwd()
    out, err = io.StringIO(), io.StringIO()
    end, code, exc = "ok", 0, None
    try:
        sys.argv = [cmd] + list(argv)
        sys.stdout, sys.stderr = out, err
        sys.stdin = io.StringIO(stdin_text if stdin_text is not None else "")
        if cwd:
            os.chdir(cwd)
        try:
            rc = mod.main()
            code = rc
        except SystemExit as e:
            code = e.code
        except BaseException as e:                      # noqa
            exc = "%s: %s" % (type(e).__name__, str(e)[:200])
            end = "traceback:" + type(e).__name__
            e = None
    finally:
        sys.argv, sys.stdout, sys.stderr, sys.stdin = old
        os.chdir(oldcwd)
    gc.collect()                                         # an escaped exception may have kept a database connection alive
    if exc is None:
        if code is None or code == 0:
            end, code = "ok", 0
        else:
            end = "nonzero"
            if not isinstance(code, int):                # sys.exit("message") prints the message and exits with 1
                err.write(str(code) + "\n")
                code = 1
    return Obs(end, code if isinstance(code, int) else None, out.getvalue(), err.getvalue(), exc)


# ---------------------------------------------------------------- (a) terms

def expand_run(rs):
    """ScriptPush's run-length bytes [{n, b}, ...]"""
    return b"".join(bytes([r["b"]]) * r["n"] for r in rs)


def expand_rb(rs):
    """Bytes.tla's run-length bytes [[b, n], ...]"""
    return b"".join(bytes([r[0]]) * r[1] for r in rs)


def rle_run(b):
    out = []
    for x in b:
        if out and out[-1]["b"] == x:
            out[-1]["n"] += 1
        else:
            out.append({"n": 1, "b": x})
    return out


class Ev(object):
    """term -> bytes (or str for text terms)"""

    def __init__(self, bind=None, world=None):
        self.bind = bind or {}
        self.world = world
        self.bev = blk.Ev(0)

    def __call__(self, t):
        if isinstance(t, list):                           # a literal byte list
            return bytes(t)
        op = t["op"]
        if op == "sym":
            return self.bind[t["name"]]
        if op == "run":
            return expand_run(t["v"])
        if op == "rb":
            return expand_rb(t["v"])
        if op == "bytes":
            return self(t["a"]) if isinstance(t["a"], dict) else bytes(t["a"])
        if op == "b":
            v = t["v"]
            if v and isinstance(v[0], list):
                return expand_rb(v)
            return bytes(v)
        if op == "rep":
            return bytes(t["v"]) * t["n"]
        if op == "cat":
            return b"".join(self(x) for x in (t["a"] if "a" in t else t["arg"]))
        if op == "h160":
            return nets.h160(self(t["a"]))
        if op == "sha256":
            return hashlib.sha256(self(t["a"])).digest()
        if op == "h256d":
            if "arg" in t:
                a = t["arg"]
                if a and isinstance(a[0], dict):           # MsgText!DigestTerm: a list of pieces
                    return nets.sha256d(b"".join(self(x) for x in a))
                return nets.sha256d(expand_rb(a))          # TxWire!H256d(bytes)
            return nets.sha256d(self(t["l"]) + self(t["r"]))   # Merkle!Node
        if op == "h256d_cat":
            return nets.sha256d(b"".join(self(p) for p in t["parts"]))
        if op == "rev":
            return self(t["arg"])[::-1]
        if op == "withcheck":
            p = self(t["a"])
            return p + nets.sha256d(p)[:4]
        if op == "b58c":
            if t.get("chk", "sha256d") != "sha256d":
                raise ValueError("checksum function " + str(t.get("chk")))
            return nets.b58check(self(t["a"]))
        if op == "segwit":
            return nets.segwit("".join(map(chr, t["hrp"])), t["ver"], self(t["a"]), t["var"])
        if op == "multisig":
            return self.multisig(t, t.get("order", "sorted"))
        if op == "recaddr":
            return self.recaddr(t)
        raise ValueError("unknown term op %r" % (op,))

    def multisig(self, t, order):
        secs = [nets.sec_of(self.world.key[k]["pp"], True) for k in t["keys"]]
        if order == "sorted":
            secs = sorted(secs)
        m, n = t["m"], len(secs)
        return bytes([0x50 + m]) + b"".join(bytes([len(s)]) + s for s in secs) + bytes([0x50 + n, 0xae])

    def recaddr(self, t):
        """address of the key a good signature commits to under ANOTHER digest (MsgSign!Recover, independent curve)"""
        text = self.bind["sigtext"][sig_id(t["sig"])]
        raw = base64.b64decode(text)
        h, r, s = raw[0], int.from_bytes(raw[1:33], "big"), int.from_bytes(raw[33:], "big")
        e = int.from_bytes(self(t["dig"]), "big")
        q = ms.ec_recover(e, r, s, (h - 27) & 3)
        if q is None:
            return None
        comp = (h - 27) >> 2 == 1
        return nets.b58check(bytes(t["pfx"]) + nets.h160(nets.sec_of(q, comp)))


def num(limbs):
    return sum(l << (16 * i) for i, l in enumerate(limbs))


def sig_id(sig):
    d = hashlib.sha256(repr(sig["msg"]).encode()).hexdigest()[:16]
    return "%s|%s|%s|%s|%s|%s" % (sig["cls"], sig["signer"], sig["comp"], sig["h"], sig["net"], d)


# ---------------------------------------------------------------- keys of the msg command

class Keys(object):
    """abstract keys 1..NK -> secret exponents (boundary values first), public points by the reference curve"""

    def __init__(self, seed, table, special=None):
        self.se = {}
        pool = [1, N - 1, 2]
        for k in range(1, 9):
            if special and k in special:
                v = special[k]
            elif seed % 3 == 0 and k <= len(pool):
                v = pool[k - 1]
            else:
                v = int.from_bytes(hashlib.sha256(b"X07 key %d %d" % (k, seed)).digest(), "big") % (N - 1) + 1
            self.se[k] = v
        self.pt = {}
        self.net = {r["sym"]: r for r in table}

    def point(self, k):
        if k not in self.pt:
            self.pt[k] = nets.ec_mul(self.se[k])
        return self.pt[k]

    def bind(self):
        b = {}
        for k in (1, 2, 3):
            b["se%d" % k] = self.se[k].to_bytes(32, "big")
            b["secc%d" % k] = nets.sec_of(self.point(k), True)
            b["secu%d" % k] = nets.sec_of(self.point(k), False)
        b["sigtext"] = {}
        return b

    def wif(self, k, comp, net):
        return nets.b58check(bytes(self.net[net]["wif"]) + self.se[k].to_bytes(32, "big") + (b"\x01" if comp else b""))

    def address(self, k, comp, net):
        return nets.b58check(bytes(self.net[net]["p2pkh"]) + nets.h160(nets.sec_of(self.point(k), comp)))

    def sign(self, k, comp, e, salt=0):
        """an ECDSA signature with recovery by the reference curve (SEC 1 4.1.3), as compact text"""
        d = self.se[k]
        j = 0
        while True:
            nonce = int.from_bytes(hashlib.sha256(b"X07 nonce %d %d %d %d" % (d % 2**64, e % 2**64, salt, j)).digest(), "big") % (N - 1) + 1
            R = nets.ec_mul(nonce)
            r = R[0] % N
            s = pow(nonce, -1, N) * (e + d * r) % N
            if r and s:
                recid = (R[1] & 1) | (2 if R[0] >= N else 0)
                return ms.compact_text(27 + recid + (4 if comp else 0), r, s)
            j += 1


def rle_cps(text):
    out = []
    for ch in text:
        if out and out[-1][0] == ord(ch):
            out[-1][1] += 1
        else:
            out.append([ord(ch), 1])
    return out


def text_of_runs(rt):
    return "".join(chr(c) * n for c, n in rt)


# ---------------------------------------------------------------- (d) comparing lines

class Mismatch(Exception):
    def __init__(self, tag, detail=None):
        Exception.__init__(self, tag)
        self.tag, self.detail = tag, detail


def piece_text(p, ev):
    t = p["t"]
    if t == "lit":
        return p["s"]
    if t == "hex":
        return ev(p["a"]).hex()
    if t == "dec":
        return str(num(p["n"]))
    if t == "decn":
        return str(p["n"])
    if t == "dec2":
        return "%2d" % num(p["n"])
    if t == "cps":
        return "".join(map(chr, p["a"]))
    if t == "text":
        v = ev(p["a"])
        if v is None:
            raise Mismatch("no-value")
        return v
    raise KeyError(t)


def line_alternatives(line, ev):
    """the texts a line of deterministic pieces may be (a multisig script may list its keys as given or sorted)"""
    alts = [""]
    for p in line:
        if p["t"] == "text" and _has_multisig(p["a"]):
            vs = []
            for order in ("sorted", "given"):
                vs.append(ev(_with_order(p["a"], order)))
            alts = [a + v for a in alts for v in dict.fromkeys(vs)]
        else:
            s = piece_text(p, ev)
            alts = [a + s for a in alts]
    return alts


def _has_multisig(t):
    if isinstance(t, dict):
        return t.get("op") == "multisig" or any(_has_multisig(v) for v in t.values())
    if isinstance(t, list):
        return any(_has_multisig(v) for v in t)
    return False


def _with_order(t, order):
    if isinstance(t, dict):
        d = {k: _with_order(v, order) for k, v in t.items()}
        if t.get("op") == "multisig":
            d["order"] = order
        return d
    if isinstance(t, list):
        return [_with_order(v, order) for v in t]
    return t


def check_sig_line(text, piece, ev):
    """a compact signature text that commits to sig = [signer, comp, dig]: 65 bytes, header says the form, and
    MsgSign!Recover under the digest gives the signer's point (reference curve)"""
    sig = piece["sig"]
    try:
        raw = base64.b64decode(text, validate=True)
    except Exception:                                      # noqa
        return "not-base64"
    if len(raw) != 65 or base64.b64encode(raw).decode() != text:
        return "not-65-bytes-canonical"
    h = raw[0]
    if not 27 <= h <= 34:
        return "header-out-of-range"
    if ((h - 27) >> 2 == 1) != bool(sig["comp"]):
        return "form-flag-differs-from-the-key's"
    e = int.from_bytes(ev(piece["dig"]), "big")
    q = ms.ec_recover(e, int.from_bytes(raw[1:33], "big"), int.from_bytes(raw[33:], "big"), (h - 27) & 3)
    pt = ev.bind["point"][sig["signer"]]
    if q is None or tuple(q) != tuple(pt):
        return "does-not-recover-the-signer"
    return None


def asm_tokens(text):
    toks = []
    for w in text.split():
        if w.startswith("[") and w.endswith("]"):
            try:
                toks.append(("data", bytes.fromhex(w[1:-1])))
            except ValueError:
                toks.append(("junk", w))
        else:
            toks.append(("op", w))
    return toks


SPELLING = {"OP_FALSE": "OP_0", "OP_TRUE": "OP_1"}      # Core's other names of the two opcodes


def check_asm(text, p):
    if p["cls"] == "free":
        return None
    got = asm_tokens(text)
    for alt in p["alts"]:
        want = [("data", expand_run(t["d"])) if t["t"] == "data" else ("op", t["name"]) for t in alt]
        if want == [(k, SPELLING.get(v, v) if k == "op" else v) for k, v in got]:
            return None
    return "disassembly-" + p["cls"]


def match_lines(want, got, ev):
    """want: expected lines (pieces); got: observed lines.  Raises Mismatch(tag)"""
    gi = 0
    for li, line in enumerate(want):
        kinds = [p["t"] for p in line]
        if kinds == ["blockdump"]:
            gi = match_blockdump(line[0]["d"], got, gi, ev)
            continue
        if kinds and kinds[0] == "optional":
            if gi >= len(got):
                continue
            line, kinds = line[1:], kinds[1:]
        if gi >= len(got):
            raise Mismatch("line-%d-missing" % (li + 1), {"want": line})
        g = got[gi]
        gi += 1
        if kinds == ["sig"]:
            bad = check_sig_line(g, line[0], ev)
            if bad:
                raise Mismatch("signature-" + bad, {"line": g})
        elif kinds == ["asm"]:
            bad = check_asm(g, line[0])
            if bad:
                raise Mismatch(bad, {"line": g[:200]})
        elif kinds == ["any"]:
            pass
        elif "any" in kinds:
            pre = "".join(piece_text(p, ev) for p in line[:kinds.index("any")])
            if not g.startswith(pre):
                raise Mismatch("line-%d-differs" % (li + 1), {"want_prefix": pre, "got": g[:200]})
        else:
            alts = line_alternatives(line, ev)
            if g not in alts:
                raise Mismatch("line-%d-differs" % (li + 1), {"want": [a[:300] for a in alts], "got": g[:300]})
    if gi != len(got):
        raise Mismatch("extra-lines", {"extra": got[gi:gi + 3]})


BLOCK_LABELS = ["size+id", "version", "prior", "merkle-root", "timestamp", "difficulty", "nonce", "tx-count"]


def match_blockdump(d, got, gi, ev):
    for k, line in enumerate(d["head"]):
        w = "".join(piece_text(p, ev) for p in line)
        if gi >= len(got) or got[gi] != w:
            raise Mismatch("block-" + BLOCK_LABELS[k], {"want": w, "got": got[gi] if gi < len(got) else None})
        gi += 1
    for i, heads in enumerate(d["txs"]):
        for k, line in enumerate(heads):
            w = "".join(piece_text(p, ev) for p in line)
            if gi >= len(got) or got[gi] != w:
                raise Mismatch("block-tx-" + ("marker" if k == 0 else "head"), {"tx": i, "want": w, "got": got[gi] if gi < len(got) else None})
            gi += 1
        while gi < len(got) and got[gi] != "" and not got[gi].startswith("Tx #"):      # the rest of the transaction's dump
            gi += 1
    if gi >= len(got) or got[gi] != "":
        raise Mismatch("block-end-line", {"got": got[gi] if gi < len(got) else None})
    return gi + 1


def judge(cmd, inv, res, obs, ev, cls):
    """-> None or (key suffix, what, detail)"""
    want = res["st"]
    if obs.end.startswith("traceback"):
        if True:
            return ("expected=%s|got=%s" % (want if not res["open"] else want + "-or-refuse", obs.end),
                    "%s %s: an exception escapes from the command (%s)" % (cmd, cls, obs.exc), None)
    got_lines = obs.lines()
    if want == "refuse" or (res["open"] and obs.end == "nonzero"):
        if obs.end != "nonzero":
            return ("expected=refuse|got=served", "%s %s: arguments that denote nothing are served" % (cmd, cls), {"out": obs.out[:300]})
        before = res["aux"].get("before") or []
        if got_lines and before:
            try:
                match_lines(before, got_lines, ev)
                got_lines = []
            except Mismatch:
                pass
        if got_lines:
            return ("expected=refuse|got=output-and-nonzero", "%s %s: refused, but something was printed on stdout" % (cmd, cls), {"out": obs.out[:300]})
        if not obs.err.strip():
            return ("expected=refuse|got=silent-nonzero", "%s %s: refused without a message" % (cmd, cls), None)
        return None
    try:
        match_lines(res["out"], got_lines, ev)
    except Mismatch as m:
        return ("expected=%s|%s" % (want, m.tag), "%s %s: what is printed differs from what the arguments denote (%s)" % (cmd, cls, m.tag), m.detail)
    if want == "ok" and obs.end != "ok":
        return ("expected=ok|got=exit-status-%s" % obs.code, "%s %s: served, but the exit status is %s" % (cmd, cls, obs.code), {"err": obs.err[-300:]})
    if want == "fail" and obs.end != "nonzero":
        return ("expected=fail|got=exit-status-0", "%s %s: the negative verdict is printed but the exit status is 0" % (cmd, cls), {"out": obs.out[:200]})
    for line in res.get("err", []):
        w = "".join(piece_text(p, ev) for p in line)
        if w not in obs.err.split("\n"):
            return ("expected=%s|stderr-line-differs" % want, "%s %s: stderr lacks %r" % (cmd, cls, w), {"err": obs.err[-300:]})
    return None


# ---------------------------------------------------------------- (b) msg

def msg_class(inv, refused=False):
    if refused:
        return inv["sub"] if inv["sub"] != "sign" or inv["wif"]["cls"] == "wif" and inv["wif"]["net"] == inv["net"] else \
            "sign|wif=%s%s" % (inv["wif"]["cls"], "" if inv["wif"]["net"] == inv["net"] else "-of-another-network")
    if inv["sub"] == "sign":
        w = inv["wif"]
        return "sign|wif=%s%s|src=%s" % (w["cls"], "" if w["net"] == inv["net"] else "-of-another-network", inv["src"])
    if inv["sub"] == "verify":
        a = inv["addr"]
        return "verify|sig=%s|addr=%s|src=%s" % (inv["sig"]["cls"], a["cls"], inv["src"])
    return "no-subcommand"


class MsgRunner(object):
    def __init__(self, keys, tag):
        self.keys = keys
        self.dir = os.path.join(BASE, "msg-" + tag)
        os.makedirs(self.dir, exist_ok=True)
        self.n = 0

    def sig_text(self, sig, ev):
        sid = sig_id(sig)
        texts = ev.bind["sigtext"]
        if sid in texts:
            return texts[sid]
        cls = sig["cls"]
        if cls == "ok":
            if sig.get("sigdig") is None:               # refused before the signature is looked at: any text will do
                return self.keys.sign(sig["signer"], sig["comp"], 12345)
            e = int.from_bytes(ev(sig["sigdig"]), "big")
            t = self.keys.sign(sig["signer"], sig["comp"], e)
        elif cls == "not_base64":
            t = "!" + self.keys.sign(1, True, 12345)[1:]
        elif cls == "wrong_length":
            t = base64.b64encode(base64.b64decode(self.keys.sign(1, True, 12345))[:64]).decode()
        else:
            e = int.from_bytes(ev(sig["edig"]), "big")
            mem = ms.member(cls, sig["h"], e)
            if mem is None:
                return None
            h, r, s, _pair = mem
            if cls not in ("hdr_range",) and 27 <= h <= 34:
                got = ms.ec_class(e, r, s, (h - 27) & 3)
                if got != cls:
                    raise ValueError("member of class %s is of class %s" % (cls, got))
            t = ms.compact_text(h, r % (1 << 256), s % (1 << 256)) if s < (1 << 256) and r < (1 << 256) else None
        texts[sid] = t
        return t

    def argv(self, inv, ev):
        """-> (argv, stdin text) or None when the token has no member"""
        message = text_of_runs(inv["msg"])
        a = ["-n", inv["net"]] if inv["net"] != "BTC" or self.n % 2 else []
        self.n += 1
        if inv["sub"] == "none":
            return a + ["-m", message], None
        a.append(inv["sub"])
        stdin = None
        src = inv["src"]
        path = os.path.join(self.dir, "m%d.txt" % self.n)
        if src in ("i", "both"):
            with open(path, "w", encoding="utf8", newline="") as f:
                f.write(message)
        srcargs = {"m": ["-m", message], "i": ["-i", path], "both": ["-m", message, "-i", path],
                   "nofile": ["-i", os.path.join(self.dir, "no-such-file")], "stdin": []}[src]
        if src == "stdin":
            stdin = message
        if inv["sub"] == "sign":
            w = inv["wif"]
            tok = {"wif": lambda: self.keys.wif(w["key"], w["comp"], w["net"]),
                   "address": lambda: self.keys.address(w["key"], w["comp"], w["net"]),
                   "garbage": lambda: "5notawif"}[w["cls"]]()
            pos = [tok]
        else:
            sig = dict(inv["sig"])
            if sig["cls"] == "ok":
                sig["sigdig"] = inv.get("_sigdig")
            elif sig["cls"] not in ("not_base64", "wrong_length"):
                sig["edig"] = inv["_dig"]
            st = self.sig_text(sig, ev)
            if st is None:
                return None
            pos = [st]
            ad = inv["addr"]
            if ad["cls"] == "addr":
                pos.append(self.keys.address(ad["key"], ad["comp"], ad["net"]))
            elif ad["cls"] == "garbage":
                pos.append("1notanaddress")
        # options before or after the positionals: both are the same command line
        return (a + srcargs + pos) if self.n % 3 else (a + pos + srcargs), stdin

    def close(self):
        shutil.rmtree(self.dir, ignore_errors=True)


# ---------------------------------------------------------------- (b) keychain

class KcRunner(object):
    def __init__(self, world, tag):
        self.world = world
        self.dir = os.path.join(BASE, "kc-" + tag)
        os.makedirs(self.dir, exist_ok=True)
        self.net = world.network()
        self._other = None

    def path(self, sid):
        return os.path.join(self.dir, "s%s.db" % sid)

    def key_text(self, tok):
        if tok["cls"] == "hd":
            return self.world.root(tok["r"], tok["form"]).hwif(as_private=tok["form"] == "prv")
        if tok["cls"] == "wif":
            return self.world.root(tok["r"], "prv").wif()
        if tok["cls"] == "othernet":
            if self._other is None:
                from pycoin.symbols.xtn import network as xtn
                self._other = xtn.keys.bip32_seed(self.world.syms["seed" + self.world.roots[tok["r"]]["master"]])
            return self._other.hwif(as_private=tok["form"] == "prv")
        return "xpub-not-a-key"

    def argv(self, inv, sid):
        a = []
        if inv["m"]:
            a += ["-m", str(inv["m"])]
        if inv.get("net", "BTC") != "BTC":
            a += ["-n", inv["net"]]
        rng = inv["range"] if isinstance(inv["range"], str) else "".join(inv["range"])      # (recorded sessions carry characters)
        return a + [self.path(sid), rng] + [self.key_text(t) for t in inv["keys"]]

    def fresh(self, sid):
        for suffix in ("", "-journal", "-wal", "-shm"):
            if os.path.exists(self.path(sid) + suffix):
                os.remove(self.path(sid) + suffix)

    # ---- what the file holds / answers afterwards
    def open(self, sid):
        # (no file: nothing was ever registered - an empty keychain)
        conn = sqlite3.connect(self.path(sid) if os.path.exists(self.path(sid)) else ":memory:")
        return conn, self.net.keychain(conn)

    def script_names(self, log_scripts, ev):
        """script bytes -> the spec's id, for both key orders"""
        m = {}
        for sid_ in log_scripts:
            t = {"op": "multisig", "m": sid_[1], "keys": sid_[2]}
            for order in ("sorted", "given"):
                m[ev.multisig(t, order)] = sid_
        return m

    def interest(self, sid, scripts):
        conn, kc = self.open(sid)
        w = self.world
        sh = {}
        for b, name in scripts.items():
            sh[nets.h160(b)] = ("s", name)
            sh[hashlib.sha256(b).digest()] = ("s", name)
        out = set()
        try:
            for h in kc.interested_hashes():
                h = bytes(h)
                if h in w.by_hash:
                    out.add(("k", w.by_hash[h][0]))
                elif h in sh:
                    out.add(sh[h])
                else:
                    out.add(("?", h.hex()))
        finally:
            conn.close()
        return out

    def answers(self, sid, secs, queries, scripts):
        """a fresh keychain on the file, handed the secrets, asked every query -> {query text: answer text}"""
        conn, kc = self.open(sid)
        w = self.world
        out = {}
        try:
            kc.add_secrets([w.root(r, form) for r, form in secs])
            for q in queries:
                if q[0] == "k":
                    h = w.key[q[1]]["hc" if q[2] == "c" else "hu"]
                else:
                    b = [bb for bb, name in scripts.items() if name == q[1]]
                    if not b:
                        out[qtext(q)] = "no-such-script"
                        continue
                    hs = set((nets.h160(x) if q[0] == "s160" else hashlib.sha256(x).digest()) for x in b)
                    r = "miss"
                    for h in sorted(hs):
                        r = self._get(kc, h, scripts)
                        if r != "miss":
                            break
                    out[qtext(q)] = r
                    continue
                out[qtext(q)] = self._get(kc, h, scripts)
        finally:
            conn.close()
        return out

    def _get(self, kc, h, scripts):
        w = self.world
        sentinel = ("no", "key")
        try:
            r = kc.get(h, sentinel)
        except Exception as e:                              # noqa
            return "raise:" + type(e).__name__
        if r is sentinel:
            return "miss"
        if isinstance(r, (bytes, bytearray)):
            name = scripts.get(bytes(r))
            return "script|%s" % (stext(name),) if name else "script|?"
        try:
            se, pp, comp, _gen = r
            pp = tuple(pp)
        except Exception:                                   # noqa
            return "garbage:" + type(r).__name__
        name = w.by_xy.get(pp)
        if name is None:
            return "key|?"
        kind = "pub" if se is None else "prv" if se == w.key[name]["se"] else "wrong-secret"
        return "key|%s|%s|%s" % (name, kind, "c" if comp is True else "u" if comp is False else "?")

    def close(self):
        shutil.rmtree(self.dir, ignore_errors=True)


def stext(sid_):
    return "ms:%d:%s" % (sid_[1], ",".join(sid_[2]))


def qtext(q):
    if q[0] == "k":
        return "k|%s|%s" % (q[1], q[2])
    return "%s|%s" % (q[0], stext(q[1]))


def atext(a):
    if a[0] == "key":
        return "key|%s|%s|%s" % (a[1], a[2], a[3])
    if a[0] == "script":
        return "script|" + stext(a[1])
    return "miss"


def kc_class(inv, res):
    if res["why"]:
        return res["why"]
    forms = "+".join(sorted({t["form"] if t["cls"] == "hd" else t["cls"] for t in inv["keys"]}))
    return "%s|keys=%d:%s|m=%s" % (res["why"] or "served", len(inv["keys"]), forms, "0" if not inv["m"] else "k")


# ---------------------------------------------------------------- (b) coinc

BAD_ITEM = {"unknown_name": "OP_FOO", "badhex_bracket": "[zz]", "oddhex_bracket": "[abc]", "badhex_0x": "0xzz", "oddhex_0x": "0xabc"}


def item_text(it):
    k = it["k"]
    if k == "op":
        return it["name"]
    if k == "lower":
        return it["name"].lower()
    if k == "data":
        return "[%s]" % expand_run(it["d"]).hex()
    if k == "raw":
        return "0x" + expand_run(it["d"]).hex()
    return BAD_ITEM[it["name"]]


def coinc_argv(inv, j=0):
    a = ["-n", inv["net"]] if inv["net"] != "BTC" or j % 2 else []
    return a + [" ".join(item_text(it) for it in text) for text in inv["texts"]]


def coinc_class(inv, res):
    if res["st"] == "refuse":
        return res["why"]
    if res["open"]:
        return res["why"] + ("" if inv["net"] == "BTC" else "|net=" + inv["net"])
    kinds = sorted({(it["k"] if it["k"] != "bad" else it["name"]) for text in inv["texts"] for it in text})
    return "%s|items=%s%s" % (res["why"] or "served", "+".join(kinds) or "none", "" if inv["net"] == "BTC" else "|net=" + inv["net"])


# ---------------------------------------------------------------- (b) block

class BlockRunner(object):
    def __init__(self, tag):
        self.dir = os.path.join(BASE, "blk-" + tag)
        os.makedirs(self.dir, exist_ok=True)
        self.n = 0

    def image(self, f, ev):
        h = f["h"]
        root = merkle_root([nets.sha256d(tx_bytes(t, strip=True)) for t in f["txs"]]) if f["honest"] else ev(h["root"])
        hdr = num(h["version"]).to_bytes(4, "little") + ev(h["prev"]) + root + num(h["time"]).to_bytes(4, "little") \
            + num(h["bits"]).to_bytes(4, "little") + num(h["nonce"]).to_bytes(4, "little")
        body = blk.compact_size(len(f["txs"])) + b"".join(tx_bytes(t) for t in f["txs"])
        return hdr + body

    def argv(self, inv, ev):
        a = []
        for f in inv["files"]:
            self.n += 1
            p = os.path.join(self.dir, "b%d.bin" % self.n)
            if f["dmg"] == "missing":
                a.append(os.path.join(self.dir, "no-such-block.bin"))
                continue
            b = self.image(f, ev)
            if f["dmg"] == "cut":
                b = b[:f["cut"]]
            elif f["dmg"] == "trail":
                b = b + bytes([0xEE]) * f["cut"]
            with open(p, "wb") as fh:
                fh.write(b)
            a.append(p)
        return a

    def close(self):
        shutil.rmtree(self.dir, ignore_errors=True)


def merkle_root(ids):
    """the root that makes the file's header commit to its transactions (concretization of `honest`; the expected
    value of the merkle root LINE comes from Merkle!Root through the evaluator, not from here)"""
    row = list(ids)
    while len(row) > 1:
        if len(row) % 2:
            row.append(row[-1])
        row = [nets.sha256d(row[i] + row[i + 1]) for i in range(0, len(row), 2)]
    return row[0]


def tx_bytes(t, strip=False):
    """TxWire!Wire of the abstract transaction, written out by hand (BIP144 when some input has a witness)"""
    def vb(b):
        return blk.compact_size(len(b)) + b
    wit = any(i["wit"] for i in t["ins"]) and not strip
    out = num(t["version"]).to_bytes(4, "little")
    if wit:
        out += b"\x00\x01"
    out += blk.compact_size(len(t["ins"]))
    for i in t["ins"]:
        out += expand_rb(i["hash"]) + num(i["index"]).to_bytes(4, "little") + vb(expand_rb(i["script"])) + num(i["seq"]).to_bytes(4, "little")
    out += blk.compact_size(len(t["outs"]))
    for o in t["outs"]:
        out += num(o["amount"]).to_bytes(8, "little") + vb(expand_rb(o["script"]))
    if wit:
        for i in t["ins"]:
            out += blk.compact_size(len(i["wit"])) + b"".join(vb(expand_rb(w)) for w in i["wit"])
    return out + num(t["lock"]).to_bytes(4, "little")


def block_class(inv, res):
    if res["st"] == "refuse" or res["open"]:
        return res["why"]
    dm = "+".join(f["dmg"] for f in inv["files"])
    ntx = "+".join(str(len(f["txs"])) for f in inv["files"])
    wit = any(i["wit"] for f in inv["files"] for t in f["txs"] for i in t["ins"])
    return "%s|files=%s|txs=%s%s" % (res["why"] or "served", dm, ntx, "|witness" if wit else "")


# ---------------------------------------------------------------- (b) b58

def b58_argv(inv, ev):
    a = ["-b"] if inv["b"] else []
    for t in inv["toks"]:
        if t["cls"] == "checked":
            a.append(nets.b58check(bytes(t["p"])))
        else:
            a.append("".join(map(chr, t["t"])))
    return a


def b58_sane(inv):
    """the concretization assumptions the spec names: a text of chosen characters carries no valid checksum by accident,
    a Base58Check text is not also an even string of hex digits"""
    for t in inv["toks"]:
        if t["cls"] == "text":
            s = "".join(map(chr, t["t"]))
            if all(c in nets.B58 for c in s) and nets.b58check_dec(s) is not None and not (not inv["b"] and _is_hex(s)):
                return False
        else:
            s = nets.b58check(bytes(t["p"]))
            if not inv["b"] and _is_hex(s):
                return False
    return True


def _is_hex(s):
    return len(s) % 2 == 0 and all(c in "0123456789abcdefABCDEF" for c in s)


def b58_class(inv, res):
    if res["st"] == "refuse":
        return res["why"]
    kinds = []
    for t in inv["toks"]:
        if t["cls"] == "checked":
            kinds.append("checked")
        else:
            s = "".join(map(chr, t["t"]))
            hx, b5 = _is_hex(s), all(c in nets.B58 for c in s)
            kinds.append("hex+b58" if hx and b5 else "hex" if hx else "b58" if b5 else "neither")
    return "%s|%s|%s" % (res["why"] or "served", "+".join(kinds), "-b" if inv["b"] else "guess")
