"""C09 helpers: (a) a tiny affine secp256k1 reference, (b) the evaluator that finishes the
uninterpreted terms printed by spec/BIP32.tla (hmac/hashlib only), (c) the driver/projection
of pycoin's BIP32Node / ElectrumWallet objects.

Nothing here knows how a child key is derived: the evaluator only knows what each term
constructor MEANS (hmac512, l32, ser256, sum mod n, point sum, h160, first4, b58check ...);
which terms are built, in what byte layout, is the TLA+ spec's business.
"""
from __future__ import annotations

import hashlib
import hmac as _hmac
import json

# ------------------------------------------------------------------ (a) reference curve
P = 2 ** 256 - 2 ** 32 - 977
N = 0xFFFFFFFFFFFFFFFFFFFFFFFFFFFFFFFEBAAEDCE6AF48A03BBFD25E8CD0364141
G = (0x79BE667EF9DCBBAC55A06295CE870B07029BFCDB2DCE28D959F2815B16F81798,
     0x483ADA7726A3C4655DA4FBFC0E1108A8FD17B448A68554199C47D08FFB10D4B8)


def ec_add(a, b):
    """affine addition on y^2 = x^3 + 7 over GF(P); None is the neutral element"""
    if a is None:
        return b
    if b is None:
        return a
    if a[0] == b[0]:
        if (a[1] + b[1]) % P == 0:
            return None
        lam = 3 * a[0] * a[0] * pow(2 * a[1], -1, P) % P
    else:
        lam = (b[1] - a[1]) * pow(b[0] - a[0], -1, P) % P
    x = (lam * lam - a[0] - b[0]) % P
    return (x, (lam * (a[0] - x) - a[1]) % P)


def ec_mul(k, pt=G):
    k %= N
    acc = None
    while k:
        if k & 1:
            acc = ec_add(acc, pt)
        pt = ec_add(pt, pt)
        k >>= 1
    return acc


_GPOW = []


def mul_g(k):
    """k*G through a table of 2^i G (same addition law, 4x fewer operations than ec_mul)"""
    if not _GPOW:
        pt = G
        for _ in range(256):
            _GPOW.append(pt)
            pt = ec_add(pt, pt)
    k %= N
    acc = None
    i = 0
    while k:
        if k & 1:
            acc = ec_add(acc, _GPOW[i])
        k >>= 1
        i += 1
    return acc


def ser_p(pt):
    if pt is None:
        raise ValueError("point at infinity has no SEC form")
    return bytes([2 + (pt[1] & 1)]) + pt[0].to_bytes(32, "big")


def parse_p(sec):
    if len(sec) != 33 or sec[0] not in (2, 3):
        raise ValueError("not a compressed SEC point")
    x = int.from_bytes(sec[1:], "big")
    if x >= P:
        raise ValueError("x out of range")
    y = pow((x * x * x + 7) % P, (P + 1) // 4, P)
    if (y * y - x * x * x - 7) % P:
        raise ValueError("not on curve")
    if (y & 1) != (sec[0] & 1):
        y = P - y
    return (x, y)


# ------------------------------------------------------------------ base58check (own, 10 lines)
_B58 = "123456789ABCDEFGHJKLMNPQRSTUVWXYZabcdefghijkmnopqrstuvwxyz"


def b58check(data):
    data = data + hashlib.sha256(hashlib.sha256(data).digest()).digest()[:4]
    v = int.from_bytes(data, "big")
    out = ""
    while v:
        v, r = divmod(v, 58)
        out = _B58[r] + out
    return "1" * (len(data) - len(data.lstrip(b"\0"))) + out


# ------------------------------------------------------------------ (b) term evaluator
class EvalError(Exception):
    pass


def _name(o):
    return json.dumps(o, sort_keys=True, separators=(",", ":"))


class Evaluator:
    """env: name -> {"chain": bytes, "pfp": bytes, "k": bytes|None, "K": bytes}; syms: name -> bytes"""

    MEMO = {}     # k -> k*G, shared by all evaluators of the process

    def __init__(self, syms=None):
        self.syms = dict(syms or {})
        self.env = {}
        self.memo_mul = Evaluator.MEMO
        self.n_hmac = 0
        self.n_mul = 0

    def mulG(self, k):
        k %= N
        r = self.memo_mul.get(k)
        if r is None:
            self.n_mul += 1
            r = self.memo_mul[k] = mul_g(k)
        return r

    def B(self, t):
        """a byte-string term -> bytes"""
        k = t["t"]
        if k == "b":
            return bytes(t["v"])
        if k == "sym":
            v = self.syms[t["n"]]
            return v
        if k == "ref":
            e = self.env[_name(t["o"])]
            v = e[t["f"]]
            if v is None:
                raise EvalError("reference to the private key of a public-only key %r" % (t["o"],))
            if len(v) != t["len"]:
                raise EvalError("reference %s has %d bytes, the spec says %d" % (t["f"], len(v), t["len"]))
            return v
        if k == "cat":
            return b"".join(self.B(x) for x in t["p"])
        if k == "hmac512":
            self.n_hmac += 1
            return _hmac.new(self.B(t["k"]), self.B(t["m"]), hashlib.sha512).digest()
        if k == "l32":
            v = self.B(t["a"])
            if len(v) != 64:
                raise EvalError("l32 of %d bytes" % len(v))
            return v[:32]
        if k == "r32":
            v = self.B(t["a"])
            if len(v) != 64:
                raise EvalError("r32 of %d bytes" % len(v))
            return v[32:]
        if k == "ser256":
            return self.S(t["a"]).to_bytes(32, "big")
        if k == "serP":
            return ser_p(self.Pt(t["a"]))
        if k == "xy64":
            pt = self.Pt(t["a"])
            return pt[0].to_bytes(32, "big") + pt[1].to_bytes(32, "big")
        if k == "h160":
            return hashlib.new("ripemd160", hashlib.sha256(self.B(t["a"])).digest()).digest()
        if k == "h256d":
            return hashlib.sha256(hashlib.sha256(self.B(t["a"])).digest()).digest()
        if k == "first4":
            return self.B(t["a"])[:4]
        if k == "stretch":
            seed = self.B(t["a"])
            x = seed
            for _ in range(t["n"]):
                x = hashlib.sha256(x + seed).digest()
            return x
        raise EvalError("unknown byte term %r" % k)

    def text(self, t):
        if t["t"] != "b58check":
            raise EvalError("not a text term")
        return b58check(self.B(t["a"]))

    def _tweak(self, x, strict):
        """parse256 of a 32-byte term used as a summand.  BIP32: a tweak IL >= n makes the child
        invalid - the spec does not model that branch; make sure we never silently enter it."""
        v = self.B(x)
        if len(v) != 32:
            raise EvalError("summand of %d bytes" % len(v))
        i = int.from_bytes(v, "big")
        if strict and x["t"] == "l32" and i >= N:
            raise EvalError("IL >= n (probability 2^-127): outside the modelled domain")
        return i

    def S(self, t, strict=True):
        """a scalar term -> int in 1..n-1"""
        if t["t"] != "sum":
            raise EvalError("not a scalar term")
        s = sum(self._tweak(x, strict) for x in t["ts"]) % N
        if strict and s == 0:
            raise EvalError("key 0: outside the modelled domain")
        return s

    def Pt(self, t, strict=True):
        """a point term -> affine point: base + sum_i parse256(ts[i]) G, added POINT by POINT"""
        if t["t"] != "pt":
            raise EvalError("not a point term")
        acc = parse_p(self.B(t["base"][0])) if t["base"] else None
        for x in t["ts"]:
            acc = ec_add(acc, self.mulG(self._tweak(x, strict)))
        if acc is None:
            raise EvalError("point at infinity: outside the modelled domain")
        return acc

    def node(self, nd, strict=True):
        """an extended-key record -> concrete fields"""
        key = nd["key"]
        if key["t"] == "sum":
            k = self.S(key, strict)
            kb = k.to_bytes(32, "big")
            # (k1 + k2 + ..) G  must equal  k1 G + k2 G + ..  (cross-checks the reference curve itself)
            K = self.mulG(k)
            if len(key["ts"]) > 1:
                K2 = self.Pt({"t": "pt", "base": [], "ts": key["ts"]}, strict)
                if K2 != K:
                    raise EvalError("reference curve: (sum k_i) G != sum (k_i G)")
        else:
            kb = None
            K = self.Pt(key, strict)
        return {"depth": nd["depth"], "pfp": self.B(nd["pfp"]), "cn": (bool(nd["cn"]["h"]), int(nd["cn"]["v"])),
                "chain": self.B(nd["chain"]), "k": kb, "K": ser_p(K)}

    def bind(self, name, fields):
        self.env[_name(name)] = fields

    def get(self, name):
        return self.env[_name(name)]


def cn_int(cn):
    return (0x80000000 if cn[0] else 0) + cn[1]


# ------------------------------------------------------------------ (c) pycoin driver / projection
def project(key):
    """observable state of a BIP32Node (any network / family)"""
    se = key.secret_exponent()
    ci = key.child_index()
    return {"depth": key.tree_depth(), "pfp": key.parent_fingerprint(),
            "cn": (ci >= 0x80000000, ci & 0x7FFFFFFF), "chain": key.chain_code(),
            "k": None if se is None else se.to_bytes(32, "big"),
            "K": key.sec(is_compressed=True), "pp": tuple(key.public_pair()),
            "fp": key.fingerprint(), "is_private": key.is_private()}


FIELDS = ("depth", "pfp", "cn", "chain", "k", "K")


def diff_fields(want, got):
    """names of the fields where the projection differs from the evaluated spec node"""
    bad = [f for f in FIELDS if want[f] != got[f]]
    if not bad:
        x, y = got["pp"]
        if ser_p((x, y)) != want["K"]:
            bad.append("public_pair")
        if got["is_private"] != (want["k"] is not None):
            bad.append("is_private")
    return bad


def path_str(path, mark="H"):
    return "/".join("%d%s" % (v, mark if h else "") for h, v in path)
