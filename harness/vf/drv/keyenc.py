"""C10 driver: calls pycoin's SEC / WIF / DER / Key entry points and projects what they
return (or raise) onto the values spec/KeyEnc.tla and spec/DerSig.tla talk about.

Nothing here knows an expected verdict: expectations come from TLC.  What lives here
besides the calls into pycoin is
  * concretization: abstract classes printed by TLC -> real secp256k1 blobs (fixed tables);
  * the evaluator of the uninterpreted terms the spec leaves open: Base58Check (hashlib),
    hash160 (hashlib) and k*G on secp256k1 (a 25-line affine reference, checked against
    the published generator multiples below);
  * the field extraction used by the trace recorder (length, prefix, "x < p", "on curve",
    parity) - arithmetic only, no acceptance rule.
"""
from __future__ import annotations

import hashlib

from pycoin.ecdsa.Generator import Generator
from pycoin.ecdsa.secp256k1 import secp256k1_generator
from pycoin.encoding.exceptions import EncodingError
from pycoin.encoding.sec import public_pair_to_sec, sec_to_public_pair
from pycoin.key.Key import InvalidPublicPairError, InvalidSecretExponentError, Key
from pycoin.satoshi import der

# ---------------------------------------------------------------- secp256k1 reference (SEC 2, 2.4.1)
P = 2**256 - 2**32 - 977
N = 0xFFFFFFFFFFFFFFFFFFFFFFFFFFFFFFFEBAAEDCE6AF48A03BBFD25E8CD0364141
GX = 0x79BE667EF9DCBBAC55A06295CE870B07029BFCDB2DCE28D959F2815B16F81798
GY = 0x483ADA7726A3C4655DA4FBFC0E1108A8FD17B448A68554199C47D08FFB10D4B8


def on_curve(x, y, p=P, a=0, b=7):
    return (y * y - (x * x * x + a * x + b)) % p == 0


def ref_add(p1, p2, p=P, a=0):
    if p1 is None:
        return p2
    if p2 is None:
        return p1
    (x1, y1), (x2, y2) = p1, p2
    if x1 == x2 and (y1 + y2) % p == 0:
        return None
    if x1 == x2:
        lam = (3 * x1 * x1 + a) * pow(2 * y1, -1, p) % p
    else:
        lam = (y2 - y1) * pow(x2 - x1, -1, p) % p
    x3 = (lam * lam - x1 - x2) % p
    return (x3, (lam * (x1 - x3) - y1) % p)


def ref_mul(k, pt=(GX, GY), p=P, a=0):
    acc = None
    while k:
        if k & 1:
            acc = ref_add(acc, pt, p, a)
        pt = ref_add(pt, pt, p, a)
        k >>= 1
    return acc


def ref_roots(x, p=P, a=0, b=7):
    """(even root, odd root) of y^2 = x^3 + a x + b, or None  (p % 4 == 3)"""
    al = (x * x * x + a * x + b) % p
    y = pow(al, (p + 1) // 4, p)
    if y * y % p != al or y == 0:
        return None
    return (y, p - y) if y % 2 == 0 else (p - y, y)


def selfcheck_reference():
    """published multiples of G (SEC 2 / every secp256k1 test-vector list)"""
    two_g = (0xC6047F9441ED7D6D3045406E95C07CD85C778E4B8CEF3CA7ABAC09B95C709EE5,
             0x1AE168FEA63DC339A3C58419466CEAEEF7F632653266D0E1236431A950CFE52A)
    three_g = (0xF9308A019258C31049344F85F89D5229B531C845836F99B08601F113BCE036F9,
               0x388F7B0F632DE8140FE337E62A37F3566500A99934C2231B6CB9FD7584B8E672)
    return (on_curve(GX, GY) and ref_mul(2) == two_g and ref_mul(3) == three_g and ref_mul(N) is None
            and ref_mul(N - 1) == (GX, P - GY) and ref_roots(GX) in ((GY, P - GY), (P - GY, GY)))


# ---------------------------------------------------------------- term evaluators (hashlib only)
_B58 = "123456789ABCDEFGHJKLMNPQRSTUVWXYZabcdefghijkmnopqrstuvwxyz"


def b58check(payload):
    data = bytes(payload) + hashlib.sha256(hashlib.sha256(bytes(payload)).digest()).digest()[:4]
    n = int.from_bytes(data, "big")
    s = ""
    while n:
        n, r = divmod(n, 58)
        s = _B58[r] + s
    return "1" * (len(data) - len(data.lstrip(b"\0"))) + s


def b58check_decode(s):
    n = 0
    for ch in s:
        n = n * 58 + _B58.index(ch)
    pad = len(s) - len(s.lstrip("1"))
    data = b"\0" * pad + n.to_bytes((n.bit_length() + 7) // 8, "big")
    payload, chk = data[:-4], data[-4:]
    if hashlib.sha256(hashlib.sha256(payload).digest()).digest()[:4] != chk:
        raise ValueError("bad checksum")
    return payload


def hash160(b):
    return hashlib.new("ripemd160", hashlib.sha256(bytes(b)).digest()).digest()


def ref_sec(pt, compressed):
    """SecEncode of KeyEnc.tla with CL = 32"""
    x, y = pt
    if compressed:
        return bytes([2 + (y & 1)]) + x.to_bytes(32, "big")
    return b"\4" + x.to_bytes(32, "big") + y.to_bytes(32, "big")


# ---------------------------------------------------------------- toy curves
_GENS = {}


def toy(p, a, b, gx, gy, n):
    """(generator, Key subclass) of a curve TLC can compute on"""
    k = (p, a, b, gx, gy, n)
    if k not in _GENS:
        g = Generator(p, a, b, (gx, gy), n)
        _GENS[k] = (g, Key.make_subclass("TOY%d" % p, None, g))
    return _GENS[k]


def _exc(e):
    """classify an exception: the families pycoin documents / callers catch, or the raw type"""
    if isinstance(e, InvalidSecretExponentError):
        return "InvalidSecretExponentError"
    if isinstance(e, InvalidPublicPairError):
        return "InvalidPublicPairError"
    if isinstance(e, EncodingError):
        return "EncodingError"
    if isinstance(e, der.UnexpectedDER):
        return "UnexpectedDER"
    if isinstance(e, ValueError):
        return "ValueError"
    return "exc:" + type(e).__name__


REFUSALS = ("EncodingError", "ValueError", "InvalidPublicPairError", "InvalidSecretExponentError", "UnexpectedDER")


def sec_decode(blob, gen, strict):
    """('ok', (x, y)) | (refusal family, msg)"""
    try:
        pt = sec_to_public_pair(blob, gen, strict=strict)
        return ("ok", (int(pt[0]), int(pt[1])))
    except Exception as e:  # noqa: BLE001
        return (_exc(e), str(e)[:60])


def key_from_sec(keycls, blob):
    """('ok', (x, y), is_compressed, key) | (refusal family, msg)"""
    try:
        k = keycls.from_sec(blob)
        pp = k.public_pair()
        return ("ok", (int(pp[0]), int(pp[1])), bool(k.is_compressed()), k)
    except Exception as e:  # noqa: BLE001
        return (_exc(e), str(e)[:60])


def key_from_se(keycls, v, **kw):
    try:
        k = keycls(secret_exponent=v, **kw)
        pp = k.public_pair()
        return ("ok", (int(pp[0]), int(pp[1])), k)
    except Exception as e:  # noqa: BLE001
        return (_exc(e), str(e)[:60])


def key_from_pair(keycls, pair, **kw):
    try:
        k = keycls(public_pair=pair, **kw)
        return ("ok", k)
    except Exception as e:  # noqa: BLE001
        return (_exc(e), str(e)[:60])


_DEFER = {}


def deferred_validation_refuses(gen, keycls, pair):
    """an off-curve pair returned by sec_to_public_pair must be stopped by every consumer"""
    ck = (id(gen), pair)
    if ck not in _DEFER:
        _DEFER[ck] = _deferred(gen, keycls, pair)
    return _DEFER[ck]


def _deferred(gen, keycls, pair):
    r1 = key_from_pair(keycls, pair)
    if gen is not secp256k1_generator and (pair[0] * 31 + pair[1]) % 8:
        return r1[0] == "InvalidPublicPairError", (r1[0], "verify not tried")
    try:
        v = gen.verify(pair, 1, (1, 1))
        r2 = "returned %r" % (v,)
        ok2 = v is False
    except ValueError as e:
        r2, ok2 = "ValueError", True
    except Exception as e:  # noqa: BLE001
        r2, ok2 = "exc:" + type(e).__name__, False
    return r1[0] == "InvalidPublicPairError" and ok2, (r1[0], r2)


# ---------------------------------------------------------------- DER
def der_decode(blob, openssl):
    """('ok', r, s) | (family, msg)"""
    try:
        r, s = der.sigdecode_der(blob, use_broken_open_ssl_mechanism=openssl)
        return ("ok", r, s)
    except Exception as e:  # noqa: BLE001
        return (_exc(e), str(e)[:60])


def der_encode(r, s):
    try:
        return ("ok", der.sigencode_der(r, s))
    except Exception as e:  # noqa: BLE001
        return (_exc(e), str(e)[:60])


# ---------------------------------------------------------------- secp256k1 concretization of the classes of stage "sec256"
def _cuberoot(a):
    """a cube root of a mod P if one exists (P % 9 == 7: a^((P+2)/9) works for cubic residues)"""
    r = pow(a, (P + 2) // 9, P)
    return r if pow(r, 3, P) == a % P else None


def _small_y_point():
    """a curve point whose ordinate is so small that y + P < 2^256"""
    y = 1
    while True:
        x = _cuberoot((y * y - 7) % P)
        if x is not None and on_curve(x, y):
            return (x, y)
        y += 1


_TABLE = None


def sec256_table():
    """fixed concrete picks per class (seed-free):
       pt: abscissas with a point, nopt: field elements without; small ones so that x + P < 2^256"""
    global _TABLE
    if _TABLE is None:
        small_pt = [x for x in range(1, 60) if ref_roots(x)][:3]
        small_no = [x for x in range(1, 60) if not ref_roots(x)][:3]
        big = [int.from_bytes(hashlib.sha256(b"c10-x-%d" % i).digest(), "big") % P for i in range(40)]
        big_pt = [x for x in big if ref_roots(x)][:2]
        big_no = [x for x in big if not ref_roots(x)][:2]
        sx, sy = _small_y_point()
        assert sy + P < 2**256 and all(x + P < 2**256 for x in small_pt + small_no)
        _TABLE = {"pt": [GX, P - 1 if ref_roots(P - 1) else big_pt[0]] + small_pt[:1] + big_pt[:1],
                  "nopt": [0 if not ref_roots(0) else big_no[0]] + small_no[:1] + big_no[:1],
                  "pt+p": [x + P for x in small_pt[:2]],
                  "nopt+p": [x + P for x in small_no[:2]],
                  "smally": (sx, sy)}
    return _TABLE


def sec256_blobs(length, pfx, xc, yc):
    """concrete blobs of a class: list of (blob, x, y) - x, y are the integers the octets spell (None if absent)"""
    t = sec256_table()
    out = []
    xs = t[xc]
    if yc == "root+p" and xc == "pt":
        xs = [t["smally"][0]]
    for x in xs:
        base = x % P
        roots = ref_roots(base)
        if yc in ("even", "odd"):
            par = 0 if yc == "even" else 1
            if xc == "pt":
                y = roots[par]
            else:       # no root exists / irrelevant: any field element of that parity
                y = (0x1234567890ABCDEF << 64 | 2) + par
        elif yc == "off":
            y = (roots[0] + 1) % P if roots else 5
            if on_curve(base, y):
                y = (y + 1) % P
        else:           # "root+p"
            y = (t["smally"][1] if xc == "pt" else 3) + P
        body = x.to_bytes(32, "big") + y.to_bytes(32, "big") + bytes(16)
        blob = b"" if length == 0 else bytes([pfx]) + body[:length - 1]
        out.append((blob, x if length >= 33 else None, y if length >= 65 else None))
    return out


def sec_fields(blob, p=P, a=0, b=7, cl=32):
    """the fields of KeyEnc!FieldsOf, computed arithmetically (no acceptance rule here)"""
    n = len(blob)
    shape = "c" if n == 1 + cl else "u" if n == 1 + 2 * cl else "bad"
    x = int.from_bytes(blob[1:1 + cl], "big") if shape != "bad" else 0
    y = int.from_bytes(blob[1 + cl:1 + 2 * cl], "big") if shape == "u" else 0
    return {"shape": shape, "len": n, "pfx": blob[0] if n else -1,
            "xlt": shape != "bad" and x < p, "ylt": shape == "u" and y < p,
            "haspt": shape == "c" and x < p and ref_roots(x, p, a, b) is not None,
            "onc": shape == "u" and x < p and y < p and on_curve(x, y, p, a, b),
            "ypar": y % 2}


# ---------------------------------------------------------------- networks
_NETS = None


def networks():
    """[(symbol, network, wif_prefix bytes)] for every registered network that loads here"""
    global _NETS
    if _NETS is None:
        import io
        import contextlib
        from pycoin.networks.registry import network_codes, network_for_netcode
        _NETS = []
        skipped = []
        with contextlib.redirect_stdout(io.StringIO()), contextlib.redirect_stderr(io.StringIO()):
            codes = network_codes()
        for c in codes:
            try:
                with contextlib.redirect_stdout(io.StringIO()), contextlib.redirect_stderr(io.StringIO()):
                    net = network_for_netcode(c)
                    # the prefix is read off an encoding of the empty blob with an independent decoder
                    pfx = b58check_decode(net.wif_for_blob(b""))
                _NETS.append((c, net, pfx))
            except ImportError as e:
                skipped.append((c, str(e)[:60]))
        _NETS = (_NETS, skipped)
    return _NETS


def wif_parse(net, text):
    """('ok', se, is_compressed, key) | ('none',) | (family, msg)"""
    try:
        k = net.parse.wif(text)
    except Exception as e:  # noqa: BLE001
        return (_exc(e), str(e)[:60])
    if k is None:
        return ("none",)
    return ("ok", k.secret_exponent(), bool(k.is_compressed()), k)
