"""Driver for C14: blocks, merkle roots, BIP37 merkleblock proofs.

    python -m vf.drv.block JOB.json      worker mode, see main() at the end: the message cases in a fresh
                                         process that loaded several networks first, in a given order

Three things live here and nothing else:

(a) ``Ev`` - the evaluator of the uninterpreted terms the specs print
    (spec/Merkle.tla, spec/BlockWire.tla): literal bytes, symbolic 32-byte
    leaves, double SHA-256 nodes, "alien"/bit-flipped values.  hashlib only.
(b) concretisation: which bytes a symbolic leaf stands for.
(c) calls into pycoin and the projection of what it answered.

No expected value is computed here: what pycoin must answer comes from TLC.
"""
from __future__ import annotations

import hashlib
import io

from pycoin.block import Block as BaseBlock
from pycoin.merkle import merkle
from pycoin.encoding.hash import double_sha256


class _Networks(dict):
    """symbol -> network, loaded on first use (the worker mode decides the order itself; the replay in the
    parent process asks BTC first, then LTC)"""

    def __missing__(self, sym):
        import importlib
        self[sym] = importlib.import_module("pycoin.symbols." + sym.lower()).network
        return self[sym]


NETWORKS = _Networks()
if __name__ != "__main__":          # imported by the harness: Bitcoin, then Litecoin (as before); worker mode: see main()
    NETWORKS["BTC"], NETWORKS["LTC"]


def sha256d(b):
    return hashlib.sha256(hashlib.sha256(b).digest()).digest()


def sha256(b):
    return hashlib.sha256(b).digest()


def expand(runs):
    """Bytes.tla run-length byte string [[fill, len], ...] -> bytes"""
    return b"".join(bytes([f]) * n for f, n in runs)


def num(limbs):
    """16-bit limbs, least significant first -> int"""
    return sum(l << (16 * i) for i, l in enumerate(limbs))


class Ev:
    """term -> bytes.  ``leaves`` binds symbolic leaves to concrete 32-byte values
    (default: a value derived from the seed, distinct per leaf)."""

    def __init__(self, seed=0, leaves=None):
        self.seed = str(seed).encode()
        self.leaves = leaves or {}

    def leaf(self, i):
        if i in self.leaves:
            return self.leaves[i]
        return hashlib.sha256(b"C14 leaf|" + self.seed + b"|%d" % i).digest()

    def alien(self, i):
        return hashlib.sha256(b"C14 alien|" + self.seed + b"|%d" % i).digest()

    def __call__(self, t):
        op = t["op"]
        if op == "b":
            return expand(t["v"])
        if op == "leaf":
            return self.leaf(t["i"])
        if op == "x":
            return self.alien(t["i"])
        if op == "h256d":
            if "arg" in t:                      # TxWire.H256d(bytes)
                return sha256d(expand(t["arg"]))
            return sha256d(self(t["l"]) + self(t["r"]))
        if op == "h256":
            return sha256(self(t["l"]) + self(t["r"]))
        if op == "h256d_cat":
            return sha256d(b"".join(self(p) for p in t["parts"]))
        if op == "flip":
            b = bytearray(self(t["arg"]))
            b[t["bit"] // 8] ^= 1 << (t["bit"] % 8)
            return bytes(b)
        if op == "rev":
            return self(t["arg"])[::-1]
        raise ValueError("unknown term op %r" % op)

    def image(self, parts):
        return b"".join(self(p) for p in parts)


def _exc(e):
    return type(e).__name__


# ---------------------------------------------------------------- merkle()

def run_merkle(leaves, mode):
    """mode: 'explicit' merkle(hashes, double_sha256) | 'default' merkle(hashes) | 'sha256' hash_f = single SHA-256"""
    try:
        arg = list(leaves)
        if mode == "explicit":
            r = merkle(arg, double_sha256)
        elif mode == "default":
            r = merkle(arg)
        else:
            r = merkle(arg, sha256)
        return {"root": bytes(r)}
    except Exception as e:
        return {"exc": _exc(e)}


# ---------------------------------------------------------------- headers

def _hdr_proj(b):
    return {"version": b.version, "prev": bytes(b.previous_block_hash), "root": bytes(b.merkle_root),
            "time": b.timestamp, "bits": b.difficulty, "nonce": b.nonce}


def run_header(net, image, fields, nonce2):
    """every way of getting a header in and out of pycoin; returns a dict of observations"""
    B = NETWORKS[net].block
    out = {}
    try:
        f = io.BytesIO(image)
        b = B.parse_as_header(f)
        out["parse_as_header"] = _hdr_proj(b)
        out["consumed"] = f.tell()
        out["as_bin"] = b.as_bin()
        s = io.BytesIO()
        b.stream_header(s)
        out["stream_header"] = s.getvalue()
        out["id"] = b.id()
        out["hash"] = bytes(b.hash())
        out["prev_id"] = b.previous_block_id()
        b2 = B.parse(io.BytesIO(image), include_transactions=False)
        out["parse_no_txs"] = _hdr_proj(b2)
        out["parse_no_txs_id"] = b2.id()
        out["blockheader_id"] = b.as_blockheader().id()
        out["blockheader_bin"] = b.as_blockheader().as_bin()
        # built from the field values
        c = B(fields["version"], fields["prev"], fields["root"], fields["time"], fields["bits"], fields["nonce"])
        out["ctor_bin"] = c.as_bin()
        out["ctor_id"] = c.id()
        # the id follows the header: ask, change the nonce, ask again
        c.id()
        c.set_nonce(nonce2)
        out["id_after_set_nonce"] = c.id()
        out["bin_after_set_nonce"] = c.as_bin()
    except Exception as e:
        out["exc"] = _exc(e) + ": " + str(e)[:120]
    return out


# ---------------------------------------------------------------- blocks

def run_block(net, image, how):
    """how: 'parse' Block.parse(stream) | 'from_bin' | 'deferred' parse(check_merkle_hash=False) then check_merkle_hash()
    | 'msg' the image as payload of a "block" message: network.message.parse, then network.message.pack"""
    B = NETWORKS[net].block
    try:
        f = io.BytesIO(image)
        if how == "msg":
            M = NETWORKS[net].message
            b = M.parse("block", image)["block"]
            f.seek(len(image) if M.pack("block", block=b) == image else 0)     # consumed = all iff it packs back
        elif how == "parse":
            b = B.parse(f)
        elif how == "from_bin":
            b = B.from_bin(image)
            f.seek(len(image))
        else:
            b = B.parse(f, check_merkle_hash=False)
            b.check_merkle_hash()
        return {"ok": True, "hdr": _hdr_proj(b), "consumed": f.tell(), "as_bin": b.as_bin(), "id": b.id(),
                "hash": bytes(b.hash()), "ntx": len(b.txs), "txids": [bytes(t.hash()) for t in b.txs],
                "wtxids": [bytes(t.w_hash()) for t in b.txs],
                "isblock": isinstance(b, BaseBlock)}
    except Exception as e:
        return {"ok": False, "exc": _exc(e), "msg": str(e)[:160]}


# ---------------------------------------------------------------- merkleblock messages

def run_merkleblock(net, image):
    N = NETWORKS[net]
    try:
        d = N.message.parse("merkleblock", image)
    except Exception as e:
        return {"ok": False, "exc": _exc(e), "msg": str(e)[:120]}
    out = {"ok": True, "tx": [bytes(h) for h in d["tx_hashes"]], "total": d["total_transactions"],
           "root": bytes(d["header"].merkle_root), "nhashes": len(d["hashes"]), "flags": list(d["flags"])}
    try:
        out["repacked"] = N.message.pack("merkleblock", header=d["header"], total_transactions=d["total_transactions"],
                                         hashes=d["hashes"], flags=d["flags"])
    except Exception as e:
        out["repacked"] = None
        out["pack_exc"] = _exc(e)
    return out


# ---------------------------------------------------------------- input generation for recorded runs (no expectations)

def compact_size(n):
    if n < 253:
        return bytes([n])
    if n <= 0xFFFF:
        return b"\xfd" + n.to_bytes(2, "little")
    return b"\xfe" + n.to_bytes(4, "little")


def raw_legacy_tx(rnd):
    """a random well-formed transaction without witness data, as bytes"""
    out = rnd.randrange(1, 3).to_bytes(4, "little")
    nin = rnd.randint(1, 3)
    out += compact_size(nin)
    for _ in range(nin):
        scr = rnd.randbytes(rnd.choice((0, 1, 23, 107)))
        out += rnd.randbytes(32) + rnd.randrange(0, 4).to_bytes(4, "little") + compact_size(len(scr)) + scr
        out += rnd.choice((0xFFFFFFFF, 0xFFFFFFFE, 0)).to_bytes(4, "little")
    nout = rnd.randint(1, 3)
    out += compact_size(nout)
    for _ in range(nout):
        scr = rnd.randbytes(rnd.choice((0, 22, 25, 34)))
        out += rnd.randrange(0, 21 * 10 ** 14).to_bytes(8, "little") + compact_size(len(scr)) + scr
    out += rnd.randrange(0, 2 ** 32).to_bytes(4, "little")
    return out


# ---------------------------------------------------------------- worker mode: several networks in one fresh process

def main(path):
    """JOB: {"order": [symbols], "driven": [symbols], "mb": [hex images], "blocks": [hex images]}.
    All networks of "order" are loaded first, in that order; then every image goes to each driven network of
    the order.  Prints {"mb": {net: [observations]}, "blocks": {net: [observations]}} (bytes as hex); nothing
    is judged here."""
    import importlib
    import json
    import sys

    job = json.load(open(path))
    for sym in job["order"]:
        importlib.import_module("pycoin.symbols." + sym.lower())

    def js(o):
        if isinstance(o, (bytes, bytearray)):
            return {"hex": bytes(o).hex()}
        if isinstance(o, dict):
            return {k: js(v) for k, v in o.items()}
        if isinstance(o, (list, tuple)):
            return [js(v) for v in o]
        return o
    out = {"mb": {}, "blocks": {}}
    for net in job["order"]:
        if net not in job["driven"]:
            continue
        out["mb"][net] = [js(run_merkleblock(net, bytes.fromhex(x))) for x in job["mb"]]
        out["blocks"][net] = [js(run_block(net, bytes.fromhex(x), "msg")) for x in job["blocks"]]
    json.dump(out, sys.stdout)


if __name__ == "__main__":
    import sys
    main(sys.argv[1])
