"""C11 driver: calls pycoin's Base58 / Base58Check / Bech32(m) entry points and
projects what they return (or raise) onto the values the TLA+ specs talk about:
strings are lists of code points, byte strings lists of 0..255.

Nothing here knows the expected answer; expectations come from TLC.
"""
from __future__ import annotations

from pycoin.contrib import bech32m
from pycoin.encoding import b58
from pycoin.encoding.exceptions import EncodingError
from pycoin.networks import parseable_str as ps


def to_str(codes):
    return "".join(map(chr, codes))


def codes(s):
    return [ord(ch) for ch in s]


def _call(f, *a):
    """('ok', value) | ('EncodingError', msg) | ('exc:<Type>', msg)"""
    try:
        return ("ok", f(*a))
    except EncodingError as e:
        return ("EncodingError", str(e)[:80])
    except Exception as e:  # noqa: BLE001 - the projection reports the type
        return ("exc:" + type(e).__name__, str(e)[:80])


# ---------------------------------------------------------------- Base58
def b58_encode(b):
    tag, v = _call(b58.b2a_base58, bytes(b))
    return {"tag": tag, "s": codes(v) if tag == "ok" else None, "msg": None if tag == "ok" else v}


def b58_decode(s):
    tag, v = _call(b58.a2b_base58, to_str(s))
    return {"tag": tag, "b": list(v) if tag == "ok" else None, "msg": None if tag == "ok" else v}


def b58_parse_cached(s):
    """parse_b58 (the cached helper address parsing uses): bytes or None"""
    tag, v = _call(ps.parse_b58, to_str(s))
    return {"tag": tag, "b": (None if v is None else list(v)) if tag == "ok" else None}


def b58check_encode(p):
    tag, v = _call(b58.b2a_hashed_base58, bytes(p))
    return {"tag": tag, "s": codes(v) if tag == "ok" else None}


def b58check_decode(s):
    """all four observation points for one string"""
    st = to_str(s)
    t1, v1 = _call(b58.a2b_hashed_base58, st)
    t2, v2 = _call(b58.is_hashed_base58_valid, st)
    t3, v3 = _call(ps.parse_b58_double_sha256, st)           # fresh str: fresh cache
    pstr = ps.parseable_str(st)
    t4a, v4a = _call(ps.parse_b58_double_sha256, pstr)       # cached object, asked twice
    t4, v4 = _call(ps.parse_b58_double_sha256, pstr)
    # one text object that the OTHER Base58 readers of the library looked at first (the plain decoder and the
    # Groestlcoin family's checksummed reader, whatever it answers or raises here): the double-SHA256 verdict
    # is a function of the characters, not of who asked before
    shared = ps.parseable_str(st)
    _call(ps.parse_b58, shared)
    for f in _other_checksummed_readers():
        _call(f, shared)
    t5, v5 = _call(ps.parse_b58_double_sha256, shared)
    return {
        "a2b": {"tag": t1, "p": list(v1) if t1 == "ok" else None},
        "is_valid": {"tag": t2, "v": v2 if t2 == "ok" else None},
        "parse": {"tag": t3, "p": (None if v3 is None else list(v3)) if t3 == "ok" else None},
        "parse_cached": {"tag": t4, "p": (None if v4 is None else list(v4)) if t4 == "ok" else None,
                         "stable": (t4a, v4a) == (t4, v4) and (t5, v5) == (t3, v3)},
    }


_OTHER = None


def _other_checksummed_readers():
    global _OTHER
    if _OTHER is None:
        _OTHER = []
        try:
            from pycoin.coins.groestlcoin import parse as gp
            f = getattr(gp, "parse_b58_groestl", None)
            if callable(f):
                _OTHER.append(f)
        except Exception:  # noqa: BLE001  (module moved / not importable: nothing else shares the object then)
            pass
    return _OTHER


# ---------------------------------------------------------------- Bech32 / segwit addresses
def seg_encode(hrp, ver, prog, as_bytes=True):
    tag, v = _call(bech32m.encode, to_str(hrp), ver, bytes(prog) if as_bytes else list(prog))
    return {"tag": tag, "s": (None if v is None else codes(v)) if tag == "ok" else None}


def seg_decode(hrp, s):
    tag, v = _call(bech32m.decode, to_str(hrp), to_str(s))
    if tag != "ok":
        return {"tag": tag}
    ver, prog = v
    if ver is None and prog is None:
        return {"tag": "ok", "ok": False}
    if ver is None or prog is None:
        return {"tag": "ok", "ok": None, "raw": repr(v)}
    return {"tag": "ok", "ok": True, "ver": ver, "prog": list(prog)}


def b32_decode(s):
    tag, v = _call(bech32m.bech32_decode, to_str(s))
    if tag != "ok":
        return {"tag": tag}
    hrp, data, spec = v
    if hrp is None and data is None and spec is None:
        return {"tag": "ok", "ok": False}
    if hrp is None or data is None or spec is None:
        return {"tag": "ok", "ok": None, "raw": repr(v)}
    return {"tag": "ok", "ok": True, "hrp": codes(hrp), "data": list(data),
            "spec": {bech32m.Encoding.BECH32: 1, bech32m.Encoding.BECH32M: 2}.get(spec, -1)}


def b32_encode(hrp, data, spec):
    tag, v = _call(bech32m.bech32_encode, to_str(hrp), list(data),
                   bech32m.Encoding.BECH32 if spec == 1 else bech32m.Encoding.BECH32M)
    return {"tag": tag, "s": codes(v) if tag == "ok" else None}


def parse_bech32_cached(s):
    """parseable_str.parse_bech32: (hrp, version, bytes, spec) or None"""
    tag, v = _call(ps.parse_bech32, to_str(s))
    if tag != "ok":
        return {"tag": tag}
    if v is None:
        return {"tag": "ok", "ok": False}
    hrp, ver, data, spec = v
    return {"tag": "ok", "ok": True, "hrp": codes(hrp), "ver": ver, "prog": list(data),
            "spec": {bech32m.Encoding.BECH32: 1, bech32m.Encoding.BECH32M: 2}.get(spec, -1)}


def convertbits(data, frm, to, pad):
    tag, v = _call(bech32m.convertbits, list(data), frm, to, pad)
    return {"tag": tag, "out": v if tag == "ok" else None}


# ---------------------------------------------------------------- network layer
_NETS = {}


def _net(hrp):
    name = {"bc": "BTC", "tb": "XTN", "ltc": "LTC", "bcrt": "XRT"}.get(hrp)
    if name is None:
        return None
    if name not in _NETS:
        from pycoin.networks.registry import network_for_netcode
        try:
            _NETS[name] = network_for_netcode(name)
        except Exception:  # noqa: BLE001
            _NETS[name] = None
    n = _NETS[name]
    if n is None or getattr(n.parse, "_bech32_hrp", None) != hrp:
        return None
    return n


def net_parse_address(hrp, s):
    """network.parse.address on a segwit string: scriptPubKey bytes, None, or not applicable"""
    n = _net(to_str(hrp))
    if n is None:
        return {"tag": "n/a"}
    tag, v = _call(n.parse.address, to_str(s))
    if tag != "ok":
        return {"tag": tag}
    if v is None:
        return {"tag": "ok", "script": None}
    return {"tag": "ok", "script": list(v.script()), "again": _call(v.address)[1]}


def net_for_program(hrp, ver, prog):
    """the address the network layer builds for a witness program (v0/20, v0/32, v1/32)"""
    n = _net(to_str(hrp))
    if n is None:
        return {"tag": "n/a"}
    f = {(0, 20): "for_p2pkh_wit", (0, 32): "for_p2sh_wit", (1, 32): "for_p2tr"}.get((ver, len(prog)))
    if f is None:
        return {"tag": "n/a"}
    tag, v = _call(getattr(n.address, f), bytes(prog))
    return {"tag": tag, "s": (None if v is None else codes(v)) if tag == "ok" else None}
